"""Static view of /repo/metric_learn: classes, bases, methods — from the AST only (nothing is imported)."""
import ast
import os

REPO = os.environ.get('VERIF_REPO', '/repo')
PKG = os.path.join(REPO, 'metric_learn')

CLASSES = ['Covariance', 'LFDA', 'LMNN', 'NCA', 'MLKR', 'RCA', 'RCA_Supervised', 'ITML', 'ITML_Supervised',
           'MMC', 'MMC_Supervised', 'SDML', 'SDML_Supervised', 'LSML', 'LSML_Supervised', 'SCML', 'SCML_Supervised']


class Unsupported(Exception):
    pass


class Index:
    def __init__(self):
        self.classes = {}   # name -> (ClassDef, file)
        self.funcs = {}     # (module, name) -> FunctionDef
        for fn in sorted(os.listdir(PKG)):
            if not fn.endswith('.py'):
                continue
            path = os.path.join(PKG, fn)
            tree = ast.parse(open(path, newline=None).read(), filename=path)
            for node in tree.body:
                if isinstance(node, ast.ClassDef):
                    self.classes[node.name] = (node, fn)
                elif isinstance(node, ast.FunctionDef):
                    self.funcs[(fn, node.name)] = node

    def bases(self, name):
        node, _ = self.classes[name]
        out = []
        for b in node.bases:
            if isinstance(b, ast.Name) and b.id in self.classes:
                out.append(b.id)
        return out

    def mro(self, name):
        """C3 linearisation restricted to metric_learn classes"""
        def merge(seqs):
            res = []
            seqs = [list(s) for s in seqs if s]
            while seqs:
                for s in seqs:
                    h = s[0]
                    if not any(h in t[1:] for t in seqs):
                        break
                else:
                    raise Unsupported(f'inconsistent hierarchy for {name}')
                res.append(h)
                seqs = [[x for x in s if x != h] for s in seqs]
                seqs = [s for s in seqs if s]
            return res
        bs = self.bases(name)
        return [name] + merge([self.mro(b) for b in bs] + [bs])

    def method(self, cls, meth):
        """(owner class, FunctionDef) following the MRO, or None"""
        for k in self.mro(cls):
            node, fn = self.classes[k]
            for item in node.body:
                if isinstance(item, ast.FunctionDef) and item.name == meth:
                    return k, item
        return None

    def class_const(self, cls, attr):
        for k in self.mro(cls):
            node, fn = self.classes[k]
            for item in node.body:
                if isinstance(item, ast.Assign) and len(item.targets) == 1 and isinstance(item.targets[0], ast.Name) \
                        and item.targets[0].id == attr and isinstance(item.value, ast.Constant):
                    return item.value.value
        return None

    def where(self, cls, node):
        return f'{self.classes[cls][1]}:{getattr(node, "lineno", "?")}'
