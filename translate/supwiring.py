"""Wiring of the six *_Supervised.fit methods (C08): which Constraints generator is called with which
arguments, where the labels come from, the default of n_constraints, how tuples are formed and which base
fit receives them — read off the AST, statement by statement.  Anything outside the recognised shapes
raises Unsupported (the check then reports a broken obligation and searches for a failing input)."""
import ast
from pyast import Unsupported

SUPERVISED = ['ITML_Supervised', 'MMC_Supervised', 'SDML_Supervised', 'LSML_Supervised', 'RCA_Supervised', 'SCML_Supervised']
GENERATORS = ('positive_negative_pairs', 'chunks', 'generate_knntriplets')


def default_formula(fn):
    """`if n_constraints is None: num_classes = len(np.unique(y)); n_constraints = <c> * num_classes ** <p>`"""
    for node in ast.walk(fn):
        if isinstance(node, ast.If) and ast.unparse(node.test) == 'n_constraints is None':
            src = [ast.unparse(s) for s in node.body]
            # which labels are counted as classes: the known ones only (`y[y >= 0]`), or every distinct value of `y`
            # (negative = unlabeled markers included — a defect the documented table rejects)
            counted = {'num_classes = len(np.unique(y[np.asanyarray(y, dtype=int) >= 0]))': 'known', 'num_classes = len(np.unique(y[y >= 0]))': 'known',
                       'num_classes = len(np.unique(y))': 'all'}
            if len(src) != 2 or src[0] not in counted or node.orelse:
                raise Unsupported(f'n_constraints default: unexpected body {src}')
            classes_of = counted[src[0]]
            v = node.body[1]
            if not (isinstance(v, ast.Assign) and ast.unparse(v.targets[0]) == 'n_constraints'):
                raise Unsupported('n_constraints default: not an assignment to n_constraints')
            e = v.value
            if (isinstance(e, ast.BinOp) and isinstance(e.op, ast.Mult) and isinstance(e.left, ast.Constant) and
                    isinstance(e.right, ast.BinOp) and isinstance(e.right.op, ast.Pow) and
                    ast.unparse(e.right.left) == 'num_classes' and isinstance(e.right.right, ast.Constant)):
                return int(e.left.value), int(e.right.right.value), classes_of
            raise Unsupported(f'n_constraints default: unexpected formula {ast.unparse(e)}')
    return 0, 0, ''


def wiring_row(ix, cls):
    found = ix.method(cls, 'fit')
    if found is None:
        raise Unsupported(f'{cls}.fit not found')
    owner, fn = found
    if owner != cls:
        raise Unsupported(f'{cls}.fit is inherited from {owner}')
    # names bound to Constraints(<labels>)
    cons = {}
    labels_arg = None
    gen = None
    for node in ast.walk(fn):
        if isinstance(node, ast.Assign) and isinstance(node.value, ast.Call) and ast.unparse(node.value.func) == 'Constraints':
            cons[ast.unparse(node.targets[0])] = ast.unparse(node.value.args[0]) if node.value.args else ''
    for node in ast.walk(fn):
        if isinstance(node, ast.Call) and isinstance(node.func, ast.Attribute) and node.func.attr in GENERATORS:
            recv = node.func.value
            if isinstance(recv, ast.Call) and ast.unparse(recv.func) == 'Constraints':
                la = ast.unparse(recv.args[0]) if recv.args else ''
            elif ast.unparse(recv) in cons:
                la = cons[ast.unparse(recv)]
            else:
                raise Unsupported(f'{cls}.fit: generator called on {ast.unparse(recv)}')
            if gen is not None:
                raise Unsupported(f'{cls}.fit: more than one constraint generator call')
            gen = node
            labels_arg = la
    if gen is None:
        raise Unsupported(f'{cls}.fit: no constraint generator call')
    # the labels handed to Constraints must be the validated `y` of `X, y = self._prepare_inputs(X, y, ...)`
    first = fn.body[0] if not (isinstance(fn.body[0], ast.Expr) and isinstance(fn.body[0].value, ast.Constant)) else fn.body[1]
    prepared = ast.unparse(first).startswith('(X, y) = self._prepare_inputs(X, y') or ast.unparse(first).startswith('X, y = self._prepare_inputs(X, y')
    args = [ast.unparse(a) for a in gen.args]
    kws = {k.arg: ast.unparse(k.value) for k in gen.keywords}
    seeded = kws.pop('random_state', None)
    same_length = kws.pop('same_length', 'False')
    if same_length not in ('True', 'False'):
        raise Unsupported(f'{cls}.fit: same_length is not a literal')
    args += [f'{k}={v}' for k, v in sorted(kws.items())]
    coef, pw, classes_of = default_formula(fn)
    # the statement that returns: base fit and how the tuples are formed
    ret = [n for n in ast.walk(fn) if isinstance(n, ast.Return)]
    if len(ret) != 1 or not isinstance(ret[0].value, ast.Call):
        raise Unsupported(f'{cls}.fit: expected a single `return <base fit>(…)`')
    base = ast.unparse(ret[0].value.func)
    src = ast.unparse(fn)
    if 'wrap_pairs(X, pos_neg)' in src:
        former = 'wrap_pairs'
    elif 'X[np.column_stack(pos_neg)]' in src:
        former = 'column_stack'
    elif 'triplets = X[triplets]' in src:
        former = 'index'
    elif gen.func.attr == 'chunks':
        former = 'chunks'
    else:
        raise Unsupported(f'{cls}.fit: unrecognised tuple formation')
    assigned = []
    for node in ast.walk(fn):
        if isinstance(node, ast.Assign):
            for tg in node.targets:
                for nm in ast.walk(tg):
                    if isinstance(nm, ast.Name):
                        assigned.append(nm.id)
        elif isinstance(node, (ast.AugAssign, ast.AnnAssign)) :
            assigned.append(ast.unparse(node.target))
    base_kwargs = [f'{k.arg}={ast.unparse(k.value)}' for k in ret[0].value.keywords]
    return {'assigned': sorted(set(assigned)), 'base_kwargs': base_kwargs, 'cls': cls, 'generator': gen.func.attr, 'labels_arg': labels_arg, 'prepared': bool(prepared), 'args': args,
            'same_length': same_length == 'True', 'seed': seeded or '', 'default_coef': coef, 'default_pow': pw, 'classes_of': classes_of,
            'former': former, 'base_call': base, 'base_args': [ast.unparse(a) for a in ret[0].value.args]}


def wiring_table(ix):
    return [wiring_row(ix, c) for c in SUPERVISED]
