"""Decision logic of the tuple classifiers (C04), translated expression by expression from the `return`
statements of predict / decision_function / score / pair_score in base_metric.py into Lean definitions over an
abstract distance table `dist i j` (= pair_distance of tuple columns i and j), the threshold, and — for
`score` — the list of predictions.  `self.<m>(…)` calls are inlined; tuple slices become column pairs.
Anything outside this small expression language raises Unsupported."""
import ast
from pyast import Unsupported

MIXINS = [('Pair', '_PairsClassifierMixin', 2, ['ITML', 'MMC', 'SDML']), ('Triplet', '_TripletsClassifierMixin', 3, ['SCML']),
          ('Quad', '_QuadrupletsClassifierMixin', 4, ['LSML'])]
METHODS = ['predict', 'decision_function', 'score', 'pair_score', 'pair_distance']


def the_return(ix, cls, meth):
    found = ix.method(cls, meth)
    if found is None:
        raise Unsupported(f'{cls}.{meth} not found')
    owner, fn = found
    rets = [n for n in ast.walk(fn) if isinstance(n, ast.Return)]
    if len(rets) != 1:
        raise Unsupported(f'{owner}.{meth}: expected exactly one return statement')
    params = [a.arg for a in fn.args.args[1:]]
    # the data parameter may be re-bound only by input validation (`x = check_input(x, …)`)
    for node in ast.walk(fn):
        if isinstance(node, ast.Assign):
            tg = ast.unparse(node.targets[0])
            if tg in params and not (isinstance(node.value, ast.Call) and ast.unparse(node.value.func) == 'check_input'
                                     and node.value.args and ast.unparse(node.value.args[0]) == tg):
                raise Unsupported(f'{owner}.{meth}: parameter {tg} is re-bound by {ast.unparse(node.value)[:40]}')
    return owner, fn, params, rets[0].value


def columns(sl, size):
    """tuple columns selected by `T[:, <sl>]`"""
    if isinstance(sl, ast.Slice):
        lo = 0 if sl.lower is None else int(ast.literal_eval(sl.lower))
        hi = size if sl.upper is None else int(ast.literal_eval(sl.upper))
        if sl.step is not None:
            raise Unsupported('slice with a step')
        return list(range(lo, hi))
    if isinstance(sl, ast.List):
        return [int(ast.literal_eval(e)) for e in sl.elts]
    raise Unsupported(f'unsupported column selection {ast.unparse(sl)}')


class Tr:
    def __init__(self, ix, cls, size):
        self.ix, self.cls, self.size = ix, cls, size

    def num(self, v):
        if isinstance(v, bool):
            raise Unsupported('boolean constant')
        if isinstance(v, int):
            return f'(Scalar.ofNat {v} : K)' if v >= 0 else f'(-(Scalar.ofNat {-v} : K))'
        if isinstance(v, float):
            p, q = v.as_integer_ratio()
            if p < 0:
                return f'(-(lit {-p} {q} : K))'
            return f'(lit {p} {q} : K)'
        raise Unsupported(f'constant {v!r}')

    def expr(self, e, cols, depth=0):
        """scalar expression for one tuple whose columns (relative to the estimator's tuple) are `cols`"""
        if depth > 6:
            raise Unsupported('call depth')
        if isinstance(e, ast.Constant):
            return self.num(e.value)
        if isinstance(e, ast.UnaryOp) and isinstance(e.op, ast.USub):
            return f'(-{self.expr(e.operand, cols, depth)})'
        if isinstance(e, ast.BinOp):
            # 2 * (<comparison>) - 1  →  ±1
            if (isinstance(e.op, ast.Sub) and isinstance(e.right, ast.Constant) and e.right.value == 1 and
                    isinstance(e.left, ast.BinOp) and isinstance(e.left.op, ast.Mult) and
                    isinstance(e.left.left, ast.Constant) and e.left.left.value == 2 and isinstance(e.left.right, ast.Compare)):
                return f'(pmOne {self.cmp(e.left.right, cols, depth)})'
            ops = {ast.Add: '+', ast.Sub: '-', ast.Mult: '*', ast.Div: '/'}
            if type(e.op) in ops:
                return f'({self.expr(e.left, cols, depth)} {ops[type(e.op)]} {self.expr(e.right, cols, depth)})'
            raise Unsupported(f'operator {ast.unparse(e)}')
        if isinstance(e, ast.Attribute) and ast.unparse(e) == 'self.threshold_':
            return 'thr'
        if isinstance(e, ast.Call):
            f = ast.unparse(e.func)
            if f == 'np.sign' and len(e.args) == 1:
                return f'(signK {self.expr(e.args[0], cols, depth)})'
            if f.startswith('self.') and len(e.args) == 1 and not e.keywords:
                meth = f[5:]
                arg = e.args[0]
                sub = cols
                if isinstance(arg, ast.Subscript):
                    sl = arg.slice
                    if not (isinstance(sl, ast.Tuple) and len(sl.elts) == 2 and isinstance(sl.elts[0], ast.Slice)
                            and sl.elts[0].lower is None and sl.elts[0].upper is None):
                        raise Unsupported(f'unsupported indexing {ast.unparse(arg)}')
                    sel = columns(sl.elts[1], len(cols))
                    sub = [cols[c] for c in sel]
                elif not isinstance(arg, ast.Name):
                    raise Unsupported(f'argument {ast.unparse(arg)}')
                if meth == 'pair_distance':
                    if len(sub) != 2:
                        raise Unsupported(f'pair_distance of {len(sub)} columns')
                    return f'(dist {sub[0]} {sub[1]})'
                owner, fn, params, ret = the_return(self.ix, self.cls, meth)
                return self.expr(ret, sub, depth + 1)
        raise Unsupported(f'expression {ast.unparse(e)[:60]}')

    def cmp(self, c, cols, depth):
        if len(c.ops) != 1:
            raise Unsupported('chained comparison')
        a, b = self.expr(c.left, cols, depth), self.expr(c.comparators[0], cols, depth)
        op = {ast.LtE: '≤', ast.Lt: '<', ast.GtE: '≥', ast.Gt: '>'}.get(type(c.ops[0]))
        if op is None:
            raise Unsupported(f'comparison {ast.unparse(c)}')
        return f'(decide ({a} {op} {b}))'


STUB = {'Pair': ('(decisions : List K) (labels : List Bool)',), 'Triplet': ('(preds : List K)',), 'Quad': ('(preds : List K)',)}


def emit(ix, failed=None):
    failed = {} if failed is None else failed
    out = ['import MLModel.Classify', '/-! GENERATED by /verif/translate/decisions.py from /repo/metric_learn/base_metric.py — do not edit. -/',
           'namespace MLGen', 'open ML', '', 'section', 'variable {K : Type} [Scalar K]', '']
    info = {}
    for tag, mixin, size, concrete in MIXINS:
        try:
            part = []
            emit_kind(ix, tag, mixin, size, concrete, part, info)
            out += part
        except Unsupported as e:
            failed[f'decisions:{tag}'] = str(e)
            out.append(f'/-- `{mixin}` — NOT TRANSCRIBED: {str(e)[:120]} -/')
            out.append(f'def decision{tag} (_dist : Nat → Nat → K) : K := 0')
            out.append(f'def predict{tag} (_dist : Nat → Nat → K) (_thr : K) : K := 0')
            out.append(f'def score{tag} {STUB[tag][0].replace("(", "(_")} : K := 0')
            out.append('')
    out += ['end', '', 'end MLGen', '']
    return '\n'.join(out), info


def emit_kind(ix, tag, mixin, size, concrete, out, info):
    if True:
        # every concrete estimator of this kind resolves the five methods to the same definitions
        owners = {c: tuple(ix.method(c, m)[0] if ix.method(c, m) else None for m in METHODS) for c in concrete}
        if len(set(owners.values())) != 1 or owners[concrete[0]][:3] != (mixin,) * 3 or owners[concrete[0]][3:] != ('MahalanobisMixin',) * 2:
            raise Unsupported(f'{tag}: decision methods are not those of {mixin} / MahalanobisMixin: {owners}')
        mixin_name = mixin
        mixin = concrete[0]
        tr = Tr(ix, mixin, size)
        cols = list(range(size))
        owner, fn, params, ret = the_return(ix, mixin, 'decision_function')
        out.append(f'/-- base_metric.py:{ret.lineno} `{mixin_name}.decision_function`: `{ast.unparse(ret)}` -/')
        out.append(f'def decision{tag} (dist : Nat → Nat → K) : K := {tr.expr(ret, cols)}')
        owner, fn, params, ret = the_return(ix, mixin, 'predict')
        out.append(f'/-- base_metric.py:{ret.lineno} `{mixin_name}.predict`: `{ast.unparse(ret)}` -/')
        body = tr.expr(ret, cols)
        out.append(f"def predict{tag} (dist : Nat → Nat → K) ({'thr' if 'thr' in body else '_thr'} : K) : K := {body}")
        owner, fn, params, ret = the_return(ix, mixin, 'score')
        src = ast.unparse(ret)
        info[tag] = src
        data = params[0]
        if src == f'self.predict({data}).mean() / 2 + 0.5':
            out.append(f'/-- base_metric.py:{ret.lineno} `{mixin_name}.score`: `{src}` (over the vector of predictions) -/')
            out.append(f'def score{tag} (preds : List K) : K := ((preds.foldr (· + ·) 0 / Scalar.ofNat preds.length) / (Scalar.ofNat 2 : K)) + (lit 1 2 : K)')
        elif src == f'roc_auc_score(y, self.decision_function({data}))':
            out.append(f'/-- base_metric.py:{ret.lineno} `{mixin_name}.score`: `{src}` (`roc_auc_score` is external: its contract is `ML.auc`) -/')
            out.append(f'def score{tag} (decisions : List K) (labels : List Bool) : K := auc decisions labels')
        else:
            raise Unsupported(f'{mixin_name}.score: unsupported expression {src}')
        out.append('')
