"""Per (class, public method): the fitted-guard and the sequence of input validations it performs,
followed through self.<m>(…) / Base.<m>(self, …) calls (C05, C06, C18)."""
import ast
from pyast import Unsupported

PUBLIC = ['fit', 'transform', 'pair_distance', 'pair_score', 'score_pairs', 'get_metric', 'get_mahalanobis_matrix',
          'predict', 'decision_function', 'score', 'set_threshold', 'calibrate_threshold']
DEPTH = 10


def kw_const(call, name, ix, cls):
    for kw in call.keywords:
        if kw.arg == name:
            v = kw.value
            if isinstance(v, ast.Constant):
                return v.value
            s = ast.unparse(v)
            if s == 'self._tuple_size':
                return ix.class_const(cls, '_tuple_size')
            if s == "getattr(self, '_tuple_size', None)":
                return ix.class_const(cls, '_tuple_size')
            if s == 'self.preprocessor_':
                return 'self.preprocessor_'
            if s == 'self':
                return 'self'
            return 'expr:' + s
    return None


def events(ix, cls, meth, depth=0, seen=()):
    """ordered list of events in the method body: ('guard', attrs) | ('validate', record) | ('validate_calib',)
    | ('effect', description)"""
    found = ix.method(cls, meth)
    if found is None:
        return None
    owner, fn = found
    return events_of(ix, cls, owner, fn, depth, seen)


def events_of(ix, cls, owner, fn, depth, seen):
    out = []
    if depth > DEPTH:
        raise Unsupported(f'{ix.where(owner, fn)}: call depth exceeded')
    first_param = fn.args.args[1].arg if len(fn.args.args) > 1 else None

    def visit_call(call):
        f = ast.unparse(call.func)
        if f == 'check_is_fitted':
            a = call.args[1] if len(call.args) > 1 else None
            if isinstance(a, ast.Constant):
                attrs = [a.value]
            elif isinstance(a, (ast.List, ast.Tuple)):
                attrs = [e.value for e in a.elts if isinstance(e, ast.Constant)]
            else:
                attrs = ['?']
            out.append(('guard', attrs))
            return
        if f == 'check_input' or f == 'self._prepare_inputs':
            toi = kw_const(call, 'type_of_inputs', ix, cls) or 'classic'
            if f == 'check_input':
                ts = kw_const(call, 'tuple_size', ix, cls)
                pre = kw_const(call, 'preprocessor', ix, cls)
                has_y = len(call.args) > 1
            else:
                ts = ix.class_const(cls, '_tuple_size')
                pre = 'self.preprocessor_'
                has_y = len(call.args) > 1
                # _prepare_inputs itself: _check_preprocessor, check_is_fitted(['preprocessor_'])
            rec = {'via': f, 'type_of_inputs': toi, 'tuple_size': ts if toi == 'tuples' else None, 'preprocessor': pre,
                   'has_y': has_y, 'min_samples': kw_const(call, 'ensure_min_samples', ix, cls) or 1,
                   'arg0': ast.unparse(call.args[0]) if call.args else '', 'line': call.lineno}
            out.append(('validate', rec))
            return
        if f == 'self._validate_calibration_params':
            out.append(('validate_calib',))
            return
        if f == 'check_y_valid_values_for_pairs':
            out.append(('labels', ast.unparse(call.args[0]) if call.args else ''))
            return
        # self.m(...) or Base.m(self, ...)
        target = None
        if isinstance(call.func, ast.Attribute) and isinstance(call.func.value, ast.Name):
            if call.func.value.id == 'self':
                target = (cls, call.func.attr)
            elif call.func.value.id in ix.classes and call.args and ast.unparse(call.args[0]) == 'self':
                target = (call.func.value.id, call.func.attr)
        if target is not None:
            tcls, tm = target
            if tcls == cls:
                found = ix.method(cls, tm)
            else:
                found = ix.method(tcls, tm)
            if found is not None and (tcls, tm) not in seen:
                o2, fn2 = found
                out.extend(events_of(ix, cls, o2, fn2, depth + 1, seen + ((tcls, tm),)))
                return
        out.append(('effect', f))

    class V(ast.NodeVisitor):
        def visit_Call(self, node):
            # arguments are evaluated before the call
            for a in node.args:
                self.visit(a)
            for kw in node.keywords:
                self.visit(kw.value)
            if isinstance(node.func, ast.Attribute):
                self.visit(node.func.value)
            visit_call(node)

        def visit_FunctionDef(self, node):
            if node is fn:
                for s in node.body:
                    self.visit(s)
            # nested defs (closures) are not executed at call time

        def visit_Lambda(self, node):
            pass

    V().visit(fn)
    return out


def check_input_checks_pair_labels(ix):
    """does `check_input` hand the labels of pairs to `check_y_valid_values_for_pairs` (guarded only by
    `y is not None and input_data.shape[1] == 2`, inside the 'tuples' branch)?"""
    fn = ix.funcs.get(('_util.py', 'check_input'))
    if fn is None:
        raise Unsupported('_util.check_input not found')
    for node in ast.walk(fn):
        if isinstance(node, ast.If) and ast.unparse(node.test) == "type_of_inputs == 'tuples'":
            for inner in node.body:
                if isinstance(inner, ast.If) and ast.unparse(inner.test) == 'y is not None and input_data.shape[1] == 2':
                    for st in inner.body:
                        if isinstance(st, ast.Expr) and isinstance(st.value, ast.Call) and \
                                ast.unparse(st.value) == 'check_y_valid_values_for_pairs(y)':
                            return True
    return False


def method_table(ix, classes):
    rows = []
    via_check_input = check_input_checks_pair_labels(ix)
    for cls in classes:
        for m in PUBLIC:
            ev = events(ix, cls, m)
            if ev is None:
                continue
            guard_first = None
            validations = []
            calib_before_validate = None
            pre_effects = []
            labels_direct = False
            y_param = None
            found = ix.method(cls, m)
            if found is not None:
                names = [a.arg for a in found[1].args.args]
                y_param = next((a for a in names if a in ('y', 'y_valid')), None)
            for e in ev:
                if e[0] == 'labels' and y_param is not None and e[1] == y_param:
                    labels_direct = True
                if e[0] == 'guard' and guard_first is None and not validations:
                    guard_first = e[1]
                elif e[0] == 'validate':
                    validations.append(e[1])
                elif e[0] == 'validate_calib' and calib_before_validate is None:
                    calib_before_validate = not validations
                elif e[0] == 'effect' and guard_first is None and not validations:
                    pre_effects.append(e[1])
            labels_via = via_check_input and any(v['has_y'] and v['type_of_inputs'] == 'tuples' and v['tuple_size'] == 2 for v in validations)
            rows.append({'cls': cls, 'method': m, 'guard': guard_first, 'pre_effects': pre_effects,
                         'validations': validations, 'calib_first': calib_before_validate,
                         'checks_pair_labels': bool(labels_direct or labels_via)})
    return rows
