"""Translate small scalar decision functions of /repo into Lean definitions (MLGen/Funcs.lean).

Supported subset: if/elif/else, return, raise ValueError, local assignment of constants/expressions,
`is None`, chained comparisons, and/or/not, min, + - *, `in`/`not in` a tuple of string constants,
isinstance(x, (int, float)), isinstance(n, numbers.Integral) on integer-typed parameters (true by typing), `x.shape[i]`."""
import ast
from pyast import Unsupported

# parameter typing of the translated functions
SPECS = {
    ('_util.py', '_check_n_components'): dict(lean='checkNComponents', params=[('n_features', 'int'), ('n_components', 'optint')], ret='Int', generic=False),
    ('_util.py', '_auto_select_init'): dict(lean='autoSelectInit', params=[('has_classes', 'bool'), ('n_features', 'int'), ('n_samples', 'int'), ('n_components', 'int'), ('n_classes', 'int')], ret='String', generic=False),
    ('_util.py', 'check_tuple_size'): dict(lean='checkTupleSize', params=[('tuples', 'array'), ('tuple_size', 'optint'), ('context', 'skip')], ret='Unit', generic=False),
    ('_util.py', '_check_sdp_from_eigen'): dict(lean='checkSdpFromEigenGen', params=[('w', 'karray'), ('tol', 'optk')], ret='Bool', generic=True,
                                                 extra='(eps : K)'),
    ('base_metric.py', '_validate_calibration_params'): dict(lean='validateCalibrationParams', params=[('strategy', 'str'), ('min_rate', 'pynum'), ('beta', 'pynum')], ret='Unit', generic=True, cls='_PairsClassifierMixin'),
}

LEAN_TY = {'int': 'Int', 'optint': 'Option Int', 'bool': 'Bool', 'str': 'String', 'pynum': 'PyNum K', 'karray': 'List K', 'optk': 'Option K', 'k': 'K'}


class Tr:
    def __init__(self, where, env):
        self.where = where
        self.env = dict(env)   # name -> type
        self.shape_params = []

    def bad(self, node, msg):
        raise Unsupported(f'{self.where}:{getattr(node, "lineno", "?")}: {msg}: {ast.unparse(node)}')

    def ty(self, e):
        if isinstance(e, ast.Name):
            if e.id not in self.env:
                self.bad(e, 'unknown name')
            return self.env[e.id]
        if isinstance(e, ast.Constant):
            if isinstance(e.value, bool):
                return 'bool'
            if isinstance(e.value, int):
                return 'intlit'
            if isinstance(e.value, str):
                return 'str'
            if e.value is None:
                return 'none'
        if isinstance(e, ast.Call) and ast.unparse(e.func) == 'min':
            return 'int'
        if self.is_k(e):
            return 'k'
        if isinstance(e, ast.BinOp):
            return 'int'
        if isinstance(e, ast.Subscript):
            return 'int'
        self.bad(e, 'untyped expression')

    def is_k(self, e):
        """does the expression live in the scalar field K (eigenvalue arrays, tolerances)?"""
        if isinstance(e, ast.Name):
            return self.env.get(e.id) in ('k', 'optk')
        if isinstance(e, ast.UnaryOp) and isinstance(e.op, ast.USub):
            return self.is_k(e.operand)
        if isinstance(e, ast.BinOp):
            return self.is_k(e.left) or self.is_k(e.right)
        if isinstance(e, (ast.Call, ast.Attribute)):
            f = ast.unparse(e)
            return any(f == pat.format(a=a) for a in self.arrays() for pat in ('np.abs({a}).max()', 'np.finfo({a}.dtype).eps'))
        return False

    def arrays(self):
        return [n for n, t in self.env.items() if t == 'karray']

    def knum(self, e):
        """numeric expression in K"""
        if isinstance(e, ast.Name):
            t = self.env.get(e.id)
            if t == 'k':
                return e.id
            if t == 'optk':
                return f'({e.id}.getD 0)'
            self.bad(e, 'not a scalar of the field')
        if isinstance(e, ast.Constant) and isinstance(e.value, int) and not isinstance(e.value, bool) and e.value >= 0:
            return f'(Scalar.ofNat {e.value} : K)'
        if isinstance(e, ast.UnaryOp) and isinstance(e.op, ast.USub):
            return f'(-{self.knum(e.operand)})'
        if isinstance(e, ast.BinOp) and isinstance(e.op, (ast.Add, ast.Sub, ast.Mult)):
            op = {ast.Add: '+', ast.Sub: '-', ast.Mult: '*'}[type(e.op)]
            return f'({self.knum(e.left)} {op} {self.knum(e.right)})'
        if isinstance(e, (ast.Call, ast.Attribute)):
            f = ast.unparse(e)
            for a in self.arrays():
                if f == f'np.abs({a}).max()':
                    return f'(listMaxAbs {a})'
                if f == f'np.finfo({a}.dtype).eps':
                    return 'eps'
                if f == f'len({a})':
                    return f'(Scalar.ofNat {a}.length : K)'
        self.bad(e, 'unsupported expression of the scalar field')

    def num(self, e, want):
        """numeric expression in the integer or the pynum(K) world"""
        if want == 'k':
            return self.knum(e)
        t = self.ty(e)
        if t == 'intlit':
            return f'({e.value} : Int)' if want == 'int' else f'(Scalar.ofNat {e.value} : K)'
        if isinstance(e, ast.Name):
            if t == 'int':
                return e.id
            if t == 'optint':
                return f'({e.id}.getD 0)'
            if t == 'pynum':
                return f'{e.id}.val'
            self.bad(e, 'not numeric')
        if isinstance(e, ast.Call) and ast.unparse(e.func) == 'min' and len(e.args) == 2:
            return f'(min {self.num(e.args[0], want)} {self.num(e.args[1], want)})'
        if isinstance(e, ast.BinOp) and isinstance(e.op, (ast.Add, ast.Sub, ast.Mult)):
            op = {ast.Add: '+', ast.Sub: '-', ast.Mult: '*'}[type(e.op)]
            return f'({self.num(e.left, want)} {op} {self.num(e.right, want)})'
        if isinstance(e, ast.Subscript) and isinstance(e.value, ast.Attribute) and e.value.attr == 'shape' \
                and isinstance(e.value.value, ast.Name) and isinstance(e.slice, ast.Constant):
            nm = f'{e.value.value.id}_shape{e.slice.value}'
            if nm not in self.shape_params:
                self.shape_params.append(nm)
            return nm
        self.bad(e, 'unsupported numeric expression')

    def world(self, *es):
        if any(self.is_k(x) for x in es):
            return 'k'
        return 'pynum' if any(isinstance(x, ast.Name) and self.env.get(x.id) == 'pynum' for x in es) else 'int'

    def prop(self, e):
        if isinstance(e, ast.BoolOp):
            op = ' ∧ ' if isinstance(e.op, ast.And) else ' ∨ '
            vals = e.values
            if isinstance(e.op, ast.And):
                # `isinstance(n, numbers.Integral)` on a parameter the model types as an integer holds by typing: the conjunct
                # is dropped (non-integer arguments are outside the model's domain; the harness exercises them on the code)
                vals = [v for v in vals if not self.static_true(v)]
                if not vals:
                    self.bad(e, 'conjunction of statically true tests only')
                if len(vals) == 1:
                    return self.prop(vals[0])
            return '(' + op.join(self.prop(v) for v in vals) + ')'
        if isinstance(e, ast.UnaryOp) and isinstance(e.op, ast.Not):
            return f'(¬ {self.prop(e.operand)})'
        if isinstance(e, ast.Name):
            if self.env.get(e.id) == 'bool':
                return f'({e.id} = true)'
            self.bad(e, 'truthiness of a non-boolean')
        if isinstance(e, ast.Call) and ast.unparse(e.func) == 'any' and len(e.args) == 1 and isinstance(e.args[0], ast.Compare) \
                and len(e.args[0].ops) == 1:
            # any(<array expr> < <scalar>): element-wise comparison of an eigenvalue array with a scalar
            c = e.args[0]
            sym = {ast.Lt: '<', ast.LtE: '≤', ast.Gt: '>', ast.GtE: '≥'}.get(type(c.ops[0]))
            lhs = ast.unparse(c.left)
            for a in self.arrays():
                if sym and lhs == a:
                    return f'(({a}.any fun x => decide (x {sym} {self.knum(c.comparators[0])})) = true)'
                if sym and lhs == f'abs({a})':
                    return f'(({a}.any fun x => decide (sabs x {sym} {self.knum(c.comparators[0])})) = true)'
            self.bad(e, 'unsupported any(...)')
        if isinstance(e, ast.Call) and ast.unparse(e.func) == 'isinstance':
            x, tys = e.args
            if isinstance(x, ast.Name) and self.env.get(x.id) == 'pynum' and ast.unparse(tys) in ('(int, float)', '(float, int)'):
                return f'({x.id}.isNum = true)'
            self.bad(e, 'unsupported isinstance')
        if isinstance(e, ast.Compare):
            parts = []
            left = e.left
            for op, right in zip(e.ops, e.comparators):
                parts.append(self.cmp(left, op, right, e))
                left = right
            return '(' + ' ∧ '.join(parts) + ')'
        self.bad(e, 'unsupported condition')

    def static_true(self, e):
        return (isinstance(e, ast.Call) and ast.unparse(e.func) == 'isinstance' and len(e.args) == 2 and isinstance(e.args[0], ast.Name)
                and self.env.get(e.args[0].id) in ('int', 'optint') and ast.unparse(e.args[1]) == 'numbers.Integral')

    def cmp(self, l, op, r, node):
        if isinstance(op, (ast.Is, ast.IsNot)):
            if not (isinstance(r, ast.Constant) and r.value is None and isinstance(l, ast.Name)):
                self.bad(node, 'only `x is None` is supported')
            t = self.env.get(l.id)
            if t == 'optint':
                p = f'{l.id} = none'
            elif t == 'optk':
                p = f'{l.id}.isNone = true'
            elif t == 'pynum':
                p = f'{l.id}.isNone = true'
            else:
                self.bad(node, '`is None` on a value that cannot be None')
            return p if isinstance(op, ast.Is) else f'¬ ({p})'
        if isinstance(op, (ast.In, ast.NotIn)):
            if not (isinstance(r, (ast.Tuple, ast.List)) and all(isinstance(x, ast.Constant) and isinstance(x.value, str) for x in r.elts)
                    and isinstance(l, ast.Name) and self.env.get(l.id) == 'str'):
                self.bad(node, 'unsupported membership test')
            lst = '[' + ', '.join('"' + x.value + '"' for x in r.elts) + ']'
            p = f'{l.id} ∈ {lst}'
            return p if isinstance(op, ast.In) else f'¬ ({p})'
        tl, tr_ = self.ty(l), self.ty(r)
        if 'str' in (tl, tr_):
            if not isinstance(op, (ast.Eq, ast.NotEq)):
                self.bad(node, 'ordering on strings')
            a = l.id if isinstance(l, ast.Name) else '"' + l.value + '"'
            b = r.id if isinstance(r, ast.Name) else '"' + r.value + '"'
            return f'{a} = {b}' if isinstance(op, ast.Eq) else f'{a} ≠ {b}'
        w = self.world(l, r)
        sym = {ast.Lt: '<', ast.LtE: '≤', ast.Gt: '>', ast.GtE: '≥', ast.Eq: '=', ast.NotEq: '≠'}.get(type(op))
        if sym is None:
            self.bad(node, 'unsupported comparison')
        return f'{self.num(l, w)} {sym} {self.num(r, w)}'

    def value(self, e, ret):
        if ret == 'Bool' and isinstance(e, ast.Constant) and isinstance(e.value, bool):
            return 'true' if e.value else 'false'
        if ret == 'Int':
            return self.num(e, 'int')
        if ret == 'String':
            if isinstance(e, ast.Constant) and isinstance(e.value, str):
                return '"' + e.value + '"'
            if isinstance(e, ast.Name) and self.env.get(e.id) == 'str':
                return e.id
        self.bad(e, 'unsupported return value')

    def block(self, stmts, ret, ind):
        pad = '  ' * ind
        if not stmts:
            if ret == 'Unit':
                return f'{pad}.ok ()'
            raise Unsupported(f'{self.where}: function may fall off its end')
        s, rest = stmts[0], stmts[1:]
        if isinstance(s, ast.Expr) and isinstance(s.value, ast.Constant):
            return self.block(rest, ret, ind)
        if isinstance(s, ast.Return):
            if s.value is None:
                return f'{pad}.ok ()'
            return f'{pad}.ok {self.value(s.value, ret)}'
        if isinstance(s, ast.Raise):
            exc = s.exc.func if isinstance(s.exc, ast.Call) else s.exc
            return f'{pad}.error "{ast.unparse(exc)}"'
        if isinstance(s, ast.Assign) and len(s.targets) == 1 and isinstance(s.targets[0], ast.Name):
            nm = s.targets[0].id
            if isinstance(s.value, ast.Constant) and isinstance(s.value.value, str):
                self.env[nm] = 'str'
                return f'{pad}let {nm} : String := "{s.value.value}"\n' + self.block(rest, ret, ind)
            if isinstance(s.value, ast.JoinedStr) or (isinstance(s.value, ast.Call) and ast.unparse(s.value.func).endswith('.format')):
                return self.block(rest, ret, ind)   # message formatting
            if self.is_k(s.value):
                rhs = self.knum(s.value)
                self.env[nm] = 'k'
                return f'{pad}let {nm} : K := {rhs}\n' + self.block(rest, ret, ind)
            self.env[nm] = 'int'
            return f'{pad}let {nm} : Int := {self.num(s.value, "int")}\n' + self.block(rest, ret, ind)
        if isinstance(s, ast.If):
            c = self.prop(s.test)
            saved = dict(self.env)
            a = self.block(list(s.body) + rest, ret, ind + 1)
            self.env = dict(saved)
            b = self.block(list(s.orelse) + rest, ret, ind + 1)
            self.env = saved
            return f'{pad}if {c} then\n{a}\n{pad}else\n{b}'
        self.bad(s, 'unsupported statement')


def find_function(ix, file, name, cls=None):
    if cls is not None:
        node, fn = ix.classes[cls]
        for item in node.body:
            if isinstance(item, ast.FunctionDef) and item.name == name:
                return item
        raise Unsupported(f'{file}: {cls}.{name} not found')
    if (file, name) not in ix.funcs:
        raise Unsupported(f'{file}: function {name} not found')
    return ix.funcs[(file, name)]


def emit(ix, failed=None, old_text=''):
    import re
    failed = {} if failed is None else failed
    out = ['import MLModel.Calibrate', 'import MLModel.PSD', '/-! GENERATED by /verif/translate/translate.py from /repo/metric_learn — do not edit. -/',
           'namespace MLGen', 'open ML', '']
    for (file, name), spec in SPECS.items():
        try:
            part = []
            emit_one(ix, file, name, spec, part)
            out += part
        except Unsupported as e:
            # keep the previous signature (the driver calls it) with a body that makes every theorem about it fail
            m = re.search(r'^def ' + re.escape(spec['lean']) + r' (.*?) : Except String (\S+) :=$', old_text, flags=re.M)
            if m is None:
                raise
            failed[f'funcs:{spec["lean"]}'] = str(e)
            out.append(f'/-- {file}: `{name}` — NOT TRANSCRIBED: {str(e)[:120]} -/')
            out.append(f'def {spec["lean"]} {m.group(1)} : Except String {m.group(2)} :=')
            out.append('  .error "untranscribed"')
            out.append('')
    out.append('end MLGen')
    return '\n'.join(out) + '\n'


def emit_one(ix, file, name, spec, out):
    if True:
        fn = find_function(ix, file, name, spec.get('cls'))
        real = [a.arg for a in fn.args.args if a.arg != 'self']
        want = [p for p, _ in spec['params']]
        if real != want:
            raise Unsupported(f'{file}:{fn.lineno}: signature of {name} changed: {real} (expected {want})')
        env = {p: t for p, t in spec['params'] if t not in ('skip', 'array')}
        tr = Tr(file, env)
        body = tr.block(fn.body, spec['ret'], 1)
        params = []
        for p, t in spec['params']:
            if t == 'skip':
                continue
            if t == 'array':
                continue
            if t == 'karray':
                pass
            params.append(f'({p} : {LEAN_TY[t]})')
        params = [f'({sp} : Int)' for sp in tr.shape_params] + params + ([spec['extra']] if spec.get('extra') else [])
        gen = '{K : Type} [Scalar K] ' if spec['generic'] else ''
        out.append(f'/-- {file}: `{name}` (line {fn.lineno}) -/')
        out.append(f'def {spec["lean"]} {gen}{" ".join(params)} : Except String {spec["ret"]} :=')
        out.append(body)
        out.append('')
