"""Symbolic execution of every estimator's __init__ → attribute table (C18)."""
import ast
from pyast import Unsupported

DEP = "'deprecated'"


def const_repr(node):
    return ast.unparse(node)


def sym_init(ix, cls, env):
    """env: param -> symbolic value.  Returns (attrs: dict attr -> symval, warns: list (alias, category), raises: list)"""
    found = ix.method(cls, '__init__')
    if found is None:
        raise Unsupported(f'{cls}: no __init__')
    owner, fn = found
    args = [a.arg for a in fn.args.args][1:]
    if fn.args.vararg or fn.args.kwarg or fn.args.kwonlyargs:
        raise Unsupported(f'{ix.where(owner, fn)}: *args/**kwargs in __init__')
    defaults = fn.args.defaults
    dmap = dict(zip(args[len(args) - len(defaults):], defaults))
    local = {}
    for a in args:
        if a in env:
            local[a] = env[a]
        elif a in dmap:
            local[a] = ('const', const_repr(dmap[a]))
        else:
            raise Unsupported(f'{ix.where(owner, fn)}: missing argument {a}')
    state = {'attrs': {}, 'warns': [], 'raises': []}

    def ev(e, local):
        if isinstance(e, ast.Name):
            if e.id in local:
                return local[e.id]
            raise Unsupported(f'{ix.where(owner, e)}: unknown name {e.id}')
        if isinstance(e, ast.Constant):
            return ('const', repr(e.value))
        raise Unsupported(f'{ix.where(owner, e)}: unsupported expression {ast.unparse(e)}')

    def merge(cond, a, b, where):
        if a == b:
            return a
        if cond[0] != 'alias':
            raise Unsupported(f'{where}: value depends on a condition that is not an alias test')
        if a is None or b is None:
            raise Unsupported(f'{where}: attribute or local assigned in one branch only')
        return ('ite', cond[1], a, b)

    def run(stmts, local, attrs, conds):
        """returns False if the block always raises"""
        for s in stmts:
            if isinstance(s, ast.Expr) and isinstance(s.value, ast.Constant):
                continue
            if isinstance(s, ast.Assign) and len(s.targets) == 1:
                t = s.targets[0]
                if isinstance(t, ast.Attribute) and isinstance(t.value, ast.Name) and t.value.id == 'self':
                    attrs[t.attr] = ev(s.value, local)
                elif isinstance(t, ast.Name):
                    local[t.id] = ev(s.value, local)
                else:
                    raise Unsupported(f'{ix.where(owner, s)}: unsupported assignment target')
            elif isinstance(s, ast.If):
                c = s.test
                if isinstance(c, ast.Compare) and len(c.ops) == 1 and isinstance(c.ops[0], ast.NotEq) \
                        and isinstance(c.left, ast.Name) and isinstance(c.comparators[0], ast.Constant) \
                        and c.comparators[0].value == 'deprecated':
                    v = ev(c.left, local)
                    if v[0] != 'param':
                        raise Unsupported(f'{ix.where(owner, s)}: alias test on a non-parameter')
                    cond = ('alias', v[1])
                elif isinstance(c, ast.Compare) and len(c.ops) == 1 and isinstance(c.ops[0], (ast.NotIn, ast.In)):
                    cond = ('membership', ast.unparse(c))
                else:
                    raise Unsupported(f'{ix.where(owner, s)}: unsupported if-test {ast.unparse(c)}')
                l1, a1 = dict(local), dict(attrs)
                l2, a2 = dict(local), dict(attrs)
                ok1 = run(s.body, l1, a1, conds + [cond])
                ok2 = run(s.orelse, l2, a2, conds + [('not', cond)]) if s.orelse else True
                if ok1 and ok2:
                    for k in set(l1) | set(l2):
                        local[k] = merge(cond, l1.get(k), l2.get(k), ix.where(owner, s))
                    for k in set(a1) | set(a2):
                        attrs[k] = merge(cond, a1.get(k), a2.get(k), ix.where(owner, s))
                elif ok1:
                    local.clear(); local.update(l1); attrs.clear(); attrs.update(a1)
                elif ok2:
                    local.clear(); local.update(l2); attrs.clear(); attrs.update(a2)
                else:
                    return False
            elif isinstance(s, ast.Expr) and isinstance(s.value, ast.Call):
                f = ast.unparse(s.value.func)
                if f == 'warnings.warn':
                    cat = ast.unparse(s.value.args[1]) if len(s.value.args) > 1 else 'UserWarning'
                    for kw in s.value.keywords:
                        if kw.arg == 'category':
                            cat = ast.unparse(kw.value)
                    state['warns'].append((tuple(conds), cat))
                elif f.endswith('.__init__'):
                    if f.startswith('super('):
                        mro = ix.mro(cls)
                        rest = mro[mro.index(owner) + 1:]
                        base = None
                        for k in rest:
                            if any(isinstance(i, ast.FunctionDef) and i.name == '__init__' for i in ix.classes[k][0].body):
                                base = k
                                break
                        if base is None:
                            raise Unsupported(f'{ix.where(owner, s)}: super().__init__ has no target in metric_learn')
                        pos = s.value.args
                    else:
                        base = f.split('.')[0]
                        if base not in ix.classes:
                            raise Unsupported(f'{ix.where(owner, s)}: unknown base {base}')
                        pos = s.value.args[1:]
                    bfn = [i for i in ix.classes[base][0].body if isinstance(i, ast.FunctionDef) and i.name == '__init__']
                    if not bfn:
                        raise Unsupported(f'{ix.where(owner, s)}: {base} has no own __init__')
                    bargs = [a.arg for a in bfn[0].args.args][1:]
                    benv = {}
                    for a, v in zip(bargs, pos):
                        benv[a] = ev(v, local)
                    for kw in s.value.keywords:
                        if kw.arg is None:
                            raise Unsupported(f'{ix.where(owner, s)}: **kwargs in base call')
                        benv[kw.arg] = ev(kw.value, local)
                    sub_attrs, sub_warns, sub_raises = sym_init_at(ix, cls, base, benv)
                    attrs.update(sub_attrs)
                    state['warns'] += [(tuple(conds) + c, cat) for c, cat in sub_warns]
                    state['raises'] += [(tuple(conds) + c, e) for c, e in sub_raises]
                else:
                    raise Unsupported(f'{ix.where(owner, s)}: unsupported call {f}')
            elif isinstance(s, ast.Raise):
                exc = s.exc.func if isinstance(s.exc, ast.Call) else s.exc
                state['raises'].append((tuple(conds), ast.unparse(exc)))
                return False
            else:
                raise Unsupported(f'{ix.where(owner, s)}: unsupported statement {type(s).__name__}')
        return True

    run(fn.body, local, state['attrs'], [])
    return state['attrs'], state['warns'], state['raises']


def sym_init_at(ix, cls, base, env):
    """run `base`'s own __init__ (used for explicit Base.__init__(self, …) and super() calls)"""
    class View:
        pass
    # temporarily view `base` as the class whose __init__ we execute, but keep `cls`'s MRO for super()
    orig_method = ix.method

    def method(c, m):
        if c == cls and m == '__init__':
            for item in ix.classes[base][0].body:
                if isinstance(item, ast.FunctionDef) and item.name == '__init__':
                    return base, item
        return orig_method(c, m)
    ix.method = method
    try:
        return sym_init(ix, cls, env)
    finally:
        ix.method = orig_method


def signature(ix, cls):
    owner, fn = ix.method(cls, '__init__')
    return [a.arg for a in fn.args.args][1:]


def table(ix, cls):
    params = signature(ix, cls)
    attrs, warns, raises = sym_init(ix, cls, {p: ('param', p) for p in params})
    # deprecated aliases: parameters whose default is 'deprecated'
    owner, fn = ix.method(cls, '__init__')
    args = [a.arg for a in fn.args.args][1:]
    dmap = dict(zip(args[len(args) - len(fn.args.defaults):], fn.args.defaults))
    aliases = [a for a in args if isinstance(dmap.get(a), ast.Constant) and dmap[a].value == 'deprecated']
    dep = []
    for a in aliases:
        repl = [k for k, v in attrs.items() if v[0] == 'ite' and v[1] == a and v[2] == ('param', a)]
        dep.append((a, repl[0] if len(repl) == 1 else ''))
    wl = []
    for conds, cat in warns:
        al = [c[1] for c in conds if c[0] == 'alias']
        wl.append((al[0] if al else '', cat))
    rl = [(' and '.join(c[1] if c[0] != 'not' else 'not ' + str(c[1][1]) for c in conds), e) for conds, e in raises]
    return {'params': params, 'deprecated': dep, 'attrs': attrs, 'warns': wl, 'raises': rl}


def lean_symval(v):
    if v[0] == 'param':
        return f'.param "{v[1]}"'
    if v[0] == 'const':
        return '.const ' + lean_str(v[1])
    if v[0] == 'ite':
        return f'.ite "{v[1]}" ({lean_symval(v[2])}) ({lean_symval(v[3])})'
    raise Unsupported(f'symval {v}')


def lean_str(s):
    return '"' + s.replace('\\', '\\\\').replace('"', '\\"') + '"'
