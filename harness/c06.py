"""C06 — malformed input is always rejected; equivalent array-likes are equivalent.

An enumerated grammar of malformations (ndim 0..4, tuple sizes 1..5, empty axes, NaN/inf, text entries,
feature-count mismatch, label alphabets, length mismatches, n_components outside [1,d]) is applied to every
data-taking method of every estimator, with and without a preprocessor.  Oracle: ValueError — never a
result, never another exception type.  Correspondence: the outcome class of the model's validation on the
array descriptor (on top of the assumed scikit-learn contract, itself compared with the real check_array)."""
import warnings
import numpy as np
from common import lean_run, quiet
import zoo
from sklearn.utils import check_array
from metric_learn.exceptions import PreprocessorError


def desc_of(obj):
    a = np.asarray(obj)
    kind = 'text' if a.dtype.kind in 'US' or (a.dtype.kind == 'O') else 'numeric'
    nan = inf = False
    if kind == 'numeric' and a.size:
        af = a.astype(float)
        nan, inf = bool(np.isnan(af).any()), bool(np.isinf(af).any())
    return list(a.shape), kind, nan, inf


def malformed_points(rng, d, n=6):
    """(tag, object) — every one is NOT of the documented form for a points argument without preprocessor"""
    X = rng.randn(n, d)
    out = [('ndim0', np.float64(1.5)), ('ndim1', rng.randn(n)), ('ndim3', rng.randn(n, 2, d)), ('ndim4', rng.randn(2, 2, 2, d)),
           ('zero-samples', np.empty((0, d))), ('zero-features', np.empty((n, 0)))]
    for tag, val in [('nan', np.nan), ('inf', np.inf), ('neg-inf', -np.inf)]:
        Y = X.copy(); Y[rng.randint(n), rng.randint(d)] = val
        out.append((tag, Y))
    S = X.astype(object); S[rng.randint(n), rng.randint(d)] = 'abc'
    out.append(('text-object', S))
    out.append(('text-str', np.array([['a'] * d] * n)))
    out.append(('text-numeric-strings', X.astype(str)))          # entries are text even when they spell numbers
    return out


def malformed_tuples(rng, t, d, n=6):
    T = rng.randn(n, t, d)
    out = [('ndim0', np.float64(2.0)), ('ndim1', rng.randn(n)), ('ndim2', rng.randn(n, t)), ('ndim4', rng.randn(n, t, d, 2)),
           ('zero-samples', np.empty((0, t, d))), ('zero-features', np.empty((n, t, 0)))]
    for ts in range(1, 6):
        if ts != t:
            out.append((f'tuple-size-{ts}', rng.randn(n, ts, d)))
    for tag, val in [('nan', np.nan), ('inf', np.inf)]:
        Y = T.copy(); Y[rng.randint(n), rng.randint(t), rng.randint(d)] = val
        out.append((tag, Y))
    S = T.astype(object); S[0, 0, 0] = 'abc'
    out.append(('text-object', S))
    out.append(('text-str', np.array([[['a'] * d] * t] * n)))
    out.append(('text-numeric-strings', T.astype(str)))
    return out


def call(R, label, fn, args, key, what, case, expect='ValueError'):
    try:
        with warnings.catch_warnings():
            warnings.simplefilter('ignore')
            fn(*args)
        outcome = 'returned'
    except ValueError:
        outcome = 'ValueError'
    except Exception as e:
        outcome = type(e).__name__
    if outcome != expect:
        R.violation(f'{key}/{outcome}', f'{label}: {what} → {outcome} (expected {expect})', case)
    return outcome


def run(R, tier, seed, driver_ok):
    quiet()
    rng = np.random.RandomState(seed + 606)
    R.rule = ('17 estimators × 9 methods × grammar of malformations (ndim 0..4, tuple sizes 1..5, empty axes, NaN/inf, text entries, '
              'feature-count mismatch, label alphabets, length mismatch, n_components ∈ {0,−1,d+1}) × with/without preprocessor, plus '
              'well-formed equivalent array-likes. case = (estimator, method, malformation); non-trivial = all; finite grammar enumerated completely per estimator')
    R.assumptions = ['scikit-learn check_array/check_X_y contract (text dtype, NaN/inf, min samples/features ⇒ ValueError) — compared with the real validator on every descriptor of the run']
    lines, meta = [], []
    names = zoo.ALL
    for name in names:
        d = int(rng.randint(2, 5))
        est, X, y, args = zoo.fitted(name, rng, d=d)
        t = zoo.TUPLE_SIZE.get(name)
        ts_fit = t
        pts = malformed_points(rng, d)
        prs = malformed_tuples(rng, 2, d)
        # ---- query methods
        for tag, obj in pts:
            R.case(('c06', name, 'transform', tag), True, sample={'est': name, 'method': 'transform', 'malformation': tag, 'shape': list(np.shape(obj))}, branch='transform')
            call(R, name, est.transform, (obj,), f'{name}.transform/{tag}', f'transform({tag})', {'est': name, 'method': 'transform', 'malformation': tag})
            sh, kind, nan, inf = desc_of(obj)
            if sh:
                lines.append(f'check_input classic {len(sh)} {" ".join(map(str, sh))} {kind} {int(nan)} {int(inf)} none none 1')
                meta.append(('ValueError', {'est': name, 'method': 'transform', 'malformation': tag}, obj))
        widths = sorted({1, d - 1, d + 1, 2 * d} - {0, d})      # every other feature count, 1 included (broadcasting trap)
        for wd in widths:
            Xm = rng.randn(5, wd)
            R.case(('c06', name, 'transform', f'feature-mismatch-{wd}'), True, branch='transform')
            call(R, name, est.transform, (Xm,), f'{name}.transform/feature-mismatch', f'transform({wd} features, fitted on {d})', {'est': name, 'method': 'transform', 'malformation': f'feature-mismatch-{wd}', 'fitted_features': d})
        for m in ['pair_distance', 'pair_score', 'score_pairs']:
            for tag, obj in prs + [(f'feature-mismatch-{wd}', rng.randn(4, 2, wd)) for wd in widths]:
                R.case(('c06', name, m, tag), True, branch=m)
                call(R, name, getattr(est, m), (obj,), f'{name}.{m}/{tag.split("-mismatch")[0] + "-mismatch" if "mismatch" in tag else tag}', f'{m}({tag}, fitted on {d} features)', {'est': name, 'method': m, 'malformation': tag, 'fitted_features': d})
                sh, kind, nan, inf = desc_of(obj)
                if sh and 'feature-mismatch' not in tag and m == 'pair_distance':
                    lines.append(f'check_input tuples {len(sh)} {" ".join(map(str, sh))} {kind} {int(nan)} {int(inf)} none 2 1')
                    meta.append(('ValueError', {'est': name, 'method': m, 'malformation': tag}, obj))
        if t is not None:
            tps = malformed_tuples(rng, t, d)
            for m in ['predict', 'decision_function', 'score']:
                for tag, obj in tps + [(f'feature-mismatch-{wd}', rng.randn(4, t, wd)) for wd in widths]:
                    n_ = np.shape(obj)[0] if np.ndim(obj) else 1
                    a = (obj, np.where(np.arange(max(n_, 2)) % 2 == 0, 1, -1)[:n_]) if (m == 'score' and name in zoo.PAIRS) else (obj,)
                    R.case(('c06', name, m, tag), True, branch=m)
                    call(R, name, getattr(est, m), a, f'{name}.{m}/{"feature-mismatch" if "mismatch" in tag else tag}', f'{m}({tag}, fitted on {d} features)', {'est': name, 'method': m, 'malformation': tag, 'fitted_features': d})
                    sh, kind, nan, inf = desc_of(obj)
                    if sh and 'feature-mismatch' not in tag and m == 'decision_function':
                        lines.append(f'check_input tuples {len(sh)} {" ".join(map(str, sh))} {kind} {int(nan)} {int(inf)} none {t} 1')
                        meta.append(('ValueError', {'est': name, 'method': m, 'malformation': tag}, obj))
        if name in zoo.PAIRS:
            good = rng.randn(6, 2, d); yg = np.array([1, -1, 1, -1, 1, -1])
            for tag, obj in prs:
                n_ = np.shape(obj)[0] if np.ndim(obj) else 1
                yy = np.where(np.arange(max(n_, 2)) % 2 == 0, 1, -1)[:n_]
                R.case(('c06', name, 'calibrate_threshold', tag), True, branch='calibrate_threshold')
                call(R, name, est.calibrate_threshold, (obj, yy), f'{name}.calibrate_threshold/{tag}', f'calibrate_threshold({tag})', {'est': name, 'method': 'calibrate_threshold', 'malformation': tag})
            for wd in widths:
                R.case(('c06', name, 'calibrate_threshold', f'feature-mismatch-{wd}'), True, branch='calibrate_threshold')
                call(R, name, est.calibrate_threshold, (rng.randn(6, 2, wd), yg), f'{name}.calibrate_threshold/feature-mismatch', f'calibrate_threshold({wd} features, fitted on {d})', {'est': name, 'method': 'calibrate_threshold', 'malformation': f'feature-mismatch-{wd}', 'fitted_features': d})
            for tag, yy in [('labels-01', np.array([0, 1, 0, 1, 0, 1])), ('labels--1-2', np.array([-1, 2, -1, 2, -1, 2])),
                            ('labels-1-1.5', np.array([1, 1.5, 1, 1.5, 1, 1.5])), ('labels-short', yg[:4]), ('labels-long', np.concatenate([yg, yg])),
                            ('labels-text', np.array(['a', 'b', 'a', 'b', 'a', 'b']))]:
                R.case(('c06', name, 'calibrate_threshold', tag), True, branch='labels')
                call(R, name, est.calibrate_threshold, (good, yy), f'{name}.calibrate_threshold/{tag}', f'calibrate_threshold(labels {tag})', {'est': name, 'method': 'calibrate_threshold', 'malformation': tag})
                R.case(('c06', name, 'score', tag), True, branch='labels')
                call(R, name, est.score, (good, yy), f'{name}.score/{tag}', f'score(labels {tag})', {'est': name, 'method': 'score', 'malformation': tag})
        # ---- the function handed out by get_metric: points of another length (1 included: nothing may be broadcast)
        mf = est.get_metric()
        for wu, wv in [(w_, d) for w_ in widths] + [(d, w_) for w_ in widths] + [(1, 1) if d != 1 else (2, 2)]:
            R.case(('c06', name, 'get_metric()', f'feature-mismatch-{wu}-{wv}'), True, branch='get_metric')
            call(R, name, mf, (rng.randn(wu), rng.randn(wv)), f'{name}.get_metric()/feature-mismatch', f'get_metric()(u of length {wu}, v of length {wv}), fitted on {d} features',
                 {'est': name, 'method': 'get_metric()', 'malformation': f'feature-mismatch-{wu}-{wv}', 'fitted_features': d})
        # ---- indicator input with an array preprocessor: zero samples, and a preprocessor whose points have no feature axis
        pre_params = {k: v for k, v in est.get_params().items() if not (isinstance(v, str) and v == 'deprecated')}
        pre_params['preprocessor'] = X
        try:
            with warnings.catch_warnings():
                warnings.simplefilter('ignore')
                ia_, fa_ = zoo.fit_args(name, X, y, rng, indices=True)
                est_p = zoo.CLASSES[name](**pre_params).fit(*ia_)
        except RuntimeError:
            est_p = None
        if est_p is not None:
            R.case(('c06', name, 'transform', 'zero-indicators'), True, branch='zero-indicators')
            call(R, name, est_p.transform, (np.empty(0, dtype=int),), f'{name}.transform/zero-indicators', 'transform(zero indicators, array preprocessor)', {'est': name, 'method': 'transform', 'malformation': 'zero-indicators'})
            R.case(('c06', name, 'pair_distance', 'zero-indicators'), True, branch='zero-indicators')
            call(R, name, est_p.pair_distance, (np.empty((0, 2), dtype=int),), f'{name}.pair_distance/zero-indicators', 'pair_distance(zero indicator pairs, array preprocessor)', {'est': name, 'method': 'pair_distance', 'malformation': 'zero-indicators'})
            rest0 = [np.asarray(e_)[:0] if np.asarray(e_).ndim == 1 else e_ for e_ in ia_[1:]]
            empty_ind = np.empty((0, t), dtype=int) if t else np.empty(0, dtype=int)
            R.case(('c06', name, 'fit', 'zero-indicators'), True, branch='zero-indicators')
            call(R, name, zoo.CLASSES[name](**pre_params).fit, (empty_ind, *rest0), f'{name}.fit/zero-indicators', 'fit(zero indicators, array preprocessor)', {'est': name, 'method': 'fit', 'malformation': 'zero-indicators'})
        if t:
            flat = dict(pre_params, preprocessor=np.arange(float(len(X))))
            R.case(('c06', name, 'fit', 'preprocessor-without-feature-axis'), True, branch='preprocessor-shape')
            call(R, name, zoo.CLASSES[name](**flat).fit, tuple(ia_), f'{name}.fit/preprocessor-without-feature-axis', 'fit(indicator tuples, 1-D array as preprocessor)', {'est': name, 'method': 'fit', 'malformation': 'preprocessor-without-feature-axis'})
        # an array preprocessor whose "points" are matrices (3-D array, or the same as nested lists): the formed points / tuples
        # then have one dimension too many
        for tag3, pre3 in (('preprocessor-3d-array', np.stack([X, X + 1.0], axis=1)), ('preprocessor-3d-nested-list', np.stack([X, X + 1.0], axis=1).tolist())):
            R.case(('c06', name, 'fit', tag3), True, branch='preprocessor-shape')
            call(R, name, zoo.CLASSES[name](**dict(pre_params, preprocessor=pre3)).fit, tuple(ia_), f'{name}.fit/{tag3}', f'fit(indicators, array preprocessor of shape {np.shape(pre3)})', {'est': name, 'method': 'fit', 'malformation': tag3})
        if name.endswith('_Supervised') and name not in ('RCA_Supervised',):
            # a non-finite value in a row that few or no constraints use: an unlabeled row, and few constraints on many rows
            base_p = {k: v for k, v in est.get_params().items() if not (isinstance(v, str) and v == 'deprecated')}
            for tag, mk in [('nan-in-unlabeled-row', np.nan), ('inf-in-unlabeled-row', np.inf), ('nan-few-constraints', np.nan)]:
                Xb = np.vstack([X, X + 0.37]); yb = np.concatenate([y, y])
                pp = dict(base_p)
                if 'unlabeled' in tag:
                    yb = yb.copy(); yb[-3:] = -1
                    Xb[len(Xb) - 2, int(rng.randint(d))] = mk
                else:
                    if 'n_constraints' in pp:
                        pp['n_constraints'] = 3
                    Xb[int(rng.randint(len(Xb))), int(rng.randint(d))] = mk
                for sd_ in range(3):
                    if 'random_state' in pp:
                        pp['random_state'] = sd_
                    R.case(('c06', name, 'fit', tag, sd_), True, branch='fit-nonfinite-unused-row')
                    call(R, name, zoo.CLASSES[name](**pp).fit, (Xb, yb), f'{name}.fit/{tag}', f'fit({tag}, seed {sd_})', {'est': name, 'method': 'fit', 'malformation': tag})
        if name == 'LSML':
            for tag, w_ in [('weights-short', np.ones(len(args[0]) - 1)), ('weights-long', np.ones(len(args[0]) + 2)), ('weights-2d', np.ones((len(args[0]), 1)))]:
                R.case(('c06', name, 'fit', tag), True, branch='labels')
                try:
                    with warnings.catch_warnings():
                        warnings.simplefilter('ignore')
                        zoo.CLASSES[name](**{k: v for k, v in est.get_params().items() if not (isinstance(v, str) and v == 'deprecated')}).fit(args[0], weights=w_)
                    oc = 'returned'
                except ValueError:
                    oc = 'ValueError'
                except Exception as e:
                    oc = type(e).__name__
                if oc != 'ValueError':
                    R.violation(f'{name}.fit/{tag}/{oc}', f'{name}: fit(weights of shape {w_.shape} for {len(args[0])} quadruplets) → {oc} (expected ValueError)', {'est': name, 'method': 'fit', 'malformation': tag})
        # ---- fit
        fa = args
        params = {k: v for k, v in est.get_params().items() if v != 'deprecated' or k not in ('num_constraints', 'convergence_threshold', 'num_chunks', 'k')}
        params = {k: v for k, v in est.get_params().items() if not (isinstance(v, str) and v == 'deprecated')}
        is_tuple_fit = name in zoo.TUPLE_SIZE
        bad_data = malformed_tuples(rng, t, d) if is_tuple_fit else pts
        for tag, obj in bad_data:
            n_ = np.shape(obj)[0] if np.ndim(obj) else 1
            rest = []
            for extra in fa[1:]:
                e = np.asarray(extra)
                rest.append(np.resize(e, n_) if e.ndim == 1 else e)
            R.case(('c06', name, 'fit', tag), True, branch='fit')
            fresh = zoo.CLASSES[name](**params)
            call(R, name, fresh.fit, (obj, *rest), f'{name}.fit/{tag}', f'fit({tag})', {'est': name, 'method': 'fit', 'malformation': tag})
            sh, kind, nan, inf = desc_of(obj)
            if sh:
                ms = 1 if is_tuple_fit else 2
                if is_tuple_fit:
                    lines.append(f'check_input tuples {len(sh)} {" ".join(map(str, sh))} {kind} {int(nan)} {int(inf)} none {t} {ms}')
                else:
                    lines.append(f'check_input classic {len(sh)} {" ".join(map(str, sh))} {kind} {int(nan)} {int(inf)} none none {ms}')
                meta.append(('ValueError', {'est': name, 'method': 'fit', 'malformation': tag}, obj))
        if len(fa) > 1 and name not in ('RCA',):
            ylen = len(fa[1])
            for tag, yy in [('labels-short', np.asarray(fa[1])[:ylen - 1]), ('labels-long', np.concatenate([fa[1], fa[1][:1]]))]:
                R.case(('c06', name, 'fit', tag), True, branch='labels')
                fresh = zoo.CLASSES[name](**params)
                call(R, name, fresh.fit, (fa[0], yy), f'{name}.fit/{tag}', f'fit(labels {tag})', {'est': name, 'method': 'fit', 'malformation': tag})
        if len(fa) > 1:
            # labels with the right number of entries but not one-dimensional: a row, a two-column table, two rows
            ylen = len(fa[1]); y1 = np.asarray(fa[1]); ev = ylen - ylen % 2
            for tag, yy, data in [('labels-row', y1.reshape(1, ylen), fa[0]), ('labels-table', y1[:ev].reshape(ev // 2, 2), fa[0][:ev]),
                                  ('labels-two-rows', y1[:ev].reshape(2, ev // 2), fa[0][:ev])]:
                R.case(('c06', name, 'fit', tag), True, branch='labels')
                fresh = zoo.CLASSES[name](**params)
                call(R, name, fresh.fit, (data, yy), f'{name}.fit/{tag}', f'fit(labels of shape {yy.shape} for {len(data)} samples)', {'est': name, 'method': 'fit', 'malformation': tag})
        if name in zoo.PAIRS:
            npairs = len(fa[1])
            for tag, yy in [('labels-01', np.arange(npairs) % 2), ('labels--1-2', np.where(np.arange(npairs) % 2, -1, 2)),
                            ('labels-1-1.5', np.where(np.arange(npairs) % 2, 1, 1.5)), ('labels-text', np.where(np.arange(npairs) % 2, 'a', 'b'))]:
                R.case(('c06', name, 'fit', tag), True, branch='labels')
                fresh = zoo.CLASSES[name](**params)
                call(R, name, fresh.fit, (fa[0], yy), f'{name}.fit/{tag}', f'fit(labels {tag})', {'est': name, 'method': 'fit', 'malformation': tag})
        if 'n_components' in params:
            for nc in (0, -1, d + 1):
                R.case(('c06', name, 'fit', f'n_components={nc - d}+d'), True, branch='n_components')
                p2 = dict(params); p2['n_components'] = nc
                fresh = zoo.CLASSES[name](**p2)
                call(R, name, fresh.fit, fa, f'{name}.fit/n_components-out-of-range', f'fit with n_components={nc}, d={d}', {'est': name, 'method': 'fit', 'n_components': nc, 'd': d})
            # a number of components that is not an integer (the tree as given handed 1.5 to ARPACK / np.eye: defect D42, repaired)
            for nc in (1.5, float(d), 0.5):
                R.case(('c06', name, 'fit', f'n_components={nc!r}'), True, branch='n_components')
                case_nc = {'est': name, 'method': 'fit', 'n_components': nc, 'd': d}
                if name == 'LFDA':
                    # (in a child process: the unrepaired code crashes the interpreter here)
                    import subprocess, sys as _sys
                    from common import REPO
                    code = ('import sys, warnings; sys.path.insert(0, %r); warnings.simplefilter("ignore"); import numpy as np; from metric_learn import LFDA\n'
                            'rng = np.random.RandomState(0); X = rng.randn(30, %d); y = np.arange(30) %% 3\n'
                            'try:\n    LFDA(n_components=%r).fit(X, y); print("OUTCOME returned")\n'
                            'except ValueError: print("OUTCOME ValueError")\n'
                            'except Exception as e: print("OUTCOME", type(e).__name__)\n') % (REPO, max(d, 2), nc)
                    pr = subprocess.run([_sys.executable, '-c', code], stdout=subprocess.PIPE, stderr=subprocess.DEVNULL, timeout=300)
                    outc = ([l.split()[1] for l in pr.stdout.decode().splitlines() if l.startswith('OUTCOME')] or [f'interpreter-died({pr.returncode})'])[0]
                    if outc != 'ValueError':
                        R.violation(f'{name}.fit/n_components-not-integer/{outc}', f'{name}: fit with n_components={nc!r}, d={max(d, 2)} → {outc} (expected ValueError)', case_nc)
                    continue
                p2 = dict(params); p2['n_components'] = nc
                fresh = zoo.CLASSES[name](**p2)
                call(R, name, fresh.fit, fa, f'{name}.fit/n_components-not-integer', f'fit with n_components={nc!r}, d={d}', case_nc)
        # ---- well-formed equivalent array-likes: same numbers, same results
        Xi = np.round(X * 1000)      # integer-valued, fine enough that the neighbour searches have no ties
        ia_, fa_i = zoo.fit_args(name, Xi, y, np.random.RandomState(seed), indices=True)
        base = fa_i[0]
        variants = {'list': base.tolist(), 'int': base.astype(np.int64), 'fortran': np.asfortranarray(base),
                    'strided': np.concatenate([base, base], axis=-1)[..., :d]}
        with warnings.catch_warnings():
            warnings.simplefilter('ignore')
            p3 = dict(params)
            if name.startswith('SDML'):
                p3['balance_param'] = 1e-12
            if name in ('NCA', 'MLKR'):
                p3['max_iter'] = 3          # L-BFGS amplifies last-bit differences of differently laid-out BLAS calls
            if name == 'LMNN':
                p3['max_iter'] = 10; p3['learn_rate'] = 1e-12
            try:
                Mref = zoo.CLASSES[name](**p3).fit(base.astype(float), *fa_i[1:]).get_mahalanobis_matrix()
            except Exception:
                Mref = None
            if Mref is not None:
                for vn, V in variants.items():
                    R.case(('c06', name, 'fit-equiv', vn), True, branch='equivalent-arraylike')
                    try:
                        Mv = zoo.CLASSES[name](**p3).fit(V, *fa_i[1:]).get_mahalanobis_matrix()
                    except Exception as e:
                        R.violation(f'{name}.fit/equiv-{vn}-{type(e).__name__}', f'{name}.fit({vn} input) raised {type(e).__name__}: {str(e)[:100]}', {'est': name, 'variant': vn})
                        continue
                    tol_eq = 1e-6 if name in ('NCA', 'MLKR', 'LMNN', 'LFDA', 'MMC', 'MMC_Supervised', 'LSML', 'LSML_Supervised') else 1e-9
                    if np.abs(Mv - Mref).max() > tol_eq * max(np.abs(Mref).max(), 1e-300):
                        R.violation(f'{name}.fit/equiv-{vn}-differs', f'{name}.fit({vn} input) learns a different metric than the float64 C array', {'est': name, 'variant': vn})
        # ---- narrow and unsigned integer dtypes holding the same (small, non-negative) numbers: arithmetic on the points
        #      must not be done in the integer dtype (differences wrap around, squares overflow)
        if name not in ('SCML_Supervised', 'LMNN'):          # (tie-sensitive neighbour searches on a coarse grid)
            span = max(float((X - X.min(0)).max()), 1e-9)
            Xs = np.round((X - X.min(0)) * (100.0 / span))
            _, fa_s = zoo.fit_args(name, Xs, y, np.random.RandomState(seed), indices=True)
            base_s = np.ascontiguousarray(fa_s[0], dtype=float)
            with warnings.catch_warnings():
                warnings.simplefilter('ignore')
                try:
                    ref_est = zoo.CLASSES[name](**p3).fit(base_s, *fa_s[1:])
                    Mref_s = ref_est.get_mahalanobis_matrix()
                except Exception:
                    Mref_s = None
                if Mref_s is not None and np.all(np.isfinite(Mref_s)):
                    for dt in (np.uint8, np.uint16, np.int8, np.int16):
                        vn = np.dtype(dt).name
                        R.case(('c06', name, 'fit-equiv', vn), True, branch='equivalent-arraylike:narrow-int')
                        try:
                            est_v = zoo.CLASSES[name](**p3).fit(base_s.astype(dt), *fa_s[1:])
                            Mv = est_v.get_mahalanobis_matrix()
                        except Exception as e:
                            R.violation(f'{name}.fit/equiv-{vn}-{type(e).__name__}', f'{name}.fit({vn} input) raised {type(e).__name__}: {str(e)[:100]}', {'est': name, 'variant': vn, 'data': base_s})
                            continue
                        tol_eq = 1e-6 if name in ('NCA', 'MLKR', 'LFDA', 'MMC', 'MMC_Supervised', 'LSML', 'LSML_Supervised') else 1e-9
                        if not np.all(np.isfinite(Mv)) or np.abs(Mv - Mref_s).max() > tol_eq * max(np.abs(Mref_s).max(), 1e-300):
                            R.violation(f'{name}.fit/equiv-{vn}-differs', f'{name}.fit({vn} input) learns a different metric than the same numbers as float64', {'est': name, 'variant': vn, 'data': base_s})
                        # queries in the narrow dtype on the float-fitted model
                        q = base_s[:4] if base_s.ndim == 2 else base_s[:4, 0]
                        tq, tqv = ref_est.transform(q), ref_est.transform(q.astype(dt))
                        if np.abs(tq - tqv).max() > 1e-9 * max(np.abs(tq).max(), 1e-300):
                            R.violation(f'{name}.transform/equiv-{vn}-differs', f'{name}.transform({vn} input) differs from the same numbers as float64', {'est': name, 'variant': vn})
        # ---- with a preprocessor: wrong-shaped index arrays are rejected too
        estp, Xp, yp, argsp = zoo.fitted(name, rng, d=d, preprocessor='array')
        for tag, obj, m in [('idx-ndim0', np.int64(0), 'transform'),
                            ('idx-ndim3', np.zeros((2, 2, 2, 2), dtype=int), 'pair_distance'), ('idx-tuple-size-3', np.zeros((3, 3), dtype=int), 'pair_distance'),
                            ('idx-ndim1-for-pairs', np.zeros(4, dtype=int), 'pair_distance')]:
            R.case(('c06', name, m, tag, 'pre'), True, branch='with-preprocessor')
            call(R, name + '[pre]', getattr(estp, m), (obj,), f'{name}.{m}/{tag}', f'{m}({tag}) with a preprocessor', {'est': name, 'method': m, 'malformation': tag})
        sh = list(np.shape(np.zeros((3, 3), dtype=int)))
        lines.append(f'check_input tuples 2 3 3 numeric 0 0 {d} 2 1')
        meta.append(('ValueError', {'est': name, 'method': 'pair_distance', 'malformation': 'idx-tuple-size-3'}, None))
        lines.append(f'check_input tuples 2 3 2 numeric 0 0 {d} 2 1')
        meta.append(('ok', {'est': name, 'method': 'pair_distance', 'malformation': 'none (well-formed indices)'}, None))
        lines.append(f'check_input classic 1 5 numeric 0 0 {d} none 1')
        meta.append(('ok', {'est': name, 'method': 'transform', 'malformation': 'none (well-formed indices)'}, None))
    # ---- the assumed scikit-learn contract vs the real validator, on the descriptors of this run
    sk_lines, sk_meta = [], []
    for exp, case, obj in meta:
        if obj is None or np.ndim(obj) == 0:
            continue
        sh, kind, nan, inf = desc_of(obj)
        try:
            check_array(obj, allow_nd=True, ensure_2d=False, dtype='numeric', ensure_min_samples=1, ensure_min_features=1)
            real = 'ok'
        except ValueError:
            real = 'ValueError'
        except Exception as e:
            real = type(e).__name__
        sk_lines.append(f'check_input sk {len(sh)} {" ".join(map(str, sh))} {kind} {int(nan)} {int(inf)} none none 1')
        sk_meta.append((real, case))
    # ---- estimators fitted on ONE feature, queried with wider points (the other side of the broadcasting trap)
    for name in ['Covariance', 'NCA', 'MLKR', 'ITML', 'MMC', 'LSML', 'SCML']:
        try:
            with warnings.catch_warnings():
                warnings.simplefilter('ignore')
                est1, X1, y1, args1 = zoo.fitted(name, rng, d=1)
        except Exception as e:
            R.count(f'one-feature-fit-raises:{name}:{type(e).__name__}')
            continue
        t1 = zoo.TUPLE_SIZE.get(name)
        for wd in (2, 3):
            probes = [('transform', (rng.randn(4, wd),)), ('pair_distance', (rng.randn(4, 2, wd),)), ('pair_score', (rng.randn(4, 2, wd),))]
            if t1 is not None:
                probes += [('decision_function', (rng.randn(4, t1, wd),)), ('predict', (rng.randn(4, t1, wd),))]
            for m, a in probes:
                R.case(('c06', name, m, f'one-feature-model-given-{wd}'), True, branch='one-feature-model')
                call(R, name, getattr(est1, m), a, f'{name}.{m}/feature-mismatch', f'{m}({wd} features, fitted on 1)', {'est': name, 'method': m, 'malformation': f'feature-mismatch-{wd}', 'fitted_features': 1})
    if driver_ok:
        outs = lean_run(lines)
        for o, (exp, case, obj) in zip(outs, meta):
            got = 'ok' if o.startswith('ok') else o.split()[1]
            R.count('model-outcomes')
            if got != exp:
                R.broken('correspondence:C06:check_input', f'model outcome {got} vs expected/implementation {exp} for {case}', case)
        outs = lean_run(sk_lines)
        for o, (real, case) in zip(outs, sk_meta):
            got = 'ok' if o.startswith('ok') else o.split()[1]
            if got != real:
                R.broken('correspondence:C06:sk-contract', f'assumed check_array contract says {got}, the real validator {real} for {case}', case)
        R.extra['traces_validated_against_impl'] = len(lines) + len(sk_lines)


def replay(R, obj):
    print(obj.get('what'))
    return 0
