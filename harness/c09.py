"""C09 — closed-form learners compute their documented formula.

Certificates evaluated on the implementation's output: Penrose equations of M against the sample
covariance (Covariance); whitening of the within-chunk covariance and the generalized-eigen optimality of
the retained directions (RCA); the generalized eigen-decomposition of the pairwise-defined local scatter
matrices with k-th-nearest-same-class-neighbour local scaling (LFDA).  Correspondence: the Float twin of
cov / inner covariance / LFDA scatter matrices on the same data."""
import warnings
import numpy as np
import scipy.linalg
from common import bits, lean_run, parse_ok_floats, quiet
import zoo
from metric_learn import Covariance, RCA, LFDA


def lfda_reference(X, y, k, dim, embedding):
    """the documented LFDA: pairwise-defined local scatter matrices, local scaling by the distance to the
    k-th nearest same-class neighbour (k clipped per class to n_c − 1), leading generalized eigenvectors"""
    n, d = X.shape
    classes = np.unique(y)
    Sw = np.zeros((d, d)); Sb = np.zeros((d, d))
    A = np.zeros((n, n)); nc_of = np.zeros(n)
    for c in classes:
        idx = np.nonzero(y == c)[0]
        Xc = X[idx]; nc = len(idx)
        D = ((Xc[:, None, :] - Xc[None, :, :]) ** 2).sum(-1)
        kc = min(k, nc - 1)
        sigma = np.sqrt(np.sort(D, axis=1)[:, kc])        # distance to the kc-th nearest same-class point
        with np.errstate(divide='ignore', invalid='ignore'):
            Ac = np.exp(-D / np.outer(sigma, sigma))
        Ac[np.outer(sigma, sigma) == 0] = 0
        A[np.ix_(idx, idx)] = Ac
        nc_of[idx] = nc
    same = y[:, None] == y[None, :]
    Ww = np.where(same, A / nc_of[:, None], 0.0)
    Wb = np.where(same, A * (1.0 / n - 1.0 / nc_of[:, None]), 1.0 / n)
    diff = X[:, None, :] - X[None, :, :]
    Sw = 0.5 * np.einsum('ij,ija,ijb->ab', Ww, diff, diff)
    Sb = 0.5 * np.einsum('ij,ija,ijb->ab', Wb, diff, diff)
    Sw = (Sw + Sw.T) / 2; Sb = (Sb + Sb.T) / 2
    vals, vecs = scipy.linalg.eigh(Sb, Sw)
    order = np.argsort(-vals)[:dim]
    vals, vecs = vals[order], vecs[:, order]
    if embedding == 'weighted':
        M = (vecs * vals).dot(vecs.T)
    elif embedding == 'orthonormalized':
        q, _ = np.linalg.qr(vecs)
        M = q.dot(q.T)
    else:
        M = vecs.dot(vecs.T)
    gap = np.min(np.abs(np.diff(np.sort(scipy.linalg.eigh(Sb, Sw, eigvals_only=True))))) if d > 1 else 1.0
    return M, Sw, Sb, vals, gap


def run(R, tier, seed, driver_ok):
    quiet()
    rng = np.random.RandomState(seed + 909)
    reps = 6 if tier == 'quick' else 40
    R.rule = ('Covariance (incl. singular covariance), RCA (unbalanced chunks, chunk label −1, n_components 1..d), LFDA (embedding_type × k × '
              'n_components, classes smaller than k) on generated data. case = (learner, options, data); all non-trivial')
    # ---- one feature, also a constant one: the (pseudo-)inverse of the variance, 0 for a zero variance — never inf
    for tag, X1 in [('constant', np.full((6, 1), 3.0)), ('varying', np.arange(6.0)[:, None] * 0.5)]:
        R.case(('c09-cov1', tag), True, branch='Covariance:one-feature')
        try:
            with warnings.catch_warnings():
                warnings.simplefilter('ignore')
                L1 = np.asarray(Covariance().fit(X1).components_)
            v_ = float(np.var(X1[:, 0], ddof=1))
            want = 0.0 if v_ == 0 else 1.0 / v_
            if L1.shape != (1, 1) or not np.isfinite(L1).all() or abs(float(L1[0, 0]) ** 2 - want) > 1e-12 * max(want, 1.0):
                R.violation('Covariance/one-feature', f'Covariance on one {tag} feature learns M = {float(L1[0, 0]) ** 2 if L1.shape == (1, 1) else L1!r}, documented (pseudo-)inverse variance {want}', {'X': X1})
        except Exception as e:
            R.violation(f'Covariance/fit-raises-{type(e).__name__}', f'Covariance on one {tag} feature raised {type(e).__name__}: {str(e)[:100]}', {'X': X1})
    R.assumptions = ['eigh/pinvh/eigsh are external kernels; their results are certified a posteriori (Penrose / generalized-eigen residuals)']
    lines, meta = [], []
    for rep in range(reps):
        d = int(rng.randint(2, 6))
        X, y = zoo.blobs(rng, d, int(rng.randint(2, 5)))
        n = len(X)
        # the formulas are homogeneous: data in very small or very large units (exact power-of-two factors)
        unit = float(2.0 ** [0, -30, 0, -40, 20][rep % 5]) if rep < 5 else float(2.0 ** rng.choice([0, 0, -30, -40, 20]))   # (every unit on every run)
        X = X * unit
        R.count(f'unit-scale:2^{int(np.log2(unit))}')
        # ---------------- Covariance
        for singular in (False, True):
            Xc = X.copy()
            if singular:
                Xc[:, -1] = Xc[:, 0] * 2 - (Xc[:, 1] if d > 2 else 0)
            case = {'learner': 'Covariance', 'singular': singular, 'X': Xc}
            R.case(('c09cov', Xc.tobytes().hex()), True, sample={'learner': 'Covariance', 'singular': singular, 'n': n, 'd': d}, branch=f'covariance:{"singular" if singular else "full"}')
            with warnings.catch_warnings():
                warnings.simplefilter('ignore')
                est = Covariance().fit(Xc)
            M = est.get_mahalanobis_matrix()
            C = np.atleast_2d(np.cov(Xc, rowvar=False))
            sC, sM = np.abs(C).max(), max(np.abs(M).max(), 1e-300)
            w = np.linalg.eigvalsh(C); cond = w.max() / max(w[w > w.max() * 1e-10].min(), 1e-300)
            res = [np.abs(C.dot(M).dot(C) - C).max() / sC, np.abs(M.dot(C).dot(M) - M).max() / sM,
                   np.abs(C.dot(M) - C.dot(M).T).max(), np.abs(M.dot(C) - M.dot(C).T).max()]
            if max(res) > 1e-9 * cond:
                R.violation('Covariance/penrose', f'Covariance: M is not the pseudo-inverse of the sample covariance (Penrose residuals {res})', case)
            lines.append(f'cov {n} {d} {bits(Xc)}'); meta.append(('mat', C, 1e-12 * sC, 'cov', case))
        # ---------------- RCA
        sizes = rng.choice([1, 2, 2, 3, 4, 5], size=int(rng.randint(d + 2, d + 7)))     # one-point chunklets included
        chunks = -np.ones(n, dtype=int)
        pool = rng.permutation(n); pos = 0; cid = 0
        for s in sizes:
            if pos + s > n:
                break
            chunks[pool[pos:pos + s]] = cid; cid += 1; pos += s
        chunks = zoo.relabel_chunks(chunks, rng)            # ids need not be 0..m-1
        mask = chunks >= 0
        centered = X[mask].astype(float).copy()
        cl = chunks[mask]
        for c in np.unique(cl):
            centered[cl == c] -= centered[cl == c].mean(0)
        Cin = centered.T.dot(centered) / mask.sum()
        if np.linalg.matrix_rank(Cin) == d and cid >= 2:
            for nc in [None] + list(range(1, d + 1)):
                case = {'learner': 'RCA', 'n_components': nc, 'X': X, 'chunks': chunks}
                R.case(('c09rca', X.tobytes().hex(), chunks.tobytes().hex(), nc), True,
                       sample={'learner': 'RCA', 'n_components': nc, 'n_chunks': cid, 'unchunked_points': int((~mask).sum())}, branch=f'rca:{"full" if nc in (None, d) else "reduced"}')
                try:
                    with warnings.catch_warnings():
                        warnings.simplefilter('ignore')
                        est = RCA(n_components=nc).fit(X, chunks)
                except Exception as e:
                    R.violation(f'RCA/fit-raises-{type(e).__name__}', f'RCA(n_components={nc}).fit raised {type(e).__name__}: {str(e)[:120]} on well-formed chunks', case); continue
                L = np.asarray(est.components_)
                if L.dtype.kind != 'f':
                    R.violation('RCA/complex', 'RCA components_ not real', case); continue
                k = d if nc is None else nc
                W = L.dot(Cin).dot(L.T)
                condC = np.linalg.cond(Cin)
                if L.shape != (k, d) or np.abs(W - np.eye(k)).max() > 1e-9 * condC:
                    R.violation('RCA/not-whitening', f'RCA(n_components={nc}): within-chunk covariance of the transformed data is not the identity (max dev {np.abs(W - np.eye(k)).max():.3g})', case)
                    continue
                if k == d:
                    if np.abs(L.T.dot(L).dot(Cin) - np.eye(d)).max() > 1e-8 * condC:
                        R.violation('RCA/not-inverse', 'RCA: M is not the inverse of the within-chunk covariance', case)
                else:
                    T = np.cov(X[mask], rowvar=0)
                    mu = scipy.linalg.eigh(T, Cin, eigvals_only=True)          # ascending total/within ratios
                    got = np.sort(np.linalg.eigvalsh(L.dot(T).dot(L.T)))
                    if np.abs(got - mu[-k:]).max() > 1e-7 * mu.max() * condC:
                        R.violation('RCA/not-leading-directions', f'RCA(n_components={nc}): retained directions do not maximise total-to-within-chunk variance (ratios {got} vs best {mu[-k:]})', case)
            lines.append(f'rca_inner {n} {d} {bits(X)} ' + ' '.join(map(str, chunks.tolist()))); meta.append(('mat', Cin, 1e-12 * np.abs(Cin).max(), 'rca_inner', {'learner': 'RCA', 'X': X, 'chunks': chunks}))
        # ---------------- LFDA
        for ei_, emb in enumerate(['weighted', 'orthonormalized', 'plain']):
            variant = (rep * 3 + ei_ + seed) % 4     # duplicates / one-member class / two-member class / plain: each on every run
            kopt = [None, 1, 2, d - 1, d + 3][int(rng.randint(5))]
            nc = [None, 1, d][int(rng.randint(3))] if d > 1 else None
            Xl, yl = X, y
            if variant == 0:
                # exact duplicates inside a class: the k-th nearest same-class neighbour counts them
                Xl = X.copy()
                for _ in range(int(rng.randint(1, 3))):
                    c_ = int(rng.choice(np.unique(y))); mem = np.nonzero(y == c_)[0]
                    i_, j_ = rng.choice(mem, 2, replace=False)
                    Xl[j_] = Xl[i_]
            elif variant in (1, 2):
                # a class smaller than k: clipping of k must stay local to that class
                small = int(np.unique(y)[0]); keep = np.ones(n, bool)
                idx = np.nonzero(y == small)[0]; keep[idx[variant:]] = False     # two members, or a single one
                order = np.argsort(y != small, kind='stable')          # the small class comes first
                Xl, yl = X[keep], y[keep]
                o2 = np.argsort(yl != small, kind='stable'); Xl, yl = Xl[o2], yl[o2]
            case = {'learner': 'LFDA', 'embedding_type': emb, 'k': kopt, 'n_components': nc, 'X': Xl, 'y': yl}
            R.case(('c09lfda', Xl.tobytes().hex(), emb, kopt, nc), True,
                   sample={'learner': 'LFDA', 'embedding_type': emb, 'k': kopt, 'n_components': nc, 'class_sizes': np.bincount(yl).tolist()}, branch=f'lfda:{emb}')
            try:
                with warnings.catch_warnings():
                    warnings.simplefilter('ignore')
                    est = LFDA(embedding_type=emb, k=kopt, n_components=nc).fit(Xl, yl)
            except Exception as e:
                R.violation(f'LFDA/raises-{type(e).__name__}', f'LFDA raised {type(e).__name__}: {str(e)[:150]}', case); continue
            kmax = max(d - 1, 1)
            keff = min(7, kmax) if kopt is None else (kmax if kopt > kmax else int(kopt))
            dim = d if nc is None else nc
            Mref, Sw, Sb, vals, gap = lfda_reference(Xl, yl, keff, dim, emb)
            L = np.asarray(est.components_)
            if not np.all(np.isfinite(L)) or L.dtype.kind != 'f':
                R.violation('LFDA/nonfinite', 'LFDA components_ not finite/real', case); continue
            M = L.T.dot(L)
            scale = max(np.abs(Mref).max(), 1e-300)
            tol = 1e-6 * max(1.0, np.abs(vals).max() / max(gap, 1e-12)) if dim < d else 1e-6 * max(1.0, np.linalg.cond(Sw))
            if gap < 1e-6 * max(np.abs(vals).max(), 1e-300):
                continue                # (near-)repeated generalized eigenvalues: the leading subspace is not unique
            if M.shape != Mref.shape or np.abs(M - Mref).max() > tol * scale:
                R.violation(f'LFDA/{emb}-differs-from-documented', f'LFDA(embedding_type={emb}, k={kopt}, n_components={nc}): learned M differs from the documented generalized-eigen solution by {np.abs(M - Mref).max() / scale:.3g} (relative)', case)
            # Float twin of the scatter matrices, fed the documented affinities' ingredients
            lines.append(f'lfda_scatter {len(Xl)} {d} {keff} {bits(Xl)} ' + ' '.join(map(str, yl.tolist())))
            meta.append(('mat2', (Sw, Sb), 1e-9 * max(np.abs(Sb).max(), np.abs(Sw).max()), 'lfda_scatter', case))
    if driver_ok and lines:
        outs = lean_run(lines)
        for o, (kind, impl, tol, what, case) in zip(outs, meta):
            v = parse_ok_floats(o)
            want = impl.ravel() if kind == 'mat' else np.concatenate([impl[0].ravel(), impl[1].ravel()])
            if v is None or v.size != want.size or not np.abs(v - want).max() <= tol:
                R.broken(f'correspondence:C09:{what}', f'model twin differs from the reference computation ({o[:40]})', case)
        R.extra['traces_validated_against_impl'] = len(lines)


def replay(R, obj):
    print(obj.get('what'))
    return 0
