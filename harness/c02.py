"""C02 — all views of the learned metric agree with M = LᵀL.

Oracle (implementation alone): pair_distance, get_metric (plain, squared), ‖transform(x)−transform(x')‖,
sqrt((x−x')ᵀM(x−x')), score_pairs agree; M symmetric PSD and equal to LᵀL; equivalent array-likes
(list / int dtype / Fortran / strided / single-pair batches / indices through a preprocessor) agree.
Correspondence: transform, get_mahalanobis_matrix, the M-distance and the embedded distance vs the Lean model."""
import warnings
import numpy as np
from common import bits, lean_run, parse_ok_floats, quiet
import zoo

REL = 1e-9


def amax(a):
    """max |a|, 0 for an empty array (a learner may return a transformation with no rows)"""
    a = np.asarray(a)
    return float(np.abs(a).max()) if a.size else 0.0


def run(R, tier, seed, driver_ok):
    quiet()
    rng = np.random.RandomState(seed + 202)
    reps = 1 if tier == 'quick' else 5
    npair = 10 if tier == 'quick' else 40
    R.rule = ('17 estimators (+ low-rank variants, + preprocessor variants) × query pairs in streams train/far/dup/kernel/int; '
              'a case = (estimator, stream, pair); non-trivial = the two points differ; distinct by hash of (label, L, pair)')
    R.assumptions = ['rounding is outside the model; views are compared with tolerance 1e-9·‖L‖·(‖x‖+‖x\'‖)']
    pop = zoo.population(rng, reps=reps)
    # learners whose transformation has special structure (exactly diagonal, a single feature): shortcuts taken for such
    # structure must still denote X ↦ X Lᵀ in every view and for every accepted container
    for nm_, kw in [('MMC', dict(params=dict(diagonal=True))), ('MMC_Supervised', dict(params=dict(diagonal=True))), ('NCA', dict(d=1)), ('Covariance', dict(d=1)),
                    ('ITML', dict(params=dict(max_iter=0))), ('LSML', dict(params=dict(max_iter=0)))]:
        try:
            est_, X_, y_, _ = zoo.fitted(nm_, rng, **kw)
        except Exception as e:
            R.count(f'structured-learner {nm_} not fitted ({type(e).__name__})')
            continue
        pop.append((f'{nm_}[{kw}]', est_, X_, y_))
    # preprocessor variants: indices into a pool that also holds the query points
    lines, meta = [], []
    for label, est, X, y in pop:
        L = np.asarray(est.components_)
        k, d = L.shape
        normL = np.linalg.norm(L)
        M = est.get_mahalanobis_matrix()
        case0 = {'est': label, 'L': L}
        # --- M = LᵀL, symmetric, PSD
        if M.shape != (d, d) or not np.all(np.isfinite(M)):
            R.violation('M-shape', f'{label}: M shape {M.shape}', case0)
            continue
        nm = max(np.linalg.norm(M), 1e-300)
        if amax(M - M.T) > 1e-12 * nm:
            R.violation('M-asym', f'{label}: get_mahalanobis_matrix not symmetric', case0)
        if amax(M - L.T.dot(L)) > REL * normL ** 2 + 1e-300:
            R.violation('M-not-LtL', f'{label}: M != LᵀL', case0)
        if np.linalg.eigvalsh((M + M.T) / 2).min() < -1e-10 * nm:
            R.violation('M-not-psd', f'{label}: M has a negative eigenvalue', case0)
        if driver_ok:
            lines.append(f'mahal {k} {d} {bits(L)}')
            meta.append(('mahal', M.ravel(), normL ** 2, case0))
        metric = est.get_metric()
        for stream in ['train', 'far', 'dup', 'kernel', 'int']:
            if stream == 'int':
                P = np.round(zoo.query_points(rng, X, L, npair, 'train')[:, :2] * 4)
                if rng.rand() < 0.5:
                    P = np.abs(P) % 200          # non-negative values, so that unsigned dtypes can hold the same numbers
            else:
                P = zoo.query_points(rng, X, L, npair, stream)[:, :2]
            P = np.ascontiguousarray(P)
            pd = est.pair_distance(P)
            with warnings.catch_warnings(record=True) as wl:
                warnings.simplefilter('always')
                sp = est.score_pairs(P)
            if not any(issubclass(w.category, FutureWarning) for w in wl):
                R.violation('score_pairs-no-warning', f'{label}: score_pairs did not warn', case0)
            T0, T1 = est.transform(P[:, 0]), est.transform(P[:, 1])
            if T0.shape != (len(P), k):
                R.violation('transform-shape', f'{label}: transform shape {T0.shape}', case0)
                continue
            emb = np.sqrt(((T1 - T0) ** 2).sum(1))
            diff = P[:, 1] - P[:, 0]
            q2 = np.einsum('ij,jk,ik->i', diff, M, diff)
            # equivalent array-likes (same numbers): all must reproduce pd
            variants = {
                'list': P.tolist(),
                'fortran': np.asfortranarray(P),
                'strided': np.repeat(P, 2, axis=0)[::2],
                'strided-feat': np.concatenate([P, P], axis=2)[:, :, :d] if True else P,
            }
            if stream == 'int':
                variants['int'] = P.astype(np.int64)
                variants['int32'] = P.astype(np.int32)
                if P.min() >= 0 and P.max() < 256:
                    variants['uint8'] = P.astype(np.uint8)
                    variants['uint16'] = P.astype(np.uint16)
            for vn, V in variants.items():
                pv = est.pair_distance(V)
                if vn.startswith('uint'):
                    mv = np.array([float(metric(V[i, 0], V[i, 1])) for i in range(len(V))])
                    if amax(mv - pd) > 1e-9 * (normL * amax(P) + 1e-300):
                        R.violation(f'arraylike-get_metric-{vn}', f'{label}: get_metric differs for {vn} input', {'est': label, 'L': L, 'pairs': P})
                if pv.shape != pd.shape or amax(pv - pd) > 1e-12 * (normL * amax(P) + 1e-300):
                    R.violation(f'arraylike-{vn}', f'{label}: pair_distance differs for {vn} input', {'est': label, 'L': L, 'pairs': P})
                tv = est.transform(V[:, 0] if not isinstance(V, list) else [p[0] for p in V])
                if amax(tv - T0) > 1e-12 * (normL * amax(P) + 1e-300):
                    R.violation(f'arraylike-transform-{vn}', f'{label}: transform differs for {vn} input', {'est': label, 'L': L, 'pairs': P})
            # scipy.sparse containers of the same numbers (transform documents accept_sparse)
            import scipy.sparse as sps
            for sn, mk in (('csr_matrix', sps.csr_matrix), ('csc_matrix', sps.csc_matrix), ('csr_array', sps.csr_array)):
                try:
                    ts = est.transform(mk(P[:, 0]))
                except (TypeError, ValueError):
                    R.count(f'sparse {sn}: transform refuses'); continue
                ts = np.asarray(ts.todense() if hasattr(ts, 'todense') else ts)
                R.count(f'sparse {sn}: transform accepts')
                if ts.shape != T0.shape or amax(ts - T0) > 1e-12 * (normL * amax(P) + 1e-300):
                    R.violation(f'arraylike-transform-{sn}', f'{label}: transform of a scipy.sparse {sn} has shape {ts.shape} / differs from the dense X Lᵀ {T0.shape}', {'est': label, 'L': L, 'pairs': P})
            single = np.array([est.pair_distance(P[i:i + 1])[0] for i in range(len(P))])
            for i in range(len(P)):
                x0, x1 = P[i, 0], P[i, 1]
                case = {'est': label, 'stream': stream, 'L': L, 'x0': x0, 'x1': x1}
                R.case(('c02', label, L.tobytes().hex()[:64], P[i].tobytes().hex()), not np.array_equal(x0, x1),
                       sample={'est': label, 'stream': stream, 'x0': x0, 'x1': x1, 'pair_distance': pd[i]}, branch=stream)
                sd = normL * np.linalg.norm(x1 - x0)                 # scale of the distance itself
                sx = normL * (np.linalg.norm(x0) + np.linalg.norm(x1))  # scale when points are embedded separately
                m = float(metric(x0, x1)); msq = float(metric(x0, x1, squared=True))
                checks = [
                    ('get_metric', abs(m - pd[i]), REL * sd),
                    ('get_metric-squared', abs(msq - pd[i] ** 2), REL * sd ** 2),
                    ('embedded', abs(emb[i] - pd[i]), REL * sx),
                    ('M-quadratic-form', abs(q2[i] - pd[i] ** 2), REL * sd ** 2),
                    ('score_pairs', abs(sp[i] - pd[i]), 0.0),
                    ('single-pair-batch', abs(single[i] - pd[i]), 1e-12 * sd),
                ]
                # the `squared` flag in every truthy / falsy spelling a caller may hold (a numpy bool from a comparison, 0/1)
                for flag in (np.True_, 1, np.bool_(True)):
                    checks.append((f'get_metric-squared-flag-{type(flag).__name__}', abs(float(metric(x0, x1, squared=flag)) - msq), 0.0))
                for flag in (np.False_, 0):
                    checks.append((f'get_metric-plain-flag-{type(flag).__name__}', abs(float(metric(x0, x1, squared=flag)) - m), 0.0))
                for nm_, err, tol in checks:
                    if not err <= tol + 1e-300:
                        R.violation(f'view-{nm_}', f'{label}: view {nm_} differs from pair_distance by {err:.3g} (tol {tol:.3g})', case)
                if driver_ok:
                    Lb = bits(L)
                    lines.append(f'transform {k} {d} {Lb} {bits(x0)}')
                    meta.append(('transform', T0[i], normL * np.linalg.norm(x0), case))
                    lines.append(f'mahalquad {k} {d} {Lb} {bits(x0)} {bits(x1)}')
                    meta.append(('mahalquad', np.array([q2[i]]), sd ** 2, case))
                    lines.append(f'embdist {k} {d} {Lb} {bits(x0)} {bits(x1)}')
                    meta.append(('embdist', np.array([emb[i]]), sx, case))
                    lines.append(f'metric {k} {d} {Lb} 1 {bits(x0)} {bits(x1)}')
                    meta.append(('metric-squared', np.array([msq]), sd ** 2, case))
    # --- every view follows a refit of the same object (a view computed before the refit must not linger)
    for name in (zoo.ALL if tier == 'thorough' else [zoo.ALL[i] for i in rng.choice(len(zoo.ALL), 6, replace=False)]):
        d = int(rng.randint(2, 5))
        est, X, y, args = zoo.fitted(name, rng, d=d)
        M1 = est.get_mahalanobis_matrix(); f1 = est.get_metric()
        X2, y2 = zoo.blobs(rng, d, int(rng.randint(2, 4)), 7)
        a2 = zoo.fit_args(name, X2 * 1.7, y2, rng)
        if name == 'RCA_Supervised':
            est.set_params(**{k: v for k, v in zoo.fix_params(name, est.get_params(), X2, y2).items() if k in ('n_chunks', 'chunk_size')})
        try:
            with warnings.catch_warnings():
                warnings.simplefilter('ignore')
                est.fit(*a2)
        except RuntimeError:
            continue
        L = np.asarray(est.components_); M = est.get_mahalanobis_matrix()
        P = zoo.query_points(rng, X2, L, 6, 'train')[:, :2]
        pd = est.pair_distance(P); diff = P[:, 1] - P[:, 0]
        q2 = np.einsum('ij,jk,ik->i', diff, M, diff)
        m2 = np.array([float(est.get_metric()(P[i, 0], P[i, 1])) for i in range(len(P))])
        R.case(('c02-refit', name, X2.tobytes().hex()[:32]), True, branch='after-refit')
        sd_ = np.linalg.norm(L) * np.linalg.norm(diff, axis=1)
        if amax(M - L.T.dot(L)) > REL * np.linalg.norm(L) ** 2 + 1e-300 or np.any(np.abs(q2 - pd ** 2) > REL * sd_ ** 2 + 1e-300) \
                or np.any(np.abs(m2 - pd) > REL * sd_ + 1e-300):
            R.violation('views-after-refit', f'{name}: after refitting the same object, get_mahalanobis_matrix / get_metric no longer agree with pair_distance', {'est': name, 'L': L, 'M': M})
    # --- pairs given as indices through a preprocessor
    kinds = ['array', 'list', 'callable']
    names = zoo.ALL if tier == 'thorough' else [zoo.ALL[i] for i in rng.choice(len(zoo.ALL), 6, replace=False)]
    for name in names:
        kind = kinds[int(rng.randint(3))]
        d = int(rng.randint(2, 5))
        extra = rng.randn(8, d) * 2
        est, X, y, args = zoo.fitted(name, rng, d=d, preprocessor=kind, extra_pool=extra)
        n = len(X)
        idx = n + rng.randint(0, 8, size=(6, 2))
        for dt in (np.int64, np.int32, np.uint8):
            got = est.pair_distance(idx.astype(dt))
            pool = np.vstack([X, extra])
            want = est.pair_distance(pool[idx])
            R.case(('c02-pre', name, kind, str(dt), idx.tobytes().hex()), True, branch=f'preprocessor-{kind}')
            if got.shape != want.shape or not np.array_equal(got, want):
                R.violation('indices-vs-formed', f'{name}: pair_distance(indices via {kind} preprocessor) != pair_distance(formed)',
                            {'est': name, 'kind': kind, 'idx': idx, 'pool': pool, 'L': est.components_})
    # ---- all views agree on INDICATOR input too, also after the preprocessor parameter was replaced without a refit
    #      (whichever array the estimator then resolves indicators with, every view must resolve them with the same one)
    import warnings as _w
    for name in names:
        d = int(rng.randint(2, 5))
        X, y = zoo.blobs(rng, d, 3, 7)
        prm = zoo.fix_params(name, zoo.default_params(name, rng, d), X, y)
        if name.startswith('SDML'):
            prm['balance_param'] = 1e-7
        try:
            with _w.catch_warnings():
                _w.simplefilter('ignore')
                ia, fa = zoo.fit_args(name, X, y, rng, indices=True)
                est = zoo.CLASSES[name](preprocessor=X, **prm).fit(*ia)
        except RuntimeError:
            if name.startswith('SDML'):
                continue
            raise
        for stage in ('after-fit', 'after-set_params'):
            if stage == 'after-set_params':
                est.set_params(preprocessor=X[::-1] * 2.0 + 1.0)
            ii = rng.randint(0, len(X), size=(7, 2))
            R.case(('c02-idxviews', name, stage, X.tobytes().hex()[:32]), True, branch=f'indicator-views-{stage}')
            with _w.catch_warnings():
                _w.simplefilter('ignore')
                dist = est.pair_distance(ii)
                Ta, Tb = est.transform(ii[:, 0]), est.transform(ii[:, 1])
                sc = est.pair_score(ii)
                sp = est.score_pairs(ii)
            emb = np.sqrt(((Ta - Tb) ** 2).sum(1))
            tol = REL * max(1.0, np.linalg.norm(est.components_)) * (1.0 + emb.max())
            if np.abs(dist - emb).max() > tol or not np.array_equal(sc, -dist) or not np.array_equal(sp, dist):
                R.violation(f'indicator-views/{stage}', f'{name}: on indicator pairs ({stage}) pair_distance {dist[:3]} vs ‖transform(i) − transform(j)‖ {emb[:3]} (pair_score / score_pairs must be ∓ the same numbers)',
                            {'est': name, 'stage': stage, 'idx': ii, 'L': est.components_})
    if driver_ok and lines:
        outs = lean_run(lines)
        for o, (what, impl, scale, case) in zip(outs, meta):
            v = parse_ok_floats(o)
            if v is None or len(v) != len(np.atleast_1d(impl)):
                R.broken('driver:' + what, f'model driver answered {o[:80]}', case)
                continue
            err = amax(v - impl)
            if not err <= REL * scale + 1e-300:
                R.broken(f'correspondence:C02:{what}', f"{case['est']}: implementation vs model differ by {err:.3g} (scale {scale:.3g})", case)
        R.extra['traces_validated_against_impl'] = len(lines)


def replay(R, obj):
    print(obj.get('what'))
    return 0
