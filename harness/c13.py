"""C13 — SDML minimises the documented sparse LogDet objective.

The model recomputes the graphical-lasso input E = M0⁻¹ + balance·Σ y_i v_i v_iᵀ from pairs, labels and
the prior captured from the initialiser, and evaluates objective / duality gap / dual feasibility at the
implementation's M (Float twin).  Oracle: M symmetric positive definite; objective within solver tolerance
of an independently computed solution (proximal gradient from the result and from a cold start); when the
input is not positive definite, fit returns a finite SPD matrix or raises RuntimeError — nothing else."""
import warnings
import numpy as np
from common import bits, lean_run, parse_ok_floats, quiet, f2b
import zoo
import metric_learn.sdml as ms
from metric_learn import SDML, SDML_Supervised


def objective(E, M, lam):
    s, ld = np.linalg.slogdet(M)
    if s <= 0:
        return np.inf
    return np.sum(E * M) - ld + lam * (np.abs(M).sum() - np.abs(np.diag(M)).sum())


def ista(E, lam, M0, iters=3000):
    """proximal gradient on tr(EM) − logdet M + λ‖M‖₁,off over SPD matrices (independent solver)"""
    M = M0.copy(); f = objective(E, M, lam)
    t = 1.0 / max(np.linalg.eigvalsh(np.linalg.inv(M)).max() ** 2, 1e-12)
    for _ in range(iters):
        G = E - np.linalg.inv(M)
        improved = False
        for _ in range(40):
            Z = M - t * G
            Y = np.sign(Z) * np.maximum(np.abs(Z) - t * lam, 0)
            np.fill_diagonal(Y, np.diag(Z))
            Y = (Y + Y.T) / 2
            if np.linalg.eigvalsh(Y).min() > 1e-12:
                fy = objective(E, Y, lam)
                if fy <= f - 1e-14 * abs(f):
                    M, f, improved = Y, fy, True
                    t *= 1.5
                    break
            t /= 2
        if not improved:
            break
    return M, f


def run(R, tier, seed, driver_ok):
    quiet()
    rng = np.random.RandomState(seed + 1313)
    reps = 24 if tier == 'quick' else 160
    R.rule = ('labelled pair sets (d ≥ 2) × prior ∈ {identity, covariance, random, SPD array} × sparsity_param × balance_param chosen so that the '
              'graphical-lasso input is positive definite (optimality stream) or indefinite (failure stream); SDML and SDML_Supervised. '
              'case = (pairs, options); all non-trivial')
    R.assumptions = ["scikit-learn's graphical lasso is external (tolerance 1e-4 on its dual gap)"]
    lines, meta = [], []
    for rep in range(reps):
        d = int(rng.randint(2, 6))
        X, y = zoo.blobs(rng, d)
        idx, yy = zoo.pairs_from(X, y, rng, n=int(rng.randint(5, 25)))
        if rep % 6 == 5:
            keep = rng.choice(len(yy), size=int(rng.randint(1, 4)), replace=False)     # a pair set of one to three pairs
            idx, yy = idx[keep], yy[keep]
        pairs = X[idx]
        prior_kind = ['identity', 'covariance', 'random', 'array'][rep % 4]
        if len(yy) <= 3 and prior_kind == 'covariance':
            prior_kind = 'identity'          # (the covariance of so few points is singular: a documented rejection)
        B = rng.randn(d, d)
        prior = B.dot(B.T) + 0.5 * np.eye(d) if prior_kind == 'array' else prior_kind
        lam = float(rng.choice([0.003, 0.01, 0.1]))
        failure_stream = rep % 5 == 4
        sd = int(rng.randint(1 << 30))
        diff = pairs[:, 0] - pairs[:, 1]
        loss = (diff.T * yy).dot(diff)
        # first find the prior (needs a fit-independent call path: capture it from a throw-away fit attempt)
        store = {}
        orig = ms._initialize_metric_mahalanobis

        def spy(*a, **k):
            out = orig(*a, **k)
            store['Pinv'] = np.array(out[1], copy=True)
            return out
        ms._initialize_metric_mahalanobis = spy
        try:
            with warnings.catch_warnings():
                warnings.simplefilter('ignore')
                try:
                    SDML(prior=prior, balance_param=1e-12, sparsity_param=lam, random_state=sd).fit(pairs, yy)
                except RuntimeError:
                    pass
            Pinv = store['Pinv']
            wmin = np.linalg.eigvalsh(Pinv).min()
            nl = max(np.linalg.norm(loss, 2), 1e-12)
            balance = (0.3 * wmin / nl) if not failure_stream else (30.0 * np.linalg.eigvalsh(Pinv).max() / nl)
            E = Pinv + balance * loss
            pd_input = np.linalg.eigvalsh(E).min() > 0
            case = {'prior': prior_kind, 'balance_param': balance, 'sparsity_param': lam, 'pairs': pairs, 'y': yy, 'input_positive_definite': bool(pd_input)}
            outcome = 'ok'
            o_gl = ms.graphical_lasso

            def spy_gl(emp_cov, *a, **k):
                store['E_impl'] = np.array(emp_cov, copy=True)
                return o_gl(emp_cov, *a, **k)
            ms.graphical_lasso = spy_gl
            try:
                with warnings.catch_warnings(record=True) as wl_fit:
                    warnings.simplefilter('always')
                    if rep % 2 == 1:
                        # the same pairs given as indicators into a preprocessor array that also holds rows no pair refers to
                        pool_ = np.vstack([X, rng.randn(7, d) * 4 + 2])
                        est = SDML(prior=prior, balance_param=balance, sparsity_param=lam, random_state=sd, preprocessor=pool_).fit(idx, yy)
                        case['given_as'] = 'indicators + array preprocessor with unreferenced rows'
                    else:
                        est = SDML(prior=prior, balance_param=balance, sparsity_param=lam, random_state=sd).fit(pairs, yy)
            except RuntimeError:
                outcome = 'RuntimeError'
            except Exception as e:
                outcome = type(e).__name__
            finally:
                ms.graphical_lasso = o_gl
        finally:
            ms._initialize_metric_mahalanobis = orig
        R.case(('c13', pairs.tobytes().hex()[:64], prior_kind, lam, failure_stream), True,
               sample={'d': d, 'n_pairs': len(yy), 'prior': prior_kind, 'sparsity_param': lam, 'balance_param': balance,
                       'input_positive_definite': bool(pd_input), 'outcome': outcome},
               branch=f'{"failure" if failure_stream else "optimality"}:{prior_kind}:{outcome}')
        if outcome not in ('ok', 'RuntimeError'):
            R.violation(f'SDML/unexpected-{outcome}', f'SDML.fit raised {outcome}', case); continue
        if outcome == 'RuntimeError':
            if pd_input and not failure_stream:
                # the solver failed on a positive definite input: allowed by the failure clause, but counted
                R.count('solver-failed-on-pd-input')
            continue
        M = est.get_mahalanobis_matrix()
        nm = np.abs(M).max()
        if not np.all(np.isfinite(M)) or np.abs(M - M.T).max() > 1e-10 * nm or np.linalg.eigvalsh((M + M.T) / 2).min() <= 0:
            R.violation('SDML/returned-non-spd', 'fit returned a matrix that is not finite symmetric positive definite', case); continue
        if not pd_input:
            continue
        f_impl = objective(E, M, lam)
        M1, f1 = ista(E, lam, M)
        M2, f2 = ista(E, lam, np.linalg.inv(E + lam * np.eye(d)))
        f_best = min(f1, f2)
        from sklearn.exceptions import ConvergenceWarning
        not_converged = any(issubclass(w_.category, ConvergenceWarning) for w_ in wl_fit)
        if not_converged:
            R.count('graphical-lasso-did-not-converge (ConvergenceWarning)')
        if f_impl > f_best + 2e-3 * max(1.0, abs(f_best)) and not_converged:
            # the external solver stopped at its iteration limit and SDML returns that iterate: the recorded finding F3
            R.violation('SDML/not-minimal/solver-did-not-converge', f'objective at the learned M ({f_impl:.8g}) exceeds an independently computed solution ({f_best:.8g}); scikit-learn\'s graphical lasso reported non-convergence', case)
        elif f_impl > f_best + 2e-3 * max(1.0, abs(f_best)):
            with warnings.catch_warnings():
                warnings.simplefilter('ignore')
                Mform = SDML(prior=prior, balance_param=balance, sparsity_param=lam, random_state=sd).fit(pairs, yy).get_mahalanobis_matrix()
            R.violation('SDML/not-minimal', f'objective at the learned M ({f_impl:.8g}) exceeds an independently computed solution ({f_best:.8g}); [diagnostic: formed-pairs fit objective {objective(E, Mform, lam):.8g}, E_impl vs E {np.abs(store.get("E_impl") - E).max() if store.get("E_impl") is not None else None}]', case)
        lines.append(f'sdml_eval {d} {len(yy)} {bits(Pinv)} {f2b(balance)} {f2b(lam)} {bits(diff)} {bits(yy.astype(float))} {bits(M)}')
        meta.append((E, f_impl, lam, M, case, store.get('E_impl')))
    if driver_ok and lines:
        outs = lean_run(lines)
        gaps, feas = [], []
        for o, (E, f_impl, lam, M, case, E_impl) in zip(outs, meta):
            v = parse_ok_floats(o)
            d = E.shape[0]
            if v is None or v.size != d * d + 3:
                R.broken('correspondence:C13:sdml_eval', f'model answered {o[:60]}', case); continue
            if np.abs(v[:d * d] - E.ravel()).max() > 1e-10 * max(np.abs(E).max(), 1e-300):
                R.broken('correspondence:C13:emp_cov', 'model graphical-lasso input differs from prior_inv + balance·Σ y v vᵀ', case)
            if E_impl is None or E_impl.shape != E.shape or np.abs(v[:d * d] - E_impl.ravel()).max() > 1e-10 * max(np.abs(E).max(), 1e-300):
                R.broken('correspondence:C13:emp_cov-impl', 'the matrix the implementation hands to the graphical lasso differs from the model\'s E', case)
            if abs(v[d * d] - f_impl) > 1e-8 * max(1.0, abs(f_impl)):
                R.broken('correspondence:C13:objective', f'model objective {v[d * d]} vs reference {f_impl}', case)
            # duality gap and dual feasibility of M⁻¹ at the solver's tolerance: reported, not judged (the property's
            # clause is the objective comparison above; the gap bounds sub-optimality only when M⁻¹ is dual feasible)
            gaps.append(float(v[d * d + 1])); feas.append(bool(v[d * d + 2] == 1.0))
        R.extra['traces_validated_against_impl'] = len(lines)
        R.extra['duality_gap_max'] = max(gaps) if gaps else None
        R.extra['dual_feasible_fraction'] = (sum(feas) / len(feas)) if feas else None


def replay(R, obj):
    print(obj.get('what'))
    return 0
