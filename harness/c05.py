"""C05 — indices + preprocessor are interchangeable with formed points/tuples.

Oracle (implementation alone): for every estimator and every data-taking method, indices through an
ndarray / nested-list / callable preprocessor give the same fitted model and outputs as the formed data;
formed data never consults the preprocessor; a raising preprocessor surfaces as PreprocessorError.
Correspondence: the tuples the implementation hands to its solver (observed at check_input's return) equal
the model's `formTuples (arrayIndexer pool) idx`."""
import warnings
import numpy as np
from common import bits, lean_run, parse_ok_floats, quiet
import zoo
from metric_learn.exceptions import PreprocessorError
import metric_learn.base_metric as bm

INT_DTYPES = [np.int8, np.int16, np.int32, np.int64, np.uint8, np.uint16, np.uint32, np.intp]


class Raising:
    def __call__(self, idx):
        raise RuntimeError('boom')


def same(a, b, tol=1e-12):
    a, b = np.asarray(a, dtype=float), np.asarray(b, dtype=float)
    return a.shape == b.shape and (a.size == 0 or np.abs(a - b).max() <= tol * max(np.abs(a).max(), 1e-300))


def run(R, tier, seed, driver_ok):
    quiet()
    rng = np.random.RandomState(seed + 505)
    reps = 1 if tier == 'quick' else 4
    R.rule = ('17 estimators × {ndarray, nested list, callable} preprocessors × index arrays (permuted pool, repeats, all integer '
              'dtypes) × every data-taking method × tuple sizes 2/3/4. case = (estimator, preprocessor kind, method, dtype); all non-trivial')
    R.assumptions = ['equality of results is required to 1e-12 relative (bitwise equality is expected and counted, not demanded)']
    lines, meta = [], []
    bitwise = [0, 0]
    for rep in range(reps):
        jobs = [(nm_, int(rng.randint(2, 5))) for nm_ in zoo.ALL]
        # single-feature data: formed points then have the shape (n, 1) of a column of indicators
        one = [nm_ for nm_ in zoo.ALL if not nm_.startswith('SDML')]
        jobs += [(nm_, 1) for nm_ in (one if tier != 'quick' else [one[i_] for i_ in rng.choice(len(one), 5, replace=False)])]
        for name, d in jobs:
            n_classes = int(rng.randint(2, 4))
            X, y = zoo.blobs(rng, d, n_classes, max(5, int(np.ceil(4 * d / n_classes)) + 1))
            n = len(X)
            extra = rng.randn(6, d) * 2
            full = np.vstack([X, extra])
            # a third of the points are integer-valued (a records-style callable returns them with an integer dtype)
            int_rows = rng.choice(len(full), size=max(2, len(full) // 3), replace=False)
            rounded = full.copy(); rounded[int_rows] = np.round(full[int_rows])
            if len(np.unique(rounded, axis=0)) == len(rounded):      # (coinciding points would make collapsed pairs)
                full = rounded
            X = np.ascontiguousarray(full[:n])
            perm = rng.permutation(len(full))
            pool = full[perm]
            inv = np.argsort(perm)            # full row r sits at pool[inv[r]]
            params = zoo.fix_params(name, zoo.default_params(name, rng, d), X, y)
            ia, fa = zoo.fit_args(name, X, y, rng, indices=True)
            if name.startswith('SDML'):
                params['balance_param'] = zoo.sdml_safe_balance(name, X, fa, params)
            with warnings.catch_warnings():
                warnings.simplefilter('ignore')
                ref = zoo.CLASSES[name](**params).fit(*fa)
            Mref = ref.get_mahalanobis_matrix()
            t = zoo.TUPLE_SIZE.get(name)
            kinds = ['array', 'list', 'callable', 'records', 'callable-list']
            # the same point reachable under two indicators: a few rows of the pool are listed a second time at its end, and
            # about half of their occurrences in the indicator input use the second listing (the formed data is unchanged)
            al = rng.choice(len(pool), size=3, replace=False)
            n_pool0 = len(pool)
            pool = np.vstack([pool, pool[al]])
            for kind in kinds:
                pre = zoo.make_preprocessor(kind, pool)
                dt = INT_DTYPES[int(rng.randint(len(INT_DTYPES)))]
                base_idx = np.array(inv[ia[0]], copy=True)
                for j_, a_ in enumerate(al):
                    hit = (base_idx == a_) & (rng.rand(*base_idx.shape) < 0.5)
                    base_idx[hit] = n_pool0 + j_
                idx_args = (base_idx.astype(dt),) + tuple(ia[1:])
                case = {'est': name, 'preprocessor': kind, 'dtype': str(np.dtype(dt)), 'X': X, 'y': y}
                captured = []
                orig_ci = bm.check_input

                def spy(*a, **k):
                    out = orig_ci(*a, **k)
                    captured.append((np.asarray(a[0]), out))
                    return out
                bm.check_input = spy
                try:
                    with warnings.catch_warnings():
                        warnings.simplefilter('ignore')
                        est = zoo.CLASSES[name](preprocessor=pre, **params)
                        est.fit(*idx_args)
                except Exception as e:
                    R.violation(f'{name}/fit-indices-{type(e).__name__}', f'{name}.fit(indices, preprocessor={kind}) raised {type(e).__name__}: {str(e)[:150]}', case)
                    continue
                finally:
                    bm.check_input = orig_ci
                R.case(('c05', name, kind, 'fit', str(dt), X.tobytes().hex()[:32]), True,
                       sample={'est': name, 'preprocessor': kind, 'method': 'fit', 'index_dtype': str(np.dtype(dt))}, branch=f'fit:{kind}')
                M = est.get_mahalanobis_matrix()
                bitwise[1] += 1
                bitwise[0] += int(np.array_equal(M, Mref))
                if not same(M, Mref):
                    R.violation(f'{name}/fit-model', f'{name}: model fitted on indices+{kind} preprocessor differs from the model fitted on formed data (max diff {np.abs(M - Mref).max():.3g})', case)
                if hasattr(ref, 'threshold_') and not same(est.threshold_, ref.threshold_):
                    R.violation(f'{name}/fit-threshold', f'{name}: threshold_ differs ({est.threshold_} vs {ref.threshold_})', case)
                # what reached the solver: first captured validation of the index input
                if driver_ok and captured and t is not None and np.asarray(idx_args[0]).ndim == 2:
                    raw, out = captured[0]
                    formed = out[0] if isinstance(out, tuple) else out
                    ii = np.asarray(idx_args[0]).astype(int)
                    lines.append(f'form {ii.shape[0]} {ii.shape[1]} {len(pool)} {d} {bits(pool)} ' + ' '.join(map(str, ii.ravel().tolist())))
                    meta.append((np.asarray(formed, dtype=float), ii.shape[1], case))
                # ---- query methods: indices vs formed on the index-fitted estimator
                nq = 7
                pidx = rng.randint(0, len(pool), size=(nq, 2))
                pidx[0] = pidx[1]                           # repeats
                if kind == 'records':
                    # first tuple position: integer-valued records only; second position: the others
                    is_int = np.all(pool == np.round(pool), axis=1)
                    if is_int.any() and (~is_int).any():
                        pidx[:, 0] = rng.choice(np.nonzero(is_int)[0], size=nq)
                        pidx[:, 1] = rng.choice(np.nonzero(~is_int)[0], size=nq)
                xi = zoo.index_pattern(rng, len(pool), nq)      # (runs, sorted bootstraps, repeats with skips, constants, …)
                nq = len(xi)
                pidx = np.vstack([pidx, pidx])[:nq] if len(pidx) < nq else pidx[:nq]
                if rng.rand() < 0.6:
                    colp = zoo.index_pattern(rng, len(pool), nq)
                    if len(colp) == nq:
                        pidx = pidx.copy(); pidx[:, int(rng.randint(2))] = colp
                checks = [('transform', (xi,), (pool[xi],)), ('pair_distance', (pidx,), (pool[pidx],)),
                          ('pair_score', (pidx,), (pool[pidx],)), ('score_pairs', (pidx,), (pool[pidx],))]
                if t is not None:
                    tidx = rng.randint(0, len(pool), size=(nq, t))
                    if rng.rand() < 0.6:
                        colp = zoo.index_pattern(rng, len(pool), nq)
                        if len(colp) == nq:
                            tidx[:, int(rng.randint(t))] = colp
                    yq = np.array([1, -1] * nq)[:nq]
                    checks += [('decision_function', (tidx,), (pool[tidx],)), ('predict', (tidx,), (pool[tidx],))]
                    checks += [('score', (tidx, yq), (pool[tidx], yq)) if name in zoo.PAIRS else ('score', (tidx,), (pool[tidx],))]
                for m, a_idx, a_formed in checks:
                    dtq = INT_DTYPES[int(rng.randint(len(INT_DTYPES)))]
                    orig_idx = np.asarray(a_idx[0])
                    a_idx = (orig_idx.astype(dtq),) + tuple(a_idx[1:])
                    if not np.array_equal(a_idx[0].astype(np.int64), orig_idx.astype(np.int64)):
                        continue                      # (the dtype cannot hold these indicators: too large, or negative for an unsigned one)
                    R.case(('c05', name, kind, m, str(dtq), X.tobytes().hex()[:32]), True, branch=f'{m}:{kind}')
                    calls0 = pre.calls if kind == 'callable' else 0
                    try:
                        with warnings.catch_warnings():
                            warnings.simplefilter('ignore')
                            r_formed = getattr(est, m)(*a_formed)
                            calls1 = pre.calls if kind == 'callable' else 0
                            r_idx = getattr(est, m)(*a_idx)
                            calls2 = pre.calls if kind == 'callable' else 0
                    except Exception as e:
                        R.violation(f'{name}/{m}-{type(e).__name__}', f'{name}.{m} raised {type(e).__name__}: {str(e)[:150]}', case)
                        continue
                    if not same(r_idx, r_formed, 0.0 if m in ('predict',) else 1e-12):
                        R.violation(f'{name}/{m}-differs', f'{name}.{m}: indices+{kind} preprocessor and formed data give different outputs', case)
                    if kind == 'callable':
                        if calls1 != calls0:
                            R.violation(f'{name}/{m}-preprocessor-consulted', f'{name}.{m}: the preprocessor was called {calls1 - calls0}× on formed data', case)
                        width = 1 if m == 'transform' else np.asarray(a_idx[0]).shape[1]
                        if calls2 - calls1 != width:
                            R.broken('correspondence:C05:call-count', f'{name}.{m}: preprocessor called {calls2 - calls1}× on indices, model predicts {width}', case)
                if name in zoo.PAIRS:
                    yv = np.array([1, -1] * nq)[:nq]
                    est.calibrate_threshold(pidx, yv); t1 = est.threshold_
                    est.calibrate_threshold(pool[pidx], yv); t2 = est.threshold_
                    R.case(('c05', name, kind, 'calibrate_threshold', X.tobytes().hex()[:32]), True, branch=f'calibrate_threshold:{kind}')
                    if not same(t1, t2):
                        R.violation(f'{name}/calibrate_threshold-differs', f'{name}.calibrate_threshold: indices vs formed give thresholds {t1} vs {t2}', case)
                # ---- the same instance given ANOTHER preprocessor (set_params) and refitted on indicators into it:
                #      the model and the outputs are those of the formed data of the new preprocessor
                perm2 = rng.permutation(len(full))
                pool2 = full[perm2] ; inv2 = np.argsort(perm2)
                kind2 = ['array', 'list', 'callable'][int(rng.randint(3))]
                pre2 = zoo.make_preprocessor(kind2, pool2)
                case2 = dict(case, history=f'fit({kind}) → set_params(preprocessor={kind2}) → fit')
                R.case(('c05', name, kind, kind2, 'refit-other-preprocessor', X.tobytes().hex()[:32]), True, branch=f'refit:{kind}->{kind2}')
                try:
                    with warnings.catch_warnings():
                        warnings.simplefilter('ignore')
                        est.set_params(preprocessor=pre2)
                        est.fit(*((inv2[ia[0]].astype(dt),) + tuple(ia[1:])))
                        M2 = est.get_mahalanobis_matrix()
                        xi2 = rng.randint(0, len(pool2), size=5)
                        tr_idx, tr_formed = est.transform(xi2), est.transform(pool2[xi2])
                        pi2 = rng.randint(0, len(pool2), size=(5, 2))
                        pd_idx, pd_formed = est.pair_distance(pi2), est.pair_distance(pool2[pi2])
                except Exception as e:
                    R.violation(f'{name}/refit-other-preprocessor-{type(e).__name__}', f'{name}: refit after set_params(preprocessor=…) raised {type(e).__name__}: {str(e)[:150]}', case2)
                else:
                    if not same(M2, Mref):
                        R.violation(f'{name}/refit-other-preprocessor-model', f'{name}: after set_params(preprocessor={kind2}) the refit on indicators differs from the fit on the formed data (max diff {np.abs(M2 - Mref).max():.3g})', case2)
                    if not same(tr_idx, tr_formed) or not same(pd_idx, pd_formed):
                        R.violation(f'{name}/refit-other-preprocessor-outputs', f'{name}: after set_params(preprocessor={kind2}) indicators and formed data give different outputs', case2)
            # ---- a raising preprocessor surfaces as PreprocessorError, on fit and on query methods
            bad = zoo.CLASSES[name](preprocessor=Raising(), **params)
            R.case(('c05', name, 'raising', 'fit'), True, branch='raising')
            try:
                with warnings.catch_warnings():
                    warnings.simplefilter('ignore')
                    bad.fit(*ia)
                R.violation(f'{name}/raising-fit-returns', f'{name}.fit with a raising preprocessor returned', {'est': name})
            except PreprocessorError:
                pass
            except Exception as e:
                R.violation(f'{name}/raising-fit-{type(e).__name__}', f'{name}.fit with a raising preprocessor raised {type(e).__name__}', {'est': name})
            est2 = zoo.CLASSES[name](preprocessor=pool, **params)
            with warnings.catch_warnings():
                warnings.simplefilter('ignore')
                est2.fit(*((inv[ia[0]],) + tuple(ia[1:])))
            est2.preprocessor_ = Raising()
            for m, a in [('transform', (np.arange(3),)), ('pair_distance', (np.array([[0, 1], [1, 2]]),))]:
                R.case(('c05', name, 'raising', m), True, branch='raising')
                try:
                    getattr(est2, m)(*a)
                    R.violation(f'{name}/raising-{m}-returns', f'{name}.{m} with a raising preprocessor returned', {'est': name})
                except PreprocessorError:
                    pass
                except Exception as e:
                    R.violation(f'{name}/raising-{m}-{type(e).__name__}', f'{name}.{m} with a raising preprocessor raised {type(e).__name__}', {'est': name})
            # out-of-range index → PreprocessorError (array preprocessor)
            try:
                est2.preprocessor_ = zoo.make_preprocessor('array', pool)
                est2._check_preprocessor() if False else None
                est3 = zoo.CLASSES[name](preprocessor=pool, **params)
                with warnings.catch_warnings():
                    warnings.simplefilter('ignore')
                    est3.fit(*((inv[ia[0]],) + tuple(ia[1:])))
                est3.transform(np.array([0, len(pool) + 5]))
                R.violation(f'{name}/out-of-range-returns', f'{name}.transform accepted an out-of-range index', {'est': name})
            except PreprocessorError:
                pass
            except Exception as e:
                R.violation(f'{name}/out-of-range-{type(e).__name__}', f'{name}.transform raised {type(e).__name__} for an out-of-range index', {'est': name})
    R.extra['bitwise_equal_models'] = f'{bitwise[0]}/{bitwise[1]}'
    if driver_ok and lines:
        outs = lean_run(lines)
        for o, (formed, t, case) in zip(outs, meta):
            tk = o.split()
            if tk[0] != 'ok':
                R.broken('correspondence:C05:form', f'model answered {o[:60]}', case); continue
            calls = int(tk[1])
            v = np.array([int(x) for x in tk[2:]], dtype=np.uint64).view(np.float64)
            if v.size != formed.size or not np.array_equal(v, formed.ravel()) or calls != t:
                R.broken('correspondence:C05:form', 'the tuples handed to the solver differ from the model\'s formTuples (arrayIndexer pool) idx', case)
        R.extra['traces_validated_against_impl'] = len(lines)


def replay(R, obj):
    print(obj.get('what'))
    return 0
