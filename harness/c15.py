"""C15 — SCML learns a non-negative combination of its basis by the documented scheme.

Correspondence: the Float twin replays the stochastic dual-averaging loop on the batch matrix reproduced
with the same NumPy call, the dist_diff matrix and the basis captured from the real fit; the weights of the
best checkpoint must match.  Oracle: weights ≥ 0; M = Σ w_i b_i b_iᵀ (PSD); generated bases have n_basis
unit-norm rows; low-rank shape and warning."""
import warnings
import numpy as np
from common import bits, lean_run, parse_ok_floats, quiet, f2b
import zoo
from metric_learn import SCML, SCML_Supervised
from metric_learn.scml import _BaseSCML


def run(R, tier, seed, driver_ok):
    quiet()
    rng = np.random.RandomState(seed + 1515)
    reps = 40 if tier == "quick" else 300
    R.rule = ('triplet sets (n_triplets ≥ d) × basis ∈ {triplet_diffs, lda (supervised), array} × n_basis × beta × gamma × batch_size × '
              'max_iter ≥ output_iter ≥ 1 × integer seeds; SCML and SCML_Supervised. case = (data, options); all non-trivial')
    R.assumptions = ['numpy RandomState(seed).randint reproduces the batch matrix; k-means / LDA / eigh inside the basis generators are external']
    lines, meta = [], []
    for rep in range(reps):
        d = int(rng.randint(2, 5))
        X, y = zoo.blobs(rng, d, int(rng.randint(2, 4)))
        sd = int(rng.randint(1 << 30))
        supervised = rep % 2 == 1
        kinds = ['lda', 'triplet_diffs', 'array'] if supervised else ['triplet_diffs', 'array']
        bk = kinds[(rep // 2) % len(kinds)]
        nb = int(rng.randint(d + 1, 4 * d + 3))
        if bk == 'array':
            B = rng.randn(nb, d); B /= np.linalg.norm(B, axis=1, keepdims=True)
            basis = B
        else:
            basis = bk
        max_iter = int(rng.choice([20, 100, 400]))
        # also values that do not divide max_iter: the last iterations are then after the final checkpoint
        output_iter = int(rng.choice([1, 10, max_iter, int(rng.randint(2, max_iter + 1)), int(rng.randint(2, max(3, max_iter // 3)))]))
        output_iter = min(output_iter, max_iter)
        params = dict(basis=basis, n_basis=nb, beta=float(rng.choice([1e-5, 1e-3, 0.05])), gamma=float(rng.choice([5e-3, 0.05, 1.0])),
                      batch_size=int(rng.choice([1, 5, 10, 16])), max_iter=max_iter, output_iter=output_iter, random_state=sd)
        # a RandomState INSTANCE instead of an integer seed: one stream serves every draw of the fit, in the documented order
        # (the basis is built first, the mini-batches of the optimisation are drawn after it)
        instance = (not supervised) and bk == 'triplet_diffs' and rep % 3 != 0
        if instance:
            params['random_state'] = np.random.RandomState(sd)
        cap = {}
        o_cfbw = _BaseSCML._components_from_basis_weights
        o_cdd = _BaseSCML._compute_dist_diff

        def spy_cfbw(self, basis_, w):
            cap['basis'] = np.array(basis_, copy=True); cap['w'] = np.array(w, copy=True).ravel()
            return o_cfbw(self, basis_, w)

        def spy_cdd(self, triplets, X_, basis_):
            out = o_cdd(self, triplets, X_, basis_)
            cap['dd'] = np.array(out, copy=True)
            return out
        _BaseSCML._components_from_basis_weights = spy_cfbw
        _BaseSCML._compute_dist_diff = spy_cdd
        case = {'supervised': supervised, 'basis': bk, 'params': {k: (v if not isinstance(v, np.ndarray) else 'array') for k, v in params.items()}, 'X': X, 'y': y}
        try:
            with warnings.catch_warnings(record=True) as wl:
                warnings.simplefilter('always')
                if supervised:
                    est = SCML_Supervised(k_genuine=2, k_impostor=3, **params).fit(X, y)
                else:
                    T = X[zoo.triplets_from(X, y, rng)]
                    if rep % 4 == 2 and len(T) > d:
                        # few triplets (d ≤ n_triplets < batch_size happens): the mini-batch is still drawn with replacement
                        T = T[rng.choice(len(T), size=int(rng.randint(d, min(len(T), d + 5) + 1)), replace=False)]
                    if len(T) < d:
                        continue
                    est = SCML(**params).fit(T)
        except Exception as e:
            R.violation(f'SCML/fit-raises-{type(e).__name__}', f'SCML fit raised {type(e).__name__}: {str(e)[:200]}', case)
            continue
        finally:
            _BaseSCML._components_from_basis_weights = o_cfbw
            _BaseSCML._compute_dist_diff = o_cdd
        R.case(('c15', X.tobytes().hex()[:48], supervised, bk, repr(sorted(case['params'].items()))), True,
               sample={'supervised': supervised, 'basis': bk, 'params': case['params'], 'n_active': int((cap['w'] > 0).sum()), 'd': d}, branch=f'{"sup" if supervised else "weak"}:{bk}')
        w, Bm, dd = cap['w'], cap['basis'], cap['dd']
        if w.min() < 0:
            R.violation('SCML/negative-weight', f'a basis weight is negative ({w.min()})', case)
        M = est.get_mahalanobis_matrix()
        want = (Bm.T * w).dot(Bm)
        if np.abs(M - want).max() > 1e-9 * max(np.abs(want).max(), 1e-300):
            R.violation('SCML/M-form', f'M differs from Σ w_i b_i b_iᵀ by {np.abs(M - want).max():.3g}', case)
        if bk != 'array':
            if Bm.shape[0] != nb:
                R.violation('SCML/basis-count', f'generated basis has {Bm.shape[0]} rows, n_basis={nb}', case)
            nrm = np.linalg.norm(Bm, axis=1)
            if np.abs(nrm - 1).max() > 1e-9:
                R.violation('SCML/basis-not-unit', f'generated basis rows are not unit norm (norms in [{nrm.min():.4g}, {nrm.max():.4g}])', case)
        else:
            if not np.array_equal(Bm, basis):
                R.violation('SCML/array-basis-changed', 'the supplied basis array was not used as given', case)
        nact = int((w > 0).sum())
        warned = any('reduces the dimension' in str(x.message) for x in wl)
        L = est.components_
        if nact < d:
            if L.shape != (nact, d) or not warned:
                R.violation('SCML/lowrank-shape', f'{nact} active bases < d={d}: components_ shape {L.shape}, warning={warned}', case)
        elif L.shape != (d, d) or warned:
            R.violation('SCML/fullrank-shape', f'{nact} active bases ≥ d={d}: components_ shape {L.shape}, warning={warned}', case)
        # ---- replay
        nt = dd.shape[0]
        rs2 = np.random.RandomState(sd)
        if instance:
            try:
                e2 = SCML(**dict(params, random_state=rs2))
                ti_, Xi_ = e2._to_index_points(T)
                B2 = e2._generate_bases_dist_diff(ti_, Xi_)
                B2 = B2[0] if isinstance(B2, tuple) else B2
                if np.shape(B2) != Bm.shape or np.abs(np.asarray(B2) - Bm).max() > 1e-12:
                    R.violation('SCML/random-state-instance/basis', 'with a RandomState instance the basis in use is not the one generated from the first draws of that stream', case)
                R.count('random-state-instance: basis regenerated')
            except (AttributeError, TypeError) as e:
                R.count('random-state-instance: helpers unavailable'); instance = False
                continue
        ri = rs2.randint(low=0, high=nt, size=(max_iter, params['batch_size']))
        lines.append(f"scml_replay {nt} {dd.shape[1]} {max_iter} {params['batch_size']} {output_iter} {f2b(params['beta'])} {f2b(params['gamma'])} {bits(dd)} " + ' '.join(map(str, ri.ravel().tolist())))
        meta.append((w, dd, params, case))
    if driver_ok and lines:
        outs = lean_run(lines)
        for o, (w, dd, params, case) in zip(outs, meta):
            tk = o.split()
            if tk[0] != 'ok':
                R.broken('correspondence:C15:scml_replay', f'model answered {o[:60]}', case); continue
            vals = np.array([int(x) for x in tk[2:]], dtype=np.uint64).view(np.float64)
            nbm = len(w)
            bw = vals[:nbm]
            if np.abs(bw - w).max() > 1e-8 * max(np.abs(w).max(), 1e-12):
                R.broken('correspondence:C15:scml_replay', f'weights of the documented scheme (twin) differ from the implementation: {np.abs(bw - w).max():.3g}', case)
            if bw.min() < 0:
                R.broken('correspondence:C15:nonneg', 'the twin produced a negative weight', case)
        R.extra['traces_validated_against_impl'] = len(lines)


def replay(R, obj):
    print(obj.get('what'))
    return 0
