"""In-process recorders: observe the real code's external calls without touching /repo's source."""
import contextlib
import numpy as np


class RecordingRandomState(np.random.RandomState):
    """logs every top-level randint/choice result; calls made internally are suppressed by a depth flag.
    Recording does not change the stream (same seed ⇒ same draws as a plain RandomState)."""

    def __init__(self, seed=None):
        super().__init__(seed)
        self.log = []
        self._depth = 0

    def randint(self, *a, **k):
        self._depth += 1
        try:
            r = super().randint(*a, **k)
        finally:
            self._depth -= 1
        if self._depth == 0:
            self.log.append(('randint', np.array(r).copy()))
        return r

    def choice(self, *a, **k):
        self._depth += 1
        try:
            r = super().choice(*a, **k)
        finally:
            self._depth -= 1
        if self._depth == 0:
            self.log.append(('choice', np.array(r).copy()))
        return r


@contextlib.contextmanager
def record_constraints():
    """patch metric_learn.constraints so that integer seeds yield a RecordingRandomState, `_pairs` entries are
    marked and NearestNeighbors.kneighbors calls are logged.  Yields the shared log dict."""
    import metric_learn.constraints as mc
    rec = {'rs': [], 'knn': [], 'pairs_enter': []}
    orig_crs = mc.check_random_state
    orig_pairs = mc.Constraints._pairs
    orig_nn = mc.NearestNeighbors

    def crs(seed):
        if isinstance(seed, RecordingRandomState):
            return seed
        if seed is None or isinstance(seed, (int, np.integer)):
            r = RecordingRandomState(seed)
            rec['rs'].append(r)
            return r
        return orig_crs(seed)

    def pairs(self, n_constraints, same_label=True, max_iter=10, random_state=np.random):
        if isinstance(random_state, RecordingRandomState):
            random_state.log.append(('enter_pairs', bool(same_label), int(n_constraints)))
        return orig_pairs(self, n_constraints, same_label=same_label, max_iter=max_iter, random_state=random_state)

    class NN(orig_nn):
        def fit(self, X, y=None):
            self._verif_fit_X = np.array(X, copy=True)
            return super().fit(X, y)

        def kneighbors(self, X=None, n_neighbors=None, return_distance=True):
            out = super().kneighbors(X=X, n_neighbors=n_neighbors, return_distance=return_distance)
            idx = out if not return_distance else out[1]
            rec['knn'].append({'fit_X': self._verif_fit_X, 'query': None if X is None else np.array(X, copy=True),
                               'k': int(n_neighbors), 'idx': np.array(idx, copy=True)})
            return out

    mc.check_random_state = crs
    mc.Constraints._pairs = pairs
    mc.NearestNeighbors = NN
    try:
        yield rec
    finally:
        mc.check_random_state = orig_crs
        mc.Constraints._pairs = orig_pairs
        mc.NearestNeighbors = orig_nn
