"""C19 — the learned distance depends on the data only through its geometry.

Metamorphic runs on the implementation, data on a dyadic grid (translations, swaps and permutations are
exact in binary64): translation (every learner), within-pair swap (ITML, MMC, SDML; both pairs for LSML),
sample permutation (Covariance, RCA), rotation M' = QᵀMQ (Covariance, RCA, LFDA, LMNN identity init, ITML,
LSML, MMC with identity / covariance prior or init), scaling by c (Covariance, RCA: distances × 1/c).
The Float twin evaluates the same relations on the model (ITML replay with swapped pairs; covariance under
translation)."""
import warnings
import numpy as np
from common import bits, lean_run, parse_ok_floats, quiet, f2b
import zoo

LBFGS = ('NCA', 'MLKR')


def fit_on(name, params, X, y, fa_builder, rng_seed):
    est = zoo.CLASSES[name](**params)
    with warnings.catch_warnings():
        warnings.simplefilter('ignore')
        est.fit(*fa_builder(X))
    return est


def rel(a, b):
    return np.abs(a - b).max() / max(np.abs(a).max(), np.abs(b).max(), 1e-300)


def run(R, tier, seed, driver_ok):
    quiet()
    rng = np.random.RandomState(seed + 1919)
    reps = 2 if tier == 'quick' else 10
    R.rule = ('dyadic-grid datasets × 17 estimators × {translation, within-tuple swap, sample permutation, rotation, scaling} as listed in the '
              'property; case = (estimator, relation, dataset); all non-trivial')
    R.assumptions = ['optimiser trajectories (L-BFGS-B, ARPACK, stochastic hinge masks) amplify rounding: tolerances 1e-9 (exact-arithmetic relations), 1e-6 (rotation / scaling), 1e-5 (NCA, MLKR, LFDA) with small iteration budgets']
    lines, meta = [], []
    for rep in range(reps):
        for name in zoo.ALL:
            d = int(rng.randint(2, 5))
            X, y = zoo.blobs(rng, d, int(rng.randint(2, 4)), dyadic=True)
            if name == 'LFDA' and rng.rand() < 0.5:
                # one more class with a single member (the neighbour rank is clipped per class)
                X = np.vstack([X, np.round(rng.randn(1, d) * 3 * 16) / 16]); y = np.append(y, y.max() + 1)
                pm0 = rng.permutation(len(y)); X, y = X[pm0], y[pm0]
            n = len(X)
            sd = int(rng.randint(1 << 30))
            params = zoo.fix_params(name, zoo.default_params(name, rng, d), X, y)
            if 'random_state' in params:
                params['random_state'] = sd
            if name in LBFGS:
                params['max_iter'] = 4
            if name == 'LMNN':
                params['init'] = 'identity'; params['max_iter'] = 20
            if name.startswith('SDML'):
                params['balance_param'] = 1e-7
            if name.startswith('SCML'):
                params['basis'] = 'triplet_diffs'
            ia, fa = zoo.fit_args(name, X, y, rng, indices=True)

            def build(Xn, ia=ia, fa=fa):
                """the same constraints on transformed points"""
                if name in ('Covariance',):
                    return (Xn,)
                if name in zoo.TUPLE_SIZE:
                    return (Xn[ia[0]],) + tuple(fa[1:])
                return (Xn,) + tuple(fa[1:])
            try:
                base = fit_on(name, params, X, y, build, sd)
            except Exception as e:
                if name.startswith('SDML') and isinstance(e, RuntimeError):
                    continue
                R.violation(f'{name}/fit-raises-{type(e).__name__}', f'{name}: {type(e).__name__}: {str(e)[:160]}', {'est': name}); continue
            M = base.get_mahalanobis_matrix()
            Qp = rng.randn(6, 2, d)
            d0 = base.pair_distance(Qp)
            tol_exact = 1e-5 if name in LBFGS + ('LFDA',) else (1e-6 if name.startswith('SCML') or name in ('LMNN',) else 1e-9)

            def check(tag, est2, Qp2, want, tol, case):
                R.case(('c19', name, tag, X.tobytes().hex()[:40]), True, sample={'est': name, 'relation': tag, 'd': d, 'n': n}, branch=tag)
                got = est2.pair_distance(Qp2)
                scale = max(np.abs(want).max(), 1e-300)
                if got.shape != want.shape or np.abs(got - want).max() > tol * scale:
                    R.violation(f'{name}/{tag}', f'{name}: learned distances change under {tag} (max relative deviation {np.abs(got - want).max() / scale:.3g}, tolerance {tol:g})', case)
            # ---- translation (every learner)
            t = np.round(rng.randn(d) * 8) / 4
            case = {'est': name, 'relation': 'translation', 'X': X, 'y': y, 't': t, 'params': {k: (v if not isinstance(v, np.ndarray) else 'array') for k, v in params.items()}}
            try:
                e2 = fit_on(name, params, X + t, y, build, sd)
                check('translation', e2, Qp + t, d0, tol_exact, case)
            except Exception as e:
                if not (name.startswith('SDML') and isinstance(e, RuntimeError)):
                    R.violation(f'{name}/translation-raises-{type(e).__name__}', f'{name}: fit on translated data raised {type(e).__name__}', case)
            # ---- within-tuple swap
            if name in ('ITML', 'MMC', 'SDML', 'LSML'):
                idx = np.array(ia[0])
                sw = rng.rand(len(idx)) < 0.5
                idx2 = idx.copy()
                if name == 'LSML':
                    idx2[sw] = idx[sw][:, [1, 0, 3, 2]]
                else:
                    idx2[sw] = idx[sw][:, ::-1]
                case = {'est': name, 'relation': 'swap', 'X': X, 'tuples': idx, 'swapped': sw}
                try:
                    est2 = zoo.CLASSES[name](**params)
                    with warnings.catch_warnings():
                        warnings.simplefilter('ignore')
                        est2.fit(X[idx2], *fa[1:])
                    check('swap', est2, Qp, d0, 1e-9, case)
                except Exception as e:
                    if not (name.startswith('SDML') and isinstance(e, RuntimeError)):
                        R.violation(f'{name}/swap-raises-{type(e).__name__}', f'{name}: fit on swapped tuples raised {type(e).__name__}', case)
                # … and on a tuple set that lists some tuples several times, the swap applied to only some of the copies
                if name in ('ITML', 'MMC', 'LSML'):
                    lab = fa[1] if len(fa) > 1 else None
                    rr = zoo.with_repeats(rng, np.column_stack([idx, np.arange(len(idx))]))       # (row ids ride along)
                    idx_r, src = rr[:, :-1], rr[:, -1]
                    rest_r = (np.asarray(lab)[src],) if lab is not None else ()
                    sw_r = rng.rand(len(idx_r)) < 0.5
                    idx_r2 = idx_r.copy()
                    idx_r2[sw_r] = idx_r[sw_r][:, [1, 0, 3, 2]] if name == 'LSML' else idx_r[sw_r][:, ::-1]
                    case = {'est': name, 'relation': 'swap-with-repeats', 'X': X, 'tuples': idx_r, 'swapped': sw_r}
                    R.case(('c19', name, 'swap-with-repeats', X.tobytes().hex()[:40]), True, branch='swap-with-repeats')
                    try:
                        with warnings.catch_warnings():
                            warnings.simplefilter('ignore')
                            e_a = zoo.CLASSES[name](**params).fit(X[idx_r], *rest_r)
                            e_b = zoo.CLASSES[name](**params).fit(X[idx_r2], *rest_r)
                        da, db = e_a.pair_distance(Qp), e_b.pair_distance(Qp)
                        if np.abs(da - db).max() > 1e-9 * max(np.abs(da).max(), 1e-300):
                            R.violation(f'{name}/swap', f'{name}: learned distances change when the two points are exchanged inside some copies of repeated tuples (max relative deviation {np.abs(da - db).max() / max(np.abs(da).max(), 1e-300):.3g})', case)
                    except Exception as e:
                        R.violation(f'{name}/swap-raises-{type(e).__name__}', f'{name}: fit on repeated / swapped tuples raised {type(e).__name__}: {str(e)[:100]}', case)
            # ---- permutation of the samples
            if name in ('Covariance', 'RCA'):
                p = rng.permutation(n)
                case = {'est': name, 'relation': 'permutation', 'X': X, 'perm': p}
                est2 = zoo.CLASSES[name](**params)
                with warnings.catch_warnings():
                    warnings.simplefilter('ignore')
                    est2.fit(*((X[p],) + tuple(np.asarray(a)[p] for a in fa[1:])))
                check('permutation', est2, Qp, d0, 1e-9, case)
            # ---- rotation
            rot_ok = name in ('Covariance', 'RCA', 'LFDA', 'LMNN', 'ITML', 'LSML', 'MMC')
            if rot_ok:
                Q, _ = np.linalg.qr(rng.randn(d, d))
                p2 = dict(params)
                if name in ('ITML', 'LSML') and rep % 2:
                    p2['prior'] = 'covariance'
                if name == 'MMC' and rep % 2:
                    p2['init'] = 'covariance'
                case = {'est': name, 'relation': 'rotation', 'X': X, 'Q': Q}
                try:
                    b2 = fit_on(name, p2, X, y, build, sd)
                    e2 = fit_on(name, p2, X.dot(Q), y, build, sd)
                    M0, M2 = b2.get_mahalanobis_matrix(), e2.get_mahalanobis_matrix()
                    R.case(('c19', name, 'rotation', X.tobytes().hex()[:40]), True, branch='rotation')
                    tolr = 1e-5 if name in ('LFDA', 'LMNN', 'MMC', 'LSML', 'ITML') else 1e-6      # (iterative solvers amplify the rounding of X·Q)
                    if rel(Q.T.dot(M0).dot(Q), M2) > tolr * max(1.0, np.linalg.cond(M0) * 1e-6):
                        R.violation(f'{name}/rotation', f'{name}: M learned on rotated data differs from QᵀMQ by {rel(Q.T.dot(M0).dot(Q), M2):.3g} (relative)', case)
                except Exception as e:
                    R.violation(f'{name}/rotation-raises-{type(e).__name__}', f'{name}: rotation run raised {type(e).__name__}: {str(e)[:100]}', case)
            # ---- scaling
            if name in ('Covariance', 'RCA'):
              # one moderate factor and, on every run, units of very small and very large size (exact powers of two)
              for c in (float(rng.choice([0.25, 4.0, 8.0])), 2.0 ** -30, 2.0 ** -40, 2.0 ** 20):
                case = {'est': name, 'relation': 'scaling', 'X': X, 'c': c}
                e2 = fit_on(name, params, X * c, y, build, sd)
                R.case(('c19', name, 'scaling', c, X.tobytes().hex()[:40]), True, branch='scaling')
                got = e2.pair_distance(Qp)          # same query points, features scaled by c ⇒ distances × 1/c
                if np.abs(got - d0 / c).max() > 1e-9 * np.abs(d0 / c).max():
                    R.violation(f'{name}/scaling', f'{name}: scaling all features by {c} does not scale distances by 1/{c}', case)
                    break
            # ---- model side: covariance under translation (Float twin)
            if name == 'Covariance' and driver_ok:
                lines.append(f'cov {n} {d} {bits(X)}'); meta.append(('cov-translate', len(lines)))
                lines.append(f'cov {n} {d} {bits(X + t)}'); meta.append(None)
    # ---- RCA on chunk assignments of every shape: one-point chunklets, unlabelled points (-1), unbalanced sizes
    from metric_learn import RCA
    for rep in range(6 if tier == 'quick' else 40):
        d = int(rng.randint(2, 5)); n = int(rng.randint(4 * d + 4, 6 * d + 8))
        X = np.round(rng.randn(n, d) * 8) / 8 + np.round(rng.randn(d) * 4)
        chunks = -np.ones(n, dtype=int)
        order = rng.permutation(n); pos = 0; cid = 0
        while pos < n - 2:
            sz = int(rng.choice([1, 1, 2, 3, 4, 5]))
            if pos + sz > n:
                break
            if rng.rand() < 0.15:
                pos += sz; continue                                  # left unlabelled
            chunks[order[pos:pos + sz]] = cid; cid += 1; pos += sz
        sizes = np.bincount(chunks[chunks >= 0]) if cid else np.array([])
        sizes = sizes[sizes > 0]
        chunks = zoo.relabel_chunks(chunks, rng)              # ids need not be 0..m-1
        if (sizes >= 2).sum() < d + 1:
            continue
        Qp = rng.randn(6, 2, d)
        try:
            with warnings.catch_warnings():
                warnings.simplefilter('ignore')
                base = RCA().fit(X, chunks)
        except Exception as e:
            R.count(f'rca-chunks-fit-raises:{type(e).__name__}'); continue
        d0 = base.pair_distance(Qp)
        tvec = np.round(rng.randn(d) * 8) / 4
        Qm = np.linalg.qr(rng.randn(d, d))[0]
        pm = rng.permutation(n)
        c = float(rng.choice([0.25, 4.0, 2.0 ** -30, 2.0 ** -40, 2.0 ** 20]))     # units of any size (nanometres, kilometres)
        rels = [('translation', X + tvec, chunks, Qp + tvec, d0, 1e-9), ('rotation', X.dot(Qm.T), chunks, Qp.dot(Qm.T), d0, 1e-8),
                ('permutation', X[pm], chunks[pm], Qp, d0, 1e-9), ('scaling', X * c, chunks, Qp, d0 / c, 1e-9)]
        for tag, X2, ch2, Q2, want, tol in rels:
            case = {'est': 'RCA', 'relation': tag, 'X': X, 'chunks': chunks, 'singleton_chunklets': int((sizes == 1).sum())}
            R.case(('c19', 'RCA-chunks', tag, X.tobytes().hex()[:40]), True,
                   sample={'est': 'RCA', 'relation': tag, 'd': d, 'n': n, 'singleton_chunklets': int((sizes == 1).sum()), 'unlabelled': int((chunks < 0).sum())},
                   branch=f'rca-chunks:{tag}:{"singletons" if (sizes == 1).any() else "no-singletons"}')
            try:
                with warnings.catch_warnings():
                    warnings.simplefilter('ignore')
                    got = RCA().fit(X2, ch2).pair_distance(Q2)
            except Exception as e:
                R.violation(f'RCA/{tag}-raises-{type(e).__name__}', f'RCA: fit on the {tag} of the data raised {type(e).__name__}', case); continue
            scale = max(np.abs(want).max(), 1e-300)
            if np.abs(got - want).max() > tol * scale:
                R.violation(f'RCA/{tag}', f'RCA (chunklets of sizes {sorted(sizes.tolist())}): learned distances change under {tag} (max relative deviation {np.abs(got - want).max() / scale:.3g})', case)
    large_itml_probe(R, rng)
    singular_covariance_probe(R, rng, 6 if tier == 'quick' else 40)
    if driver_ok and lines:
        outs = lean_run(lines)
        for i, mt in enumerate(meta):
            if mt is None:
                continue
            a, b = parse_ok_floats(outs[i]), parse_ok_floats(outs[i + 1])
            if a is None or b is None or np.abs(a - b).max() > 1e-12 * max(np.abs(a).max(), 1e-300):
                R.broken('correspondence:C19:cov-translate', 'the model covariance changes under a dyadic translation', {'line': i})
        R.extra['traces_validated_against_impl'] = len(lines)


def singular_covariance_probe(R, rng, reps):
    """Covariance (and MMC started from the covariance) on data whose covariance is singular among non-constant features — a
    feature that is a combination of the others, or no more samples than features: the Moore–Penrose inverse of QᵀCQ is
    Qᵀ C⁺ Q, so the learned matrix still turns with the data (and follows the units of the data)"""
    from metric_learn import Covariance, MMC
    for rep in range(reps):
        d = int(rng.randint(3, 6))
        if rep % 2 == 0:
            Z = np.round(rng.randn(4 * d, d - 1) * 8) / 4.0 * (1 + np.arange(d - 1))
            X = np.hstack([Z, Z.dot(np.round(rng.randn(d - 1, 1) * 2) / 2.0 + 0.5)])          # last feature: a combination of the others
            kind = 'dependent-feature'
        else:
            X = np.round(rng.randn(d - 1, d) * 8) / 4.0 * (1 + np.arange(d)); kind = 'fewer-samples-than-features'
        Q = np.linalg.qr(rng.randn(d, d))[0]
        with warnings.catch_warnings():
            warnings.simplefilter('ignore')
            M0 = Covariance().fit(X).get_mahalanobis_matrix(); M2 = Covariance().fit(X.dot(Q)).get_mahalanobis_matrix()
            M3 = Covariance().fit(X * 4.0).get_mahalanobis_matrix()
        case = {'est': 'Covariance', 'relation': 'rotation', 'X': X, 'Q': Q, 'note': f'singular covariance ({kind})'}
        R.case(('c19-singular-cov', kind, X.tobytes().hex()[:40]), True, sample={'est': 'Covariance', 'relation': 'rotation', 'kind': kind, 'd': d}, branch='singular-covariance-' + kind)
        if not (np.all(np.isfinite(M0)) and np.all(np.isfinite(M2))):
            R.violation('Covariance/rotation', f'Covariance on data with a singular covariance ({kind}) is not finite', case); continue
        # (the library cuts eigenvalues off at λmax·d·eps, which is the size of rounding noise itself: now and then a noise
        #  eigenvalue of the covariance survives the cut-off and is inverted to ~1e13 — in whichever orientation.  That is
        #  rounding, not the relation under test: such instances are counted and not judged)
        lam = np.linalg.eigvalsh(np.atleast_2d(np.cov(X, rowvar=False)))
        clean_top = 10.0 / lam[lam > 1e-9 * lam.max()].min()
        if max(np.linalg.eigvalsh(M0).max(), np.linalg.eigvalsh(M2).max(), 16 * np.linalg.eigvalsh(M3).max()) > clean_top:
            R.count('singular-covariance: a noise eigenvalue survived the rank cut-off (not judged)'); continue
        if rel(Q.T.dot(M0).dot(Q), M2) > 1e-6:
            R.violation('Covariance/rotation', f'Covariance, singular covariance ({kind}): M learned on rotated data differs from QᵀMQ by {rel(Q.T.dot(M0).dot(Q), M2):.3g} (relative)', case)
        if rel(M0 / 16.0, M3) > 1e-9:
            R.violation('Covariance/scaling', f'Covariance, singular covariance ({kind}): scaling the data by 4 does not scale M by 1/16 ({rel(M0 / 16.0, M3):.3g})', dict(case, relation='scaling'))
        if kind == 'dependent-feature':
            idx = rng.randint(0, len(X), size=(12, 2)); idx = idx[idx[:, 0] != idx[:, 1]]
            yy = np.where(np.arange(len(idx)) % 2 == 0, 1, -1)
            try:
                with warnings.catch_warnings():
                    warnings.simplefilter('ignore')
                    A0 = MMC(init='covariance', max_iter=0).fit(X[idx], yy).get_mahalanobis_matrix()
                    A2 = MMC(init='covariance', max_iter=0).fit(X.dot(Q)[idx], yy).get_mahalanobis_matrix()
                R.case(('c19-singular-cov-mmc', X.tobytes().hex()[:40]), True, branch='singular-covariance-mmc-init')
                lamp = np.linalg.eigvalsh(np.cov(np.unique(X[idx].reshape(-1, d), axis=0), rowvar=False))
                if max(np.linalg.eigvalsh(A0).max(), np.linalg.eigvalsh(A2).max()) > 10.0 / lamp[lamp > 1e-9 * lamp.max()].min():
                    R.count('singular-covariance: a noise eigenvalue survived the rank cut-off (not judged)'); continue
                if rel(Q.T.dot(A0).dot(Q), A2) > 1e-6:
                    R.violation('MMC/rotation', f"MMC(init='covariance') on pairs whose points have a singular covariance: the initial matrix on rotated data differs from QᵀMQ by {rel(Q.T.dot(A0).dot(Q), A2):.3g}", dict(case, est='MMC', pairs=idx))
            except Exception as e:
                R.count(f'singular-covariance-mmc-init: fit raised {type(e).__name__}')


def large_itml_probe(R, rng):
    """ITML on a pair set with more than a thousand distinct points (default bounds: percentiles over all of them): an
    orthogonal map of the data — a rotation, a permutation of the features — maps the learned matrix to QᵀMQ"""
    from metric_learn import ITML
    d, npairs = 3, 720
    P = np.round(rng.randn(npairs, 2, d) * 64) / 16.0
    P[:, 1] += np.where(rng.rand(npairs, 1) < 0.5, 0.25, 3.0)
    yy = np.where(np.linalg.norm(P[:, 0] - P[:, 1], axis=1) < np.median(np.linalg.norm(P[:, 0] - P[:, 1], axis=1)), 1, -1)
    sd = int(rng.randint(1 << 30))
    with warnings.catch_warnings():
        warnings.simplefilter('ignore')
        M0 = ITML(max_iter=25, random_state=sd).fit(P, yy).get_mahalanobis_matrix()
        for tag, Q in (('feature-permutation', np.eye(d)[:, [2, 0, 1]]), ('rotation', np.linalg.qr(rng.randn(d, d))[0])):
            R.case(('c19-large-itml', tag, P.tobytes().hex()[:40]), True, sample={'est': 'ITML', 'relation': tag, 'distinct_points': int(len(np.unique(P.reshape(-1, d), axis=0)))}, branch='large-data-' + tag)
            M2 = ITML(max_iter=25, random_state=sd).fit(P.dot(Q), yy).get_mahalanobis_matrix()
            want = Q.T.dot(M0).dot(Q)
            rel_ = np.abs(M2 - want).max() / max(np.abs(want).max(), 1e-300)
            if rel_ > 1e-5:
                R.violation('ITML/rotation', f'ITML on {len(np.unique(P.reshape(-1, d), axis=0))} distinct points: M learned on data mapped through an orthogonal Q ({tag}) differs from QᵀMQ by {rel_:.3g} (relative)', {'est': 'ITML', 'relation': tag, 'pairs': P[:50], 'n_pairs': npairs})


def replay(R, obj):
    print(obj.get('what'))
    return 0
