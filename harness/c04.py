"""C04 — tuple classifiers decide exactly by comparing learned distances.

The model (Rat twin) is fed the implementation's own distances; decisions must match exactly.
Oracle (implementation alone): predict == (distance <= threshold_), decision_function == -distance,
score == AUC; triplets/quadruplets decisions, ties, swap negation."""
import warnings
from fractions import Fraction
import numpy as np
from common import bits, lean_run, parse_ok_floats, parse_rat, quiet, f2b
import zoo


def tie_tuples(rng, X, t, n):
    """test tuples of size t with ties: duplicated members, identical points, integer-exact geometries"""
    d = X.shape[1]
    lo, hi = X.min(0), X.max(0)
    T = lo + (hi - lo) * rng.rand(n, t, d)
    for i in range(n):
        r = rng.rand()
        if r < 0.15:
            T[i, 1] = T[i, 0]                       # identical points in the first pair
        elif r < 0.3 and t >= 3:
            T[i, 2] = T[i, 1]                       # b == c  → tied triplet
        elif r < 0.4 and t == 4:
            T[i, 2], T[i, 3] = T[i, 0], T[i, 1]     # same pair twice → tied quadruplet
        elif r < 0.5 and t == 4:
            T[i, 2], T[i, 3] = T[i, 1], T[i, 0]     # swapped pair → tied quadruplet
        elif r < 0.6:
            T[i] = np.round(T[i])                   # integer geometry
        elif r < 0.65:
            T[i] = T[i, 0]                          # all identical
    return T


def mann_whitney(scores, labels):
    pos = [Fraction(s) for s, l in zip(scores, labels) if l == 1]
    neg = [Fraction(s) for s, l in zip(scores, labels) if l == -1]
    w = Fraction(0)
    for p in pos:
        for q in neg:
            w += 1 if p > q else (Fraction(1, 2) if p == q else 0)
    return w / (len(pos) * len(neg))


def run(R, tier, seed, driver_ok):
    quiet()
    rng = np.random.RandomState(seed + 404)
    reps = 2 if tier == 'quick' else 10
    ntup = 40 if tier == 'quick' else 150
    R.rule = ('ITML/MMC/SDML (pairs), SCML (triplets), LSML (quadruplets), formed and through preprocessors; test tuples with '
              'ties (identical points, b==c, same pair twice, integer geometry); thresholds from fit, calibrate_threshold and '
              'set_threshold(observed distance / other). case = (estimator, threshold source, tuple); non-trivial = tuple members not all equal')
    R.assumptions = ['roc_auc_score is assumed to be the Mann–Whitney statistic with half credit for ties (checked per call)']
    lines, meta = [], []

    def add(line, kind, payload):
        if driver_ok:
            lines.append(line)
            meta.append((kind, payload))

    for rep in range(reps):
        for name in ['ITML', 'MMC', 'SDML', 'SCML', 'LSML']:
            pre = [None, 'array', 'callable', 'list'][int(rng.randint(4))] if rep % 2 else None
            d = int(rng.randint(2, 5))
            extra = None
            est, X, y, args = zoo.fitted(name, rng, d=d, preprocessor=pre, extra_pool=extra)
            t = zoo.TUPLE_SIZE[name]
            T = tie_tuples(rng, X, t, ntup)
            label = f'{name}[pre={pre}]'
            if name in zoo.PAIRS:
                yv = np.where(rng.rand(ntup) < 0.5, 1, -1)
                yv[0], yv[1] = 1, -1
                dist = est.pair_distance(T)
                sources = [('fit', None)]
                obs = float(dist[int(rng.randint(ntup))])
                sources += [('set-observed', obs), ('set-other', float(np.median(dist)) * 1.1 + 0.01), ('set-zero', 0.0),
                            ('set-int', 1), ('calibrate', None)]
                for src, val in sources:
                    if src.startswith('set'):
                        est.set_threshold(val)
                        if est.threshold_ != float(val):
                            R.violation('set_threshold-not-stored', f'{label}: set_threshold({val!r}) stored {est.threshold_!r}', {'est': label})
                    elif src == 'calibrate':
                        est.calibrate_threshold(T, yv)
                    thr = est.threshold_
                    dec = est.decision_function(T)
                    pred = est.predict(T)
                    sc = est.score(T, yv)
                    case = {'est': label, 'threshold_source': src, 'threshold': thr, 'tuples': T, 'L': est.components_}
                    if not np.array_equal(dec, -dist):
                        R.violation('pairs-decision', f'{label}: decision_function != -pair_distance', case)
                    want = np.where(dist <= thr, 1, -1)
                    if not np.array_equal(np.asarray(pred), want):
                        i = int(np.nonzero(np.asarray(pred) != want)[0][0])
                        R.violation('pairs-predict', f'{label}: predict={pred[i]} but distance {dist[i]!r} vs threshold {thr!r} ({src})', case)
                    auc = mann_whitney(dec, yv)
                    if abs(float(auc) - sc) > 1e-12:
                        R.violation('pairs-score', f'{label}: score {sc!r} != ROC-AUC {float(auc)!r}', case)
                    for i in range(ntup):
                        R.case(('c04', label, src, T[i].tobytes().hex(), f2b(thr)), not np.all(T[i] == T[i, 0]),
                               sample={'est': label, 'src': src, 'thr': thr, 'distance': dist[i], 'predict': (int(pred[i]) if np.isfinite(pred[i]) else None)},
                               branch=f'pairs:{src}:{"tie" if dist[i] == thr else "lt" if dist[i] < thr else "gt"}')
                    add(f'predict_pair {ntup} {f2b(thr)} {bits(dist)}', 'ints', (np.asarray(pred).astype(int), 'predict_pair', case))
                    add(f'auc {ntup} {bits(dec)} {" ".join(map(str, yv))}', 'rat', (sc, 1e-12, 'auc', case))
                # non-numeric thresholds
                for bad in ['abc', None, [1, 2], object()]:
                    try:
                        est.set_threshold(bad)
                        R.violation('set_threshold-accepts', f'{label}: set_threshold({bad!r}) accepted', {'est': label})
                    except ValueError:
                        pass
                    except Exception as e:
                        R.violation('set_threshold-wrong-exc', f'{label}: set_threshold({bad!r}) raised {type(e).__name__}', {'est': label})
                # through a preprocessor: indices must give the formed result
                if pre is not None:
                    n = len(X)
                    idx = rng.randint(0, n, size=(ntup, 2))
                    if not (np.array_equal(est.predict(idx), est.predict(X[idx])) and
                            np.array_equal(est.decision_function(idx), est.decision_function(X[idx]))):
                        R.violation('pairs-indices', f'{label}: predict/decision_function differ between indices and formed pairs', {'est': label})
            elif name == 'SCML':
                dab = est.pair_distance(T[:, [0, 1]]); dac = est.pair_distance(T[:, [0, 2]])
                dec = est.decision_function(T); pred = np.asarray(est.predict(T)); sc = est.score(T)
                case = {'est': label, 'tuples': T, 'L': est.components_}
                want_dec = (-dab) - (-dac)
                if not (np.all(np.isfinite(dec)) and np.all(np.isfinite(pred))):
                    R.violation('triplet-nonfinite', f'{label}: decision_function / predict returned a non-finite value (tuples with coinciding members)', case)
                if not np.array_equal(dec, want_dec):
                    R.violation('triplet-decision', f'{label}: decision_function != d(a,c) - d(a,b)', case)
                want = np.where(dab < dac, 1, -1)
                if not np.array_equal(pred, want):
                    R.violation('triplet-predict', f'{label}: predict != (d(a,b) < d(a,c))', case)
                frac = Fraction(int((pred == 1).sum()), ntup)
                if abs(float(frac) - sc) > 1e-15:
                    R.violation('triplet-score', f'{label}: score {sc!r} != fraction predicted +1 {float(frac)!r}', case)
                sw = est.decision_function(T[:, [0, 2, 1]])
                if not np.array_equal(sw, -dec):
                    R.violation('triplet-swap', f'{label}: swapping b,c does not negate the decision function', case)
                for i in range(ntup):
                    R.case(('c04', label, T[i].tobytes().hex()), not np.all(T[i] == T[i, 0]),
                           sample={'est': label, 'dab': dab[i], 'dac': dac[i], 'predict': (int(pred[i]) if np.isfinite(pred[i]) else None)},
                           branch=f'triplet:{"tie" if dab[i] == dac[i] else "lt" if dab[i] < dac[i] else "gt"}')
                add(f'decision_trip {ntup} {bits(dab)} {bits(dac)}', 'floats', (dec, 0.0, 'decision_trip', case))
                add(f'predict_trip {ntup} {bits(dab)} {bits(dac)}', 'ints', (np.nan_to_num(pred, nan=-99).astype(int), 'predict_trip', case))
                add(f'score_frac {ntup} {" ".join(map(str, np.nan_to_num(pred, nan=-99).astype(int)))}', 'rat', (sc, 1e-15, 'score_frac', case))
                if pre is not None:
                    idx = rng.randint(0, len(X), size=(ntup, 3))
                    if not np.array_equal(est.decision_function(idx), est.decision_function(X[idx])):
                        R.violation('triplet-indices', f'{label}: decision_function differs between indices and formed triplets', {'est': label})
            else:  # LSML
                dab = est.pair_distance(T[:, [0, 1]]); dcd = est.pair_distance(T[:, [2, 3]])
                dec = est.decision_function(T); pred = np.asarray(est.predict(T)); sc = est.score(T)
                case = {'est': label, 'tuples': T, 'L': est.components_}
                if not (np.all(np.isfinite(dec)) and np.all(np.isfinite(pred))):
                    R.violation('quad-nonfinite', f'{label}: decision_function / predict returned a non-finite value (tuples with coinciding members)', case)
                if not np.array_equal(dec, (-dab) - (-dcd)):
                    R.violation('quad-decision', f'{label}: decision_function != d(c,d) - d(a,b)', case)
                want = np.where(dab < dcd, 1, np.where(dcd < dab, -1, 0))
                if not np.array_equal(pred, want):
                    R.violation('quad-predict', f'{label}: predict != sign(d(c,d) - d(a,b))', case)
                sw = est.decision_function(T[:, [2, 3, 0, 1]])
                if not np.array_equal(sw, -dec):
                    R.violation('quad-swap', f'{label}: swapping the pairs does not negate the decision function', case)
                for i in range(ntup):
                    R.case(('c04', label, T[i].tobytes().hex()), not np.all(T[i] == T[i, 0]),
                           sample={'est': label, 'dab': dab[i], 'dcd': dcd[i], 'predict': (int(pred[i]) if np.isfinite(pred[i]) else None)},
                           branch=f'quad:{"tie" if dab[i] == dcd[i] else "lt" if dab[i] < dcd[i] else "gt"}')
                add(f'decision_quad {ntup} {bits(dab)} {bits(dcd)}', 'floats', (dec, 0.0, 'decision_quad', case))
                add(f'predict_quad {ntup} {bits(dab)} {bits(dcd)}', 'ints', (np.nan_to_num(pred, nan=-99).astype(int), 'predict_quad', case))
                if pre is not None:
                    idx = rng.randint(0, len(X), size=(ntup, 4))
                    if not np.array_equal(est.decision_function(idx), est.decision_function(X[idx])):
                        R.violation('quad-indices', f'{label}: decision_function differs between indices and formed quadruplets', {'est': label})
    # ---- many tuples in one call (a number that is no round figure): score is still the fraction predicted +1 over ALL of them
    for name in ('SCML', 'LSML'):
        est, X, y, args = zoo.fitted(name, rng)
        t = zoo.TUPLE_SIZE[name]
        for nbig in (int(rng.randint(1100, 1900)), int(rng.randint(2100, 3300))):
            lo, hi = X.min(0), X.max(0)
            Tb = lo + (hi - lo) * rng.rand(nbig, t, X.shape[1])
            Tb = Tb[np.argsort(est.decision_function(Tb))]                 # unevenly spread predictions
            pred = np.asarray(est.predict(Tb)); sc = float(est.score(Tb))
            want = float(np.mean(pred == 1)) if name == 'SCML' else float(np.mean(pred) / 2 + 0.5)
            R.case(('c04-big', name, nbig, Tb.tobytes().hex()[:40]), True, sample={'est': name, 'n_tuples': nbig}, branch='score:large-batch')
            if abs(sc - want) > 1e-12:
                R.violation(f'{"triplet" if name == "SCML" else "quad"}-score', f'{name}: score of {nbig} tuples is {sc!r}, the predictions give {want!r}', {'est': name, 'n': nbig})
            dec = est.decision_function(Tb)
            for i_ in rng.choice(nbig, 12, replace=False).tolist() + [nbig - 1]:
                if float(est.decision_function(Tb[i_:i_ + 1])[0]) != float(dec[i_]) and abs(float(est.decision_function(Tb[i_:i_ + 1])[0]) - float(dec[i_])) > 1e-12 * (1 + abs(float(dec[i_]))):
                    R.violation(f'{"triplet" if name == "SCML" else "quad"}-decision', f'{name}: decision of tuple {i_} depends on the batch it is asked in', {'est': name, 'n': nbig}); break
    if driver_ok and lines:
        outs = lean_run(lines)
        for o, (kind, payload) in zip(outs, meta):
            tk = o.split()
            if not tk or tk[0] != 'ok':
                R.broken('driver:C04', f'model driver answered {o[:80]}', payload[-1])
                continue
            if kind == 'ints':
                impl, what, case = payload
                got = np.array([int(x) for x in tk[1:]])
                if not np.array_equal(got, impl):
                    R.broken(f'correspondence:C04:{what}', f"{case['est']}: model decisions differ from the implementation's", case)
            elif kind == 'rat':
                impl, tol, what, case = payload
                v = float(parse_rat(tk[1]))
                if abs(v - impl) > tol:
                    R.broken(f'correspondence:C04:{what}', f"{case['est']}: model {v!r} vs implementation {impl!r}", case)
            else:
                impl, tol, what, case = payload
                v = parse_ok_floats(o)
                if not np.array_equal(v, impl):
                    R.broken(f'correspondence:C04:{what}', f"{case['est']}: model decision values differ bitwise", case)
        R.extra['traces_validated_against_impl'] = len(lines)


def replay(R, obj):
    print(obj.get('what'))
    return 0
