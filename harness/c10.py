"""C10 — gradient-based learners optimise the objective they document.

The function handed to scipy.optimize.minimize (NCA, MLKR) and LMNN's _loss_grad are captured in-process.
Correspondence: the model's documented objective (Float twin) vs the captured value at random
transformations L (incl. k < d) and at the iterates of real fits.  Oracle: central finite differences of
the documented objective vs the captured gradient; the returned transformation is never worse than the
initial one; LMNN's accepted objectives are non-increasing; with zero iterations the result is the
initialisation."""
import contextlib
import io
import re
import warnings
import numpy as np
from common import bits, lean_run, parse_ok_floats, quiet, f2b
import zoo
import metric_learn.nca as mnca
import metric_learn.mlkr as mmlkr
import metric_learn.lmnn as mlmnn
from metric_learn import NCA, MLKR, LMNN


def softmax_rows(E):
    n = len(E)
    P = np.exp(-(E - E.min(axis=1, keepdims=True) * 0))
    np.fill_diagonal(P, 0.0)
    return P / P.sum(1, keepdims=True)


def nca_doc(L, X, y):
    Z = X.dot(L.T); E = ((Z[:, None] - Z[None]) ** 2).sum(-1)
    E = E - np.where(np.eye(len(X), dtype=bool), 0, 0)
    P = np.exp(-(E - np.min(E + np.diag([np.inf] * len(X)), axis=1, keepdims=True)))
    np.fill_diagonal(P, 0.0)
    P /= P.sum(1, keepdims=True)
    return (P * (y[:, None] == y[None])).sum()


def mlkr_doc(L, X, y):
    Z = X.dot(L.T); E = ((Z[:, None] - Z[None]) ** 2).sum(-1)
    P = np.exp(-(E - np.min(E + np.diag([np.inf] * len(X)), axis=1, keepdims=True)))
    np.fill_diagonal(P, 0.0)
    P /= P.sum(1, keepdims=True)
    return ((P.dot(y) - y) ** 2).sum()


def lmnn_doc(L, X, y, targets, reg):
    Z = X.dot(L.T); E = ((Z[:, None] - Z[None]) ** 2).sum(-1)
    pull = sum(E[i, j] for i in range(len(X)) for j in targets[i])
    push = 0.0
    for i in range(len(X)):
        diff = y != y[i]
        for j in targets[i]:
            push += np.maximum(0, 1 + E[i, j] - E[i, diff]).sum()
    return reg * pull + (1 - reg) * push


def fd_grad(f, L, h=1e-6):
    G = np.zeros_like(L)
    for idx in np.ndindex(*L.shape):
        Lp = L.copy(); Lm = L.copy(); Lp[idx] += h; Lm[idx] -= h
        G[idx] = (f(Lp) - f(Lm)) / (2 * h)
    return G


def run(R, tier, seed, driver_ok):
    quiet()
    rng = np.random.RandomState(seed + 1010)
    reps = 8 if tier == 'quick' else 60
    R.rule = ('NCA / MLKR / LMNN on generated (X, y) (y real-valued for MLKR) × init options × n_neighbors × regularization × max_iter ≥ 0; '
              'random L ∈ R^{k×d} incl. k < d and the iterates of real fits. case = (learner, data, L or options); all non-trivial')
    R.assumptions = ['SciPy L-BFGS-B is external: "never worse than x0" is checked per fit', 'finite differences with h=1e-6 (relative tolerance 1e-4)']
    lines, meta = [], []
    clines, cmeta = [], []
    glines, gmeta = [], []
    rlines, rmeta = [], []
    for rep in range(reps):
        d = int(rng.randint(2, 5))
        X, y = zoo.blobs(rng, d, int(rng.randint(2, 4)))
        X = X / 2.0                     # keep exp(−d²) away from underflow so that gradients are informative
        n = len(X)
        # ------------------------------------------------------------ NCA / MLKR
        for name in ('NCA', 'MLKR'):
            mod = mnca if name == 'NCA' else mmlkr
            yy = y if name == 'NCA' else (y + 0.3 * rng.randn(n))
            Xa = X
            if name == 'NCA' and rep % 3 == 1:
                # points that are alone in their class, lying among the others: they have no same-class neighbour themselves but
                # are possible (wrong) neighbours of every other point
                ns = int(rng.randint(1, 4))
                Xs = X[rng.choice(n, ns, replace=False)] + 0.3 * rng.randn(ns, d)
                Xa = np.vstack([X, Xs]); yy = np.concatenate([y, y.max() + 1 + np.arange(ns)])
                p_ = rng.permutation(len(yy)); Xa, yy = Xa[p_], yy[p_]
            cap = {}
            orig = mod.minimize

            def spy(*a, **k):
                fun = k.get('fun', a[0] if a else None)
                args = k.get('args', a[2] if len(a) > 2 else ())
                x0 = k.get('x0', a[1] if len(a) > 1 else None)
                cap['fun'] = fun; cap['args'] = args; cap['x0'] = np.array(x0, copy=True)
                res = orig(*a, **k)
                cap['nit'] = res.nit
                return res
            mod.minimize = spy
            init = ['auto', 'pca', 'identity', 'random'][rep % 4]
            nc = [None, 1, d][rep % 3]
            max_iter = [0, 5, 30][rep % 3]
            try:
                with warnings.catch_warnings():
                    warnings.simplefilter('ignore')
                    est = (NCA if name == 'NCA' else MLKR)(init=init, n_components=nc, max_iter=max_iter, random_state=int(rng.randint(1 << 30))).fit(Xa, yy)
            except Exception as e:
                R.violation(f'{name}/fit-raises-{type(e).__name__}', f'{name}.fit raised {type(e).__name__}: {str(e)[:200]}', {'learner': name}); continue
            finally:
                mod.minimize = orig
            k = d if nc is None else nc
            L0 = cap['x0'].reshape(k, d)
            Lf = np.asarray(est.components_)
            doc = (lambda L_: nca_doc(L_, Xa, yy)) if name == 'NCA' else (lambda L_: mlkr_doc(L_, Xa, yy))
            case = {'learner': name, 'init': init, 'n_components': nc, 'max_iter': max_iter, 'X': Xa, 'y': yy}
            R.case(('c10', name, Xa.tobytes().hex()[:48], init, nc, max_iter), True,
                   sample={'learner': name, 'n': len(Xa), 'd': d, 'init': init, 'n_components': nc, 'max_iter': max_iter, 'nit': int(cap['nit'])}, branch=f'{name}:fit')
            o0, of = doc(L0), doc(Lf)
            if name == 'NCA' and of < o0 - 1e-9 * max(1, abs(o0)):
                R.violation('NCA/worse-than-init', f'NCA objective at the result ({of:.8g}) is smaller than at the initialisation ({o0:.8g})', case)
            if name == 'MLKR' and of > o0 + 1e-9 * max(1, abs(o0)):
                R.violation('MLKR/worse-than-init', f'MLKR cost at the result ({of:.8g}) is larger than at the initialisation ({o0:.8g})', case)
            if cap['nit'] == 0 and not np.array_equal(Lf, L0):
                R.violation(f'{name}/zero-iterations-changed-init', f'{name}: zero optimiser iterations but components_ differs from the initialisation', case)
            # value and gradient that drive the optimiser, at random L and at the fitted L
            pts = [rng.randn(kk, d) * rng.uniform(0.2, 1.5) for kk in (1, max(1, d - 1), d)] + [Lf]
            for Lr in pts:
                est.n_iter_ = 1
                val, grad = cap['fun'](Lr.ravel().copy(), *cap['args'])
                sign = -1.0 if name == 'NCA' else 1.0
                val, grad = sign * val, sign * np.asarray(grad).reshape(Lr.shape)
                dv = doc(Lr)
                c2 = dict(case, L=Lr)
                R.case(('c10', name, Xa.tobytes().hex()[:32], Lr.tobytes().hex()), True, branch=f'{name}:value-gradient:k={"<d" if Lr.shape[0] < d else "d"}')
                if abs(val - dv) > 1e-9 * max(1.0, abs(dv)):
                    R.violation(f'{name}/value-differs-from-documented', f'{name}: value driving the optimiser {val:.10g} ≠ documented objective {dv:.10g}', c2)
                G = fd_grad(doc, Lr)
                if np.abs(G - grad).max() > 1e-4 * max(1e-3, np.abs(G).max()) + 1e-7:
                    R.violation(f'{name}/gradient-differs-from-derivative', f'{name}: gradient driving the optimiser differs from the derivative of the documented objective (max diff {np.abs(G - grad).max():.3g}, scale {np.abs(G).max():.3g})', c2)
                op = 'nca_obj' if name == 'NCA' else 'mlkr_obj'
                ys = ' '.join(map(str, yy.tolist())) if name == 'NCA' else bits(yy)
                lines.append(f'{op} {Lr.shape[0]} {d} {len(Xa)} {bits(Lr)} {bits(Xa)} {ys}')
                meta.append((val, 1e-9 * max(1.0, abs(val)), op, c2))
                # the gradient: the model's transcription of the code's W_sym route (C10_nca_gradient / C10_mlkr_gradient prove
                # it to be the derivative of the documented objective) against the array handed to L-BFGS
                gop = 'nca_grad' if name == 'NCA' else 'mlkr_grad'
                glines.append(f'{gop} {Lr.shape[0]} {d} {len(Xa)} {bits(Lr)} {bits(Xa)} {ys}')
                gmeta.append((grad.copy(), gop, c2))
        # ------------------------------------------------------------ LMNN
        kk = int(rng.choice([1, 2, 2, 3, 3]))
        kk = min(kk, int(np.bincount(y).min()) - 1)
        reg = float(rng.choice([0.2, 0.5, 0.8]))
        init = ['identity', 'pca', 'random', 'auto', 'array', 'array'][rep % 6]
        if init == 'array':
            # a strongly anisotropic transformation: the order of the target neighbours by distance differs from the Euclidean one
            Qi = np.linalg.qr(rng.randn(d, d))[0]
            init = (Qi * 10.0 ** rng.uniform(-1, 1, size=d)).dot(Qi.T)
        nc = [None, max(1, d - 1)][rep % 2]
        if rep % 3 == 2:
            # a geometry in which the learned order of the target neighbours is the reverse of their Euclidean order and only the
            # NEAREST one has impostors inside its margin: class 0 is an a×b rectangle (nearest same-class point across the short
            # side a, second nearest across the long side b), class 1 a tight cluster below it, and the initial transformation
            # squeezes the long side; all of it rotated into d dimensions
            a_, b_, gap = rng.uniform(1.0, 1.1), rng.uniform(1.45, 1.7), rng.uniform(1.2, 1.36)
            P2 = np.array([[0, 0], [0, a_], [b_, 0], [b_, a_]] + [[b_ / 2 + rng.uniform(-0.1, 0.1), -gap - rng.uniform(0, 0.15)] for _ in range(int(rng.randint(4, 7)))])
            P2[:4] += 1e-3 * rng.randn(4, 2)
            Qg = np.linalg.qr(rng.randn(d, d))[0]
            X = np.hstack([P2, np.zeros((len(P2), d - 2))]).dot(Qg.T); y = np.array([0] * 4 + [1] * (len(P2) - 4)); n = len(X)
            init = np.diag([0.1] + [1.0] * (d - 1)).dot(Qg.T); nc = None; kk = 2
            R.count('LMNN:reordered-target-neighbours geometry')
        init_label = init if isinstance(init, str) else 'array'
        if not isinstance(init, str) and nc is not None:
            init = np.ascontiguousarray(init[:nc])
        max_iter = [0, 1, 2, 30, 60][rep % 5]
        # step sizes that need halving, an early convergence test that can fire inside the budget
        lr_ = float([1e-4, 1e-2, 1e-3, 1.0][rep % 4]); min_it_ = int([50, 3, 10][rep % 3]); ctol_ = float([1e-3, 1e-1, 1.0][rep % 3])
        cap = {'calls': [], 'targets': None, 'init': None}
        o_lg = LMNN._loss_grad; o_st = LMNN._select_targets; o_ic = mlmnn._initialize_components

        def spy_lg(self, X_, L_, dfG, k_, reg_, tn, li):
            out = o_lg(self, X_, L_, dfG, k_, reg_, tn, li)
            cap['calls'].append((np.array(L_, copy=True), float(out[1]), np.array(out[0], copy=True), int(out[2])))
            cap['args'] = (X_, dfG, k_, reg_, tn, li)
            return out

        def spy_st(self, X_, li):
            t = o_st(self, X_, li); cap['targets'] = np.array(t, copy=True); return t

        def spy_ic(*a, **k_):
            out = o_ic(*a, **k_); cap['init'] = np.array(out, copy=True); return out
        LMNN._loss_grad = spy_lg; LMNN._select_targets = spy_st; mlmnn._initialize_components = spy_ic
        buf = io.StringIO()
        try:
            with warnings.catch_warnings(), contextlib.redirect_stdout(buf):
                warnings.simplefilter('ignore')
                est = LMNN(init=init, n_neighbors=kk, regularization=reg, max_iter=max_iter, n_components=nc, learn_rate=lr_, min_iter=min_it_, convergence_tol=ctol_,
                           random_state=int(rng.randint(1 << 30)), verbose=True).fit(X, y)
        except Exception as e:
            R.violation(f'LMNN/fit-raises-{type(e).__name__}', f'LMNN.fit raised {type(e).__name__}: {str(e)[:200]}', {'learner': 'LMNN'}); continue
        finally:
            LMNN._loss_grad = o_lg; LMNN._select_targets = o_st; mlmnn._initialize_components = o_ic
        case = {'learner': 'LMNN', 'init': init_label, 'n_neighbors': kk, 'regularization': reg, 'max_iter': max_iter, 'n_components': nc, 'X': X, 'y': y}
        R.case(('c10', 'LMNN', X.tobytes().hex()[:48], init_label, kk, reg, max_iter, nc), True,
               sample={'learner': 'LMNN', 'n': n, 'd': d, 'init': init_label, 'n_neighbors': kk, 'regularization': reg, 'max_iter': max_iter}, branch='LMNN:fit')
        targets = cap['targets']
        # target neighbours are the k nearest same-class points (Euclidean)
        E0 = ((X[:, None] - X[None]) ** 2).sum(-1)
        for i in range(n):
            same = np.nonzero((y == y[i]) & (np.arange(n) != i))[0]
            best = np.sort(E0[i, same])[:kk]
            if not np.allclose(np.sort(E0[i, targets[i]]), best, rtol=1e-12, atol=0) or any(y[t] != y[i] or t == i for t in targets[i]):
                R.violation('LMNN/targets', f'target neighbours of point {i} are not its {kk} nearest same-class points', case); break
        doc = lambda L_: lmnn_doc(L_, X, y, targets, reg)
        Lf = np.asarray(est.components_)
        if max_iter <= 2 and not np.array_equal(Lf, cap['init']):
            R.violation('LMNN/zero-iterations-changed-init', f'LMNN(max_iter={max_iter}): components_ differs from the initialisation', case)
        if doc(Lf) > doc(cap['init']) + 1e-9 * max(1.0, abs(doc(cap['init']))):
            R.violation('LMNN/worse-than-init', 'LMNN objective at the result is larger than at the initialisation', case)
        # the whole loop, replayed by the model from the captured initialisation (and once more from an initialisation
        # perturbed in the last bit: how much this instance amplifies rounding calibrates the comparison)
        L0c = cap['init']
        tl = ' '.join(map(str, targets.ravel().tolist()))
        for Lst in (L0c, L0c * (1 + 2.2e-16 * rng.randn(*L0c.shape))):
            rlines.append(f'lmnn_run {L0c.shape[0]} {d} {n} {bits(Lst)} {bits(X)} {" ".join(map(str, y.tolist()))} {f2b(reg)} {kk} {tl} '
                          f'{f2b(lr_)} {max_iter} {int(est.min_iter)} {f2b(float(est.convergence_tol))}')
        rmeta.append((Lf.copy(), dict(case)))
        trace = [float(m.group(1)) for m in re.finditer(r'^\\d+ (\\S+) \\S+ \\d+ \\S+$', buf.getvalue(), flags=re.M)]
        if any(b > a + 1e-9 * max(1.0, abs(a)) for a, b in zip(trace, trace[1:])):
            R.violation('LMNN/accepted-objective-increased', 'LMNN accepted an iterate with a larger objective', case)
        sel = cap['calls'][:2] + cap['calls'][-2:] if len(cap['calls']) > 4 else cap['calls']
        # … and at transformations the fit never visits: random, strongly anisotropic ones (the order of the target neighbours by
        # learned distance then differs from their Euclidean order), of full and of reduced rank
        if cap.get('args') is not None:
            X_, dfG_, k_, reg_, tn_, li_ = cap['args']
            for kk_rows in (d, max(1, d - 1), d):
                Qr = np.linalg.qr(rng.randn(d, d))[0]
                Lr = (Qr * 10.0 ** rng.uniform(-1.2, 0.8, size=d)).dot(Qr.T)[:kk_rows] * rng.uniform(0.3, 1.5)
                try:
                    out_ = o_lg(est, X_, Lr, dfG_, k_, reg_, tn_, li_)
                    sel = sel + [(Lr.copy(), float(out_[1]), np.array(out_[0], copy=True), int(out_[2]))]
                except Exception as e:
                    R.violation(f'LMNN/loss-grad-raises-{type(e).__name__}', f'_loss_grad raised {type(e).__name__} at a random transformation: {str(e)[:120]}', case)
        for Lc, objc, Gc, nact in sel:
            c2 = dict(case, L=Lc)
            R.case(('c10', 'LMNN', X.tobytes().hex()[:32], Lc.tobytes().hex()), True, branch='LMNN:value-gradient')
            dv = doc(Lc)
            if abs(dv - objc) > 1e-9 * max(1.0, abs(dv)):
                R.violation('LMNN/value-differs-from-documented', f'LMNN objective {objc:.10g} ≠ documented pull+push objective {dv:.10g}', c2)
            # finite differences are only meaningful where no hinge changes sign within the difference step (the objective is
            # piecewise quadratic; C10_lmnn_gradient proves the gradient away from the kinks and the twin compares it exactly)
            EL0 = ((Lc.dot(X.T).T[:, None] - Lc.dot(X.T).T[None]) ** 2).sum(-1)
            hng = np.array([1 + EL0[i, j] - EL0[i, l] for i in range(n) for j in targets[i] for l in range(n) if y[l] != y[i]])
            fd_ok = not (hng.size and np.abs(hng).min() < 1e-4 * max(1.0, np.abs(EL0).max()))
            G = fd_grad(doc, Lc, h=1e-7) if fd_ok else Gc
            if not fd_ok:
                R.count('LMNN:finite-differences-skipped-near-kink')
            if np.abs(G - Gc).max() > 1e-3 * max(1e-3, np.abs(G).max()) + 1e-6:
                # the hinge is not differentiable at its kinks: confirm with a second step size before judging
                G2 = fd_grad(doc, Lc, h=1e-8)
                if np.abs(G2 - Gc).max() > 1e-3 * max(1e-3, np.abs(G2).max()) + 1e-5:
                    R.violation('LMNN/gradient-differs-from-derivative', f'LMNN gradient differs from the derivative of the documented objective (max diff {np.abs(G - Gc).max():.3g})', c2)
            lines.append(f'lmnn_obj {Lc.shape[0]} {d} {n} {bits(Lc)} {bits(X)} {" ".join(map(str, y.tolist()))} {f2b(reg)} {kk} ' + ' '.join(map(str, targets.ravel().tolist())))
            meta.append((objc, 1e-9 * max(1.0, abs(objc)), 'lmnn_obj', c2))
            # the code-level route (active-set count and ⟨L·G, L⟩; C10_lmnn_code_objective proves it equal to the
            # documented objective): value and number of active constraints against what _loss_grad returned
            EL = ((Lc.dot(X.T).T[:, None] - Lc.dot(X.T).T[None]) ** 2).sum(-1)
            hinge = np.array([1 + EL[i, j] - EL[i, l] for i in range(n) for j in targets[i] for l in range(n) if y[l] != y[i]])
            near_kink = bool(hinge.size and np.abs(hinge).min() < 1e-9 * max(1.0, np.abs(EL).max()))
            if not near_kink:
                glines.append(f'lmnn_grad {Lc.shape[0]} {d} {n} {bits(Lc)} {bits(X)} {" ".join(map(str, y.tolist()))} {f2b(reg)} {kk} ' + ' '.join(map(str, targets.ravel().tolist())))
                gmeta.append((Gc.copy(), 'lmnn_grad', c2))
            clines.append(f'lmnn_code_obj {Lc.shape[0]} {d} {n} {bits(Lc)} {bits(X)} {" ".join(map(str, y.tolist()))} {f2b(reg)} {kk} ' + ' '.join(map(str, targets.ravel().tolist())))
            cmeta.append((objc, nact, near_kink, c2))
    if driver_ok and lines:
        outs = lean_run(lines)
        for o, (val, tol, what, case) in zip(outs, meta):
            v = parse_ok_floats(o)
            if v is None or v.size != 1 or not abs(v[0] - val) <= tol:
                R.broken(f'correspondence:C10:{what}', f'documented objective (model) {None if v is None else v[0]} vs the value that drives the optimiser {val}', case)
        outs = lean_run(clines)
        for o, (val, nact, near_kink, case) in zip(outs, cmeta):
            tk = o.split()
            if tk[:1] != ['ok'] or len(tk) != 3:
                R.broken('driver:lmnn_code_obj', f'model driver answered {o[:80]}', case); continue
            v = parse_ok_floats('ok ' + tk[1])[0]
            if not abs(v - val) <= 1e-9 * max(1.0, abs(val)):
                R.broken('correspondence:C10:lmnn_code_obj', f'code-level model of _loss_grad gives {v}, the implementation {val}', case)
            elif int(tk[2]) != nact and not near_kink:
                R.broken('correspondence:C10:lmnn_total_active', f'code-level model counts {tk[2]} active constraints, the implementation {nact}', case)
        outs = lean_run(glines)
        worst = 0.0
        for o, (G, what, case) in zip(outs, gmeta):
            v = parse_ok_floats(o)
            # entries are sums of at most n² (n²·k for LMNN) terms of size ≤ |L|·|x − x'|²: near a stationary point the gradient
            # is far smaller than its summands, so the rounding floor is relative to the summands, not to the result
            Lc_, Xc_ = np.asarray(case['L']), np.asarray(case['X'])
            floor = 1e-3 * float(np.abs(Lc_).max()) * float(np.ptp(Xc_, axis=0).max()) ** 2 * len(Xc_)
            scale = max(1e-300, float(np.abs(G).max()), floor)
            if v is None or v.size != G.size or not np.all(np.isfinite(v)):
                R.broken(f'driver:{what}', f'model driver answered {o[:80]}', case); continue
            err = float(np.abs(v.reshape(G.shape) - G).max()) / scale
            worst = max(worst, err)
            if err > 1e-9:
                R.broken(f'correspondence:C10:{what}', f'gradient of the model (code route, proved to be the derivative) differs from the gradient that drives the optimiser: relative max difference {err:.3g}', case)
        R.count('gradient_traces', len(glines))
        outs = lean_run(rlines)
        worst_run = 0.0
        for i_, (Lf_, case) in enumerate(rmeta):
            v, vp = parse_ok_floats(outs[2 * i_]), parse_ok_floats(outs[2 * i_ + 1])
            if v is None or v.size != 2 + Lf_.size:
                R.broken('driver:lmnn_run', f'model driver answered {outs[2 * i_][:80]}', case); continue
            Lm = v[2:].reshape(Lf_.shape)
            scale = max(np.abs(Lf_).max(), 1e-300)
            sens = 1.0 if (vp is None or vp.size != v.size) else float(np.abs(vp[2:] - v[2:]).max()) / scale
            if 1e3 * sens > 1e-4:
                R.count('lmnn_run:skipped-rounding-sensitive'); continue     # a last-bit change of the start moves the result: no useful comparison
            rel = float(np.abs(Lm - Lf_).max()) / scale
            worst_run = max(worst_run, rel)
            if rel > 1e-8 + 1e3 * sens:
                R.broken('correspondence:C10:lmnn_run', f'the model of the fit loop (gradient steps, halving on increase, ×1.01, convergence test) ends at a transformation that differs from components_ by {rel:.3g} (relative; rounding sensitivity of the instance {sens:.3g})', case)
        R.count('lmnn_run_traces', len(rmeta))
        R.extra['lmnn_run_worst_relative_difference'] = worst_run
        R.extra['gradient_worst_relative_difference'] = worst
        R.count('lmnn_code_obj_traces', len(clines))
        R.extra['traces_validated_against_impl'] = len(lines) + len(clines) + len(glines)


def replay(R, obj):
    print(obj.get('what'))
    return 0
