"""C01 — the learned distance is a finite pseudo-metric.

Correspondence: pair_distance / get_metric()(u,v) / pair_score on fitted estimators vs the Lean
model (Float twin) evaluated on the fitted components_.
Oracle (implementation alone): finite, >=0, d(x,x)==0 exactly, d(x,y)==d(y,x) bitwise,
triangle inequality up to rounding, pair_score == -pair_distance bitwise, and the same for the
get_metric closure."""
import numpy as np
from common import bits, lean_run, parse_ok_floats, quiet
import zoo

REL = 1e-9


def tri_slack(a, b, normL=0.0, mag=0.0):
    """rounding allowance of the triangle inequality: relative to the two distances, plus the cancellation
    error of forming differences of points of magnitude `mag` before applying L"""
    return 1e-14 * (a + b) + 16 * 2.3e-16 * normL * mag + 1e-160


def run(R, tier, seed, driver_ok):
    quiet()
    rng = np.random.RandomState(seed)
    reps = 1 if tier == 'quick' else 6
    ntrip = 12 if tier == 'quick' else 60
    R.rule = ('17 estimators (+ low-rank variants) fitted on generated blobs; query triples in streams '
              'train/far/tiny/huge/dup/kernel; a case = (estimator, stream, triple); non-trivial = the three '
              'points are not all equal; distinct by hash of (estimator label, components_, triple)')
    R.assumptions = ['binary64 rounding is outside the model (theorems over ℝ); finiteness/bitwise symmetry checked on the implementation only']
    pop = zoo.population(rng, reps=reps)
    lines, meta = [], []
    for label, est, X, y in pop:
        L = np.asarray(est.components_)
        k, d = L.shape
        metric = est.get_metric()
        Lb = bits(L)
        for stream in zoo.STREAMS:
            P = zoo.query_points(rng, X, L, ntrip, stream)
            x, yv, z = P[:, 0], P[:, 1], P[:, 2]
            dxy = est.pair_distance(np.stack([x, yv], 1))
            dyx = est.pair_distance(np.stack([yv, x], 1))
            dyz = est.pair_distance(np.stack([yv, z], 1))
            dxz = est.pair_distance(np.stack([x, z], 1))
            dxx = est.pair_distance(np.stack([x, x], 1))
            sxy = est.pair_score(np.stack([x, yv], 1))
            normL = np.linalg.norm(L)
            for i in range(len(P)):
                case = {'est': label, 'stream': stream, 'L': L, 'x': x[i], 'y': yv[i], 'z': z[i]}
                nontriv = not (np.array_equal(x[i], yv[i]) and np.array_equal(yv[i], z[i]))
                R.case(('c01', label, L.tobytes().hex()[:64], P[i].tobytes().hex()), nontriv,
                       sample={'est': label, 'stream': stream, 'x': x[i], 'y': yv[i], 'z': z[i], 'd_xy': dxy[i]},
                       branch=f'{stream}')
                vals = [dxy[i], dyx[i], dyz[i], dxz[i], dxx[i]]
                if not all(np.isfinite(v) for v in vals):
                    R.violation('nonfinite', f'{label}: non-finite distance', case)
                    continue
                if min(vals) < 0:
                    R.violation('negative', f'{label}: negative distance {min(vals)}', case)
                if dxx[i] != 0:
                    R.violation('self-nonzero', f'{label}: d(x,x)={dxx[i]}', case)
                if dxy[i] != dyx[i]:
                    R.violation('asymmetric', f'{label}: d(x,y)={dxy[i]!r} d(y,x)={dyx[i]!r}', case)
                if dxz[i] > dxy[i] + dyz[i] + tri_slack(dxy[i], dyz[i], normL, np.abs(P[i]).sum()):
                    R.violation('triangle', f'{label}: d(x,z)={dxz[i]!r} > {dxy[i]!r}+{dyz[i]!r}', case)
                if sxy[i] != -dxy[i]:
                    R.violation('score-not-neg', f'{label}: pair_score={sxy[i]!r} pair_distance={dxy[i]!r}', case)
                # the get_metric closure
                m_xy = float(metric(x[i], yv[i])); m_yx = float(metric(yv[i], x[i]))
                m_xx = float(metric(x[i], x[i])); m_yz = float(metric(yv[i], z[i])); m_xz = float(metric(x[i], z[i]))
                scale = normL * np.linalg.norm(yv[i] - x[i])
                if not all(np.isfinite(v) for v in (m_xy, m_yx, m_xx, m_yz, m_xz)):
                    R.violation('metric-nonfinite', f'{label}: get_metric non-finite', case)
                    continue
                if m_xy < 0 or m_xx != 0 or m_xy != m_yx:
                    R.violation('metric-basic', f'{label}: get_metric: m(x,y)={m_xy!r} m(y,x)={m_yx!r} m(x,x)={m_xx!r}', case)
                if m_xz > m_xy + m_yz + tri_slack(m_xy, m_yz, normL, np.abs(P[i]).sum()):
                    R.violation('metric-triangle', f'{label}: get_metric triangle', case)
                if abs(m_xy - dxy[i]) > REL * scale + 1e-300:
                    R.violation('metric-vs-pair', f'{label}: get_metric {m_xy!r} vs pair_distance {dxy[i]!r}', case)
                # correspondence with the Lean model
                if driver_ok:
                    lines.append(f'dist {k} {d} {Lb} {bits(x[i])} {bits(yv[i])}')
                    meta.append(('pair_distance', dxy[i], scale, case))
                    lines.append(f'metric {k} {d} {Lb} 0 {bits(x[i])} {bits(yv[i])}')
                    meta.append(('get_metric', m_xy, scale, case))
                    lines.append(f'score {k} {d} {Lb} {bits(x[i])} {bits(yv[i])}')
                    meta.append(('pair_score', sxy[i], scale, case))
    if driver_ok and lines:
        outs = lean_run(lines)
        worst = 0.0
        for o, (what, impl, scale, case) in zip(outs, meta):
            v = parse_ok_floats(o)
            if v is None or len(v) != 1:
                R.broken('driver:' + what, f'model driver answered {o[:80]}', case)
                continue
            err = abs(v[0] - impl)
            if scale > 0:
                worst = max(worst, err / scale)
            if not err <= REL * scale + 1e-300:
                R.broken(f'correspondence:C01:{what}', f"{case['est']}: implementation {impl!r} vs model {v[0]!r} (scale {scale:.3g})", case)
        R.extra['worst_relative_model_gap'] = worst
        R.extra['traces_validated_against_impl'] = len(lines)


def replay(R, obj):
    print(obj.get('what'))
    return 0
