"""C01 — the learned distance is a finite pseudo-metric.

Correspondence: pair_distance / get_metric()(u,v) / pair_score on fitted estimators vs the Lean
model (Float twin) evaluated on the fitted components_.
Oracle (implementation alone): finite, >=0, d(x,x)==0 exactly, d(x,y)==d(y,x) bitwise,
triangle inequality up to rounding, pair_score == -pair_distance bitwise, and the same for the
get_metric closure."""
import numpy as np
from common import bits, lean_run, parse_ok_floats, quiet
import zoo

REL = 1e-9


def tri_slack(a, b, normL=0.0, mag=0.0):
    """rounding allowance of the triangle inequality: relative to the two distances, plus the cancellation
    error of forming differences of points of magnitude `mag` before applying L"""
    return 1e-14 * (a + b) + 16 * 2.3e-16 * normL * mag + 1e-160


def run(R, tier, seed, driver_ok):
    quiet()
    rng = np.random.RandomState(seed)
    reps = 1 if tier == 'quick' else 6
    ntrip = 12 if tier == 'quick' else 60
    R.rule = ('17 estimators (+ low-rank variants) fitted on generated blobs; query triples in streams '
              'train/far/tiny/huge/dup/kernel; a case = (estimator, stream, triple); non-trivial = the three '
              'points are not all equal; distinct by hash of (estimator label, components_, triple)')
    R.assumptions = ['binary64 rounding is outside the model (theorems over ℝ); finiteness/bitwise symmetry checked on the implementation only']
    pop = zoo.population(rng, reps=reps)
    lines, meta = [], []
    for label, est, X, y in pop:
        L = np.asarray(est.components_)
        k, d = L.shape
        metric = est.get_metric()
        Lb = bits(L)
        for stream in zoo.STREAMS:
            P = zoo.query_points(rng, X, L, ntrip, stream)
            x, yv, z = P[:, 0], P[:, 1], P[:, 2]
            dxy = est.pair_distance(np.stack([x, yv], 1))
            dyx = est.pair_distance(np.stack([yv, x], 1))
            dyz = est.pair_distance(np.stack([yv, z], 1))
            dxz = est.pair_distance(np.stack([x, z], 1))
            dxx = est.pair_distance(np.stack([x, x], 1))
            sxy = est.pair_score(np.stack([x, yv], 1))
            normL = np.linalg.norm(L)
            for i in range(len(P)):
                case = {'est': label, 'stream': stream, 'L': L, 'x': x[i], 'y': yv[i], 'z': z[i]}
                nontriv = not (np.array_equal(x[i], yv[i]) and np.array_equal(yv[i], z[i]))
                R.case(('c01', label, L.tobytes().hex()[:64], P[i].tobytes().hex()), nontriv,
                       sample={'est': label, 'stream': stream, 'x': x[i], 'y': yv[i], 'z': z[i], 'd_xy': dxy[i]},
                       branch=f'{stream}')
                vals = [dxy[i], dyx[i], dyz[i], dxz[i], dxx[i]]
                if not all(np.isfinite(v) for v in vals):
                    R.violation('nonfinite', f'{label}: non-finite distance', case)
                    continue
                if min(vals) < 0:
                    R.violation('negative', f'{label}: negative distance {min(vals)}', case)
                if dxx[i] != 0:
                    R.violation('self-nonzero', f'{label}: d(x,x)={dxx[i]}', case)
                if dxy[i] != dyx[i]:
                    R.violation('asymmetric', f'{label}: d(x,y)={dxy[i]!r} d(y,x)={dyx[i]!r}', case)
                if dxz[i] > dxy[i] + dyz[i] + tri_slack(dxy[i], dyz[i], normL, np.abs(P[i]).sum()):
                    R.violation('triangle', f'{label}: d(x,z)={dxz[i]!r} > {dxy[i]!r}+{dyz[i]!r}', case)
                if sxy[i] != -dxy[i]:
                    R.violation('score-not-neg', f'{label}: pair_score={sxy[i]!r} pair_distance={dxy[i]!r}', case)
                # the get_metric closure
                m_xy = float(metric(x[i], yv[i])); m_yx = float(metric(yv[i], x[i]))
                m_xx = float(metric(x[i], x[i])); m_yz = float(metric(yv[i], z[i])); m_xz = float(metric(x[i], z[i]))
                scale = normL * np.linalg.norm(yv[i] - x[i])
                if not all(np.isfinite(v) for v in (m_xy, m_yx, m_xx, m_yz, m_xz)):
                    R.violation('metric-nonfinite', f'{label}: get_metric non-finite', case)
                    continue
                if m_xy < 0 or m_xx != 0 or m_xy != m_yx:
                    R.violation('metric-basic', f'{label}: get_metric: m(x,y)={m_xy!r} m(y,x)={m_yx!r} m(x,x)={m_xx!r}', case)
                if m_xz > m_xy + m_yz + tri_slack(m_xy, m_yz, normL, np.abs(P[i]).sum()):
                    R.violation('metric-triangle', f'{label}: get_metric triangle', case)
                if abs(m_xy - dxy[i]) > REL * scale + 1e-300:
                    R.violation('metric-vs-pair', f'{label}: get_metric {m_xy!r} vs pair_distance {dxy[i]!r}', case)
                # correspondence with the Lean model
                if driver_ok:
                    lines.append(f'dist {k} {d} {Lb} {bits(x[i])} {bits(yv[i])}')
                    meta.append(('pair_distance', dxy[i], scale, case))
                    lines.append(f'metric {k} {d} {Lb} 0 {bits(x[i])} {bits(yv[i])}')
                    meta.append(('get_metric', m_xy, scale, case))
                    lines.append(f'score {k} {d} {Lb} {bits(x[i])} {bits(yv[i])}')
                    meta.append(('pair_score', sxy[i], scale, case))
    # ---- one call on ALL ordered pairs of N points (thousands of pairs, N² not a round number): the matrix of reported
    #      distances must itself be a pseudo-metric and must not depend on how many pairs are asked for at once
    sel = pop if tier == 'thorough' else [pop[i] for i in rng.choice(len(pop), size=min(6, len(pop)), replace=False)]
    for label, est, X, y in sel:
        L = np.asarray(est.components_)
        N = int(rng.randint(65, 111))
        lo, hi = X.min(0), X.max(0)
        Q = lo + (hi - lo) * rng.rand(N, X.shape[1])
        Q[1] = Q[0]                                            # a repeated point
        ii, jj = np.meshgrid(np.arange(N), np.arange(N), indexing='ij')
        allp = np.stack([Q[ii.ravel()], Q[jj.ravel()]], axis=1)
        D = np.asarray(est.pair_distance(allp)).reshape(N, N)
        S = np.asarray(est.pair_score(allp)).reshape(N, N)
        case = {'est': label, 'stream': 'all-pairs-batch', 'L': L, 'points': Q}
        R.case(('c01-batch', label, L.tobytes().hex()[:64], Q.tobytes().hex()[:64]), True,
               sample={'est': label, 'stream': 'all-pairs-batch', 'n_points': N, 'n_pairs': N * N}, branch='all-pairs-batch')
        if not np.all(np.isfinite(D)):
            R.violation('nonfinite', f'{label}: non-finite distance in a batch of {N * N} pairs', case); continue
        if D.min() < 0 or np.any(np.diag(D) != 0) or D[0, 1] != 0:
            R.violation('batch/self-or-negative', f'{label}: batch of {N * N} pairs: negative distance or d(x,x) ≠ 0', case)
        # (rows of one large matrix product may be rounded by different BLAS kernels: symmetry up to rounding here, bitwise
        #  symmetry is demanded in the small-batch streams above)
        pd_ = np.sqrt(((Q[:, None] - Q[None]) ** 2).sum(-1))
        if np.any(np.abs(D - D.T) > REL * np.linalg.norm(L) * pd_ + 1e-300):
            i_, j_ = np.argwhere(np.abs(D - D.T) > REL * np.linalg.norm(L) * pd_ + 1e-300)[0]
            R.violation('batch/asymmetric', f'{label}: batch of {N * N} pairs: d(x_{i_},x_{j_})={D[i_, j_]!r} but d(x_{j_},x_{i_})={D[j_, i_]!r}', case)
        if not np.array_equal(S, -D):
            R.violation('batch/score-not-neg', f'{label}: pair_score ≠ −pair_distance in a batch of {N * N} pairs', case)
        normL = np.linalg.norm(L)
        slack = 64 * 2.3e-16 * (D.max() + normL * np.abs(Q).sum(1).max() * 3)
        for m_ in rng.choice(N, size=8, replace=False):
            viol = D - (D[:, [m_]] + D[[m_], :]) > slack
            if viol.any():
                i_, j_ = np.argwhere(viol)[0]
                R.violation('batch/triangle', f'{label}: batch of {N * N} pairs: d(x_{i_},x_{j_})={D[i_, j_]!r} > d(x_{i_},x_{m_})+d(x_{m_},x_{j_})={D[i_, m_] + D[m_, j_]!r}', case); break
        metric = est.get_metric()
        for t_ in rng.choice(N * N, size=24, replace=False).tolist() + [N * N - 1, N * N - 2]:
            i_, j_ = divmod(int(t_), N)
            one = float(est.pair_distance(allp[t_:t_ + 1])[0])
            # (the matrix product behind a batch may round differently in the last bit than for a single pair)
            if abs(one - D[i_, j_]) > REL * normL * np.linalg.norm(Q[i_] - Q[j_]) + 1e-300:
                R.violation('batch/size-dependent', f'{label}: pair {t_} of a batch of {N * N} has distance {D[i_, j_]!r}, asked alone {one!r}', case); break
            mv = float(metric(Q[i_], Q[j_]))
            if abs(mv - D[i_, j_]) > REL * normL * np.linalg.norm(Q[i_] - Q[j_]) + 1e-300:
                R.violation('metric-vs-pair', f'{label}: get_metric {mv!r} vs pair_distance {D[i_, j_]!r} (batch of {N * N})', case); break
    # ---- degenerate but legal training sets (a constraint between a point and itself, a constant feature, one feature):
    #      fit may refuse them, but a learner that comes out fitted must still report a finite pseudo-metric
    import warnings
    from metric_learn import ITML, LSML, MMC, SDML, Covariance, LFDA, NCA
    for rep in range(2 if tier == 'quick' else 8):
        d = int(rng.randint(2, 5)); n = 24
        X = rng.randn(n, d) * (1 + rng.rand(d))
        idx = rng.randint(0, n, size=(10, 2)); idx = idx[idx[:, 0] != idx[:, 1]]
        yy = np.where(np.arange(len(idx)) % 2 == 0, 1, -1)
        j = int(rng.randint(n))
        self_pair = np.array([[j, j]])
        q = rng.randint(0, n, size=(8, 4)); q = q[(q[:, 0] != q[:, 1]) & (q[:, 2] != q[:, 3])]
        degen = [
            ('ITML+dissimilar(x,x)', lambda: ITML(max_iter=30).fit(X[np.vstack([idx, self_pair])], np.append(yy, -1))),
            ('ITML+similar(x,x)', lambda: ITML(max_iter=30).fit(X[np.vstack([idx, self_pair])], np.append(yy, 1))),
            ('MMC+dissimilar(x,x)', lambda: MMC(max_iter=5).fit(X[np.vstack([idx, self_pair])], np.append(yy, -1))),
            ('MMC+similar(x,x)', lambda: MMC(max_iter=5).fit(X[np.vstack([idx, self_pair])], np.append(yy, 1))),
            ('SDML+dissimilar(x,x)', lambda: SDML(prior='identity', balance_param=0.1).fit(X[np.vstack([idx, self_pair])], np.append(yy, -1))),
            ('LSML+(a,b,x,x)', lambda: LSML(max_iter=20).fit(X[np.vstack([q, [[q[0, 0], q[0, 1], j, j]]])])),
            ('LSML+(x,x,c,d)', lambda: LSML(max_iter=20).fit(X[np.vstack([q, [[j, j, q[0, 2], q[0, 3]]]])])),
            ('Covariance+constant-feature', lambda: Covariance().fit(np.hstack([X, np.full((n, 1), 3.0)]))),
            ('LFDA one feature', lambda: LFDA().fit(X[:, :1], np.arange(n) % 2)),
            ('NCA duplicate point in two classes', lambda: NCA(max_iter=5).fit(np.vstack([X, X[:1]]), np.append(np.arange(n) % 2, 1))),
        ]
        for label, mk in degen:
            case = {'est': label, 'stream': 'degenerate-training-set', 'X': X, 'pairs': idx, 'y': yy, 'self': j, 'quadruplets': q}
            R.case(('c01-degenerate', label, X.tobytes().hex()[:48]), True, sample={'est': label, 'stream': 'degenerate-training-set'}, branch='degenerate-training-set')
            try:
                with warnings.catch_warnings():
                    warnings.simplefilter('ignore')
                    est = mk()
            except Exception as e:
                R.count(f'degenerate-training-set: fit refused ({type(e).__name__})')
                continue
            dq = est.components_.shape[1]
            Q = rng.randn(6, dq)
            ii, jj = np.meshgrid(np.arange(6), np.arange(6), indexing='ij')
            D = np.asarray(est.pair_distance(np.stack([Q[ii.ravel()], Q[jj.ravel()]], axis=1))).reshape(6, 6)
            mf = est.get_metric()
            mv = np.array([float(mf(Q[0], Q[t_])) for t_ in range(6)])
            if not (np.all(np.isfinite(D)) and np.all(np.isfinite(mv))):
                R.violation('nonfinite', f'{label}: fit returned a learner whose distances are not finite', case)
            elif D.min() < 0 or np.any(np.diag(D) != 0) or mv[0] != 0:
                R.violation('self-nonzero', f'{label}: negative distance or d(x,x) ≠ 0', case)
    if driver_ok and lines:
        outs = lean_run(lines)
        worst = 0.0
        for o, (what, impl, scale, case) in zip(outs, meta):
            v = parse_ok_floats(o)
            if v is None or len(v) != 1:
                R.broken('driver:' + what, f'model driver answered {o[:80]}', case)
                continue
            err = abs(v[0] - impl)
            if scale > 0:
                worst = max(worst, err / scale)
            if not err <= REL * scale + 1e-300:
                R.broken(f'correspondence:C01:{what}', f"{case['est']}: implementation {impl!r} vs model {v[0]!r} (scale {scale:.3g})", case)
        R.extra['worst_relative_model_gap'] = worst
        R.extra['traces_validated_against_impl'] = len(lines)


def replay(R, obj):
    print(obj.get('what'))
    return 0
