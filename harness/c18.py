"""C18 — constructor parameters round-trip: get_params, set_params, clone, pickle; NotFittedError.

Cross-check of the translator: every estimator is constructed with a distinct sentinel object per
parameter and compared with what the generated table predicts; plus the implementation-only oracle
of the property (identity of stored objects, aliases, clone, unfitted use, pickle fidelity)."""
import copy
import inspect
import json
import os
import pickle
import warnings
import numpy as np
from sklearn.base import clone
from sklearn.exceptions import NotFittedError
from common import quiet, LEAN_DIR
import zoo


class Sentinel:
    """a distinguishable value that survives deepcopy/pickle and compares by tag"""
    def __init__(self, tag):
        self.tag = tag

    def __eq__(self, other):
        return isinstance(other, Sentinel) and other.tag == self.tag

    def __hash__(self):
        return hash(self.tag)

    def __repr__(self):
        return f'Sentinel({self.tag})'


def valid_value(cls_name, p, i):
    """a fresh object acceptable to constructors that validate (only LFDA.embedding_type does)"""
    if cls_name == 'LFDA' and p == 'embedding_type':
        return ''.join(['pl', 'ain'])
    return Sentinel(f'{cls_name}.{p}.{i}')


def eval_sym(v, args):
    if v[0] == 'param':
        return args[v[1]]
    if v[0] == 'const':
        return eval(v[1])
    if v[0] == 'ite':
        a = args[v[1]]
        return eval_sym(v[2], args) if not (isinstance(a, str) and a == 'deprecated') else eval_sym(v[3], args)
    raise KeyError(v)


def run(R, tier, seed, driver_ok):
    quiet()
    rng = np.random.RandomState(seed + 1818)
    R.rule = ('17 classes × every constructor parameter × {construct, set_params, clone, alias} with sentinel objects; every public '
              'method on an unfitted instance; pickle round trip of every fitted estimator (all outputs bitwise). '
              'case = (class, parameter, operation); the constructor table space is finite and enumerated completely')
    R.assumptions = ['get_params/clone/pickle are scikit-learn/CPython behaviour: exercised, not modelled beyond the table']
    R.extra['exhaustive'] = True
    tables = None
    tp = os.path.join(LEAN_DIR, '.lake', 'tables.json')
    if os.path.exists(tp):
        tables = json.load(open(tp))
    for name in zoo.ALL:
        cls = zoo.CLASSES[name]
        sig = inspect.signature(cls.__init__)
        params = [p for p in sig.parameters if p != 'self']
        aliases = [p for p in params if isinstance(sig.parameters[p].default, str) and sig.parameters[p].default == 'deprecated']
        plain = [p for p in params if p not in aliases]
        # 1. construction stores the identical object
        args = {p: valid_value(name, p, 0) for p in plain}
        with warnings.catch_warnings(record=True) as wl:
            warnings.simplefilter('always')
            try:
                est = cls(**args)
            except Exception as e:
                R.violation(f'{name}.__init__/raises', f'{name}(**sentinels) raised {type(e).__name__}: {e}', {'cls': name})
                continue
        if any(issubclass(w.category, FutureWarning) for w in wl):
            R.violation(f'{name}.__init__/spurious-warning', f'{name}: FutureWarning without a deprecated alias', {'cls': name})
        gp = est.get_params()
        for p in plain:
            R.case(('c18', name, p, 'construct'), True, sample={'cls': name, 'param': p, 'op': 'construct'}, branch='construct')
            if p not in gp or gp[p] is not args[p]:
                R.violation(f'{name}.__init__/{p}', f'{name}: get_params()[{p!r}] is not the object passed at construction (got {gp.get(p)!r})',
                            {'cls': name, 'param': p, 'passed': repr(args[p]), 'stored': repr(gp.get(p))})
        for a in aliases:
            if gp.get(a) != 'deprecated':
                R.violation(f'{name}.__init__/alias-{a}', f'{name}: alias attribute {a} holds {gp.get(a)!r}', {'cls': name, 'param': a})
        # translator cross-check: generated table vs the real constructor
        if tables is not None:
            t = tables['init'][name]
            full = dict(args)
            for a in aliases:
                full[a] = 'deprecated'
            if t['params'] != params:
                R.broken('translator:signature', f'{name}: generated signature {t["params"]} != real {params}', {'cls': name})
            for attr, sv in t['attrs'].items():
                sv = tuple(sv) if sv[0] != 'ite' else ('ite', sv[1], tuple(sv[2]), tuple(sv[3]))
                want = eval_sym(sv, full)
                got = getattr(est, attr, None)
                same = (got is want) if isinstance(want, Sentinel) else (got == want)
                if not same:
                    R.broken('translator:init-table', f'{name}.{attr}: table predicts {want!r}, real constructor stored {got!r}', {'cls': name, 'attr': attr})
        # 2. set_params
        for p in plain:
            v = valid_value(name, p, 1)
            est.set_params(**{p: v})
            R.case(('c18', name, p, 'set_params'), True, branch='set_params')
            if est.get_params()[p] is not v:
                R.violation(f'{name}.set_params/{p}', f'{name}: set_params({p}=v) then get_params()[{p!r}] is not v', {'cls': name, 'param': p})
        # 3. clone reproduces every parameter (scikit-learn raises RuntimeError when __init__ drops one)
        est2 = cls(**{p: valid_value(name, p, 2) for p in plain})
        try:
            c = clone(est2)
            gp2, gpc = est2.get_params(), c.get_params()
            for p in params:
                R.case(('c18', name, p, 'clone'), True, branch='clone')
                if gpc[p] != gp2[p]:
                    R.violation(f'{name}.clone/{p}', f'{name}: clone changes parameter {p}: {gp2[p]!r} → {gpc[p]!r}', {'cls': name, 'param': p})
        except Exception as e:
            bad = [p for p in plain if est2.get_params().get(p) is not getattr(est2, p, None) or getattr(cls(**{q: est2.get_params()[q] for q in plain}), p, None) is not est2.get_params()[p]]
            for p in (bad or ['?']):
                R.violation(f'{name}.__init__/{p}', f'{name}: clone failed ({type(e).__name__}: {str(e)[:120]})', {'cls': name, 'param': p})
        # 4. deprecated aliases
        for a in aliases:
            v = valid_value(name, a, 3)
            with warnings.catch_warnings(record=True) as wl:
                warnings.simplefilter('always')
                e3 = cls(**{a: v})
            R.case(('c18', name, a, 'alias'), True, branch='alias')
            if not any(issubclass(w.category, FutureWarning) for w in wl):
                R.violation(f'{name}.__init__/alias-{a}-no-warning', f'{name}({a}=…) did not issue a FutureWarning', {'cls': name, 'param': a})
            holders = [p for p in plain if e3.get_params()[p] is v]
            if len(holders) != 1:
                R.violation(f'{name}.__init__/alias-{a}-not-mapped', f'{name}({a}=v): v is held by {holders}', {'cls': name, 'param': a})
            elif tables is not None:
                dep = dict(map(tuple, tables['init'][name]['deprecated']))
                if dep.get(a) != holders[0]:
                    R.broken('translator:alias', f'{name}: table maps {a}→{dep.get(a)}, real constructor → {holders[0]}', {'cls': name})
        # 5. unfitted use raises NotFittedError
        unf = cls()
        d = 3
        P2 = rng.randn(4, 2, d); X2 = rng.randn(4, d)
        t = zoo.TUPLE_SIZE.get(name, 2)
        calls = [('transform', (X2,)), ('pair_distance', (P2,)), ('pair_score', (P2,)), ('score_pairs', (P2,)),
                 ('get_metric', ()), ('get_mahalanobis_matrix', ())]
        if name in zoo.TUPLE_SIZE:
            Tt = rng.randn(4, t, d)
            calls += [('predict', (Tt,)), ('decision_function', (Tt,))]
            calls += [('score', (Tt, np.array([1, -1, 1, -1])) if name in zoo.PAIRS else (Tt,))]
        if name in zoo.PAIRS:
            calls += [('set_threshold', (0.5,)), ('calibrate_threshold', (P2, np.array([1, -1, 1, -1])))]
        # … also when the unfitted instance is a copy: unpickled, deep-copied, cloned, with or without a preprocessor
        import copy as _copy
        variants = [('', unf), ('unpickled-', pickle.loads(pickle.dumps(cls()))), ('deepcopied-', _copy.deepcopy(cls())),
                    ('cloned-', clone(cls())), ('unpickled-with-preprocessor-', pickle.loads(pickle.dumps(cls(preprocessor=rng.randn(6, d)))))]
        # … and when the only fit so far FAILED after the input checks (a parameter that is rejected late, a solver that gives
        # up): the estimator is still not fitted
        yk = np.arange(12) % 3; Xk = rng.randn(12, d); Pk = rng.randn(10, 2, d); ypk = np.where(np.arange(10) % 2, 1, -1)
        late = {'LMNN': (dict(n_neighbors=6), (Xk, yk)), 'NCA': (dict(init=np.zeros((2, d + 2))), (Xk, yk)), 'MLKR': (dict(init=np.zeros((2, d + 2))), (Xk, yk.astype(float))),
                'LFDA': (dict(n_components=d + 5), (Xk, yk)), 'RCA': (dict(n_components=d + 5), (Xk, yk)), 'RCA_Supervised': (dict(n_components=d + 5), (Xk, yk)),
                'ITML': (dict(prior=np.zeros((d, d))), (Pk, ypk)), 'SDML': (dict(prior=np.zeros((d, d))), (Pk, ypk)), 'MMC': ({}, (Pk, np.ones(10))),
                'LSML': (dict(prior=np.zeros((d, d))), (rng.randn(8, 4, d),)), 'SCML': (dict(basis='no-such-basis'), (rng.randn(8, 3, d),)),
                'ITML_Supervised': (dict(prior=np.zeros((d, d))), (Xk, yk)), 'LSML_Supervised': (dict(prior=np.zeros((d, d))), (Xk, yk)),
                'SDML_Supervised': (dict(prior=np.zeros((d, d))), (Xk, yk)), 'SCML_Supervised': (dict(basis='no-such-basis'), (Xk, yk))}
        if name in late:
            kw_, fa_ = late[name]
            failed = cls(**kw_)
            try:
                with warnings.catch_warnings():
                    warnings.simplefilter('ignore')
                    failed.fit(*fa_)
                R.count(f'failed-fit variant: the fit of {name} unexpectedly succeeded')
            except Exception as e:
                R.count(f'failed-fit variant: {type(e).__name__}')
                variants.append(('after-a-failed-fit-', failed))
        for vlabel, inst in variants:
            for m, a in calls:
                if vlabel.startswith('after-a-failed-fit') and m == 'set_threshold':
                    continue            # (stores a number, computes nothing)
                R.case(('c18', name, m, vlabel + 'unfitted'), True, branch='unfitted')
                try:
                    with warnings.catch_warnings():
                        warnings.simplefilter('ignore')
                        getattr(inst, m)(*a)
                    R.violation(f'{name}.{m}/{vlabel}unfitted-returns', f'{name}.{m} on an unfitted ({vlabel or "fresh"}) estimator returned a result', {'cls': name, 'method': m})
                except NotFittedError:
                    pass
                except Exception as e:
                    R.violation(f'{name}.{m}/{vlabel}unfitted-{type(e).__name__}', f'{name}.{m} on an unfitted ({vlabel or "fresh"}) estimator raised {type(e).__name__}', {'cls': name, 'method': m})
    # 6. pickle round trip preserves all outputs bit for bit
    for label, est, X, y in zoo.population(rng, reps=1, lowrank=(tier == 'thorough')):
        blob = pickle.dumps(est)
        e2 = pickle.loads(blob)
        Q = rng.randn(6, 2, X.shape[1])
        outs = [('components_', lambda e: e.components_), ('transform', lambda e: e.transform(X)),
                ('pair_distance', lambda e: e.pair_distance(Q)), ('mahalanobis', lambda e: e.get_mahalanobis_matrix()),
                ('metric', lambda e: np.array([e.get_metric()(Q[0, 0], Q[0, 1])])),
                ('n_features_in_', lambda e: np.array([e.n_features_in_]))]
        name = label.split('[')[0]
        if name in zoo.PAIRS:
            outs += [('threshold_', lambda e: np.array([e.threshold_])), ('predict', lambda e: np.asarray(e.predict(Q)))]
        for nm, f in outs:
            R.case(('c18', label, nm, 'pickle', X.tobytes().hex()[:32]), True, branch='pickle')
            a, b = np.asarray(f(est)), np.asarray(f(e2))
            if a.shape != b.shape or a.tobytes() != b.tobytes():
                R.violation(f'{name}.pickle/{nm}', f'{label}: {nm} differs after a pickle round trip', {'cls': label, 'output': nm})
        if repr(est.get_params()) != repr(e2.get_params()):
            R.violation(f'{name}.pickle/params', f'{label}: get_params differs after a pickle round trip', {'cls': label})
        # clone of the unpickled estimator: every parameter object went through pickle (the 'deprecated' sentinel of the
        # aliases is then an equal string, not the literal), and the constructor must still store each one unmodified
        R.case(('c18', label, 'clone-after-pickle', X.tobytes().hex()[:32]), True, branch='clone-after-pickle')
        try:
            c2 = clone(e2)
            if repr(c2.get_params()) != repr(e2.get_params()):
                R.violation(f'{name}.clone/after-pickle/params', f'{label}: clone of the unpickled estimator has other parameters', {'cls': label})
        except RuntimeError as e:
            R.violation(f'{name}.clone/after-pickle/deprecated-alias-identity', f'{label}: clone raises RuntimeError after a pickle round trip: {str(e)[:160]}', {'cls': label})

    # 6b. … also when the preprocessor parameter was changed after the fit (no refit): whatever the estimator answers on
    #     indicator input, its unpickled copy answers the same
    names6 = zoo.ALL if tier == 'thorough' else [zoo.ALL[i] for i in rng.choice(len(zoo.ALL), 6, replace=False)]
    for name in names6:
        d = int(rng.randint(2, 4))
        X, y = zoo.blobs(rng, d, 3, 7)
        prm = zoo.fix_params(name, zoo.default_params(name, rng, d), X, y)
        if name.startswith('SDML'):
            prm['balance_param'] = 1e-7
        try:
            with warnings.catch_warnings():
                warnings.simplefilter('ignore')
                ia, fa = zoo.fit_args(name, X, y, rng, indices=True)
                est = zoo.CLASSES[name](preprocessor=X, **prm).fit(*ia)
                est.set_params(preprocessor=X[::-1] * 1.5 + 0.25)
                e2 = pickle.loads(pickle.dumps(est))
                ii = np.arange(len(X)); ip = np.column_stack([ii, ii[::-1]])
                R.case(('c18', name, 'pickle-after-set_params', X.tobytes().hex()[:32]), True, branch='pickle-after-set_params')
                for nm, f in (('transform', lambda e: e.transform(ii)), ('pair_distance', lambda e: e.pair_distance(ip))):
                    a, b = np.asarray(f(est)), np.asarray(f(e2))
                    if a.shape != b.shape or a.tobytes() != b.tobytes():
                        R.violation(f'{name}.pickle/after-set_params/{nm}', f'{name}: {nm} on indicator input differs between an estimator (fitted, then set_params(preprocessor=…)) and its unpickled copy', {'cls': name, 'output': nm})
        except RuntimeError:
            if not name.startswith('SDML'):
                raise

    # 6c. a fitted estimator and its clone behave identically when fitted — also on data of another dimensionality than the
    #     estimator saw before (what get_params returns is all that matters, not what an earlier fit left behind)
    for name in (zoo.ALL if tier == 'thorough' else [zoo.ALL[i] for i in rng.choice(len(zoo.ALL), 8, replace=False)]):
        d1 = int(rng.randint(2, 4)); d2 = d1 + int(rng.choice([1, 2]))
        X1, y1 = zoo.blobs(rng, d1, 3, 7); X2, y2 = zoo.blobs(rng, d2, 3, 7)
        prm = zoo.fix_params(name, zoo.default_params(name, rng, d1), X1, y1)
        if name.startswith('SDML'):
            prm['balance_param'] = 1e-7
        R.case(('c18', name, 'refit-other-dimensionality-vs-clone', X1.tobytes().hex()[:24]), True, branch='refit-vs-clone')
        try:
            with warnings.catch_warnings():
                warnings.simplefilter('ignore')
                est = zoo.CLASSES[name](**prm).fit(*zoo.fit_args(name, X1, y1, rng))
                est.set_params(**{k: v for k, v in zoo.fix_params(name, zoo.default_params(name, rng, d2), X2, y2).items() if k in ('n_basis', 'n_chunks', 'chunk_size')})
                a2 = zoo.fit_args(name, X2, y2, rng)
                import copy as _c
                twin = clone(est)
                try:
                    est.fit(*_c.deepcopy(a2))
                except Exception as e:
                    try:
                        twin.fit(*_c.deepcopy(a2))
                        R.violation(f'{name}.refit/raises-{type(e).__name__}-but-clone-fits', f'{name}: refitting a fitted estimator on data with {d2} features (it had seen {d1}) raised {type(e).__name__}: {str(e)[:100]}; its clone fits the same data', {'cls': name})
                    except Exception:
                        pass
                    continue
                twin.fit(*_c.deepcopy(a2))
                Q2 = rng.randn(5, 2, d2)
                if not np.allclose(est.pair_distance(Q2), twin.pair_distance(Q2), rtol=1e-9, atol=0):
                    R.violation(f'{name}.refit/differs-from-clone', f'{name}: a refitted estimator and its clone fitted on the same data disagree', {'cls': name})
        except RuntimeError:
            if not name.startswith('SDML'):
                raise

    # 7. parameters stay untouched through fit: what get_params returns after fit is the identical object with the
    #    contents it had at construction, so that clone(fitted) and a refit behave like the first fit
    #    (array-valued init / prior / basis / preprocessor, float64 so that no conversion copy hides an alias)
    for name in zoo.ALL:
        for rep in range(2 if tier == 'quick' else 6):
            d = int(rng.randint(2, 5))
            X, y = zoo.blobs(rng, d, 3, 6)
            prm = zoo.fix_params(name, zoo.default_params(name, rng, d), X, y)
            B = rng.randn(d, d); spd = np.ascontiguousarray(B.dot(B.T) + np.eye(d))
            if rep % 2 == 0:
                if name.startswith(('ITML', 'LSML', 'SDML')):
                    prm['prior'] = spd
                if name.startswith('MMC'):
                    prm['init'] = spd
                    prm['max_iter'] = 40
                if name in ('LMNN', 'NCA', 'MLKR'):
                    prm['init'] = np.ascontiguousarray(rng.randn(d, d))
                if name == 'LFDA':
                    prm['k'] = d + 2                      # larger than the dimensionality: fit clamps the value it USES
                if name.startswith('SCML'):
                    Bs = rng.randn(3 * d, d); prm['basis'] = Bs / np.linalg.norm(Bs, axis=1, keepdims=True); prm['n_basis'] = 3 * d
            ia, fa = zoo.fit_args(name, X, y, rng, indices=True)
            if name.startswith('SDML'):
                prm['balance_param'] = 1e-7 if 'prior' in prm else zoo.sdml_safe_balance(name, X, fa, prm)
            if rep % 2 == 1:
                prm['preprocessor'] = np.ascontiguousarray(X.copy())
                fa = ia
            est = zoo.CLASSES[name](**prm)
            before = {k: (v, copy.deepcopy(v)) for k, v in est.get_params().items()}
            case = {'cls': name, 'params': {k: v for k, v in prm.items()}, 'X': X, 'y': y}
            try:
                with warnings.catch_warnings():
                    warnings.simplefilter('ignore')
                    est.fit(*fa)
                    first = est.components_.copy()
            except Exception as e:
                R.count(f'fit-raises:{type(e).__name__}')
                continue
            after = est.get_params()
            for k, (obj, snap) in before.items():
                R.case(('c18', name, k, 'through-fit', rep, X.tobytes().hex()[:24]), isinstance(obj, np.ndarray), branch='through-fit')
                if after[k] is not obj:
                    R.violation(f'{name}.fit/replaces-param-{k}', f'{name}: get_params()[{k!r}] after fit is not the object passed at construction', case)
                elif isinstance(obj, np.ndarray) and (obj.shape != snap.shape or obj.tobytes() != snap.tobytes()):
                    R.violation(f'{name}.fit/writes-param-{k}', f'{name}: fit changed the contents of the constructor parameter {k} (max change {np.abs(obj - snap).max():.3g})', case)
                elif not isinstance(obj, np.ndarray) and not callable(obj) and repr(obj) != repr(snap):
                    R.violation(f'{name}.fit/writes-param-{k}', f'{name}: fit changed the constructor parameter {k}: {snap!r} → {obj!r}', case)
            try:
                with warnings.catch_warnings():
                    warnings.simplefilter('ignore')
                    c = clone(est).fit(*fa)
                    again = est.fit(*fa).components_
            except RuntimeError as e:
                R.count('clone-raises-after-fit')
                continue
            if rep % 2 == 1:
                # a parameter replaced through set_params is what the estimator USES from then on: replace the array
                # preprocessor by another array (the same points in another order) and refit on indicators into it —
                # the refit must equal a fresh clone fitted the same way
                pm = rng.permutation(len(X)); inv = np.argsort(pm)
                B2 = np.ascontiguousarray(X[pm])
                fa2 = (inv[np.asarray(fa[0])],) + tuple(fa[1:])
                R.case(('c18', name, 'set_params-preprocessor', rep, X.tobytes().hex()[:24]), True, branch='set_params-then-fit')
                try:
                    with warnings.catch_warnings():
                        warnings.simplefilter('ignore')
                        est.set_params(preprocessor=B2)
                        re2 = est.fit(*fa2).components_.copy()
                        cl2 = clone(est).fit(*fa2).components_
                    if est.get_params()['preprocessor'] is not B2:
                        R.violation(f'{name}.set_params/preprocessor', f'{name}: get_params()[\'preprocessor\'] is not the array given to set_params', case)
                    if re2.shape != cl2.shape or not np.allclose(re2, cl2, rtol=1e-9, atol=1e-12):
                        R.violation(f'{name}.set_params/preprocessor-not-used', f'{name}: after set_params(preprocessor=B) the refit differs from a fresh clone fitted on the same indicators (max diff {np.abs(re2 - cl2).max() if re2.shape == cl2.shape else "shape"})', case)
                    # same points, other order: the model is the one of the first fit as well
                    if re2.shape != first.shape or not np.allclose(re2, first, rtol=1e-6, atol=1e-9):
                        R.count('set_params-then-fit:model-differs-from-first-fit (order-sensitive learner)')
                    est.set_params(preprocessor=prm['preprocessor']); est.fit(*fa)
                except Exception as e:
                    R.violation(f'{name}.set_params/preprocessor-{type(e).__name__}', f'{name}: refit after set_params(preprocessor=B) raised {type(e).__name__}: {str(e)[:100]}', case)
            R.case(('c18', name, 'clone-after-fit', rep, X.tobytes().hex()[:24]), True, branch='clone-after-fit')
            for what, got in (('clone(fitted).fit', c.components_), ('refit', again)):
                if got.shape != first.shape or not np.allclose(got, first, rtol=1e-9, atol=1e-12):
                    R.violation(f'{name}.{what}/differs', f'{name}: {what} gives components_ that differ from the first fit by {np.abs(got - first).max() if got.shape == first.shape else "shape"}', case)


def replay(R, obj):
    print(obj.get('what'))
    return 0
