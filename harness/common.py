"""Shared machinery of the correspondence harness: Lean driver client, evidence, verdicts."""
import hashlib
import json
import os
import struct
import subprocess
import sys
import time
import warnings

VERIF = os.path.dirname(os.path.dirname(os.path.abspath(__file__)))
REPO = os.environ.get('VERIF_REPO', '/repo')
if REPO not in sys.path:
    sys.path.insert(0, REPO)
LEAN_DIR = os.path.join(VERIF, 'lean')
DRIVER = os.path.join(LEAN_DIR, '.lake', 'build', 'bin', 'driver')

import numpy as np  # noqa: E402

STD_AXIOMS = {'propext', 'Classical.choice', 'Quot.sound'}
TRUSTED_BASE = [
    'Lean 4.33.0 kernel + Mathlib v4.33.0; axioms ⊆ {propext, Classical.choice, Quot.sound} (audited by #print axioms on every run)',
    'translator /verif/translate (Python ast → Lean tables), cross-checked dynamically by the harness',
    'correspondence harness /verif/harness (differential testing model ↔ /repo working tree)',
    'not modelled: IEEE rounding, NumPy/SciPy/scikit-learn kernels (contracts checked per call), CPython object semantics',
]


def f2b(x):
    return struct.unpack('<Q', struct.pack('<d', float(x)))[0]


def b2f(n):
    return struct.unpack('<d', struct.pack('<Q', int(n)))[0]


def bits(arr):
    a = np.ascontiguousarray(np.asarray(arr, dtype=np.float64)).ravel()
    return ' '.join(map(str, a.view(np.uint64).tolist()))


def parse_ok_floats(line):
    """'ok b1 b2 …' → np.array of floats; anything else → None"""
    t = line.split()
    if not t or t[0] != 'ok':
        return None
    return np.array([int(x) for x in t[1:]], dtype=np.uint64).view(np.float64)


def parse_rat(tok):
    from fractions import Fraction
    p, q = tok.split('/')
    return Fraction(int(p), int(q))


def lean_run(lines):
    """Feed the lines to the compiled Lean driver, return its answers (one per line)."""
    if not lines:
        return []
    inp = '\n'.join(lines) + '\n'
    r = subprocess.run([DRIVER], input=inp.encode(), stdout=subprocess.PIPE, stderr=subprocess.PIPE, timeout=1800)
    if r.returncode != 0:
        raise RuntimeError('lean driver failed: ' + r.stderr.decode()[-2000:])
    out = r.stdout.decode().split('\n')
    if out and out[-1] == '':
        out.pop()
    if len(out) != len(lines):
        raise RuntimeError(f'lean driver answered {len(out)} lines for {len(lines)} ops')
    return out


def canon(obj):
    """canonical JSON-able form (for hashing case descriptions / replay files)"""
    if isinstance(obj, np.ndarray):
        return {'shape': list(obj.shape), 'dtype': str(obj.dtype), 'data': obj.tolist()}
    if isinstance(obj, (np.integer,)):
        return int(obj)
    if isinstance(obj, (np.floating,)):
        return float(obj)
    if isinstance(obj, (np.bool_,)):
        return bool(obj)
    if isinstance(obj, dict):
        return {str(k): canon(v) for k, v in obj.items()}
    if isinstance(obj, (list, tuple)):
        return [canon(v) for v in obj]
    if isinstance(obj, (str, int, float, bool)) or obj is None:
        return obj
    return repr(obj)


def load_known_findings():
    p = os.path.join(VERIF, 'known_findings.json')
    if not os.path.exists(p):
        return []
    return json.load(open(p)).get('findings', [])


class Run:
    """Collects what one check run covered and decides the verdict."""

    def __init__(self, pid, tier, seed):
        self.pid, self.tier, self.seed = pid, tier, seed
        self.t0 = time.time()
        self.evaluations = 0
        self.hashes = set()
        self.samples = []
        self.hist = {}
        self.violations = []      # (key, what, replay_obj)  property fails on the implementation
        self.breaks = []          # (name, what, replay_obj)  proof obligation / correspondence broken
        self.known_hit = {}
        self.known = [k for k in load_known_findings() if k['property'] == pid]
        self.extra = {}
        self.lean = {'obligations': 0, 'discharged': 0, 'theorems': [], 'build_ok': None, 'checker_cmd': ''}
        self.rule = ''
        self.assumptions = []
        import glob
        for f in glob.glob(os.path.join(VERIF, 'replays', f'{pid}-{seed}-*.json')):
            os.remove(f)

    # ---- coverage ----
    def case(self, desc, nontrivial=True, sample=None, branch=None):
        self.evaluations += 1
        if nontrivial:
            h = hashlib.sha1(json.dumps(canon(desc), sort_keys=True).encode()).hexdigest()
            self.hashes.add(h)
        if branch is not None:
            self.hist[branch] = self.hist.get(branch, 0) + 1
        if sample is not None and len(self.samples) < 5:
            self.samples.append(canon(sample))

    def count(self, branch, n=1):
        self.hist[branch] = self.hist.get(branch, 0) + n

    # ---- verdict ----
    def violation(self, key, what, replay):
        for k in self.known:
            if k['key'] == key:
                self.known_hit.setdefault(key, (k, 0))
                kk, n = self.known_hit[key]
                self.known_hit[key] = (kk, n + 1)
                return
        self.violations.append((key, what, replay))

    def broken(self, name, what, replay):
        """a proof obligation or a correspondence relation no longer checks"""
        self.breaks.append((name, what, replay))

    def write_replay(self, idx, obj):
        d = os.path.join(VERIF, 'replays')
        os.makedirs(d, exist_ok=True)
        p = os.path.join(d, f'{self.pid}-{self.seed}-{idx}.json')
        obj = dict(obj, seed=int(self.seed), tier=self.tier,
                   how_to_replay=f'VERIF_SEED={int(self.seed)} ./check {self.pid} --tier {self.tier} --replay <this file>  '
                                 '(re-runs the deterministic generator of that seed and reports whether the same violation reappears)')
        with open(p, 'w') as f:
            json.dump(canon(obj), f, indent=1)
        return p

    def finish(self):
        wall = time.time() - self.t0
        lines = []
        n_viol = 0
        for key, (k, n) in self.known_hit.items():
            lines.append(f"KNOWN-FINDING: property={self.pid} {key}: {k['what']} ({n} case(s) this run)")
        shown = {}
        for key, what, replay in self.violations:
            if key in shown:
                continue
            p = self.write_replay(len(shown), {'property': self.pid, 'kind': 'property-fails-on-implementation',
                                               'key': key, 'what': what, 'replay': replay})
            shown[key] = p
            n_viol += 1
            lines.append(f"VIOLATION property={self.pid} replay={p}")
        if not self.violations:
            seen = set()
            for name, what, replay in self.breaks:
                if name in seen:
                    continue
                seen.add(name)
                p = self.write_replay(len(seen) - 1, {'property': self.pid, 'kind': 'obligation-or-correspondence-broken',
                                                      'no_longer_checks': name, 'what': what, 'replay': replay,
                                                      'note': 'no input on which the property itself fails on the implementation was found'})
                n_viol += 1
                lines.append(f"VIOLATION property={self.pid} replay={p} no-failing-input-found")
        ev = {
            'property_id': self.pid, 'tier': self.tier, 'seed': int(self.seed), 'level': 'proof',
            'coverage': {
                'obligations': self.lean['obligations'], 'discharged': self.lean['discharged'],
                'checker_cmd': self.lean['checker_cmd'], 'trusted_base': TRUSTED_BASE,
                'theorems': self.lean['theorems'],
                'evaluations': self.evaluations, 'distinct_nontrivial': len(self.hashes),
                'rule': self.rule, 'samples': self.samples or ['(no correspondence cases this run)'],
                'branch_histogram': self.hist,
                'correspondence_breaks': [b[0] for b in self.breaks],
                'known_findings_hit': sorted(self.known_hit),
                **self.extra,
            },
            'assumptions': self.assumptions,
            'wall_s': round(wall, 2), 'violations': n_viol,
        }
        # development runs and evaluations of seeded changes (VERIF_EVIDENCE_DIR) never touch the committed evidence
        evdir = os.environ.get('VERIF_EVIDENCE_DIR') or os.path.join(VERIF, 'evidence' if not getattr(self, 'dev', False) else 'evidence_dev')
        os.makedirs(evdir, exist_ok=True)
        with open(os.path.join(evdir, f'{self.pid}.json'), 'w') as f:
            json.dump(ev, f, indent=1)
        for l in lines:
            print(l)
        print(f"[{self.pid}] tier={self.tier} seed={self.seed} obligations={self.lean['discharged']}/{self.lean['obligations']} "
              f"cases={self.evaluations} distinct={len(self.hashes)} violations={n_viol} wall={wall:.1f}s")
        return 1 if n_viol else 0


def quiet():
    warnings.simplefilter('ignore')
    np.seterr(all='ignore')
