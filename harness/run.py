"""Entry point of every check: translate → build → audit → correspondence + oracle → verdict."""
import argparse
import importlib
import json
import os
import re
import subprocess
import sys
import time
import traceback

HERE = os.path.dirname(os.path.abspath(__file__))
sys.path.insert(0, HERE)
import common  # noqa: E402
from common import Run, VERIF, LEAN_DIR, STD_AXIOMS  # noqa: E402

FORBIDDEN = re.compile(r'\b(sorry|admit|native_decide|bv_decide|implemented_by|unsafe)\b|^\s*axiom\s|maxHeartbeats\s+0')


def sh(cmd, cwd=None, timeout=3600):
    r = subprocess.run(cmd, cwd=cwd, stdout=subprocess.PIPE, stderr=subprocess.STDOUT, timeout=timeout)
    return r.returncode, r.stdout.decode(errors='replace')


def strip_comments(src):
    src = re.sub(r'/-.*?-/', '', src, flags=re.S)
    return '\n'.join(l.split('--')[0] for l in src.split('\n'))


GENERATOR_DEPS = {'inits': ('C18',), 'callsites': ('C05', 'C06', 'C18'), 'supwiring': ('C08',), 'decisions': ('C04',),
                  'funcs:checkNComponents': ('C03',), 'funcs:autoSelectInit': ('C20',), 'funcs:checkSdpFromEigenGen': ('C20',), 'funcs:checkTupleSize': ('C06',),
                  'funcs:validateCalibrationParams': ('C16',)}


def translate(R):
    """regenerate lean/MLGen/*.lean from /repo's working tree"""
    tr = os.path.join(VERIF, 'translate', 'translate.py')
    if not os.path.exists(tr):
        return True
    rc, out = sh(['/venv/bin/python', tr], cwd=VERIF)
    if rc != 0:
        R.broken('translator', 'translator could not transcribe the current source: ' + out[-1500:], {'output': out[-4000:]})
        return False
    # a generator that met a construct outside its subset emitted an empty table / a stub (so the theorems that
    # depend on it stop checking); it is named here for the properties that depend on it, and only for those
    try:
        failed = json.load(open(os.path.join(LEAN_DIR, '.lake', 'translate_status.json'))).get('failed', {})
    except (OSError, ValueError):
        failed = {}
    for g, msg in failed.items():
        if R.pid in GENERATOR_DEPS.get(g, GENERATOR_DEPS.get(g.split(':')[0], ())):
            R.broken(f'translator:{g}', f'the translator could not transcribe the source it models ({g}): {msg[:400]}', {'generator': g, 'message': msg})
    return True


def theorem_at(path, line):
    """name of the theorem/def enclosing `line` of a Lean file"""
    try:
        src = open(path).read().split('\n')
    except OSError:
        return '?'
    for i in range(min(line, len(src)) - 1, -1, -1):
        m = re.match(r'\s*(?:@\[[^\]]*\]\s*)?(?:private\s+|protected\s+|noncomputable\s+)*(theorem|lemma|def|example|instance)\s+([^\s:({\[]+)?', src[i])
        if m:
            return m.group(2) or 'example'
    return '?'


def lean_build(R, pid):
    """build the driver and the property's theorem file; audit axioms. Returns driver_ok."""
    rc, out = sh(['lake', 'build', 'driver'], cwd=LEAN_DIR)
    driver_ok = rc == 0
    if not driver_ok:
        R.broken('lean-model-build', 'the executable model no longer builds: ' + out[-1500:], {'output': out[-4000:]})
    target = f'MLProps.{pid}'
    rc, out = sh(['lake', 'build', target], cwd=LEAN_DIR)
    thm_file = os.path.join(LEAN_DIR, 'MLProps', f'{pid}.lean')
    names = re.findall(r'^theorem\s+(' + pid + r'_[A-Za-z0-9_\']+)', strip_comments(open(thm_file).read()), flags=re.M)
    R.lean['obligations'] = len(names)
    R.lean['checker_cmd'] = f'cd lean && lake build {target} && lake env lean .lake/audit_{pid}.lean  (#print axioms on {len(names)} theorems)'
    if rc != 0:
        failed = set()
        for m in re.finditer(r'error: ([^\s:]+\.lean):(\d+):(\d+): (.*)', out):
            failed.add((m.group(1), theorem_at(os.path.join(LEAN_DIR, m.group(1)), int(m.group(2))), m.group(4)[:300]))
        if not failed:
            failed.add(('?', '?', out[-500:]))
        for f, t, msg in sorted(failed):
            R.broken(f'lean-obligation:{f}:{t}', f'proof obligation {t} in {f} no longer checks: {msg}',
                     {'file': f, 'theorem': t, 'message': msg})
        R.lean['build_ok'] = False
        return driver_ok
    R.lean['build_ok'] = True
    # forbidden constructs in every source the theorem file depends on
    srcs = []
    for sub in ('MLModel', 'MLProps', 'MLGen'):
        dd = os.path.join(LEAN_DIR, sub)
        for fn in sorted(os.listdir(dd)):
            if fn.endswith('.lean'):
                srcs.append(os.path.join(dd, fn))
    for p in srcs:
        for i, l in enumerate(strip_comments(open(p).read()).split('\n'), 1):
            if FORBIDDEN.search(l):
                R.broken(f'lean-forbidden:{os.path.basename(p)}:{i}', f'forbidden construct in {p}:{i}: {l.strip()}', {'file': p, 'line': i})
    # axiom audit
    audit = os.path.join(LEAN_DIR, '.lake', f'audit_{pid}.lean')
    with open(audit, 'w') as f:
        f.write(f'import {target}\n' + ''.join(f'#print axioms {n}\n' for n in names))
    rc, out = sh(['lake', 'env', 'lean', audit], cwd=LEAN_DIR)
    ok = 0
    found = {}
    for m in re.finditer(r"'([^']+)' (?:depends on axioms: \[([^\]]*)\]|does not depend on any axioms)", out.replace('\n', ' ')):
        axs = set(a.strip() for a in (m.group(2) or '').split(',') if a.strip())
        found[m.group(1)] = axs
    for n in names:
        if n in found and found[n] <= STD_AXIOMS:
            ok += 1
        else:
            R.broken(f'lean-axioms:{n}', f'axiom audit failed for {n}: {found.get(n, "no output")}', {'theorem': n, 'output': out[-1500:]})
    R.lean['discharged'] = ok
    R.lean['theorems'] = names
    return driver_ok


def leanchecker(R, pid):
    rc, out = sh(['lake', 'env', 'leanchecker', f'MLProps.{pid}'], cwd=LEAN_DIR, timeout=3000)
    R.extra['leanchecker'] = 'ok' if rc == 0 else ('failed: ' + out[-500:])
    if rc != 0:
        R.broken('leanchecker', 'independent re-check of the compiled proofs failed: ' + out[-800:], {'output': out[-3000:]})


def main():
    ap = argparse.ArgumentParser()
    ap.add_argument('pid')
    ap.add_argument('--tier', default=os.environ.get('VERIF_TIER', 'quick'))
    ap.add_argument('--replay', default=None)
    ap.add_argument('--no-lean', action='store_true', help='skip the Lean build/audit (development only)')
    a = ap.parse_args()
    tier = a.tier if a.tier in ('quick', 'thorough') else 'quick'
    # one check at a time per /verif: every check regenerates lean/MLGen from the tree under test and rebuilds
    try:
        import fcntl
        os.makedirs(os.path.join(LEAN_DIR, '.lake'), exist_ok=True)
        _lock = open(os.path.join(LEAN_DIR, '.lake', 'check.lock'), 'w')
        fcntl.flock(_lock, fcntl.LOCK_EX)
    except OSError:
        _lock = None
    seed = int(os.environ.get('VERIF_SEED', '0') or 0)
    R = Run(a.pid, tier, seed)
    R.dev = bool(a.no_lean)       # development runs (no Lean build/audit) never touch the committed evidence
    try:
        mod = importlib.import_module(a.pid.lower())
        if a.replay:
            # replay = re-run the (deterministic) generator, oracle and correspondence of the recorded seed and tier and
            # report whether the recorded violation reappears on the current tree
            obj = json.load(open(a.replay))
            print(obj.get('what'))
            want = obj.get('key') or obj.get('no_longer_checks')
            rseed, rtier = int(obj.get('seed', seed)), obj.get('tier', tier)
            R = Run(a.pid, rtier, rseed)
            R.dev = True
            driver_ok = True
            if (obj.get('kind') or '').startswith('obligation') and not a.no_lean:
                translate(R)
                driver_ok = lean_build(R, a.pid)
            reps = max(1, int(os.environ.get('VERIF_THOROUGH_SEEDS', '2'))) if rtier == 'thorough' else 1
            for k in range(reps):
                mod.run(R, rtier, rseed + 104729 * k, driver_ok)
            again = [v for v in R.violations if v[0] == want] + [b for b in R.breaks if b[0] == want]
            if again:
                print(f'REPRODUCED property={a.pid} {want}: {again[0][1][:300]}')
                sys.exit(1)
            print(f'not reproduced on the current tree: {want}')
            sys.exit(0)
        driver_ok = True
        if not a.no_lean:
            translate(R)
            driver_ok = lean_build(R, a.pid)
            if tier == 'thorough' and R.lean['build_ok']:
                leanchecker(R, a.pid)
        # thorough: the whole generator / oracle / correspondence pass is repeated on further seeds derived from the
        # given one (cases accumulate in the same verdict and evidence)
        reps = max(1, int(os.environ.get('VERIF_THOROUGH_SEEDS', '2'))) if tier == 'thorough' else 1
        seeds = [seed + 104729 * k for k in range(reps)]
        for sd in seeds:
            try:
                mod.run(R, tier, sd, driver_ok)
            except Exception as e:
                # an exception that escapes from the LIBRARY on one of the harness's well-formed calls (the harness wraps the
                # calls whose failure modes it judges; everything else is expected to return) is a failure of the property
                # on the implementation, not an infrastructure error; an exception raised by the harness itself still is
                tb = traceback.extract_tb(e.__traceback__)
                inner = tb[-1].filename if tb else ''
                lib = os.path.join(os.environ.get('VERIF_REPO', '/repo'), 'metric_learn')
                in_lib = [f for f in tb if f.filename.startswith(lib)]
                if not in_lib:
                    if R.violations:
                        # the harness itself stumbled (typically over a non-finite value the library returned) AFTER it had
                        # recorded violations on the implementation: those stand and are reported; the rest of the pass is lost
                        R.extra['harness_exception_after_violations'] = traceback.format_exc()[-1500:]
                        break
                    raise
                where = in_lib[-1]
                R.violation(f'library-raises/{type(e).__name__}/{os.path.basename(where.filename)}:{where.name}',
                            f'{type(e).__name__} escaped from {os.path.basename(where.filename)}:{where.lineno} ({where.name}) on a well-formed call of the harness: {str(e)[:200]}',
                            {'seed': sd, 'traceback': traceback.format_exc()[-3000:]})
        R.extra['seeds_explored'] = seeds
        rc = R.finish()
    except subprocess.TimeoutExpired:
        traceback.print_exc()
        sys.exit(2)
    except Exception:
        traceback.print_exc()
        sys.exit(2)
    sys.exit(rc)


if __name__ == '__main__':
    main()
