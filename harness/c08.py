"""C08 — supervised variants equal the base learner run on label-derived constraints.

Relation 1: real supervised fit vs real base fit on the constraints the harness derives with the
Constraints helper, the same seed and the wiring the Lean model prescribes.
Relation 2 (unknown labels): replacing the feature rows of unlabeled points by other values leaves the
learned metric unchanged, and no generated constraint mentions an unlabeled point."""
import warnings
import numpy as np
from common import lean_run, quiet
import zoo
from metric_learn import (Constraints, ITML, MMC, SDML, LSML, RCA, SCML, ITML_Supervised, MMC_Supervised,
                          SDML_Supervised, LSML_Supervised, RCA_Supervised, SCML_Supervised)
from metric_learn.constraints import wrap_pairs

SUP = {'ITML_Supervised': ITML, 'MMC_Supervised': MMC, 'SDML_Supervised': SDML, 'LSML_Supervised': LSML,
       'RCA_Supervised': RCA, 'SCML_Supervised': SCML}


def base_fit(name, wiring, params, X, y, seed):
    """fit the weakly supervised base algorithm on constraints derived as the model's wiring says"""
    c = Constraints(y)
    # the base learner runs with the supervised estimator's own (resolved) hyper-parameters: the two classes do not
    # share all defaults (MMC(tol=1e-3) vs MMC_Supervised(tol=1e-6))
    resolved = zoo.CLASSES[name](**params).get_params()
    base_names = set(SUP[name]().get_params())
    common = {k: v for k, v in resolved.items() if k in base_names and not (isinstance(v, str) and v == 'deprecated')
              and k not in ('n_constraints', 'n_chunks', 'chunk_size', 'k_genuine', 'k_impostor', 'weights')}
    with warnings.catch_warnings():
        warnings.simplefilter('ignore')
        if wiring[0] == 'pairs':
            n, sl = int(wiring[1]), wiring[2] == '1'
            pn = c.positive_negative_pairs(n, same_length=sl, random_state=seed)
            if name == 'LSML_Supervised':
                est = LSML(**common)
                est.fit(X[np.column_stack(pn)], weights=params.get('weights'))
                return est
            pairs, yy = wrap_pairs(X, pn)
            est = SUP[name](**common)
            if name == 'ITML_Supervised':
                est._fit(pairs, yy) if False else None
            # the base pairs learners also calibrate a threshold; only the metric is compared
            est.fit(pairs, yy)
            return est
        if wiring[0] == 'chunks':
            ch = c.chunks(n_chunks=int(wiring[1]), chunk_size=int(wiring[2]), random_state=seed)
            common.pop('random_state', None)
            est = RCA(**common)
            est.fit(X, ch)
            return est
        trip = c.generate_knntriplets(X, int(wiring[1]), int(wiring[2]))
        est = SCML(**common)
        est.fit(X[trip])
        return est


def run(R, tier, seed, driver_ok):
    quiet()
    rng = np.random.RandomState(seed + 808)
    reps = 6 if tier == 'quick' else 30
    R.rule = ('6 supervised estimators × n_constraints (given / default) / n_chunks / chunk_size / k_genuine / k_impostor × integer seeds × '
              'label vectors with and without unknown (−1) labels at arbitrary positions. case = (estimator, parameters, labels, seed); all non-trivial')
    R.assumptions = ['the base solver is treated as an arbitrary function; equality of metrics to 1e-9 relative']
    extra_dup = 8 if tier == 'quick' else 40      # further duplicate-rows cases for the pairs learners (cheap, and the
    #                                               stream in which the points of the pairs and the rows of X part ways)
    for rep in range(reps + extra_dup):
        for name in (SUP if rep < reps else ['ITML_Supervised', 'MMC_Supervised', 'LSML_Supervised']):
            d = int(rng.randint(2, 5))
            n_classes = int(rng.randint(2, 4))
            X, y = zoo.blobs(rng, d, n_classes, max(6, int(np.ceil(4 * d / n_classes)) + 2))
            unknown = rep % 2 == 1
            dup_stream = rep % 3 == 2 or rep >= reps
            if dup_stream:
                # repeated feature vectors (bootstrap-like data): a few samples share their coordinates
                src = rng.choice(len(X), size=3, replace=False)
                dst = np.array([int(rng.choice(np.nonzero(y != y[s_])[0])) for s_ in src])     # twins carry different labels
                X = X.copy(); X[dst] = X[src]
            yl = y.copy()
            if unknown:
                m = rng.rand(len(y)) < 0.25
                # keep every class with at least 4 labelled members
                for c_ in range(n_classes):
                    idx = np.nonzero((y == c_) & ~m)[0]
                    if len(idx) < 4:
                        m[np.nonzero(y == c_)[0][:4]] = False
                m[0] = True                                # an unlabeled point precedes labelled ones
                yl = np.where(m, -1, y)
            sd = int(rng.randint(1 << 30))
            params = zoo.default_params(name, rng, d)
            params['random_state'] = sd
            if name in ('ITML_Supervised', 'MMC_Supervised', 'SDML_Supervised', 'LSML_Supervised'):
                params['n_constraints'] = [None, 12, 40][int(rng.randint(3))]
            if name == 'SDML_Supervised':
                params['balance_param'] = zoo.sdml_safe_balance(name, X, None, {'n_constraints': params['n_constraints'] or 20 * 16})
            if name == 'SCML_Supervised':
                params['basis'] = 'triplet_diffs' if rep % 4 != 3 else 'lda'     # ('lda': the base learner has no such option —
                #                                                                   relations 2 and 3 below judge it)
                params['k_genuine'], params['k_impostor'] = int(rng.randint(1, 4)), int(rng.randint(1, 5))
            if name == 'RCA_Supervised':
                params['chunk_size'] = int(rng.choice([2, 3]))
                params['n_chunks'] = d + 2
                params['n_components'] = [None, max(1, d - 1), 1][int(rng.randint(3))]     # the reduced branch reads more of X
            params = zoo.fix_params(name, params, X, yl)
            num_classes = len(np.unique(yl[yl >= 0]))        # classes = distinct KNOWN labels (negative = unlabeled)
            case = {'est': name, 'params': {k: (v if not isinstance(v, np.ndarray) else 'array') for k, v in params.items()}, 'X': X, 'y': yl, 'seed': sd}
            R.case(('c08', name, repr(sorted(case['params'].items())), yl.tobytes().hex(), X.tobytes().hex()[:32]), True,
                   sample={'est': name, 'params': case['params'], 'labels': yl, 'unknown_labels': bool(unknown)}, branch=f'{name}:{"unknown" if unknown else "all-known"}')
            nc = params.get('n_constraints')
            line = (f"wiring {name} {'none' if nc is None else nc} {params.get('n_chunks', 100)} {params.get('chunk_size', 2)} "
                    f"{params.get('k_genuine', 3)} {params.get('k_impostor', 10)} {num_classes}")
            if driver_ok:
                wiring = lean_run([line])[0].split()[1:]
            else:
                # fallback: the documented wiring, so that the implementation oracle still runs
                wiring = (['pairs', str(nc if nc is not None else 20 * num_classes ** 2), '1' if name == 'LSML_Supervised' else '0']
                          if name not in ('RCA_Supervised', 'SCML_Supervised') else
                          (['chunks', str(params['n_chunks']), str(params['chunk_size'])] if name == 'RCA_Supervised'
                           else ['knn', str(params['k_genuine']), str(params['k_impostor'])]))
            lda_basis = name == 'SCML_Supervised' and params.get('basis') == 'lda'
            try:
                with warnings.catch_warnings():
                    warnings.simplefilter('ignore')
                    sup = zoo.CLASSES[name](**params).fit(X, yl)
                    base = sup if lda_basis else base_fit(name, wiring, params, X, yl, sd)
            except Exception as e:
                collapsed = False
                if dup_stream and wiring[0] == 'pairs':
                    with warnings.catch_warnings():
                        warnings.simplefilter('ignore')
                        pn_ = Constraints(yl).positive_negative_pairs(int(wiring[1]), same_length=wiring[2] == '1', random_state=sd)
                    collapsed = any(np.array_equal(X[i_], X[j_]) for i_, j_ in list(zip(pn_[0], pn_[1])) + list(zip(pn_[2], pn_[3])))
                if collapsed:
                    # two identical points were drawn as a pair (a collapsed pair: outside the learners' domain)
                    R.count('duplicate-rows-stream: collapsed pair drawn, case skipped')
                    continue
                R.violation(f'{name}/fit-raises-{type(e).__name__}', f'{name}: {type(e).__name__}: {str(e)[:200]}', case)
                continue
            Ms, Mb = sup.get_mahalanobis_matrix(), base.get_mahalanobis_matrix()
            if Ms.shape != Mb.shape or np.abs(Ms - Mb).max() > 1e-9 * max(np.abs(Mb).max(), 1e-300):
                msg = f'{name}: supervised fit differs from the base learner on the label-derived constraints (wiring {" ".join(wiring)}): max diff {np.abs(Ms - Mb).max() if Ms.shape == Mb.shape else "shape"}'
                R.violation(f'{name}/differs-from-base', msg, case)
            # relation 2: unlabeled rows do not matter
            if unknown:
                X2 = X.copy()
                X2[yl < 0] = rng.randn(int((yl < 0).sum()), d) * 5 + 3
                with warnings.catch_warnings():
                    warnings.simplefilter('ignore')
                    sup2 = zoo.CLASSES[name](**params).fit(X2, yl)
                M2 = sup2.get_mahalanobis_matrix()
                R.case(('c08-perturb', name, yl.tobytes().hex(), X.tobytes().hex()[:32]), True, branch=f'{name}:perturb-unlabeled')
                # relation 3: leaving the unlabeled rows out altogether gives the same metric (same seed, same — possibly
                # default — number of constraints: the default counts the known classes only)
                if name != 'RCA_Supervised':
                    keep = yl >= 0
                    try:
                        with warnings.catch_warnings():
                            warnings.simplefilter('ignore')
                            sup3 = zoo.CLASSES[name](**params).fit(X[keep], yl[keep])
                        M3 = sup3.get_mahalanobis_matrix()
                        R.case(('c08-drop', name, yl.tobytes().hex(), X.tobytes().hex()[:32]), True, branch=f'{name}:drop-unlabeled')
                        if M3.shape != Ms.shape or np.abs(M3 - Ms).max() > 1e-9 * max(np.abs(Ms).max(), 1e-300):
                            R.violation(f'{name}/unlabeled-points-matter/dropped', f'{name}: fitting without the unlabeled rows gives another metric (max diff {np.abs(M3 - Ms).max() if M3.shape == Ms.shape else "shape"}; n_constraints={params.get("n_constraints")}, basis={params.get("basis")})', case)
                    except Exception as e:
                        R.violation(f'{name}/fit-raises-{type(e).__name__}/dropped', f'{name}: fitting without the unlabeled rows raised {type(e).__name__}: {str(e)[:160]}', case)
                if M2.shape != Ms.shape or np.abs(M2 - Ms).max() > 1e-9 * max(np.abs(Ms).max(), 1e-300):
                    R.violation(f'{name}/unlabeled-points-matter', f'{name}: changing the feature rows of unlabeled points changes the learned metric (max diff {np.abs(M2 - Ms).max() if M2.shape == Ms.shape else "shape"})', case)
    # ---- the labels in other spellings: digit strings, floats, Python ints in an object array denote the same classes as
    #      the integers (the Constraints helper reads labels through an integer cast); words are rejected with ValueError
    for name in SUP:
        d = int(rng.randint(2, 4))
        X, y = zoo.blobs(rng, d, 3, 7)
        yl = y.copy(); yl[rng.choice(len(y), 3, replace=False)] = -1
        params = zoo.fix_params(name, dict(zoo.default_params(name, rng, d), random_state=7), X, yl)
        if name == 'SDML_Supervised':
            params['balance_param'] = zoo.sdml_safe_balance(name, X, None, {'n_constraints': 20 * 9})
        if name == 'SCML_Supervised':
            params['basis'] = ['triplet_diffs', 'lda'][int(rng.randint(2))]
        try:
            with warnings.catch_warnings():
                warnings.simplefilter('ignore')
                Mref = zoo.CLASSES[name](**params).fit(X, yl).get_mahalanobis_matrix()
        except RuntimeError:
            continue
        for tag, yy in (('digit-strings', yl.astype(str)), ('floats', yl.astype(float)), ('object-ints', yl.astype(object)), ('words', np.array(['u', 'a', 'b', 'c'])[yl + 1])):
            R.case(('c08-labels', name, tag, X.tobytes().hex()[:32]), True, branch=f'labels-{tag}')
            case = {'est': name, 'labels': tag, 'params': {k: (v if not isinstance(v, np.ndarray) else 'array') for k, v in params.items()}}
            try:
                with warnings.catch_warnings():
                    warnings.simplefilter('ignore')
                    M2 = zoo.CLASSES[name](**params).fit(X, yy).get_mahalanobis_matrix()
                if tag == 'words':
                    R.violation(f'{name}/labels-words-accepted', f'{name}: labels that are words were accepted', case)
                elif M2.shape != Mref.shape or np.abs(M2 - Mref).max() > 1e-9 * max(np.abs(Mref).max(), 1e-300):
                    R.violation(f'{name}/labels-{tag}-differ', f'{name}: labels given as {tag} give another metric than the same labels as integers', case)
            except ValueError:
                if tag != 'words' and not (tag == 'object-ints' and params.get('basis') == 'lda'):
                    R.violation(f'{name}/labels-{tag}-ValueError', f'{name}: labels given as {tag} raise ValueError', case)
            except Exception as e:
                R.violation(f'{name}/labels-{tag}-{type(e).__name__}', f'{name}: labels given as {tag} raise {type(e).__name__}: {str(e)[:100]}', case)
    R.extra['traces_validated_against_impl'] = R.evaluations


def replay(R, obj):
    print(obj.get('what'))
    return 0
