"""C11 — ITML returns the optimum of its LogDet program (KKT certificate).

Correspondence: the Float twin of the solver replays the real fit on the same pairs, bounds, prior, gamma,
max_iter, tol (prior captured at the initialiser's return).  Oracle on the implementation: M symmetric
positive definite; M⁻¹ − M0⁻¹ is a non-negative combination of y_i v_i v_iᵀ (NNLS residual); a prior that
satisfies all bounds is returned unchanged; at convergence the KKT residuals (projection step of every
constraint) vanish."""
import warnings
import numpy as np
import scipy.optimize
from common import bits, lean_run, parse_ok_floats, quiet, f2b
import zoo
import metric_learn.itml as mi
from metric_learn import ITML, ITML_Supervised


def capture_prior():
    store = {}
    orig = mi._initialize_metric_mahalanobis

    def spy(*a, **k):
        out = orig(*a, **k)
        store['A0'] = np.array(out, copy=True)
        return out
    return store, orig, spy


def run(R, tier, seed, driver_ok):
    quiet()
    rng = np.random.RandomState(seed + 1111)
    reps = 30 if tier == 'quick' else 250
    R.rule = ('pair sets from generated blobs × prior ∈ {identity, covariance, random, SPD array} × gamma ∈ {0.1,1,10,1e3} × explicit/default '
              'bounds × max_iter ∈ {1,2,5,50,1000} × tol; ITML and ITML_Supervised; feasible-prior cases. case = (pairs, options); all non-trivial')
    R.assumptions = ['the prior is taken from the real initialiser (C20 covers it); default bounds are percentiles computed by NumPy']
    lines, meta = [], []
    nonpsd = []
    for rep in range(reps):
        d = int(rng.randint(2, 6))
        X, y = zoo.blobs(rng, d)
        if rep % 4 == 3:
            X = X * float(10.0 ** rng.choice([-3, 3]))          # the same data in other units
        idx, yy = zoo.pairs_from(X, y, rng, n=int(rng.randint(4, 25)))
        pairs = X[idx]
        prior_kind = ['identity', 'covariance', 'random', 'array'][rep % 4]
        A = rng.randn(d, d)
        prior = A.dot(A.T) + 0.5 * np.eye(d) if prior_kind == 'array' else prior_kind
        gamma = float(rng.choice([0.1, 1.0, 10.0, 1e3]))
        max_iter = int(rng.choice([1, 2, 5, 50, 1000]))
        tol = float(rng.choice([1e-3, 1e-6, 1e-10]))
        mode = rep % 5
        if mode == 0:
            bounds = None
        elif mode == 1:
            bounds = [1e9, 1e-9] if rep % 4 != 3 else [1e24, 1e-24]     # every prior is feasible (also in the other units)
        else:
            dist = np.sqrt(((pairs[:, 0] - pairs[:, 1]) ** 2).sum(1))
            lo, hi = np.percentile(dist, [20, 80])
            bounds = [float(lo), float(hi)] if rng.rand() < 0.7 else [float(hi), float(lo)]
            if mode == 4:
                # integer bounds (an integer-dtype array reaches fit): the slack-adjusted bounds must still be real numbers
                lo_i = max(1, int(round(lo))); hi_i = max(lo_i + 1, int(round(hi)) + 1)
                bounds = [lo_i, hi_i]
        supervised = (rep % 7 == 3)
        sd = int(rng.randint(1 << 30))
        case = {'prior': prior_kind, 'gamma': gamma, 'max_iter': max_iter, 'tol': tol, 'bounds': bounds, 'pairs': pairs, 'y': yy, 'supervised': supervised}
        store, orig, spy = capture_prior()
        mi._initialize_metric_mahalanobis = spy
        try:
            with warnings.catch_warnings():
                warnings.simplefilter('ignore')
                if supervised:
                    est = ITML_Supervised(prior=prior, gamma=gamma, max_iter=max_iter, tol=tol, n_constraints=15, random_state=sd)
                    est.fit(X, y, bounds=None if bounds is None else np.array(bounds))
                    # the pairs the supervised variant used: re-derive with the same helper and seed
                    from metric_learn import Constraints
                    from metric_learn.constraints import wrap_pairs
                    pn = Constraints(y).positive_negative_pairs(15, random_state=sd)
                    pairs, yy = wrap_pairs(X, pn)
                else:
                    est = ITML(prior=prior, gamma=gamma, max_iter=max_iter, tol=tol, random_state=sd)
                    est.fit(pairs, yy, bounds=None if bounds is None else np.array(bounds))
        except Exception as e:
            from metric_learn.exceptions import NonPSDError
            if isinstance(e, NonPSDError):
                # over ℝ the iterate is always positive definite (C11_pd); in binary64 an extremely ill-conditioned
                # iterate can lose definiteness, and fit then refuses to return it.  Isolated cases are counted; a
                # systematic loss of definiteness is a violation.
                nonpsd.append(case)
                continue
            R.violation(f'ITML/fit-raises-{type(e).__name__}', f'ITML.fit raised {type(e).__name__}: {str(e)[:200]}', case)
            continue
        finally:
            mi._initialize_metric_mahalanobis = orig
        A0 = store['A0']
        # the matrix the iterations start from is the documented prior for these pairs
        want0, cond0 = zoo.documented_prior(prior_kind, pairs, prior if prior_kind == 'array' else None)
        if want0 is not None and np.abs(A0 - want0).max() > max(1e-9, 1e3 * 2.3e-16 * cond0) * max(np.abs(want0).max(), 1e-300):
            R.violation(f'ITML/prior-{prior_kind}-not-as-documented', f'the prior ITML starts from differs from the documented {prior_kind} prior of these pairs (max diff {np.abs(A0 - want0).max():.3g})', case)
        M = est.get_mahalanobis_matrix()
        R.case(('c11', pairs.tobytes().hex()[:64], prior_kind, gamma, max_iter, tol, repr(bounds), supervised), True,
               sample={'d': d, 'n_pairs': len(yy), 'prior': prior_kind, 'gamma': gamma, 'max_iter': max_iter, 'tol': tol, 'bounds': bounds,
                       'n_iter_': int(est.n_iter_)}, branch=f'{prior_kind}:{"feasible" if mode == 1 else "default-bounds" if mode == 0 else "explicit-bounds"}')
        pos, neg = pairs[yy == 1], pairs[yy == -1]
        V = np.vstack([pos[:, 0] - pos[:, 1], neg[:, 0] - neg[:, 1]])
        sgn = np.concatenate([np.ones(len(pos)), -np.ones(len(neg))])
        # --- oracle on the implementation
        scale = np.abs(M).max()
        mineig = np.linalg.eigvalsh((M + M.T) / 2).min()
        if np.abs(M - M.T).max() > 1e-10 * scale or mineig < -1e-13 * scale:
            R.violation('ITML/not-spd', f'learned M is not symmetric positive definite (smallest eigenvalue {mineig:.3g}, scale {scale:.3g})', case); continue
        if mineig <= 1e-13 * scale:
            # positive definite over ℝ (C11_pd), but conditioned beyond binary64 (e.g. a zero 5th-percentile distance turned
            # into the bound 1e-9 with a large gamma): the smallest eigenvalue is rounding noise and the inverse-based
            # certificates below say nothing
            R.count('numerically-singular-result (certificates skipped)'); continue
        Delta = np.linalg.inv(M) - np.linalg.inv(A0)
        basis = np.stack([(s_ * np.outer(v, v)).ravel() for s_, v in zip(sgn, V)], axis=1)
        coef, resid = scipy.optimize.nnls(basis, Delta.ravel())
        cond = np.linalg.cond(M) * np.linalg.cond(A0)
        if resid > 1e-8 * max(np.abs(Delta).max(), 1e-12) * max(cond, 1) + 1e-10:
            R.violation('ITML/inverse-form', f'M⁻¹ − M0⁻¹ is not a non-negative combination of y_i v_i v_iᵀ (NNLS residual {resid:.3g})', case)
        if mode == 1 and np.abs(M - A0).max() > 1e-9 * np.abs(A0).max():
            R.violation('ITML/feasible-prior-changed', 'the prior satisfies all bounds but was not returned unchanged', case)
        # --- model replay
        u, l = float(est.bounds_[0]), float(est.bounds_[1])
        lines.append(f'itml_run {d} {len(V)} {len(pos)} {f2b(gamma)} {f2b(tol)} {max_iter} {f2b(u)} {f2b(l)} {bits(A0)} {bits(V)}')
        meta.append((M, int(est.n_iter_), V, sgn, A0, gamma, tol, max_iter, case, u, l))
        # sensitivity probe: the same replay on inputs perturbed in the last bit measures how much the solver
        # amplifies rounding on this instance (the tolerance of the comparison is calibrated on it)
        A0p = A0 * (1 + 2.2e-16 * rng.randn(*A0.shape)); A0p = (A0p + A0p.T) / 2
        Vp = V * (1 + 2.2e-16 * rng.randn(*V.shape))
        lines.append(f'itml_run {d} {len(V)} {len(pos)} {f2b(gamma)} {f2b(tol)} {max_iter} {f2b(u)} {f2b(l)} {bits(A0p)} {bits(Vp)}')
        meta.append(None)
    # ---- bounds that the prior M0 = LᵀL violates although the "transposed" matrix L Lᵀ (L the factor components_from_metric
    #      returns) satisfies them, and the other way round: feasibility is a statement about M0, with a correlated prior the
    #      two differ.  A violated bound must move the matrix; a feasible prior must come back unchanged.
    from metric_learn._util import components_from_metric as _cfm
    for rep in range(6 if tier == 'quick' else 40):
        d = int(rng.randint(2, 5))
        B = rng.randn(d, d); M0 = B.dot(B.T) + 0.3 * np.eye(d)
        Lf = _cfm(M0); Mt = Lf.dot(Lf.T)
        for attempt in range(200):
            P = rng.randn(2, 2, d) * 2
            v = P[:, 0] - P[:, 1]
            d0 = np.einsum('ij,jk,ik->i', v, M0, v); dt = np.einsum('ij,jk,ik->i', v, Mt, v)
            if abs(d0[0] - dt[0]) > 0.2 * max(d0[0], dt[0]):
                break
        else:
            continue
        flip = rep % 2 == 1                      # False: M0 violates the similar pair's bound, L Lᵀ does not; True: the reverse
        hi_, lo_ = max(d0[0], dt[0]), min(d0[0], dt[0])
        if (d0[0] > dt[0]) == flip:
            # the similar pair is the wrong way round for this variant: use the pair as the DISSIMILAR one instead
            yy2 = np.array([-1, 1]); u_ = float(max(d0[1], dt[1]) * 2); l_ = float(np.sqrt(hi_ * lo_))
        else:
            yy2 = np.array([1, -1]); u_ = float(np.sqrt(hi_ * lo_)); l_ = float(min(d0[1], dt[1]) / 2)
        sim = v[yy2 == 1][0]; dis = v[yy2 == -1][0]
        feas0 = (sim.dot(M0).dot(sim) <= u_) and (dis.dot(M0).dot(dis) >= l_)
        feast = (sim.dot(Mt).dot(sim) <= u_) and (dis.dot(Mt).dot(dis) >= l_)
        case = {'prior': 'array', 'M0': M0, 'gamma': 1.0, 'max_iter': 200, 'bounds': [u_, l_], 'pairs': P, 'y': yy2,
                'note': f'prior feasible: {bool(feas0)}; transposed factor product feasible: {bool(feast)}'}
        R.case(('c11-transposed', P.tobytes().hex()[:48], rep), True, branch=f'correlated-prior:{"feasible" if feas0 else "violated"}-while-LLt-{"feasible" if feast else "violated"}')
        try:
            with warnings.catch_warnings():
                warnings.simplefilter('ignore')
                est = ITML(prior=M0.copy(), gamma=1.0, max_iter=200, tol=1e-6).fit(P, yy2, bounds=np.array([u_, l_]))
        except Exception as e:
            R.violation(f'ITML/fit-raises-{type(e).__name__}', f'ITML.fit raised {type(e).__name__}: {str(e)[:160]}', case); continue
        M = est.get_mahalanobis_matrix()
        if feas0 and np.abs(M - M0).max() > 1e-9 * np.abs(M0).max():
            R.violation('ITML/feasible-prior-changed', 'the (correlated) prior satisfies all bounds but was not returned unchanged', case)
        if not feas0 and np.abs(M - M0).max() <= 1e-9 * np.abs(M0).max():
            R.violation('ITML/violated-bound-ignored', 'the (correlated) prior violates a bound by a wide margin, yet it was returned unchanged (multipliers zero, constraint violated)', case)
        V2 = np.vstack([sim, dis])
        lines.append(f'itml_run {d} 2 1 {f2b(1.0)} {f2b(1e-6)} 200 {f2b(float(est.bounds_[0]))} {f2b(float(est.bounds_[1]))} {bits((M0 + M0.T) / 2)} {bits(V2)}')
        meta.append((M, int(est.n_iter_), V2, np.array([1.0, -1.0]), M0, 1.0, 1e-6, 200, case, float(est.bounds_[0]), float(est.bounds_[1])))
        A0p = M0 * (1 + 2.2e-16 * rng.randn(d, d)); A0p = (A0p + A0p.T) / 2
        lines.append(f'itml_run {d} 2 1 {f2b(1.0)} {f2b(1e-6)} 200 {f2b(float(est.bounds_[0]))} {f2b(float(est.bounds_[1]))} {bits(A0p)} {bits(V2 * (1 + 2.2e-16 * rng.randn(2, d)))}')
        meta.append(None)
    # ---- hard constraints (infinite gamma, however it is spelled), a zero iteration budget, integer bounds with a zero
    for rep in range(4 if tier == 'quick' else 24):
        d = int(rng.randint(2, 5))
        X, y = zoo.blobs(rng, d)
        idx, yy = zoo.pairs_from(X, y, rng, n=int(rng.randint(4, 12)), repeats=False)
        pairs = X[idx]
        dist = np.sqrt(((pairs[:, 0] - pairs[:, 1]) ** 2).sum(1))
        lo, hi = np.percentile(dist, [30, 70])
        b = np.array([float(lo), float(hi)])
        case = {'pairs': pairs, 'y': yy, 'bounds': b.tolist(), 'stream': 'hard-constraints / zero budget / integer bounds'}
        R.case(('c11-hard', pairs.tobytes().hex()[:64]), True, sample={'d': d, 'n_pairs': len(yy), 'bounds': b.tolist()}, branch='infinite-gamma')
        try:
            with warnings.catch_warnings():
                warnings.simplefilter('ignore')
                fits = [ITML(gamma=g, max_iter=30).fit(pairs, yy, bounds=b.copy()) for g in (np.inf, float('inf'), np.float64('inf'), 1e300)]
                Ms = [f.get_mahalanobis_matrix() for f in fits]
                if not (np.array_equal(Ms[0], Ms[1]) and np.array_equal(Ms[0], Ms[2])):
                    R.violation('ITML/infinite-gamma/spelling', 'gamma=np.inf, float("inf") and np.float64("inf") give different matrices (max diff '
                                f'{max(np.abs(Ms[0] - Ms[1]).max(), np.abs(Ms[0] - Ms[2]).max()):.3g})', case)
                if np.abs(Ms[1] - Ms[3]).max() > 1e-6 * np.abs(Ms[3]).max():
                    R.violation('ITML/infinite-gamma/limit', f'gamma=inf differs from gamma=1e300 (relative {np.abs(Ms[1] - Ms[3]).max() / np.abs(Ms[3]).max():.3g})', case)
                # zero iteration budget: the prior itself
                store, orig, spy = capture_prior()
                mi._initialize_metric_mahalanobis = spy
                try:
                    e0 = ITML(max_iter=0, prior=['identity', 'covariance', 'random'][rep % 3], random_state=rep).fit(pairs, yy)
                finally:
                    mi._initialize_metric_mahalanobis = orig
                R.case(('c11-zero', pairs.tobytes().hex()[:64]), True, branch='zero-budget')
                if np.abs(e0.get_mahalanobis_matrix() - store['A0']).max() > 1e-9 * np.abs(store['A0']).max():
                    R.violation('ITML/zero-budget', 'max_iter=0 does not return the prior', case)
                # integer bounds containing a zero mean what the same numbers as floats mean
                hi_i = max(1, int(round(hi)) + 1)
                R.case(('c11-intb', pairs.tobytes().hex()[:64]), True, branch='integer-bounds-with-zero')
                ei = ITML(max_iter=20).fit(pairs, yy, bounds=np.array([0, hi_i]))
                ef = ITML(max_iter=20).fit(pairs, yy, bounds=np.array([0.0, float(hi_i)]))
                if not np.array_equal(ei.get_mahalanobis_matrix(), ef.get_mahalanobis_matrix()):
                    R.violation('ITML/integer-bounds-with-zero', 'bounds=[0, k] as integers and as floats give different matrices', case)
        except Exception as e:
            R.violation(f'ITML/fit-raises-{type(e).__name__}', f'ITML.fit raised {type(e).__name__}: {str(e)[:200]} (hard constraints / zero budget / integer bounds stream)', case)
    R.count('fit-refused-nonpsd-iterate (rounding)', len(nonpsd)) if nonpsd else None
    if len(nonpsd) > max(2, reps // 10):
        R.violation('ITML/not-spd-systematic', f'{len(nonpsd)} of {reps} fits lost positive definiteness (NonPSDError)', nonpsd[0])
    if driver_ok and lines:
        outs = lean_run(lines)
        worst = 0.0
        for oi, (o, mt) in enumerate(zip(outs, meta)):
            if mt is None:
                continue
            M, nit, V, sgn, A0, gamma, tol, max_iter, case, u, l = mt
            tk = o.split()
            tkp = outs[oi + 1].split()
            if tk[0] != 'ok':
                R.broken('correspondence:C11:itml_run', f'model answered {o[:60]}', case); continue
            it = int(tk[1])
            vals = np.array([int(x) for x in tk[2:]], dtype=np.uint64).view(np.float64)
            d = M.shape[0]; m = len(V)
            Am = vals[:d * d].reshape(d, d); lam = vals[d * d:d * d + m]; xi = vals[d * d + m:]
            rel = np.abs(Am - M).max() / max(np.abs(M).max(), 1e-300)
            Ap = np.array([int(x) for x in tkp[2:2 + d * d]], dtype=np.uint64).view(np.float64).reshape(d, d) if tkp[0] == 'ok' else Am
            sens = np.abs(Ap - Am).max() / max(np.abs(M).max(), 1e-300)
            if int(tkp[1]) != it:
                sens = max(sens, 1.0)                   # even the sweep count depends on the last bit
            tol_rel = 1e-9 + 1e3 * sens
            if tol_rel > 1e-3:
                R.count('skipped-rounding-sensitive')   # last-bit perturbations move the result by > 1e-6: no useful comparison
                continue
            worst = max(worst, rel)
            if rel > tol_rel:
                R.broken('correspondence:C11:itml_run', f'Float twin of the solver differs from the implementation: relative {rel:.3g}', case)
                continue
            if it != nit and abs(it - nit) > 1:
                R.broken('correspondence:C11:n_iter', f'twin stopped after {it} sweeps, implementation n_iter_={nit}', case)
            # certificate with the model's dual variables: stationarity, dual feasibility, and (if converged) slackness
            if lam.min() < -1e-12 or xi.min() <= 0:
                R.broken('correspondence:C11:dual-feasibility', f'model dual variables violate λ ≥ 0 / ξ > 0 (min λ {lam.min()}, min ξ {xi.min()})', case)
            Binv = np.linalg.inv(A0) + sum(s_ * l_ * np.outer(v, v) for s_, l_, v in zip(sgn, lam, V))
            stat = np.abs(np.linalg.inv(M) - Binv).max() / max(np.abs(Binv).max(), 1e-300)
            cond = np.linalg.cond(M) * np.linalg.cond(A0)
            if stat > 10 * (1e-9 + tol_rel) * max(np.linalg.cond(M), 1):
                R.violation('ITML/stationarity', f'M⁻¹ ≠ M0⁻¹ + Σ y_i λ_i v_i v_iᵀ with the solver\'s duals (relative {stat:.3g})', case)
            # the slack variables satisfy their own stationarity equation γ(1/ξ0 − 1/ξ) = y λ at every step
            # (SlackInv in MLProps/C11.lean, hypothesis `hslack` of C11_kkt_optimal_unique)
            xi0 = np.where(sgn > 0, u, l)
            sl = np.abs(1 / xi - (1 / xi0 - sgn * lam / gamma))
            if (sl / (1 / xi + 1 / xi0 + np.abs(lam) / gamma)).max() > 1e-7:
                R.violation('ITML/slack-stationarity', f'1/ξ ≠ 1/ξ0 − y λ/γ with the solver\'s duals (relative {(sl / (1 / xi + 1 / xi0 + np.abs(lam) / gamma)).max():.3g})', case)
            converged = nit < max_iter - 1 and tol <= 1e-9
            if converged:
                gp = gamma / (gamma + 1)
                p = np.einsum('ij,jk,ik->i', V, M, V)
                alpha = np.where(sgn > 0, np.minimum(lam, gp * (1 / p - 1 / xi)), np.minimum(lam, gp * (1 / xi - 1 / p)))
                if np.abs(alpha).max() > max(1e-6, 10 * tol_rel) * max(1.0, np.abs(lam).max(), (1 / p + 1 / xi).max()):
                    R.violation('ITML/kkt-slackness', f'converged, yet a constraint is neither inactive nor tight (projection step {np.abs(alpha).max():.3g})', case)
        R.extra['worst_relative_twin_gap'] = worst
        R.extra['traces_validated_against_impl'] = len(lines) // 2


def replay(R, obj):
    print(obj.get('what'))
    return 0
