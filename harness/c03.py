"""C03 — fit on well-formed input yields a valid Mahalanobis model of the right shape.

Oracle on the implementation: fit returns self; components_ real finite 2-D float (k, d) with k as the
model predicts (checkNComponents generated from the source; SCML low-rank branch); M symmetric PSD;
n_features_in_ = features of the last fit (also after a refit on another dimensionality);
transform maps (n, d) → (n, k).  Correspondence: the generated `_check_n_components` vs the real one."""
import warnings
import numpy as np
from common import lean_run, quiet
import zoo
from metric_learn._util import _check_n_components


def spd(rng, d):
    A = rng.randn(d, d)
    S = A.dot(A.T) + d * np.eye(d)
    return np.asfortranarray(S) if rng.rand() < 0.5 else S     # either memory layout


def spd_int(rng, d):
    """an SPD array with an integer dtype"""
    A = rng.randint(-2, 3, size=(d, d))
    return A.dot(A.T) + d * np.eye(d, dtype=int)


def dependent_basis(rng, d):
    """a basis array with more rows than features whose rows span a proper subspace (e.g. pairwise differences of a
    few class means): many elements can be active although the metric has rank < d"""
    r = max(1, d - 1 - int(rng.randint(0, 2)))
    G = rng.randn(r, d)
    B = rng.randn(2 * d + 2, r).dot(G)
    B /= np.linalg.norm(B, axis=1, keepdims=True)
    return {'basis': B, 'n_basis': len(B)}


def configs(name, rng, d, n_classes, thorough):
    """documented option values of the estimator (a sample in the quick tier)"""
    out = []
    ncs = [None] + list(range(1, d + 1))
    if name in ('LMNN', 'NCA', 'MLKR'):
        inits = ['auto', 'pca', 'identity', 'random', 'array'] + (['lda'] if name != 'MLKR' else [])
        for init in inits:
            for nc in ncs:
                k = d if nc is None else nc
                p = {'init': init, 'n_components': nc}
                # (init='lda' with more rows asked for than LDA has discriminative directions: the documentation promises zero
                #  rows for the rest; the tree as given raised ValueError from scikit-learn's LDA — defect D41, repaired)
                if init == 'array':
                    p['init'] = rng.randn(k, d) if rng.rand() < 0.7 else rng.randint(-3, 4, size=(k, d)) + np.eye(k, d, dtype=int) * 5
                out.append(p)
        # an integer array as initial transformation and too few iterations to move away from it
        out.append({'init': rng.randint(-3, 4, size=(d, d)) + np.eye(d, dtype=int) * 5, 'n_components': None, 'max_iter': 2 if name == 'LMNN' else 0, '_always': True})
    elif name in ('ITML', 'LSML', 'SDML', 'ITML_Supervised', 'LSML_Supervised', 'SDML_Supervised'):
        for prior in ['identity', 'covariance', 'random', 'array']:
            out.append({'prior': spd(rng, d) if prior == 'array' else prior})
        out.append({'prior': spd_int(rng, d)})
    elif name in ('MMC', 'MMC_Supervised'):
        for init in ['identity', 'covariance', 'random', 'array']:
            out.append({'init': spd(rng, d) if init == 'array' else init, 'diagonal': False})
        out.append({'init': spd_int(rng, d), 'diagonal': False})
        # the diagonal variant with every initial matrix (only its diagonal is read): the result is a diagonal PSD matrix
        for init in ['identity', 'covariance', 'random', 'array']:
            out.append({'init': spd(rng, d) if init == 'array' else init, 'diagonal': True, '_always': True})
    elif name == 'LFDA':
        for emb in ['weighted', 'orthonormalized', 'plain']:
            for k in [None, 1, 2, d - 1, d, d + 2]:
                for nc in (ncs if thorough else [None, 1, d]):
                    out.append({'embedding_type': emb, 'k': k, 'n_components': nc})
    elif name in ('RCA', 'RCA_Supervised'):
        for nc in ncs:
            out.append({'n_components': nc})
    elif name == 'SCML':
        out.append({'basis': 'triplet_diffs'})
        out.append({'basis': 'triplet_diffs', 'n_basis': d + 1})
        B = rng.randn(3 * d, d); B /= np.linalg.norm(B, axis=1, keepdims=True)
        out.append({'basis': B, 'n_basis': 3 * d})
        out.append(dependent_basis(rng, d))
    elif name == 'SCML_Supervised':
        out.append({'basis': 'lda'})
        out.append({'basis': 'triplet_diffs'})
        B = rng.randn(3 * d, d); B /= np.linalg.norm(B, axis=1, keepdims=True)
        out.append({'basis': B, 'n_basis': 3 * d})
        out.append(dependent_basis(rng, d))
    else:
        out.append({})
    return out


def expected_rows(name, params, d):
    nc = params.get('n_components')
    if name in ('LMNN', 'NCA', 'MLKR', 'LFDA', 'RCA', 'RCA_Supervised'):
        return d if nc is None else nc, False
    if name.startswith('SCML'):
        return None, True          # k <= d, low rank allowed (with a warning)
    return d, False


def check_model(R, label, est, ret, X, d, k_expected, lowrank_ok, warned_lowrank, case):
    if ret is not est:
        R.violation(f'{label}/fit-return', f'{label}: fit did not return the estimator', case)
    L = getattr(est, 'components_', None)
    if L is None:
        R.violation(f'{label}/no-components', f'{label}: no components_ after fit', case)
        return
    L = np.asarray(L)
    if L.ndim != 2 or L.dtype.kind != 'f':
        R.violation(f'{label}/components-dtype', f'{label}: components_ has dtype {L.dtype}, ndim {L.ndim}', case)
        return
    if not np.all(np.isfinite(L)):
        R.violation(f'{label}/components-nonfinite', f'{label}: components_ not finite', case)
        return
    k = L.shape[0]
    if L.shape[1] != d:
        R.violation(f'{label}/components-cols', f'{label}: components_ shape {L.shape} for {d} features', case)
        return
    if k_expected is not None and k != k_expected:
        R.violation(f'{label}/components-rows', f'{label}: components_ has {k} rows, expected {k_expected}', case)
    if k > d or k < (0 if lowrank_ok else 1):
        R.violation(f'{label}/components-rows-range', f'{label}: components_ has {k} rows for {d} features', case)
    if k < d and k_expected is None and not (lowrank_ok and warned_lowrank):
        R.violation(f'{label}/lowrank-unannounced', f'{label}: k={k} < d={d} without the documented low-rank warning', case)
    M = est.get_mahalanobis_matrix()
    nm = max(np.linalg.norm(M), 1e-300)
    if M.shape != (d, d) or np.abs(M - M.T).max() > 1e-12 * nm or np.linalg.eigvalsh((M + M.T) / 2).min() < -1e-10 * nm:
        R.violation(f'{label}/M-not-psd', f'{label}: M not symmetric PSD', case)
    nf = getattr(est, 'n_features_in_', None)
    if nf != d:
        R.violation(f'{label}/n_features_in_', f'{label}: n_features_in_={nf!r} after fitting points with {d} features', case)
    T = est.transform(X)
    if T.shape != (len(X), k):
        R.violation(f'{label}/transform-shape', f'{label}: transform shape {T.shape}, expected {(len(X), k)}', case)


def run(R, tier, seed, driver_ok):
    quiet()
    rng = np.random.RandomState(seed + 303)
    thorough = tier == 'thorough'
    R.rule = ('17 estimators × documented option values (init/prior/basis/embedding_type/k/n_components 1..d) × generated well-formed '
              'data (d∈[2,6], n≥4d, 2–4 classes ≥4 members) + a refit on data of another dimensionality; case = (estimator, options, data seed); '
              'all cases non-trivial; distinct by hash')
    R.assumptions = ['finiteness / real dtype of components_ depends on external numeric kernels: checked per fit, not proved']
    lines, meta = [], []
    for name in zoo.ALL:
        d = int(rng.randint(2, 6)) if not thorough else None
        reps = 1 if not thorough else 3
        for rep in range(reps):
            dd = d or int(rng.randint(2, 7))
            n_classes = int(rng.randint(2, 5))
            n_per = max(4, int(np.ceil(4 * dd / n_classes)) + int(rng.randint(0, 4)))
            if name.startswith('RCA'):
                n_per = max(n_per, 6)
            X, y = zoo.blobs(rng, dd, n_classes, n_per)
            if name == 'LFDA' or (name == 'NCA' and rng.rand() < 0.5):
                # a class with a single member, the data away from the origin (positive measurements)
                X = np.vstack([X, X[int(rng.randint(len(X)))] + rng.randn(dd)]) + 4.0 + 3.0 * rng.rand(dd)
                y = np.concatenate([y, [y.max() + 1]])
            cfgs = configs(name, rng, dd, n_classes, thorough)
            if not thorough and len(cfgs) > 10:
                keep = set(rng.choice(len(cfgs), 10, replace=False).tolist()) | {i_ for i_, c_ in enumerate(cfgs) if c_.get('_always')}
                # stratify: every value of every string-valued option, once with a reduced and once with the full dimension
                seen = set()
                for i_, c_ in enumerate(cfgs):
                    for k_, v_ in c_.items():
                        if isinstance(v_, str):
                            nc_ = c_.get('n_components')
                            tag = (k_, v_, 'reduced' if (nc_ is not None and nc_ < dd) else 'full')
                            if tag not in seen:
                                seen.add(tag); keep.add(i_)
                cfgs = [cfgs[i] for i in sorted(keep)]
            for cfg in cfgs:
                label = name
                desc = {k: (v if not isinstance(v, np.ndarray) else f'array{v.shape}') for k, v in cfg.items() if not k.startswith('_')}
                case = {'est': name, 'params': desc, 'X': X, 'y': y}
                may_reject = bool(cfg.pop('_may_reject', False)); cfg.pop('_always', None)
                p = zoo.default_params(name, rng, dd)
                p.update(cfg)
                p = zoo.fix_params(name, p, X, y)
                args = zoo.fit_args(name, X, y, rng)
                if name.startswith('SDML'):
                    p['balance_param'] = zoo.sdml_safe_balance(name, X, args, p) if isinstance(p.get('prior', 'identity'), str) and p.get('prior', 'identity') == 'identity' else 1e-6
                R.case(('c03', name, repr(sorted(desc.items())), X.tobytes().hex()[:48]), True,
                       sample={'est': name, 'params': desc, 'n': len(X), 'd': dd}, branch=name)
                try:
                    est = zoo.CLASSES[name](**p)
                    with warnings.catch_warnings(record=True) as wl:
                        warnings.simplefilter('always')
                        ret = est.fit(*args)
                except Exception as e:
                    if name.startswith('SDML') and isinstance(e, RuntimeError):
                        # the documented failure clause of SDML (C13): the graphical-lasso solver could not produce a finite SPD matrix
                        R.count('SDML-solver-failure (RuntimeError, judged by C13)')
                        continue
                    if name.startswith('MMC') and cfg.get('diagonal') and isinstance(e, ValueError) and 'NaN' in str(e):
                        R.count('MMC-diagonal-NaN-objective (ValueError, the documented failure clause of C14)')
                        continue
                    if may_reject and isinstance(e, ValueError):
                        R.count('lda-init-overask-rejected (ValueError)')
                        continue
                    R.violation(f'{name}/fit-raises/{type(e).__name__}', f'{name}({desc}).fit raised {type(e).__name__}: {str(e)[:200]}', case)
                    continue
                warned = any('reduces the dimension' in str(w.message) for w in wl)
                k_exp, lowrank_ok = expected_rows(name, cfg, dd)
                check_model(R, name, est, ret, X, dd, k_exp, lowrank_ok, warned, case)
                if cfg.get('diagonal'):
                    Md = est.get_mahalanobis_matrix()
                    if np.abs(Md - np.diag(np.diag(Md))).max() > 0:
                        R.violation(f'{name}/diagonal-not-diagonal', f'{name}(diagonal=True, init={desc.get("init")}): the learned matrix is not diagonal', case)
                # refit the same object on data of another dimensionality: n_features_in_ must follow
                if rng.rand() < (0.5 if not thorough else 1.0) and not any(isinstance(v, np.ndarray) for v in cfg.values()) \
                        and cfg.get('n_components') is None and cfg.get('init') != 'lda':
                    d2 = dd + 1 if dd < 6 else dd - 1
                    X2, y2 = zoo.blobs(rng, d2, n_classes, max(n_per, 6))
                    args2 = zoo.fit_args(name, X2, y2, rng)
                    est.set_params(**{k: v for k, v in zoo.fix_params(name, zoo.default_params(name, rng, d2), X2, y2).items() if k in ('n_basis', 'n_chunks', 'chunk_size')})
                    try:
                        with warnings.catch_warnings(record=True) as wl:
                            warnings.simplefilter('always')
                            ret = est.fit(*args2)
                        warned = any('reduces the dimension' in str(w.message) for w in wl)
                        case2 = {'est': name, 'params': desc, 'history': f'fit(d={dd}) then fit(d={d2})', 'X': X2, 'y': y2}
                        R.case(('c03-refit', name, repr(sorted(desc.items())), X2.tobytes().hex()[:48]), True, branch='refit')
                        check_model(R, name + '[refit]', est, ret, X2, d2, None if lowrank_ok else d2, lowrank_ok, warned, case2)
                    except Exception as e:
                        if name.startswith('MMC') and cfg.get('diagonal') and isinstance(e, ValueError) and 'NaN' in str(e):
                            R.count('MMC-diagonal-NaN-objective (ValueError, the documented failure clause of C14)')
                        elif not (name.startswith('SDML') and isinstance(e, RuntimeError)):
                            R.violation(f'{name}[refit]/fit-raises/{type(e).__name__}', f'{name} refit raised {type(e).__name__}: {str(e)[:200]}', case)
    # ---- one feature: every learner (but SDML, which documents that it needs two) returns a finite (k, 1) transformation
    for name in zoo.ALL:
        if name.startswith('SDML'):
            continue
        for rep in range(1 if not thorough else 4):
            case = {'est': name, 'params': 'defaults', 'note': 'single-feature data'}
            R.case(('c03-one-feature', name, rep, seed), True, branch='one-feature')
            try:
                with warnings.catch_warnings(record=True) as wl:
                    warnings.simplefilter('always')
                    est, X1, y1, args1 = zoo.fitted(name, rng, d=1)
                case.update({'X': X1, 'y': y1})
                lowrank_ok = name.startswith('SCML')
                warned = lowrank_ok          # (zoo.fitted silences warnings: the announcement of a low rank is judged in the main stream)
                check_model(R, name + '[d=1]', est, est, X1, 1, None if lowrank_ok else 1, lowrank_ok, warned, case)
            except Exception as e:
                R.violation(f'{name}/fit-raises/{type(e).__name__}/one-feature', f'{name} on single-feature data raised {type(e).__name__}: {str(e)[:160]}', case)
    # ---- comparisons that involve a pair of identical points (legal quadruplets: d(a,b) <= d(c,c) or d(a,a) <= d(c,d))
    from metric_learn import LSML
    for rep in range(2 if not thorough else 8):
        dd = int(rng.randint(2, 5)); Xq = rng.randn(20, dd)
        q = rng.randint(0, 20, size=(12, 4)); q = q[(q[:, 0] != q[:, 1]) & (q[:, 2] != q[:, 3])]
        j = int(rng.randint(20))
        for kind, extra in (('c==d', [q[0, 0], q[0, 1], j, j]), ('a==b', [j, j, q[0, 2], q[0, 3]])):
            qq = np.vstack([q, [extra]])
            case = {'est': 'LSML', 'params': {'max_iter': 50}, 'X': Xq, 'quadruplets': qq, 'note': f'a quadruplet with {kind}'}
            R.case(('c03-degenerate-quadruplet', kind, Xq.tobytes().hex()[:40]), True, branch='degenerate-quadruplet')
            for wts in (None, rng.rand(len(qq)) + 0.1):
                try:
                    with warnings.catch_warnings():
                        warnings.simplefilter('ignore')
                        est = LSML(max_iter=50)
                        ret = est.fit(Xq[qq], weights=wts)
                    check_model(R, f'LSML[{kind}]', est, ret, Xq, dd, dd, False, False, case)
                except Exception as e:
                    R.violation(f'LSML/fit-raises/{type(e).__name__}/degenerate-quadruplet', f'LSML on quadruplets containing one with {kind} raised {type(e).__name__}: {str(e)[:120]}', case)
    # ---- a point recorded several times within its class (more often than LFDA's neighbour count k): its local scale — the
    #      distance to its k-th nearest same-class neighbour — is zero
    from metric_learn import LFDA
    for rep in range(2 if not thorough else 8):
        dd = int(rng.randint(2, 5)); ncl = int(rng.randint(2, 4))
        Xr, yr = zoo.blobs(rng, dd, ncl, 8)
        kk_ = [None, 1, 2][rep % 3]
        keff = min(7, dd - 1) if kk_ is None else min(kk_, dd - 1)
        src = int(rng.randint(len(Xr)))
        Xr = np.vstack([Xr] + [Xr[src:src + 1]] * (keff + 1)); yr = np.concatenate([yr, np.full(keff + 1, yr[src])])
        pm = rng.permutation(len(yr)); Xr, yr = Xr[pm], yr[pm]
        for emb in ('plain', 'weighted', 'orthonormalized'):
            for nco in (None, max(1, dd - 1)):
                case = {'est': 'LFDA', 'params': {'k': kk_, 'embedding_type': emb, 'n_components': nco}, 'X': Xr, 'y': yr, 'note': f'one point recorded {keff + 2} times in its class'}
                R.case(('c03-lfda-repeats', emb, nco, Xr.tobytes().hex()[:40]), True, branch='lfda-repeated-point')
                try:
                    with warnings.catch_warnings():
                        warnings.simplefilter('ignore')
                        est = LFDA(k=kk_, embedding_type=emb, n_components=nco)
                        ret = est.fit(Xr, yr)
                    check_model(R, 'LFDA[repeated point]', est, ret, Xr, dd, dd if nco is None else nco, False, False, case)
                except Exception as e:
                    R.violation(f'LFDA/fit-raises/{type(e).__name__}/repeated-point', f'LFDA(k={kk_}, embedding_type={emb!r}, n_components={nco}) on data with a point recorded {keff + 2} times raised {type(e).__name__}: {str(e)[:120]}', case)
    # ---- a constant feature (zero within-class and between-class scatter in that direction): LFDA's generalised eigenproblem
    #      is singular there.  'plain' and 'orthonormalized' stay finite; the 'weighted' embedding multiplies by the square
    #      root of an undefined (0/0) eigenvalue — known finding F4
    for rep in range(1 if not thorough else 4):
        dd = int(rng.randint(2, 4)); ncl = 2
        Xk_, yk_ = zoo.blobs(rng, dd, ncl, 10)
        Xk_ = np.hstack([Xk_, np.full((len(Xk_), 1), float(rng.randint(0, 3)))])
        if rep == 0:
            # the instance quoted in the known-findings file, on every run
            r0 = np.random.RandomState(0); dd = 2
            Xk_ = np.c_[r0.randn(20, 2), np.zeros(20)]; yk_ = np.arange(20) % 2
        for emb in ('plain', 'weighted', 'orthonormalized'):
            for nco in (None, dd):
                case = {'est': 'LFDA', 'params': {'embedding_type': emb, 'n_components': nco}, 'X': Xk_, 'y': yk_, 'note': 'the last feature is constant'}
                R.case(('c03-lfda-constant-feature', emb, nco, Xk_.tobytes().hex()[:40]), True, branch='lfda-constant-feature')
                try:
                    with warnings.catch_warnings():
                        warnings.simplefilter('ignore')
                        est = LFDA(embedding_type=emb, n_components=nco).fit(Xk_, yk_)
                    Lk = np.asarray(est.components_)
                    if Lk.shape != ((dd + 1 if nco is None else nco), dd + 1):
                        R.violation('LFDA/constant-feature/components-shape', f'LFDA(embedding_type={emb!r}, n_components={nco}) with a constant feature: components_ has shape {Lk.shape}', case)
                    elif not np.all(np.isfinite(Lk)):
                        R.violation(f'LFDA/constant-feature/{emb}-nonfinite', f'LFDA(embedding_type={emb!r}, n_components={nco}) on data with a constant feature returns non-finite components_', case)
                except Exception as e:
                    R.violation(f'LFDA/constant-feature/fit-raises-{type(e).__name__}', f'LFDA(embedding_type={emb!r}, n_components={nco}) on data with a constant feature raised {type(e).__name__}: {str(e)[:120]}', case)
    # ---- class means on a line (a rank-deficient between-class scatter): 'lda' / 'auto' still give the requested shape
    from metric_learn import NCA, LMNN
    for rep in range(2 if not thorough else 8):
        dd = int(rng.randint(3, 6)); ncl = int(rng.randint(3, 5)); nco = 2
        dirn = rng.randn(dd)
        Xc = np.vstack([np.outer(np.ones(9), c_ * dirn) + 0.3 * rng.randn(9, dd) for c_ in range(ncl)]); yc = np.repeat(np.arange(ncl), 9)
        for c_ in range(ncl):
            Xc[yc == c_] += c_ * dirn - Xc[yc == c_].mean(0)            # class means exactly collinear
        for cls_ in (NCA, LMNN):
            for init_ in ('lda', 'auto'):
                case = {'est': cls_.__name__, 'params': {'init': init_, 'n_components': nco}, 'X': Xc, 'y': yc, 'note': 'collinear class means'}
                R.case(('c03-collinear', cls_.__name__, init_, Xc.tobytes().hex()[:40]), True, branch='lda-rank-deficient')
                try:
                    with warnings.catch_warnings():
                        warnings.simplefilter('ignore')
                        est = cls_(init=init_, n_components=nco, max_iter=3)
                        ret = est.fit(Xc, yc)
                    check_model(R, cls_.__name__, est, ret, Xc, dd, nco, False, False, case)
                except Exception as e:
                    R.violation(f'{cls_.__name__}/fit-raises/{type(e).__name__}', f'{cls_.__name__}(init={init_!r}, n_components={nco}) on data with collinear class means raised {type(e).__name__}: {str(e)[:120]}', case)
    # correspondence of the generated _check_n_components with the real one
    for d in range(1, 9):
        for nc in [None] + list(range(-2, d + 3)):
            try:
                impl = ('ok', int(_check_n_components(d, nc)))
            except ValueError:
                impl = ('err',)
            lines.append(f'check_n_components {d} {"none" if nc is None else nc}')
            meta.append((impl, d, nc))
    if driver_ok:
        outs = lean_run(lines)
        for o, (impl, d, nc) in zip(outs, meta):
            tk = o.split()
            got = ('ok', int(tk[1])) if tk[0] == 'ok' else ('err',)
            R.count('check_n_components')
            if got != impl:
                R.broken('correspondence:C03:check_n_components', f'_check_n_components({d},{nc}): implementation {impl} vs generated model {got}', {'d': d, 'nc': nc})
        R.extra['traces_validated_against_impl'] = len(lines)


def replay(R, obj):
    print(obj.get('what'))
    return 0
