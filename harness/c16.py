"""C16 — threshold calibration picks an optimal cut-off.

The Rat twin of the specification is fed the implementation's own validation distances and labels and
returns the optimum criterion value; the criterion value attained by predicting with the
implementation's threshold_ must equal it (and satisfy the rate constraint).  An independent
brute-force oracle in Python (exact fractions) is evaluated on the implementation alone."""
import warnings
from fractions import Fraction
import numpy as np
from common import bits, lean_run, parse_rat, parse_ok_floats, quiet, f2b
import zoo

TOL = Fraction(1, 10 ** 12)


def counts(d, y, t):
    pred = d <= t
    tp = int(np.sum(pred & (y == 1))); fp = int(np.sum(pred & (y == -1)))
    tn = int(np.sum(~pred & (y == -1))); fn = int(np.sum(~pred & (y == 1)))
    return tp, fp, tn, fn


def crit(strategy, param, c):
    tp, fp, tn, fn = c
    if strategy == 'accuracy':
        return Fraction(tp + tn, tp + fp + tn + fn), True
    if strategy == 'f_beta':
        b2 = Fraction(param) ** 2
        if tp == 0:
            return Fraction(0), True
        return (1 + b2) * tp / ((1 + b2) * tp + b2 * fn + fp), True
    tpr = Fraction(tp, tp + fn); tnr = Fraction(tn, tn + fp)
    if strategy == 'max_tpr':
        return tpr, tnr >= Fraction(param)
    return tnr, tpr >= Fraction(param)


def brute(strategy, param, d, y):
    cands = [-np.inf] + sorted(set(d.tolist()))          # (reject every pair: no assumption that d.min() − 1 < d.min())
    best = None
    for t in cands:
        v, ok = crit(strategy, param, counts(d, y, t))
        if ok and (best is None or v > best):
            best = v
    return best


def validation_set(rng, X, n, mode):
    dd = X.shape[1]
    lo, hi = X.min(0), X.max(0)
    if mode == 'distinct':
        P = lo + (hi - lo) * rng.rand(n, 2, dd)
    elif mode == 'ties':
        base = lo + (hi - lo) * rng.rand(max(2, n // 4), 2, dd)
        P = base[rng.randint(0, len(base), size=n)]
        flip = rng.rand(n) < 0.5
        P[flip] = P[flip][:, ::-1]            # swapped pairs have the same distance
    elif mode == 'zeros':
        P = lo + (hi - lo) * rng.rand(n, 2, dd)
        z = rng.rand(n) < 0.4
        P[z, 1] = P[z, 0]
    elif mode == 'diag':
        # tie groups that each hold the same numbers of positive and negative pairs: the ROC curve has
        # collinear diagonal points
        g = max(2, n // 4)
        a, b = int(rng.randint(1, 3)), int(rng.randint(1, 3))
        base = lo + (hi - lo) * rng.rand(g, 2, dd)
        P = np.repeat(base, a + b, axis=0)
        y = np.tile(np.array([1] * a + [-1] * b), g)
        p = rng.permutation(len(y))
        return np.ascontiguousarray(P[p]), y[p]
    elif mode == 'near':
        # distances that differ by a relative 1e-7 … 1e-6 (distinct numbers, far above rounding): pairs along one
        # direction, so that any Mahalanobis metric keeps their distances proportional to the chosen lengths
        u = rng.randn(dd); x0 = lo + (hi - lo) * rng.rand(dd)
        g = n // 3 + 1
        lens = np.repeat(rng.uniform(0.5, 2.0, size=g), 3)[:n] * (1 + rng.uniform(1e-7, 1e-6, size=n) * rng.choice([-1, 1], size=n))
        if rng.rand() < 0.4:
            lens = lens * 1e-9                             # everything in very small units
        P = np.stack([np.tile(x0, (n, 1)), x0 + lens[:, None] * u], axis=1)
    elif mode == 'huge':
        # distances far above 2**53 (data in very large units: adding 1 to such a number does not change it), with the
        # nearest pairs dissimilar, so that rejecting every pair is the best (often the only best) accuracy cut-off
        u = rng.randn(dd); x0 = lo + (hi - lo) * rng.rand(dd)
        lens = np.sort(rng.uniform(0.5, 2.0, size=n)) * 10.0 ** rng.uniform(17, 19)
        P = np.stack([np.tile(x0, (n, 1)), x0 + lens[:, None] * u], axis=1)
        y = np.where(rng.rand(n) < 0.25, 1, -1)
        y[:max(2, n // 3)] = -1
        y[-1] = 1
        p = rng.permutation(n)
        return np.ascontiguousarray(P[p]), y[p]
    else:  # grid: few base pairs, many duplicates
        base = np.round(lo + (hi - lo) * rng.rand(3, 2, dd))
        P = base[rng.randint(0, 3, size=n)]
    y = np.where(rng.rand(n) < 0.5, 1, -1)
    y[0], y[1] = 1, -1
    return np.ascontiguousarray(P), y


def safe_rate(rng, npos, nneg):
    if rng.rand() < 0.5:
        return float(rng.choice([0.0, 0.25, 0.5, 0.75, 1.0]))
    while True:
        r = float(rng.rand())
        att = [k / n for n in (npos, nneg) if n for k in range(n + 1)]
        if min(abs(r - a) for a in att) > 1e-6:
            return r


def key_of(strategy, d):
    return f"calibrate_threshold/{strategy}/{'tied-distances' if len(set(d.tolist())) < len(d) else 'distinct-distances'}"


def run(R, tier, seed, driver_ok):
    quiet()
    rng = np.random.RandomState(seed + 1616)
    nsets = 30 if tier == 'quick' else 240
    R.rule = ('ITML/MMC/SDML fitted; validation sets (distinct / tied / zero / grid distances, conflicting labels) × strategy × '
              'beta ∈ {0,.5,1,2,random} × min_rate ∈ {0,.25,.5,.75,1,random}; via calibrate_threshold and fit(calibration_params). '
              'case = (distances, labels, strategy, parameter); non-trivial = both labels present and ≥2 distinct predictions vectors')
    R.assumptions = ['roc_curve / precision_recall_curve are external; only the criterion value attained by threshold_ is compared (never the threshold itself)']
    lines, meta = [], []
    clines, cmeta = [], []
    rlines, rmeta = [], []
    ests = []
    for name in zoo.PAIRS:
        for _ in range(1 if tier == 'quick' else 3):
            ests.append((name,) + zoo.fitted(name, rng))
    ninf = 0
    for si in range(nsets):
        name, est, X, y, args = ests[int(rng.randint(len(ests)))]
        mode = ['distinct', 'ties', 'zeros', 'grid', 'diag', 'near', 'single', 'huge'][si % 8]
        n = int(rng.randint(4, 24))
        if mode == 'single':
            # a validation set with ONE label only (all similar / all dissimilar), down to a single pair: accuracy is
            # defined for every threshold (accept all / reject all is optimal); F-beta is when positives exist; the two
            # rate-constrained criteria involve an undefined rate (0/0) and are not exercised here
            n = int(rng.choice([1, 2, 3, n]))
            P, yv = validation_set(rng, X, max(n, 2), ['distinct', 'ties', 'zeros'][(si // 8) % 3])
            P, yv = P[:n], yv[:n]
            yv[:] = 1 if (si // 8) % 2 == 0 else -1
        else:
            P, yv = validation_set(rng, X, n, mode)
        n = len(yv)
        d = est.pair_distance(P)
        npos, nneg = int((yv == 1).sum()), int((yv == -1).sum())
        confs = [('accuracy', None), ('f_beta', float(rng.choice([0, 0.5, 1, 2, rng.rand() * 3]))),
                 ('max_tpr', safe_rate(rng, npos, nneg)), ('max_tnr', safe_rate(rng, npos, nneg))]
        if mode == 'single':
            confs = confs[:2] if npos else confs[:1]
        for strategy, param in confs:
            kw = {'strategy': strategy}
            if strategy == 'f_beta':
                kw['beta'] = param
            elif strategy != 'accuracy':
                kw['min_rate'] = param
            case = {'est': name, 'mode': mode, 'distances': d, 'labels': yv, 'strategy': strategy, 'param': param, 'pairs': P,
                    'L': est.components_}
            try:
                with warnings.catch_warnings():
                    warnings.simplefilter('ignore')
                    est.calibrate_threshold(P, yv, **kw)
            except Exception as e:
                R.violation(f'calibrate_threshold/{strategy}/raises', f'{name}: calibrate_threshold raised {type(e).__name__}: {e}', case)
                continue
            thr = float(est.threshold_)
            case['threshold_'] = thr
            if np.isnan(thr):
                R.violation(f'calibrate_threshold/{strategy}/nan', f'{name}: threshold_ is NaN', case)
                continue
            if np.isinf(thr):
                ninf += 1
                thr_eff = thr
            else:
                thr_eff = thr
            got, ok = crit(strategy, param, counts(d, yv, thr_eff))
            best = brute(strategy, param, d, yv)
            R.case(('c16', d.tobytes().hex(), yv.tobytes().hex(), strategy, param), len(set(d.tolist())) > 1,
                   sample={'est': name, 'mode': mode, 'strategy': strategy, 'param': param, 'distances': d, 'labels': yv,
                           'threshold_': thr, 'attained': float(got), 'optimum': float(best) if best is not None else None},
                   branch=f'{strategy}:{mode}')
            if best is None:
                continue
            if not ok:
                R.violation(key_of(strategy, d), f'{name}: {strategy} threshold_ {thr!r} violates the rate constraint min_rate={param!r}', case)
            elif got < best - TOL:
                R.violation(key_of(strategy, d), f'{name}: {strategy} threshold_ {thr!r} attains {float(got):.6g} < optimum {float(best):.6g}', case)
            if driver_ok:
                p = 0.0 if param is None else param
                lines.append(f"calib {strategy} {n} {bits(d)} {' '.join(map(str, yv))} {f2b(p)} {f2b(thr_eff if np.isfinite(thr_eff) else (np.nextafter(d.min(), -np.inf) if thr_eff < 0 else np.nextafter(d.max(), np.inf)))}")
                meta.append((best, got, ok, case))
                if strategy == 'f_beta':
                    # implementation-layer model of the precision_recall_curve route (C16_code_fbeta_optimal)
                    rlines.append(f"calib_fbeta_code {n} {bits(d)} {' '.join(map(str, yv))} {f2b(param)}")
                    rmeta.append((thr, case))
                if strategy in ('max_tpr', 'max_tnr'):
                    # implementation-layer model of the roc_curve route (C16_code_max_tpr_optimal / C16_code_max_tnr_optimal):
                    # the stored threshold must be the model's (−inf when the model stores the reject-all position)
                    rlines.append(f"calib_rate_code {strategy} {n} {bits(d)} {' '.join(map(str, yv))} {f2b(param)}")
                    rmeta.append((thr, case))
                if strategy == 'accuracy':
                    # implementation-layer model (sort / cumulative counts / realisable mask / first arg-max):
                    # the stored threshold must be bit-identical to the model's
                    clines.append(f"calib_code {n} {bits(d)} {' '.join(map(str, yv))}")
                    cmeta.append((thr, int(got * n), case))
    R.extra['infinite_thresholds_seen'] = ninf
    # ---- through fit(calibration_params=...) on the training pairs
    for name in zoo.PAIRS:
        for strategy, kw in [('accuracy', {}), ('f_beta', {'beta': 0.5}), ('max_tpr', {'min_rate': 0.25}), ('max_tnr', {'min_rate': 0.75})]:
            est, X, y, args = zoo.fitted(name, rng)
            P, yv = args
            cp = dict(strategy=strategy, **kw)
            with warnings.catch_warnings():
                warnings.simplefilter('ignore')
                est.fit(P, yv, calibration_params=cp)
            d = est.pair_distance(P); thr = float(est.threshold_)
            thr_eff = thr
            param = kw.get('beta', kw.get('min_rate'))
            got, ok = crit(strategy, param, counts(d, yv, thr_eff)); best = brute(strategy, param, d, yv)
            case = {'est': name, 'via': 'fit', 'distances': d, 'labels': yv, 'strategy': strategy, 'param': param, 'threshold_': thr}
            R.case(('c16fit', name, strategy, d.tobytes().hex()), True, branch=f'fit:{strategy}')
            if best is not None and (not ok or got < best - TOL):
                R.violation(key_of(strategy, d).replace('calibrate_threshold', 'fit'), f'{name}: fit(calibration_params={cp}) threshold_ not optimal: {float(got)} < {float(best)}', case)
    # ---- invalid parameters are rejected before any fitting work
    strategies = ['accuracy', 'f_beta', 'max_tpr', 'max_tnr', 'weird', 'Accuracy', '']
    rates = [('none', None), ('num', 0), ('num', 1), ('num', 0.5), ('num', -0.1), ('num', 1.1), ('other', 'a'), ('other', [0.5]), ('num', True), ('num', float('nan'))]
    betas = [('none', None), ('num', 1.0), ('num', 0), ('num', 2), ('other', 'x'), ('other', [1]), ('num', float('nan')), ('num', np.float64('nan'))]
    vl, vm = [], []
    name = zoo.PAIRS[int(rng.randint(3))]
    est0, X, y, args = zoo.fitted(name, rng)
    for s in strategies:
        for rk, rv in rates:
            for bk, bv in betas:
                fresh = zoo.CLASSES[name](**{k: v for k, v in est0.get_params().items() if k not in ('convergence_threshold',)})
                try:
                    with warnings.catch_warnings():
                        warnings.simplefilter('ignore')
                        fresh._validate_calibration_params(s, rv, bv)
                    outcome = 'ok'
                except ValueError:
                    outcome = 'ValueError'
                except Exception as e:
                    outcome = type(e).__name__
                valid = (s == 'accuracy' or (s == 'f_beta' and bk == 'num' and not np.isnan(float(bv))) or
                         (s in ('max_tpr', 'max_tnr') and rk == 'num' and 0 <= float(rv) <= 1))
                case = {'strategy': s, 'min_rate': repr(rv), 'beta': repr(bv)}
                R.case(('c16v', s, repr(rv), repr(bv)), True, branch=f'validate:{"valid" if valid else "invalid"}')
                if outcome != ('ok' if valid else 'ValueError'):
                    R.violation('validate-params', f'_validate_calibration_params({s!r},{rv!r},{bv!r}) → {outcome}', case)
                if not valid:
                    # fit must reject before fitting: components_ absent afterwards
                    try:
                        with warnings.catch_warnings():
                            warnings.simplefilter('ignore')
                            fresh.fit(*args, calibration_params=dict(strategy=s, min_rate=rv, beta=bv))
                        R.violation('fit-accepts-invalid-calibration', f'{name}.fit accepted invalid calibration_params', case)
                    except ValueError:
                        if hasattr(fresh, 'components_'):
                            R.violation('fit-worked-before-rejecting', f'{name}.fit did fitting work before rejecting calibration_params', case)
                    except Exception as e:
                        R.violation('fit-invalid-wrong-exc', f'{name}.fit raised {type(e).__name__} for invalid calibration_params', case)
                if driver_ok and not any(k_ == 'num' and np.isnan(float(v_)) for k_, v_ in ((rk, rv), (bk, bv))):     # (NaN has no exact rational: implementation oracle only)
                    def enc(k, v):
                        return f'num {f2b(float(v))}' if k == 'num' else k
                    sname = s if s else 'EMPTY'
                    vl.append(f'validate_calib {sname} {enc(rk, rv)} {enc(bk, bv)}')
                    vm.append((valid, case))
    if driver_ok:
        outs = lean_run(lines)
        for o, (best, got, ok, case) in zip(outs, meta):
            tk = o.split()
            if tk[:1] != ['ok'] or len(tk) < 5:
                if tk[:2] == ['ok', 'none'] and best is None:
                    continue
                R.broken('driver:calib', f'model driver answered {o[:80]}', case)
                continue
            m_opt, m_got, m_feas = parse_rat(tk[1]), parse_rat(tk[2]), tk[3] == '1'
            if m_opt != best or m_got != got or m_feas != ok:
                R.broken('correspondence:C16:calib', f"model optimum {m_opt} / attained {m_got} / feasible {m_feas} vs harness {best} / {got} / {ok}", case)
        outs = lean_run(clines)
        for o, (thr, ncorrect, case) in zip(outs, cmeta):
            tk = o.split()
            if tk[:1] != ['ok'] or len(tk) != 4:
                R.broken('driver:calib_code', f'model driver answered {o[:80]}', case)
                continue
            m_thr = parse_ok_floats('ok ' + tk[2])[0]
            if float(m_thr) != float(thr) or int(tk[3]) != ncorrect:
                R.broken('correspondence:C16:calib_code',
                         f"code-level model stores threshold {m_thr!r} ({tk[3]} correct, position {tk[1]}) vs implementation {thr!r} ({ncorrect} correct)", case)
        R.count('calib_code_traces', len(clines))
        outs = lean_run(rlines)
        for o, (thr, case) in zip(outs, rmeta):
            tk = o.split()
            if tk[:1] != ['ok'] or len(tk) not in (2, 3):
                R.broken('driver:calib_rate_code', f'model driver answered {o[:80]}', case)
                continue
            if tk[1] == 'none':
                R.broken('correspondence:C16:calib_rate_code', f'code-level model stores nothing (no qualifying cut-off), the implementation stored {thr!r}', case)
                continue
            pos, m_thr = int(tk[1]), float(parse_ok_floats('ok ' + tk[2])[0])
            same = (thr == -np.inf) if pos == 0 else (m_thr == float(thr))
            if not same:
                R.broken('correspondence:C16:calib_rate_code',
                         f"code-level model of the {case['strategy']} route stores position {pos} (threshold {m_thr!r}) vs implementation threshold_ {thr!r}", case)
        R.count('calib_rate_code_traces', len(rlines))
        outs = lean_run(vl)
        for o, (valid, case) in zip(outs, vm):
            if (o.strip() == 'ok accepted') != valid:
                R.broken('correspondence:C16:validate_calib', f'model says {o!r} for {case}', case)
        R.extra['traces_validated_against_impl'] = len(lines) + len(clines) + len(rlines) + len(vl)


def replay(R, obj):
    print(obj.get('what'))
    return 0
