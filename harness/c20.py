"""C20 — PSD matrices are converted, validated and initialised as documented.

Symmetric matrices are generated *with their certificate* (orthogonal Q, spectrum w).  Oracle: LᵀL = M for
PSD M (every rank, diagonal, PSD up to rounding), NonPSDError below −tol, ValueError for non-symmetric;
initialiser options observed through the public API (feasible priors return the prior) and through the
initialiser functions.  Correspondence: spectrum check, eigen/diagonal conversion, pseudo-inverse and the
initialiser dispatch vs the Lean model."""
import warnings
import numpy as np
from numpy.linalg import LinAlgError
from common import bits, lean_run, parse_ok_floats, quiet, f2b
import zoo
from metric_learn import _util
from metric_learn.exceptions import NonPSDError
from metric_learn import ITML, LSML, SDML, MMC, NCA, LMNN, MLKR

EPS = np.finfo(float).eps


def rand_orth(rng, d):
    q, r = np.linalg.qr(rng.randn(d, d))
    return q * np.sign(np.diag(r))


def gen_matrix(rng, d, kind, tol):
    """(M, Q, w, expected) expected ∈ {'ok','nonpsd','skip'}"""
    Q = rand_orth(rng, d)
    mags = 10.0 ** rng.uniform(-4, 4, size=d)
    w = np.sort(mags)
    scale = w.max()
    t = tol if tol is not None else scale * d * EPS
    if kind == 'pd':
        if rng.rand() < 0.35:
            # positive definite, spectrum over up to 13 orders of magnitude (still far above the d·eps cut-off)
            w = np.sort(10.0 ** rng.uniform(-13, 0, size=d)) * scale
            w[-1] = scale
        exp = 'ok'
    elif kind == 'singular':
        r = int(rng.randint(0, d))
        w[:d - r] = 0.0
        exp = 'ok'
        if r == 0:
            w[:] = 0
    elif kind == 'clearly-indefinite':
        w[0] = -max(1e3 * max(t, scale * d * EPS * 50), 10.0 ** rng.uniform(-6, 0) * scale)
        exp = 'nonpsd'
    elif kind == 'near-inside':
        # negative eigenvalue well inside an explicit tolerance
        w[0] = -t / 8
        exp = 'ok' if (tol is not None and tol > 1e3 * scale * d * EPS) else 'skip'
    elif kind == 'near-outside':
        w[0] = -t * 8
        exp = 'nonpsd' if (tol is not None and tol > 1e3 * scale * d * EPS) else 'skip'
    elif kind == 'diagonal':
        Q = np.eye(d)
        if rng.rand() < 0.5:
            w[0] = 0.0
        exp = 'ok'
    elif kind == 'diagonal-negative':
        Q = np.eye(d)
        w[0] = -scale * 10.0 ** rng.uniform(-6, 0)
        exp = 'nonpsd' if (tol is None or -w[0] > 8 * tol) else 'skip'
    else:
        raise KeyError(kind)
    M = (Q * w).dot(Q.T)
    M = (M + M.T) / 2
    return M, Q, w, exp


def run(R, tier, seed, driver_ok):
    quiet()
    rng = np.random.RandomState(seed + 2020)
    nmat = 400 if tier == 'quick' else 4000
    R.rule = ('symmetric matrices of size 1..8 generated with certificate (Q orthogonal, spectrum over 8 orders of magnitude; PD, every '
              'rank, diagonal, near-PSD inside/outside explicit tolerances (factor 8 from the boundary), clearly indefinite), tol ∈ '
              '{None,0,1e-12·s,1e-6·s}; initialiser options × datasets. case = (matrix, tol) or (option, dataset); non-trivial = size ≥ 2 or option ≠ identity')
    R.assumptions = ['Cholesky / eigh are external kernels: their factorisations are taken as given and their contract checked per call']
    lines, meta = [], []

    def add(line, kind, payload):
        if driver_ok:
            lines.append(line); meta.append((kind, payload))

    kinds = ['pd', 'singular', 'clearly-indefinite', 'near-inside', 'near-outside', 'diagonal', 'diagonal-negative']
    for i in range(nmat):
        d = int(rng.randint(1, 9))
        kind = kinds[i % len(kinds)]
        smag = 10.0 ** rng.uniform(-3, 3)
        tol = [None, 0.0, 1e-12 * smag, 1e-6 * smag][int(rng.randint(4))]
        if kind in ('near-inside', 'near-outside') and (tol is None or tol == 0.0):
            tol = 1e-6 * smag
        M, Q, w, exp = gen_matrix(rng, d, kind, tol)
        if exp == 'skip':
            continue
        if tol is not None and kind == 'singular' and np.any(w == 0) and tol < 1e3 * np.abs(w).max() * d * EPS:
            # an explicit tolerance below rounding level: a rounding-level negative eigenvalue of a singular
            # matrix may legitimately be rejected
            exp = 'either'
        case = {'M': M, 'tol': tol, 'kind': kind, 'spectrum': w}
        R.case(('c20', M.tobytes().hex(), tol), d >= 2, sample={'kind': kind, 'd': d, 'tol': tol, 'spectrum': w}, branch=kind)
        try:
            L = _util.components_from_metric(M, tol=tol)
            out = 'ok'
        except NonPSDError:
            out = 'nonpsd'
        except Exception as e:
            out = type(e).__name__
        if exp == 'either':
            if out not in ('ok', 'nonpsd'):
                R.violation(f'components_from_metric/{kind}/{out}', f'components_from_metric raised {out} on a singular PSD matrix with tol=0', case)
        elif out != exp:
            R.violation(f'components_from_metric/{kind}/expected-{exp}-got-{out}', f'components_from_metric on a {kind} matrix (spectrum min {w.min():.3g}, tol {tol}) → {out}, expected {exp}', case)
        if out == 'ok':
            wc = np.maximum(w, 0)
            want = (Q * wc).dot(Q.T)
            err = np.abs(L.T.dot(L) - want).max()
            bound = 1e-9 * max(np.abs(w).max(), 1e-300) * d + (np.abs(np.minimum(w, 0)).max() if tol else 0)
            if L.shape != (d, d) or not err <= bound:
                R.violation(f'components_from_metric/{kind}/LtL', f'LᵀL differs from M by {err:.3g} (bound {bound:.3g})', case)
            if kind in ('pd', 'singular') and d <= 6:
                add(f'cfm_eig {d} {bits(Q)} {bits(w)}', 'mat', (L.T.dot(L), 1e-9 * np.abs(w).max() * d + 1e-300, 'cfm_eig', case))
            if kind == 'diagonal':
                add(f'cfm_diag {d} {bits(w)}', 'mat', (L.T.dot(L), 1e-12 * np.abs(w).max() + 1e-300, 'cfm_diag', case))
        # the spectrum check itself, on the certified spectrum
        tk = 'default' if tol is None else f'given {f2b(tol)}'
        try:
            definite = bool(_util._check_sdp_from_eigen(w.copy(), tol))
            sd = f'ok {1 if definite else 0}'
        except NonPSDError:
            sd = 'err NonPSDError'
        except ValueError:
            sd = 'err ValueError'
        add(f'sdp_check {d} {bits(w)} {tk}', 'str', (sd, 'sdp_check', case))
        # pseudo-inverse from the certified eigen-decomposition satisfies the Penrose equations
        if kind in ('pd', 'singular') and d >= 1 and np.abs(w).max() > 0:
            P = _util._pseudo_inverse_from_eig(w.copy(), Q.copy())
            s = np.abs(w).max()
            wp = np.where(np.abs(w) > w.max() * d * EPS, 1 / np.where(w == 0, 1, w), 0)
            res = [np.abs(M.dot(P).dot(M) - M).max() / s, np.abs(P.dot(M).dot(P) - P).max() / max(np.abs(P).max(), 1e-300),
                   np.abs(M.dot(P) - (M.dot(P)).T).max(), np.abs(P.dot(M) - (P.dot(M)).T).max()]
            cond = (np.abs(w[w != 0]).max() / np.abs(w[w != 0]).min()) if np.any(w != 0) else 1
            if max(res) > 1e-9 * cond:
                R.violation('pseudo_inverse/penrose', f'_pseudo_inverse_from_eig violates the Penrose equations: residuals {res}', case)
            # its spectrum is the documented one: 1/w where |w| > max(w)·d·eps, 0 elsewhere (in the certified eigenbasis)
            sp = np.einsum('ai,ab,bi->i', Q, P, Q)
            if np.abs(sp - wp).max() > 1e-6 * max(np.abs(wp).max(), 1e-300):
                R.violation('pseudo_inverse/spectrum', f'_pseudo_inverse_from_eig: spectrum {sp} instead of {wp} (eigenvalues {w})', case)
            if d <= 6:
                add(f'pinv_eig {d} {bits(w)} {bits(Q)} {f2b(w.max() * d * EPS)}', 'mat', (P, 1e-9 * np.abs(P).max() + 1e-300, 'pinv_eig', case))
    # non-symmetric and negative tolerance
    for _ in range(20):
        d = int(rng.randint(2, 7))
        A = rng.randn(d, d)
        A = A.dot(A.T)
        A[0, 1] += 1e-3 * np.abs(A).max()
        sc_ = int(rng.choice([0, 0, -40, -60, 40]))
        A = A * 2.0 ** sc_      # the same matrix in other units (exact scaling)
        units = '' if sc_ >= 0 else '-tiny-units'
        R.case(('c20-ns', A.tobytes().hex()), True, branch='non-symmetric' + units)
        try:
            _util.components_from_metric(A)
            R.violation(f'components_from_metric/non-symmetric{units}/accepted', f'non-symmetric matrix accepted (entries of order {np.abs(A).max():.1g})', {'M': A})
        except NonPSDError:
            R.violation('components_from_metric/non-symmetric/NonPSDError', 'non-symmetric matrix raised NonPSDError', {'M': A})
        except ValueError:
            pass
        except Exception as e:
            R.violation(f'components_from_metric/non-symmetric/{type(e).__name__}', f'non-symmetric matrix raised {type(e).__name__}', {'M': A})
    # ---- small integer matrices built to pass cheap "is it diagonal?" tests without being diagonal: off-diagonal entries that
    #      cancel in the total sum, in every row sum, or sit only in the far corner — with a spectrum clearly of one kind
    from metric_learn.exceptions import NonPSDError as _NPSD
    for rep in range(12 if tier == 'quick' else 120):
        d = int(rng.randint(3, 7))
        S = np.zeros((d, d))
        fam = rep % 3
        if fam == 0:            # total sum of the off-diagonal entries is 0
            i_, j_, k_ = rng.choice(d, 3, replace=False)
            S[i_, j_] = S[j_, i_] = 1.0; S[i_, k_] = S[k_, i_] = -1.0
        elif fam == 1:          # every row of off-diagonal entries sums to 0 (a signed cycle needs an even length: use 4 indices)
            a_, b_, c_, e_ = (rng.choice(d, 4, replace=False) if d >= 4 else (0, 1, 2, 0))
            if d >= 4:
                for (p_, q_, v_) in ((a_, b_, 1.0), (b_, c_, -1.0), (c_, e_, 1.0), (e_, a_, -1.0)):
                    S[p_, q_] = S[q_, p_] = v_
            else:
                S[0, 1] = S[1, 0] = 1.0; S[0, 2] = S[2, 0] = -1.0
        else:                   # only the far corner
            S[0, d - 1] = S[d - 1, 0] = 1.0
        for amp, diag, exp in ((1.0, float(d + 1), 'ok'), (5.0, 1.0, 'nonpsd')):
            M = diag * np.eye(d) + amp * S
            wmin = np.linalg.eigvalsh(M).min()
            if (exp == 'ok') != (wmin > 0.1):
                continue
            case = {'M': M, 'kind': f'structured-family-{fam}', 'expected': exp}
            R.case(('c20-structured', M.tobytes().hex()), True, sample={'kind': f'structured-family-{fam}', 'd': d, 'expected': exp}, branch='structured-non-diagonal')
            try:
                L = _util.components_from_metric(M.copy())
                out = 'ok'
            except _NPSD:
                out = 'nonpsd'
            except Exception as e:
                out = type(e).__name__
            if out != exp:
                R.violation(f'components_from_metric/structured/expected-{exp}-got-{out}', f'components_from_metric on a non-diagonal integer matrix whose off-diagonal entries cancel (smallest eigenvalue {wmin:.3g}) → {out}, expected {exp}', case)
            elif out == 'ok' and np.abs(L.T.dot(L) - M).max() > 1e-9 * np.abs(M).max():
                R.violation('components_from_metric/structured/LtL', f'LᵀL differs from M by {np.abs(L.T.dot(L) - M).max():.3g} on a non-diagonal integer matrix whose off-diagonal entries cancel', case)
    # ---- initialisers through the public API
    for rep in range(3 if tier == 'quick' else 12):
        d = int(rng.randint(2, 6))
        X, y = zoo.blobs(rng, d)
        idx, yy = zoo.pairs_from(X, y, rng)
        pairs = X[idx]
        # duplicate some pairs: the covariance prior must use the *distinct* points
        pairs = np.vstack([pairs, pairs[:3]]); yyd = np.concatenate([yy, yy[:3]])
        Xd = np.unique(np.vstack(pairs), axis=0)
        A = rng.randn(d, d); S = A.dot(A.T) + np.eye(d)
        illc = False
        if rng.rand() < 0.4:
            # features in very different units: a positive definite but ill-conditioned covariance (cond up to ~1e11)
            illc = True
            sc = 10.0 ** -np.sort(rng.uniform(0, 5.5, size=d)); sc[0] = 1.0
            X = X * sc; pairs = pairs * sc; Xd = Xd * sc
        # an array is used AS GIVEN — every time: the same array object handed to two fits (and to two estimators) starts both
        # from the matrix it holds, and still holds it afterwards
        S_keep = S.copy()
        for nm_, mk_ in (('ITML', lambda A_: ITML(prior=A_, max_iter=25).fit(pairs, yyd)), ('MMC', lambda A_: MMC(init=A_, max_iter=6).fit(pairs, yyd))):
            R.case(('c20-array-twice', nm_, S.tobytes().hex()[:40]), True, branch='init-array-twice')
            try:
                with warnings.catch_warnings():
                    warnings.simplefilter('ignore')
                    m1 = mk_(S).get_mahalanobis_matrix(); m2 = mk_(S).get_mahalanobis_matrix()
                if not np.array_equal(S, S_keep):
                    R.violation(f'init/array/{nm_}-overwrites-the-array', f'{nm_}: fit wrote into the array given as prior / init', {'prior': S_keep})
                    S = S_keep.copy()
                if np.abs(m1 - m2).max() > 1e-12 * max(np.abs(m1).max(), 1e-300):
                    R.violation(f'init/array/{nm_}-second-fit-differs', f'{nm_}: the same array given to a second fit gives another matrix (max diff {np.abs(m1 - m2).max():.3g}): it is not used as given', {'prior': S_keep})
            except Exception as e:
                R.violation(f'init/array/{nm_}-{type(e).__name__}', f'{nm_} with an SPD array raised {type(e).__name__}: {str(e)[:100]}', {'prior': S_keep})
        for opt in ['identity', 'covariance', 'random', 'array']:
            prior = S if opt == 'array' else opt
            seedp = int(rng.randint(1 << 30))
            R.case(('c20-init', opt, X.tobytes().hex()[:40]), opt != 'identity', sample={'option': opt, 'd': d, 'learner': 'ITML (feasible prior)'}, branch=f'init-{opt}')
            # a prior that satisfies all bounds is returned unchanged: observe the prior through ITML
            est = ITML(prior=prior, random_state=seedp, max_iter=3)
            est.fit(pairs, yyd, bounds=[1e12, 1e-12])
            M = est.get_mahalanobis_matrix()
            if opt == 'identity':
                want = np.eye(d)
            elif opt == 'covariance':
                want = np.linalg.pinv(np.atleast_2d(np.cov(Xd, rowvar=False)))
            elif opt == 'array':
                want = S
            else:
                est2 = ITML(prior='random', random_state=seedp, max_iter=3).fit(pairs, yyd, bounds=[1e12, 1e-12])
                want = est2.get_mahalanobis_matrix()
                if np.linalg.eigvalsh(want).min() <= 0:
                    R.violation('init/random/not-spd', 'random prior is not SPD', {'d': d, 'seed': seedp})
                est3 = ITML(prior='random', random_state=seedp + 1, max_iter=3).fit(pairs, yyd, bounds=[1e12, 1e-12])
                if np.allclose(est3.get_mahalanobis_matrix(), want):
                    R.violation('init/random/seed-ignored', 'random prior does not depend on the seed', {'d': d})
            tol_init = 1e-8
            if opt == 'covariance' and illc:
                cw = np.linalg.eigvalsh(np.atleast_2d(np.cov(Xd, rowvar=False)))
                if cw.min() <= 1e3 * cw.max() * d * EPS:
                    continue                                   # at the d·eps cut-off: either treatment is documented
                tol_init = max(1e-8, 1e3 * EPS * cw.max() / cw.min())
                R.count('init-covariance:ill-conditioned')
            if np.abs(M - want).max() > tol_init * max(np.abs(want).max(), 1):
                R.violation(f'init/{opt}/wrong-matrix', f"ITML(prior={opt!r}) with a feasible prior returned a matrix that differs from the documented prior by {np.abs(M - want).max():.3g}", {'X': Xd, 'option': opt})
        # the covariance prior of a QUADRUPLET learner covers the points of all four positions: quadruplets whose 3rd and 4th
        # points occur nowhere else
        import metric_learn.lsml as mlsml
        half = len(X) // 2
        if half >= 4:
            qi = np.column_stack([rng.randint(0, half, size=12), rng.randint(0, half, size=12),
                                  rng.randint(half, len(X), size=12), rng.randint(half, len(X), size=12)])
            qi = qi[(qi[:, 0] != qi[:, 1]) & (qi[:, 2] != qi[:, 3])]
            if len(qi) >= 3:
                Qd = X[qi]
                st = {}
                o_init = mlsml._initialize_metric_mahalanobis

                def spy_init(*a, **k):
                    out = o_init(*a, **k)
                    st['M0'] = np.array(out[0] if isinstance(out, tuple) else out, copy=True)
                    return out
                mlsml._initialize_metric_mahalanobis = spy_init
                try:
                    with warnings.catch_warnings():
                        warnings.simplefilter('ignore')
                        LSML(prior='covariance', max_iter=1).fit(Qd)
                except Exception:
                    pass
                finally:
                    mlsml._initialize_metric_mahalanobis = o_init
                want4, cond4 = zoo.documented_prior('covariance', Qd)
                R.case(('c20-init', 'covariance-quadruplets', Qd.tobytes().hex()[:40]), True, branch='init-covariance:quadruplets')
                if want4 is not None and 'M0' in st and np.abs(st['M0'] - want4).max() > max(1e-8, 1e3 * EPS * cond4) * max(np.abs(want4).max(), 1):
                    R.violation('init/covariance/quadruplets-wrong-matrix', f"LSML(prior='covariance'): the prior differs from the inverse covariance of the distinct points of all four positions by {np.abs(st['M0'] - want4).max():.3g}", {'quadruplets': Qd})
        # strict PD learners reject a singular prior; MMC accepts a PSD init
        # an exactly singular PSD prior (a permuted block matrix: its zero eigenvalue is computed to within an ulp,
        # so the verdict does not hinge on rounding)
        v = rng.randn(d); v /= np.linalg.norm(v)
        sing = np.diag(np.arange(2.0, d + 2.0))
        sing[:2, :2] = [[1.0, 1.0], [1.0, 1.0]]
        pm = rng.permutation(d)
        sing = sing[np.ix_(pm, pm)]
        quads = X[zoo.quads_from(X, y, rng)]
        # … also the zero matrix (its default tolerance is 0), a rank-one matrix and the block matrix in tiny units
        sing_all = [('block', sing), ('zero', np.zeros((d, d))), ('rank-one', np.outer(np.arange(1.0, d + 1), np.arange(1.0, d + 1))),
                    ('block-tiny-units', sing * 2.0 ** -40)]
        for stag, sing in sing_all:
          for nm, mk in [('ITML', lambda: ITML(prior=sing).fit(pairs, yyd)), ('LSML', lambda: LSML(prior=sing).fit(quads)),
                         ('SDML', lambda: SDML(prior=sing, balance_param=1e-5).fit(pairs, yyd))]:
            R.case(('c20-strict', nm, stag, sing.tobytes().hex()[:40]), True, branch=f'strict-pd-{stag}')
            try:
                with warnings.catch_warnings():
                    warnings.simplefilter('ignore')
                    mk()
                R.violation(f'init/strict-pd/{nm}-accepts-singular', f'{nm} accepted a singular prior', {'prior': sing})
            except LinAlgError:
                pass
            except Exception as e:
                R.violation(f'init/strict-pd/{nm}-{type(e).__name__}', f'{nm} raised {type(e).__name__} for a singular prior', {'prior': sing})
        bads = [('non-symmetric', S + np.triu(np.ones((d, d)), 1), ValueError), ('non-symmetric-tiny-units', (S + np.triu(np.ones((d, d)), 1)) * 2.0 ** -40, ValueError),
                ('non-symmetric-large-units', (S + np.triu(np.ones((d, d)), 1)) * 2.0 ** 40, ValueError), ('wrong-shape', np.eye(d + 1), ValueError),
                ('indefinite', S - (np.linalg.eigvalsh(S).max() + 1) * np.outer(v, v), NonPSDError), ('bad-string', 'nonsense', ValueError)]
        for tag, val, exc in bads:
            for nm, mk in [('ITML', lambda: ITML(prior=val).fit(pairs, yyd)), ('MMC', lambda: MMC(init=val, max_iter=2).fit(pairs, yyd)),
                           ('LSML', lambda: LSML(prior=val).fit(quads))]:
                R.case(('c20-bad', nm, tag, d), True, branch=f'bad-{tag}')
                try:
                    with warnings.catch_warnings():
                        warnings.simplefilter('ignore')
                        mk()
                    R.violation(f'init/{tag}/{nm}-accepted', f'{nm} accepted a {tag} prior/init', {'value': val if not isinstance(val, str) else val})
                except exc:
                    pass
                except Exception as e:
                    R.violation(f'init/{tag}/{nm}-{type(e).__name__}', f'{nm} raised {type(e).__name__} for a {tag} prior/init (expected {exc.__name__})', {'tag': tag})
        # transformation initialisers: NCA with zero optimiser iterations returns the initialisation
        n, ncl = len(X), len(set(y))
        def init_of(**kw):
            """the initial transformation, observed through a learner that runs zero iterations: LMNN with
            max_iter=2 never enters its loop (NCA with maxiter=0 may still take one L-BFGS step in this SciPy)"""
            return LMNN(max_iter=2, n_neighbors=1, **kw).fit(X, y).components_
        for nc in [None] + list(range(1, d + 1)):
            k = d if nc is None else nc
            auto = init_of(init='auto', n_components=nc, random_state=3)
            rule = 'lda' if k <= min(d, ncl - 1) else ('pca' if k < min(d, n) else 'identity')
            ref = init_of(init=rule, n_components=nc, random_state=3)
            R.case(('c20-auto', d, nc, n, ncl, X.tobytes().hex()[:32]), True, branch=f'auto-{rule}')
            if auto.shape != (k, d) or not np.array_equal(auto, ref):
                R.violation(f'init/auto/{rule}', f"init='auto', n_components={nc} with d={d}, n={n}, classes={ncl} is not the '{rule}' initialisation", {'X': X, 'y': y, 'nc': nc})
            add(f'auto_select_init 1 {d} {n} {k} {ncl}', 'str', (f'ok {rule}', 'auto_select_init', {'d': d, 'n': n, 'k': k, 'ncl': ncl}))
            # every named initialisation has the requested shape — or is rejected by the shape check (only 'lda' asked for
            # more directions than classes allow may be), never silently another shape
            for opt in ('pca', 'lda', 'random', 'identity'):
                R.case(('c20-init-shape', opt, d, nc, ncl, X.tobytes().hex()[:32]), True, branch=f'init-shape-{opt}')
                try:
                    with warnings.catch_warnings():
                        warnings.simplefilter('ignore')
                        got_ = init_of(init=opt, n_components=nc, random_state=3)
                except ValueError as e:
                    if not (opt == 'lda' and k > min(d, ncl - 1)):
                        R.violation(f'init/{opt}/rejected', f"init={opt!r}, n_components={nc} with d={d}, classes={ncl} raised ValueError: {str(e)[:120]}", {'X': X, 'y': y, 'nc': nc})
                    continue
                if got_.shape != (k, d):
                    R.violation(f'init/{opt}/shape', f"init={opt!r}, n_components={nc} with d={d}, classes={ncl} gave a transformation of shape {got_.shape}, not {(k, d)}", {'X': X, 'y': y, 'nc': nc})
            ident = init_of(init='identity', n_components=nc)
            if not np.array_equal(ident, np.eye(k, d)):
                R.violation('init/identity', 'identity initialisation is not the (truncated) identity', {'d': d, 'nc': nc})
            arr = rng.randn(k, d)
            got = init_of(init=arr, n_components=nc)
            if not np.array_equal(got, arr):
                R.violation('init/array', 'array initialisation not used as given', {'d': d, 'nc': nc})
            r1 = init_of(init='random', n_components=nc, random_state=5)
            r2 = init_of(init='random', n_components=nc, random_state=5)
            if not np.array_equal(r1, r2) or r1.shape != (k, d):
                R.violation('init/random-components', 'random initialisation not reproducible for a seed', {'d': d, 'nc': nc})
            # MLKR has no classes: auto never selects lda
            m_auto = MLKR(init='auto', n_components=nc, max_iter=0, random_state=3)
            rule2 = 'pca' if k < min(d, n) else 'identity'
            add(f'auto_select_init 0 {d} {n} {k} -1', 'str', (f'ok {rule2}', 'auto_select_init', {'d': d, 'n': n, 'k': k, 'ncl': -1}))
        for tag, val in [('wrong-cols', rng.randn(d, d + 1)), ('too-many-rows', rng.randn(d + 1, d)), ('bad-string', 'nonsense')]:
            R.case(('c20-badinit', tag, d), True, branch=f'bad-init-{tag}')
            try:
                NCA(init=val, max_iter=0).fit(X, y)
                R.violation(f'init/components-{tag}/accepted', f'NCA accepted a {tag} init', {'tag': tag})
            except ValueError:
                pass
            except Exception as e:
                R.violation(f'init/components-{tag}/{type(e).__name__}', f'NCA raised {type(e).__name__} for a {tag} init', {'tag': tag})
    # initialiser dispatch vs the model
    for opt in ['identity', 'covariance', 'random', 'array', 'nonsense']:
        for sh in (0, 1):
            for sy in (0, 1):
                for sdpk in ('definite', 'semidefinite', 'indefinite'):
                    for spd in (0, 1):
                        d = 6
                        Xs = rng.randn(30, d)
                        if opt == 'covariance' and sdpk != 'definite':
                            Xs[:, 2] = Xs[:, 0]          # singular covariance
                        if opt == 'covariance' and sdpk == 'indefinite':
                            continue
                        # exactly representable block matrices: the zero eigenvalue is computed to within an ulp
                        arr = np.diag([2.0, 2.0, 3.0, 4.0, 5.0, 6.0])
                        if sdpk == 'semidefinite':
                            arr[:2, :2] = [[1.0, 1.0], [1.0, 1.0]]
                        elif sdpk == 'indefinite':
                            arr[:2, :2] = [[1.0, 2.0], [2.0, 1.0]]
                        else:
                            arr[:2, :2] = [[2.0, 1.0], [1.0, 2.0]]
                        if not sy:
                            arr = arr + np.triu(np.ones((d, d)), 1)
                        if not sh:
                            arr = np.eye(d + 1)
                        init = arr if opt == 'array' else opt
                        try:
                            with warnings.catch_warnings():
                                warnings.simplefilter('ignore')
                                _util._initialize_metric_mahalanobis(Xs, init, random_state=0, strict_pd=bool(spd), return_inverse=False)
                            impl = 'ok'
                        except NonPSDError:
                            impl = 'err NonPSDError'
                        except LinAlgError:
                            impl = 'err LinAlgError'
                        except ValueError:
                            impl = 'err ValueError'
                        except AttributeError:
                            continue
                        add(f'init_metric {opt if opt != "nonsense" else "invalid"} {sh} {sy} {sdpk} {spd}', 'prefix', (impl, 'init_metric', {'opt': opt, 'sh': sh, 'sy': sy, 'sdp': sdpk, 'strict_pd': spd}))
    if driver_ok and lines:
        outs = lean_run(lines)
        for o, (kind, payload) in zip(outs, meta):
            if kind == 'mat':
                impl, tol, what, case = payload
                v = parse_ok_floats(o)
                if v is None or v.size != impl.size or not np.abs(v - impl.ravel()).max() <= tol:
                    R.broken(f'correspondence:C20:{what}', f'model vs implementation differ ({o[:40]}…)', case)
            elif kind == 'str':
                impl, what, case = payload
                if o.strip() != impl:
                    R.broken(f'correspondence:C20:{what}', f'model says {o.strip()!r}, implementation {impl!r}', case)
            else:
                impl, what, case = payload
                if not (o.strip().startswith('ok') and impl == 'ok') and o.strip() != impl:
                    R.broken(f'correspondence:C20:{what}', f'model says {o.strip()!r}, implementation {impl!r} for {case}', case)
        R.extra['traces_validated_against_impl'] = len(lines)


def replay(R, obj):
    print(obj.get('what'))
    return 0
