"""The estimator zoo: all 17 learners fitted on generated well-formed data."""
import warnings
import numpy as np
from common import quiet

import metric_learn
from metric_learn import (Covariance, LFDA, LMNN, NCA, MLKR, RCA, RCA_Supervised, ITML, ITML_Supervised,
                          MMC, MMC_Supervised, SDML, SDML_Supervised, LSML, LSML_Supervised, SCML,
                          SCML_Supervised, Constraints)

ALL = ['Covariance', 'LFDA', 'LMNN', 'NCA', 'MLKR', 'RCA', 'RCA_Supervised', 'ITML', 'ITML_Supervised',
       'MMC', 'MMC_Supervised', 'SDML', 'SDML_Supervised', 'LSML', 'LSML_Supervised', 'SCML', 'SCML_Supervised']
PAIRS = ['ITML', 'MMC', 'SDML']
TUPLE_SIZE = {'ITML': 2, 'MMC': 2, 'SDML': 2, 'SCML': 3, 'LSML': 4}
CLASSES = {n: getattr(metric_learn, n) for n in ALL}


def blobs(rng, d=None, n_classes=None, n_per=None, dyadic=False):
    """finite real features, 2<=d<=8, samples >= 4d, >=2 classes with >=4 members, continuous distribution"""
    d = d or int(rng.randint(2, 6))
    n_classes = n_classes or int(rng.randint(2, 5))
    n_per = n_per or max(4, int(np.ceil(4 * d / n_classes)) + int(rng.randint(0, 4)))
    centers = rng.randn(n_classes, d) * 3
    A = rng.randn(d, d) * 0.7 + np.eye(d)
    # class sizes: balanced half of the time, otherwise some classes up to three times larger than the smallest
    sizes = np.full(n_classes, n_per)
    if rng.rand() < 0.5:
        sizes = n_per + rng.randint(0, 2 * n_per + 1, size=n_classes)
        sizes[int(rng.randint(n_classes))] = n_per
    X = np.vstack([centers[c] + rng.randn(sizes[c], d).dot(A) for c in range(n_classes)])
    y = np.repeat(np.arange(n_classes), sizes)
    p = rng.permutation(len(y))
    X, y = X[p], y[p]
    if dyadic:
        X = np.round(X * 16) / 16
    return X, y


def pairs_from(X, y, rng, n=None, repeats=None):
    n = n or 3 * len(set(y)) ** 2 + 6
    c = Constraints(y)
    with warnings.catch_warnings():
        warnings.simplefilter('ignore')
        a, b, cc, dd = c.positive_negative_pairs(n, random_state=int(rng.randint(1 << 30)))
    idx = np.vstack([np.column_stack([a, b]), np.column_stack([cc, dd])])
    yy = np.concatenate([np.ones(len(a), dtype=int), -np.ones(len(cc), dtype=int)])
    if repeats is None:
        repeats = rng.rand() < 0.35
    if repeats and len(idx):
        idx, yy = with_repeats(rng, idx, yy)
    return idx, yy


def index_pattern(rng, n, size):
    """a 1-D indicator array of a given length into n rows, in one of the shapes callers produce: random, a run, reversed,
    constant, strided, sorted bootstrap, sorted with as many repeats as skipped rows (same span and length as a run)"""
    size = max(1, int(size))
    if rng.rand() < 0.25:
        # some rows addressed from the end (−1 is the last row), as NumPy indexing allows: the same rows, other indicators
        base = index_pattern(rng, n, size)
        neg = rng.rand(len(base)) < 0.5
        return np.where(neg & (base >= 0), base - n, base)
    kind = ['random', 'run', 'reversed', 'constant', 'strided', 'sorted-bootstrap', 'skip-repeat', 'skip-repeat'][int(rng.randint(8))]
    if kind == 'random' or n < 3:
        return rng.randint(0, n, size=size)
    if kind == 'run':
        m = min(size, n); a = int(rng.randint(0, n - m + 1)); return np.arange(a, a + m)
    if kind == 'reversed':
        m = min(size, n); a = int(rng.randint(0, n - m + 1)); return np.arange(a, a + m)[::-1].copy()
    if kind == 'constant':
        return np.full(size, int(rng.randint(n)))
    if kind == 'strided':
        st = int(rng.randint(2, 4)); return (np.arange(size) * st) % n
    if kind == 'sorted-bootstrap':
        return np.sort(rng.randint(0, n, size=size))
    m = min(max(size, 4), n); a = int(rng.randint(0, n - m + 1))
    run = np.arange(a, a + m)
    k = int(rng.randint(1, max(2, (m - 2) // 2 + 1)))
    inner = rng.permutation(np.arange(1, m - 1))
    drop, dup = inner[:k], inner[k:2 * k]
    if len(dup) < len(drop):
        dup = np.concatenate([dup, np.full(len(drop) - len(dup), 0)])
    keep = np.setdiff1d(np.arange(m), drop)
    return np.sort(np.concatenate([run[keep], run[dup]]))


def with_repeats(rng, rows, labels=None):
    """the same constraint listed several times, with uneven multiplicities (a constraint listed k times counts k times
    in every documented objective), at random positions"""
    m = int(rng.randint(1, 4))
    pick = rng.choice(len(rows), size=min(m, len(rows)), replace=False)
    extra = np.concatenate([np.repeat(p_, int(rng.randint(1, 5))) for p_ in pick])
    order = rng.permutation(len(rows) + len(extra))
    allrows = np.concatenate([np.arange(len(rows)), extra])[order]
    if labels is None:
        return rows[allrows]
    return rows[allrows], labels[allrows]


def quads_from(X, y, rng, n=None, repeats=None):
    n = n or 3 * len(set(y)) ** 2 + 6
    c = Constraints(y)
    with warnings.catch_warnings():
        warnings.simplefilter('ignore')
        pn = c.positive_negative_pairs(n, same_length=True, random_state=int(rng.randint(1 << 30)))
    q = np.column_stack(pn)
    if repeats is None:
        repeats = rng.rand() < 0.35
    if repeats and len(q):
        q = with_repeats(rng, q)
    return q


def triplets_from(X, y, rng, kg=2, ki=3):
    with warnings.catch_warnings():
        warnings.simplefilter('ignore')
        return Constraints(y).generate_knntriplets(X, kg, ki)


def chunks_from(X, y, rng, n_chunks=None, chunk_size=2):
    counts = np.bincount(y)
    mx = int(sum(c // chunk_size for c in counts))
    n_chunks = n_chunks or max(2, min(mx, X.shape[1] + 3))
    ch = Constraints(y).chunks(n_chunks=n_chunks, chunk_size=chunk_size, random_state=int(rng.randint(1 << 30)))
    return relabel_chunks(ch, rng)


def relabel_chunks(ch, rng):
    """chunklet ids are arbitrary non-negative integers: half of the time they do not start at 0 and have gaps"""
    ch = np.asarray(ch).copy()
    if rng.rand() < 0.5:
        step, off = int(rng.choice([1, 2, 3])), int(rng.choice([0, 1, 5]))
        ch = np.where(ch >= 0, ch * step + off, ch)
    return ch


def default_params(name, rng, d):
    """small iteration budgets so a fit is fast; documented option values otherwise default"""
    s = int(rng.randint(1 << 30))
    if name == 'Covariance':
        return {}
    if name == 'LFDA':
        return {}
    if name == 'LMNN':
        return dict(max_iter=30, n_neighbors=2, random_state=s)
    if name == 'NCA':
        return dict(max_iter=15, random_state=s)
    if name == 'MLKR':
        return dict(max_iter=15, random_state=s)
    if name in ('RCA',):
        return {}
    if name == 'RCA_Supervised':
        return dict(n_chunks=d + 3, chunk_size=2, random_state=s)
    if name in ('ITML',):
        return dict(max_iter=60, random_state=s)
    if name == 'ITML_Supervised':
        return dict(max_iter=60, n_constraints=30, random_state=s)
    if name == 'MMC':
        return dict(max_iter=15, random_state=s)
    if name == 'MMC_Supervised':
        return dict(max_iter=15, n_constraints=30, random_state=s)
    if name == 'SDML':
        return dict(balance_param=1e-3, sparsity_param=0.01, random_state=s)
    if name == 'SDML_Supervised':
        return dict(balance_param=1e-3, sparsity_param=0.01, n_constraints=30, random_state=s)
    if name == 'LSML':
        return dict(max_iter=40, random_state=s)
    if name == 'LSML_Supervised':
        return dict(max_iter=40, n_constraints=30, random_state=s)
    if name == 'SCML':
        return dict(n_basis=3 * d + 2, max_iter=300, output_iter=50, random_state=s)
    if name == 'SCML_Supervised':
        return dict(n_basis=3 * d + 2, max_iter=300, output_iter=50, k_genuine=2, k_impostor=3, random_state=s)
    raise KeyError(name)


def fix_params(name, params, X, y):
    """keep data-dependent hyper-parameters inside their documented range for this dataset
    (RCA_Supervised: n_chunks must not exceed the number of chunks the labelled classes can supply)"""
    if name == 'RCA_Supervised':
        yk = np.asarray(y)[np.asarray(y) >= 0]
        size = int(params.get('chunk_size', 2))
        mx = int(sum(c // size for c in np.bincount(yk)))
        if mx * (size - 1) < X.shape[1]:
            size = 2
            mx = int(sum(c // 2 for c in np.bincount(yk)))
        params = dict(params, chunk_size=size, n_chunks=max(1, min(int(params.get('n_chunks', 100)), mx)))
    return params


def fit_args(name, X, y, rng, indices=False):
    """args tuple for fit with formed data; with indices=True returns (index_args, formed_args) where the
    data argument of index_args holds indices into X"""
    n = len(X)
    ar = np.arange(n)
    if name in ('Covariance',):
        ia, fa = (ar,), (X,)
    elif name in ('LFDA', 'LMNN', 'NCA', 'ITML_Supervised', 'MMC_Supervised', 'SDML_Supervised',
                  'LSML_Supervised', 'SCML_Supervised', 'RCA_Supervised'):
        ia, fa = (ar, y), (X, y)
    elif name == 'MLKR':
        t = y.astype(float) + 0.25 * rng.randn(len(y))
        ia, fa = (ar, t), (X, t)
    elif name == 'RCA':
        ch = chunks_from(X, y, rng)
        ia, fa = (ar, ch), (X, ch)
    elif name in PAIRS:
        idx, yy = pairs_from(X, y, rng)
        ia, fa = (idx, yy), (X[idx], yy)
    elif name == 'LSML':
        q = quads_from(X, y, rng)
        ia, fa = (q,), (X[q],)
    elif name == 'SCML':
        t = triplets_from(X, y, rng)
        ia, fa = (t,), (X[t],)
    else:
        raise KeyError(name)
    return (ia, fa) if indices else fa


def sdml_safe_balance(name, X, args, p):
    """a balance_param for which prior_inv + balance*loss is positive definite (identity prior),
    as C13's quantifier requires"""
    if name == 'SDML':
        pairs, yy = args
        diff = pairs[:, 0] - pairs[:, 1]
        loss = (diff.T * yy).dot(diff)
        nrm = np.linalg.norm(loss, 2)
    else:
        diam2 = float(((X.max(0) - X.min(0)) ** 2).sum())
        nrm = 2 * p.get('n_constraints', 30) * diam2
    return 0.25 / max(nrm, 1e-12)


class CountingCallable:
    """callable preprocessor that counts its calls"""
    def __init__(self, pool):
        self.pool = pool
        self.calls = 0

    def __call__(self, idx):
        self.calls += 1
        return self.pool[idx]


class RecordsCallable:
    """callable preprocessor over Python records (lists): integer-valued records are lists of ints, so the dtype of
    what it returns depends on which records are asked for"""
    def __init__(self, pool):
        self.records = [[int(v) for v in row] if np.all(row == np.round(row)) else [float(v) for v in row] for row in np.asarray(pool)]
        self.calls = 0

    def __call__(self, idx):
        self.calls += 1
        return np.array([self.records[int(i)] for i in np.asarray(idx).ravel()])


class ListCallable:
    """callable preprocessor that answers with a plain list of lists (an array-like, not an ndarray)"""
    def __init__(self, pool):
        self.rows = np.asarray(pool, dtype=float).tolist()
        self.calls = 0

    def __call__(self, idx):
        self.calls += 1
        return [list(self.rows[int(i)]) for i in np.asarray(idx).ravel()]


def make_preprocessor(kind, pool):
    if kind == 'array':
        return pool
    if kind == 'callable-list':
        return ListCallable(pool)
    if kind == 'list':
        return pool.tolist()
    if kind == 'callable':
        return CountingCallable(pool)
    if kind == 'records':
        return RecordsCallable(pool)
    raise KeyError(kind)


def fitted(name, rng, d=None, params=None, dyadic=False, data=None, preprocessor=None, extra_pool=None):
    """returns (estimator, X, y, fit_args).  With preprocessor in {'array','list','callable'} the estimator is
    constructed with that preprocessor over pool = vstack(X, extra_pool) and fitted on *indices*."""
    quiet()
    if data is None:
        n_classes = int(rng.randint(2, 5))
        d = d or int(rng.randint(2, 6))
        n_per = max(4, int(np.ceil(4 * d / n_classes)) + int(rng.randint(0, 4)))
        if name == 'RCA_Supervised' or name == 'RCA':
            n_per = max(n_per, 6)
        X, y = blobs(rng, d, n_classes, n_per, dyadic=dyadic)
    else:
        X, y = data
        d = X.shape[1]
    p = default_params(name, rng, d)
    if params:
        p.update(params)
    p = fix_params(name, p, X, y)
    ia, fa = fit_args(name, X, y, rng, indices=True)
    if name.startswith('SDML') and not (params and 'balance_param' in params):
        p['balance_param'] = sdml_safe_balance(name, X, fa, p)
    args = fa
    if preprocessor is not None:
        pool = X if extra_pool is None else np.vstack([X, extra_pool])
        p['preprocessor'] = make_preprocessor(preprocessor, pool)
        args = ia
    est = CLASSES[name](**p)
    with warnings.catch_warnings():
        warnings.simplefilter('ignore')
        est.fit(*args)
    return est, X, y, args


def documented_prior(kind, tuples, array=None):
    """the matrix the documentation gives for a prior / init option on these training tuples (None when it is not
    determined: 'random'); 'covariance' = (pseudo-)inverse covariance of the DISTINCT points of all tuple positions"""
    tuples = np.asarray(tuples, dtype=float)
    d = tuples.shape[-1]
    if kind == 'identity':
        return np.eye(d), 1.0
    if kind == 'array':
        return np.asarray(array, dtype=float), 1.0
    if kind == 'covariance':
        pts = np.unique(tuples.reshape(-1, d), axis=0)
        C = np.atleast_2d(np.cov(pts, rowvar=False))
        w = np.linalg.eigvalsh(C)
        if w.min() <= 1e3 * w.max() * d * 2.3e-16:
            return None, None                       # at the cut-off of the pseudo-inverse: either treatment is documented
        return np.linalg.inv(C), float(w.max() / w.min())
    return None, None


LOWRANK = ['LMNN', 'NCA', 'MLKR', 'LFDA', 'RCA']


def population(rng, reps=1, lowrank=True):
    """fitted estimators: all 17, plus low-rank variants (n_components < d)"""
    out = []
    for r in range(reps):
        for name in ALL:
            est, X, y, args = fitted(name, rng)
            out.append((name, est, X, y))
        if lowrank:
            for name in LOWRANK:
                d = int(rng.randint(3, 6))
                nc = int(rng.randint(1, d))
                est, X, y, args = fitted(name, rng, d=d, params=dict(n_components=nc))
                out.append((f'{name}[n_components={nc}<{d}]', est, X, y))
        # data in very small / very large units, with the data-dependent initial matrices (their eigenvalues then lie far
        # from 1: singular or ill-conditioned learned matrices with a large spectrum)
        for name, prm in [('MMC', dict(init='covariance', max_iter=100)), ('MMC_Supervised', dict(init='covariance', max_iter=100)), ('ITML', dict(prior='covariance')),
                          ('LSML', dict(prior='covariance')), ('Covariance', {}), ('RCA_Supervised', {}), ('LFDA', {}), ('NCA', dict(init='pca'))]:
            unit = float(10.0 ** rng.choice([-3, -4, 3] if not name.startswith('MMC') else [-3, -4]))   # (MMC's projection keeps M singular)
            n_classes = int(rng.randint(2, 4)); d = int(rng.randint(2, 5))
            X, y = blobs(rng, d, n_classes, max(6, int(np.ceil(4 * d / n_classes)) + 2))
            try:
                if name == 'MMC_Supervised':
                    # the library defaults (constraint count, iteration budget) on a slightly larger data set
                    d = int(rng.randint(2, 9)); n = 4 * d + int(rng.randint(8, 30)); k = int(rng.randint(2, 4))
                    y = np.arange(n) % k
                    X = (rng.randn(n, d) * rng.uniform(0.5, 3, d) + y[:, None] * rng.randn(d)) * unit
                    with warnings.catch_warnings():
                        warnings.simplefilter('ignore')
                        est = CLASSES[name](init='covariance', random_state=int(rng.randint(1 << 30))).fit(X, y)
                else:
                    est, X, y, args = fitted(name, rng, params=prm, data=(X * unit, y))
            except Exception:
                continue
            out.append((f'{name}[{",".join(f"{k}={v}" for k, v in prm.items())};unit={unit:g}]', est, X, y))
        # strongly unbalanced classes in a higher dimension (one class not larger than the number of features)
        for name in ('LFDA', 'LMNN', 'NCA', 'RCA_Supervised'):
            d = int(rng.randint(6, 9)); small = int(rng.randint(4, d + 1)); big = 4 * d + int(rng.randint(0, 10))
            centers = rng.randn(2, d) * 2
            X = np.vstack([centers[0] + rng.randn(small, d), centers[1] + rng.randn(big, d)])
            y = np.array([0] * small + [1] * big); pm = rng.permutation(len(y)); X, y = X[pm], y[pm]
            try:
                est, X, y, args = fitted(name, rng, data=(X, y), params=(dict(n_chunks=d + 3, chunk_size=2) if name == 'RCA_Supervised' else None))
            except Exception:
                continue
            out.append((f'{name}[classes {small}+{big}, d={d}]', est, X, y))
    return out


def query_points(rng, X, L, n, stream):
    """query triples for the distance properties. streams: train, far, tiny, huge, dup, kernel"""
    d = X.shape[1]
    lo, hi = X.min(0), X.max(0)
    if stream == 'train':
        P = lo + (hi - lo) * rng.rand(n, 3, d)
    elif stream == 'far':
        P = rng.randn(n, 3, d) * 1e6
    elif stream == 'tiny':
        P = rng.randn(n, 3, d) * 10.0 ** rng.uniform(-100, -20, size=(n, 1, 1))
    elif stream == 'huge':
        P = rng.randn(n, 3, d) * 10.0 ** rng.uniform(20, 100, size=(n, 1, 1))
    elif stream == 'dup':
        P = lo + (hi - lo) * rng.rand(n, 3, d)
        w = rng.randint(0, 3, size=n)
        for i in range(n):
            P[i, (w[i] + 1) % 3] = P[i, w[i]]
            if rng.rand() < 0.3:
                P[i, (w[i] + 2) % 3] = P[i, w[i]]
    elif stream == 'kernel':
        # differences in (or near) the null space of L when L is rank deficient, else integer grid
        P = np.round(lo + (hi - lo) * rng.rand(n, 3, d))
        try:
            u, s, vt = np.linalg.svd(np.atleast_2d(L))
            null = vt[np.sum(s > 1e-12 * max(s.max(), 1e-300)):]
            if len(null):
                for i in range(n):
                    P[i, 1] = P[i, 0] + null.T.dot(rng.randn(len(null)))
        except Exception:
            pass
    else:
        raise KeyError(stream)
    return P


STREAMS = ['train', 'far', 'tiny', 'huge', 'dup', 'kernel']
