"""C07 — constraints generated from labels respect the labels.

Correspondence: the real generators are run with a recording RandomState / NearestNeighbors; the Lean
model replays the recorded draws (pairs, chunks) or neighbour lists (k-NN triplets) and must produce the
same constraints (as sets for pairs, exactly for chunks and triplets), warnings and errors.
Oracle: the soundness predicates of the property evaluated on the implementation's output against the
caller's labels; determinism for a seed; exact validation of the neighbour search."""
import warnings
from fractions import Fraction
import numpy as np
from common import lean_run, quiet
from recorders import record_constraints
from metric_learn import Constraints


def gen_labels(rng, kind):
    n = int(rng.randint(4, 40))
    k = int(rng.randint(2, 7))
    if kind == 'balanced':
        y = rng.randint(0, k, size=n)
    elif kind == 'unbalanced':
        p = rng.dirichlet(np.ones(k) * 0.4)
        y = rng.choice(k, size=n, p=p)
    elif kind == 'singletons':
        y = rng.randint(0, k, size=n)
        for j in range(int(rng.randint(1, 4))):
            y[int(rng.randint(n))] = k + j + 5          # singleton classes
    else:
        y = rng.randint(0, k, size=n)
    y = y * int(rng.choice([1, 3])) + int(rng.choice([0, 2]))   # non-contiguous label values
    if rng.rand() < 0.7:
        m = rng.rand(n) < rng.uniform(0.05, 0.5)
        y = np.where(m, -1, y)                                 # unknown labels anywhere
        if rng.rand() < 0.4:
            # any negative value marks an unknown label, not only -1
            y = np.where(m & (rng.rand(n) < 0.5), -int(rng.randint(2, 6)), y)
            y = np.where(m & (rng.rand(n) < 0.2), -7, y)
    return y.astype(int)


def has_pairs(y):
    known = y[y >= 0]
    if len(known) == 0:
        return False, False
    vals, cnt = np.unique(known, return_counts=True)
    return bool((cnt >= 2).any()), len(vals) >= 2


def pairs_oracle(R, y, a, b, same, n, warned, case, tag):
    key = f'pairs/{"positive" if same else "negative"}'
    if len(a) != len(b):
        R.violation(key + '/ragged', 'a and b differ in length', case); return
    if len(a) > n:
        R.violation(key + '/too-many', f'{len(a)} pairs returned for n_constraints={n}', case)
    seen = set()
    for i, j in zip(a.tolist(), b.tolist()):
        if not (0 <= i < len(y) and 0 <= j < len(y)):
            R.violation(key + '/index-range', f'index out of the caller\'s array: ({i},{j})', case); return
        if y[i] < 0 or y[j] < 0:
            R.violation(key + '/unknown-label', f'pair ({i},{j}) uses an unlabeled point', case); return
        if same and (y[i] != y[j] or i == j):
            R.violation(key + '/unsound', f'positive pair ({i},{j}) labels {y[i]},{y[j]}', case); return
        if not same and y[i] == y[j]:
            R.violation(key + '/unsound', f'negative pair ({i},{j}) has equal labels', case); return
        if (i, j) in seen:
            R.violation(key + '/repeated', f'pair ({i},{j}) returned twice', case); return
        seen.add((i, j))


def rounds_from_log(log, y, start):
    """convert the recorded draws of one `_pairs` call (starting after its enter marker) into model rounds"""
    known = y[y >= 0]
    same, n = log[start][1], log[start][2]
    vals, cnt = np.unique(known, return_counts=True)
    cntmap = dict(zip(vals.tolist(), cnt.tolist()))
    i = start + 1
    rounds = []
    while i < len(log) and log[i][0] != 'enter_pairs':
        assert log[i][0] == 'randint', log[i]
        anchors = np.atleast_1d(log[i][1]).tolist()
        i += 1
        r = []
        for a in anchors:
            lab = known[a]
            nonempty = (cntmap[lab] >= 2) if same else (len(known) - cntmap[lab] > 0)
            if nonempty:
                assert log[i][0] == 'choice', log[i]
                r.append((a, int(log[i][1])))
                i += 1
            else:
                r.append((a, 0))
        rounds.append(r)
    return same, n, rounds, i


def fmt_rounds(rounds):
    return f'{len(rounds)} ' + ' '.join(f'{len(r)} ' + ' '.join(f'{a} {b}' for a, b in r) for r in rounds)


def exact_sqdist(p, q):
    return sum((Fraction(float(a)) - Fraction(float(b))) ** 2 for a, b in zip(p, q))


def run(R, tier, seed, driver_ok):
    quiet()
    _shared = {}

    def shared(y_):
        k_ = (y_.tobytes(), str(y_.dtype))
        if k_ not in _shared:
            _shared.clear()                      # (only the current label vector is kept)
            _shared[k_] = Constraints(y_)
        return _shared[k_]
    rng = np.random.RandomState(seed + 707)
    nvec = 120 if tier == 'quick' else 1200
    R.rule = ('label vectors (balanced / unbalanced / singleton classes / non-contiguous values, unknown −1 labels anywhere) × '
              'n_constraints, same_length, n_chunks, chunk_size, k_genuine, k_impostor × integer seeds × point sets with duplicates; '
              'case = (generator, labels, parameters, seed); non-trivial = at least one constraint exists')
    R.assumptions = ['numpy RandomState (seed → draws) is trusted; the neighbour search is validated exactly per call']
    lines, meta = [], []
    for it in range(nvec):
        kind = ['balanced', 'unbalanced', 'singletons', 'plain'][it % 4]
        y = gen_labels(rng, kind)
        sd = int(rng.randint(1 << 30))
        can_pos, can_neg = has_pairs(y)
        # ---------- pairs
        if can_pos and can_neg:
            n = int(rng.choice([1, 2, 5, 10, 40, 200]))
            same_length = bool(rng.rand() < 0.5)
            case = {'generator': 'positive_negative_pairs', 'labels': y, 'n_constraints': n, 'same_length': same_length, 'seed': sd}
            try:
                with record_constraints() as rec, warnings.catch_warnings(record=True) as wl:
                    warnings.simplefilter('always')
                    # (one helper object per label vector serves every call of this iteration: constraints must not depend on what
                    #  the object was asked before; the repetition below uses a fresh object)
                    a, b, c, d = shared(y).positive_negative_pairs(n, same_length=same_length, random_state=sd)
            except Exception as e:
                # pairs of both kinds exist for these labels: fewer (even none) may be found, with a warning, but the
                # call must return
                R.case(('c07p', y.tobytes().hex(), n, same_length, sd), True, branch=f'pairs:{kind}')
                R.violation(f'pairs/raises-{type(e).__name__}', f'positive_negative_pairs raised {type(e).__name__}: {str(e)[:120]} although pairs of both kinds exist', case)
                continue
            with warnings.catch_warnings():
                warnings.simplefilter('ignore')
                a2, b2, c2, d2 = Constraints(y).positive_negative_pairs(n, same_length=same_length, random_state=sd)
            R.case(('c07p', y.tobytes().hex(), n, same_length, sd), True,
                   sample={'generator': 'pairs', 'labels': y, 'n': n, 'same_length': same_length, 'seed': sd, 'n_pos': len(a), 'n_neg': len(c)},
                   branch=f'pairs:{kind}')
            if not (np.array_equal(a, a2) and np.array_equal(b, b2) and np.array_equal(c, c2) and np.array_equal(d, d2)):
                R.violation('pairs/not-reproducible', 'same integer seed gave different pairs', case)
            wpos = any('positive constraints' in str(w.message) for w in wl)
            wneg = any('negative constraints' in str(w.message) for w in wl)
            pairs_oracle(R, y, a, b, True, n, wpos, case, 'pos')
            pairs_oracle(R, y, c, d, False, n, wneg, case, 'neg')
            if same_length and len(a) != len(c):
                R.violation('pairs/same_length', f'same_length=True but {len(a)} positive and {len(c)} negative pairs', case)
            log = rec['rs'][0].log if rec['rs'] else []
            try:
                s1, n1, r1, nxt = rounds_from_log(log, y, 0)
                s2, n2, r2, _ = rounds_from_log(log, y, nxt)
            except (AssertionError, IndexError, KeyError) as e:
                R.broken('correspondence:C07:pairs-draw-pattern', f'recorded draws do not follow the modelled pattern: {e}', case)
                continue
            lab = ' '.join(map(str, y.tolist()))
            lines.append(f'pairs 1 {n} {len(y)} {lab} {fmt_rounds(r1)}')
            meta.append(('pairs', (a, b, wpos, same_length, min(len(a), len(c)), n), case))
            lines.append(f'pairs 0 {n} {len(y)} {lab} {fmt_rounds(r2)}')
            meta.append(('pairs', (c, d, wneg, same_length, min(len(a), len(c)), n), case))
        # ---------- chunks
        known = y[y >= 0]
        if len(known) > 0:
            size = int(rng.choice([1, 2, 2, 3, 4]))
            vals, cnt = np.unique(known, return_counts=True)
            mx = int(sum(c // size for c in cnt))
            nch = int(rng.choice([1, max(1, mx // 2), max(1, mx), mx + 1, mx + 3]))
            case = {'generator': 'chunks', 'labels': y, 'n_chunks': nch, 'chunk_size': size, 'seed': sd}
            R.case(('c07c', y.tobytes().hex(), nch, size, sd), mx >= 1,
                   sample={'generator': 'chunks', 'labels': y, 'n_chunks': nch, 'chunk_size': size, 'seed': sd, 'max_chunks': mx},
                   branch=f'chunks:{"possible" if nch <= mx else "impossible"}')
            with record_constraints() as rec:
                try:
                    ch = shared(y).chunks(n_chunks=nch, chunk_size=size, random_state=sd)
                    outcome = 'ok'
                except ValueError:
                    ch, outcome = None, 'ValueError'
                except Exception as e:
                    ch, outcome = None, type(e).__name__
            if nch > mx:
                if outcome != 'ValueError':
                    R.violation('chunks/impossible-not-rejected', f'{nch} chunks of {size} requested, only {mx} possible, outcome {outcome}', case)
            else:
                if outcome != 'ok':
                    R.violation(f'chunks/possible-{outcome}', f'{nch} chunks of {size} possible ({mx}) but {outcome} raised', case)
                else:
                    ch2 = Constraints(y).chunks(n_chunks=nch, chunk_size=size, random_state=sd)
                    try:
                        ch3 = shared(y).chunks(n_chunks=nch, chunk_size=size, random_state=sd)      # the same object, asked again
                    except Exception as e:
                        ch3 = None
                        R.violation(f'chunks/second-call-raises-{type(e).__name__}', f'a second identical call on the same Constraints object raised {type(e).__name__}: {str(e)[:100]}', case)
                    if not np.array_equal(ch, ch2) or (ch3 is not None and not np.array_equal(ch, ch3)):
                        R.violation('chunks/not-reproducible', 'same integer seed gave different chunks (fresh object / same object asked again)', case)
                    if ch.shape != y.shape:
                        R.violation('chunks/shape', 'chunk array has the wrong shape', case)
                    else:
                        ids = sorted(set(ch[ch >= 0].tolist()))
                        if ids != list(range(nch)):
                            R.violation('chunks/count', f'chunk ids {ids[:5]}… for n_chunks={nch}', case)
                        for cid in ids:
                            mem = np.nonzero(ch == cid)[0]
                            if len(mem) != size:
                                R.violation('chunks/size', f'chunk {cid} has {len(mem)} members, chunk_size={size}', case); break
                            if (y[mem] < 0).any() or len(set(y[mem].tolist())) != 1:
                                R.violation('chunks/class', f'chunk {cid} mixes classes or uses unlabeled points: labels {y[mem].tolist()}', case); break
            log = rec['rs'][0].log if rec['rs'] else []
            rs = [int(e[1]) for e in log if e[0] == 'randint']
            cs = [np.atleast_1d(e[1]).tolist() for e in log if e[0] == 'choice']
            lab = ' '.join(map(str, y.tolist()))
            lines.append(f'chunks {len(y)} {lab} {nch} {size} {len(rs)} ' + ' '.join(map(str, rs)) + f' {len(cs)} ' +
                         ' '.join(f'{len(c)} ' + ' '.join(map(str, c)) for c in cs))
            meta.append(('chunks', (ch, outcome), case))
        # ---------- k-NN triplets
        if len(known) > 0:
            vals, cnt = np.unique(known, return_counts=True)
            if len(vals) >= 1:        # (also classes with one member and a single known class: no triplet for them)
                dd = int(rng.randint(1, 4))
                X = np.round(rng.randn(len(y), dd) * 2) / (2.0 if rng.rand() < 0.5 else 1.0)   # many exact ties / duplicates
                if rng.rand() < 0.5:
                    X = rng.randn(len(y), dd)
                kg, ki = int(rng.choice([1, 2, 3, 6])), int(rng.choice([1, 2, 4, 12]))
                case = {'generator': 'generate_knntriplets', 'labels': y, 'X': X, 'k_genuine': kg, 'k_impostor': ki}
                R.case(('c07k', y.tobytes().hex(), X.tobytes().hex(), kg, ki), True,
                       sample={'generator': 'knn', 'labels': y, 'k_genuine': kg, 'k_impostor': ki, 'n': len(y)}, branch='knn')
                with record_constraints() as rec, warnings.catch_warnings(record=True) as wl:
                    warnings.simplefilter('always')
                    try:
                        T = shared(y).generate_knntriplets(X, kg, ki)
                    except Exception as e:
                        R.violation(f'knn/raises-{type(e).__name__}', f'generate_knntriplets raised {type(e).__name__}: {e}', case)
                        continue
                T = np.asarray(T)
                with warnings.catch_warnings():
                    warnings.simplefilter('ignore')
                    T_fresh = np.asarray(Constraints(y).generate_knntriplets(X, kg, ki))
                if not np.array_equal(T, T_fresh):
                    R.violation('knn/not-reproducible', 'a Constraints object used before gives other triplets than a fresh one', case)
                nk = len(known)
                expected = 0
                ok = True
                if T.ndim != 2 or T.shape[1] != 3:
                    R.violation('knn/shape', f'triplets shape {T.shape}', case); continue
                if T.size and (T.min() < 0 or T.max() >= len(y)):
                    R.violation('knn/index-range', 'triplet index outside the caller\'s array', case); continue
                if (y[T.ravel()] < 0).any():
                    R.violation('knn/unknown-label', 'a triplet uses an unlabeled point', case); continue
                if len(set(map(tuple, T.tolist()))) != len(T):
                    R.violation('knn/repeated', 'a triplet combination appears twice', case)
                # exact validation against the k nearest neighbours (ties allowed)
                for lbl, c_ in zip(vals, cnt):
                    kgc = min(kg, c_ - 1); kic = min(ki, nk - c_)
                    expected += c_ * kgc * kic
                    members = np.nonzero(y == lbl)[0]
                    others = np.nonzero((y >= 0) & (y != lbl))[0]
                    for a_ in members:
                        rows = T[T[:, 0] == a_]
                        bs = sorted(set(rows[:, 1].tolist())); cs_ = sorted(set(rows[:, 2].tolist()))
                        if len(rows) != kgc * kic or (kgc * kic > 0 and (len(bs) != kgc or len(cs_) != kic)):
                            R.violation('knn/combination-count', f'anchor {a_}: {len(rows)} triplets, {len(bs)} genuine, {len(cs_)} impostors (expected {kgc}×{kic})', case); ok = False; break
                        if any(y[b_] != lbl or b_ == a_ for b_ in bs) or any(y[c2] == lbl or y[c2] < 0 for c2 in cs_):
                            R.violation('knn/wrong-class', f'anchor {a_} (class {lbl}): genuine {bs} / impostors {cs_} have wrong labels', case); ok = False; break
                        dg = {m: exact_sqdist(X[a_], X[m]) for m in members if m != a_}
                        di = {m: exact_sqdist(X[a_], X[m]) for m in others}
                        if bs and max(dg[b_] for b_ in bs) > min([v for m, v in dg.items() if m not in bs] or [max(dg.values())]):
                            R.violation('knn/not-nearest-genuine', f'anchor {a_}: genuine neighbours {bs} are not the {kgc} nearest same-class points', case); ok = False; break
                        if cs_ and max(di[c2] for c2 in cs_) > min([v for m, v in di.items() if m not in cs_] or [max(di.values())]):
                            R.violation('knn/not-nearest-impostor', f'anchor {a_}: impostors {cs_} are not the {kic} nearest other-class points', case); ok = False; break
                    if not ok:
                        break
                if ok and len(T) != expected:
                    R.violation('knn/total-count', f'{len(T)} triplets, expected {expected}', case)
                wg = sum('genuine neighbors' in str(w.message) for w in wl); wi = sum('impostor neighbors' in str(w.message) for w in wl)
                if wg != int(sum(kg + 1 > c_ for c_ in cnt)) or wi != int(sum(ki > nk - c_ for c_ in cnt)):
                    R.violation('knn/warnings', f'{wg} genuine / {wi} impostor clipping warnings', case)
                # model replay per class from the recorded neighbour lists (mapped to the caller's frame by the harness)
                kidx = np.nonzero(y >= 0)[0]
                calls = rec['knn']
                # (a class without genuine or without impostor neighbours gives no triplet and needs no neighbour search)
                active = [(lbl, c_) for lbl, c_ in zip(vals, cnt) if min(kg, c_ - 1) * min(ki, nk - c_) > 0]
                if len(calls) == 2 * len(active):
                    off = 0
                    for ci, (lbl, c_) in enumerate(active):
                        members_k = np.nonzero(known == lbl)[0]; others_k = np.nonzero(known != lbl)[0]
                        g = kidx[members_k[calls[2 * ci]['idx']]]; im = kidx[others_k[calls[2 * ci + 1]['idx']]]
                        mem = kidx[members_k]
                        kgc, kic = g.shape[1], im.shape[1]
                        cnt_c = len(mem) * kgc * kic
                        lines.append(f'knn_class {len(mem)} ' + ' '.join(map(str, mem.tolist())) + f' {kgc} {kic} ' +
                                     ' '.join(map(str, g.ravel().tolist())) + ' ' + ' '.join(map(str, im.ravel().tolist())))
                        meta.append(('knn', T[off:off + cnt_c], case))
                        off += cnt_c
                        lines.append(f'knn_clip {kg} {ki} {nk} {c_}')
                        meta.append(('clip', (kgc, kic), case))
                else:
                    R.broken('correspondence:C07:knn-call-pattern', f'{len(calls)} neighbour searches for {len(active)} classes with triplets', case)
    if driver_ok and lines:
        outs = lean_run(lines)
        for o, (kind, impl, case) in zip(outs, meta):
            tk = o.split()
            if kind == 'pairs':
                a, b, warned, same_length, m, n = impl
                if tk[0] != 'ok':
                    R.broken('correspondence:C07:pairs', f'model answered {o[:60]}', case); continue
                cntp, w = int(tk[1]), tk[2] == '1'
                mp = set(zip(map(int, tk[3::2]), map(int, tk[4::2])))
                ip = set(zip(a.tolist(), b.tolist()))
                good = (ip <= mp and len(ip) == min(len(mp), m)) if same_length else (ip == mp)
                if not good or w != warned:
                    R.broken('correspondence:C07:pairs', f'model pairs {sorted(mp)[:6]}… warn={w} vs implementation {sorted(ip)[:6]}… warn={warned}', case)
            elif kind == 'chunks':
                ch, outcome = impl
                if outcome == 'ValueError':
                    if o.strip() != 'err ValueError':
                        R.broken('correspondence:C07:chunks', f'implementation raised ValueError, model answered {o[:60]}', case)
                    continue
                if tk[0] != 'ok' or ch is None:
                    R.broken('correspondence:C07:chunks', f'model answered {o[:60]}, implementation {outcome}', case); continue
                nchk = int(tk[1]); flat = list(map(int, tk[2:]))
                size = case['chunk_size']
                model = -np.ones(len(ch), dtype=int)
                for ci in range(nchk):
                    model[flat[ci * size:(ci + 1) * size]] = ci
                if not np.array_equal(model, ch):
                    R.broken('correspondence:C07:chunks', 'model chunks differ from the implementation', case)
            elif kind == 'knn':
                if tk[0] != 'ok':
                    R.broken('correspondence:C07:knn', f'model answered {o[:60]}', case); continue
                mt = np.array(list(map(int, tk[2:])), dtype=int).reshape(-1, 3)
                if mt.shape != impl.shape or not np.array_equal(mt, impl):
                    R.broken('correspondence:C07:knn', 'model triplets differ from the implementation (order or content)', case)
            else:
                kgc, kic = impl
                if tk[0] != 'ok' or int(tk[1]) != kgc or int(tk[3]) != kic:
                    R.broken('correspondence:C07:knn-clip', f'model clipping {o} vs implementation {(kgc, kic)}', case)
        R.extra['traces_validated_against_impl'] = len(lines)


def replay(R, obj):
    print(obj.get('what'))
    return 0
