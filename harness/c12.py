"""C12 — LSML descends its convex objective from the prior to a stationary point.

The model's objective and gradient (Float twin) are evaluated on the implementation's result, prior and
weights.  Oracle: M SPD; objective(result) ≤ objective(prior); a prior that satisfies every quadruplet is
returned; when the solver stops before max_iter the model gradient norm at the result is ≤ tol (stationary
point); multiplying all weights by a constant changes nothing; list and array weights agree."""
import warnings
import numpy as np
from common import bits, lean_run, parse_ok_floats, quiet, f2b
import zoo
import metric_learn.lsml as ml
from metric_learn import LSML, LSML_Supervised


def py_loss_grad(M, Pinv, vab, vcd, w):
    dab = np.einsum('ij,jk,ik->i', vab, M, vab); dcd = np.einsum('ij,jk,ik->i', vcd, M, vcd)
    viol = dab > dcd
    loss = (w[viol] * (np.sqrt(dab[viol]) - np.sqrt(dcd[viol])) ** 2).sum() + np.sum(M * Pinv) - np.linalg.slogdet(M)[1]
    G = Pinv - np.linalg.inv(M)
    for a, da, c, dc, ww in zip(vab[viol], dab[viol], vcd[viol], dcd[viol], w[viol]):
        # (a comparison whose second pair is one point, d_cd = 0: its term w·d_ab is linear, the d_cd part drops out)
        G = G + ww * ((1 - np.sqrt(dc / da)) * np.outer(a, a) + ((1 - np.sqrt(da / dc)) * np.outer(c, c) if dc > 0 else 0.0))
    return loss, G


def run(R, tier, seed, driver_ok):
    quiet()
    rng = np.random.RandomState(seed + 1212)
    reps = 24 if tier == 'quick' else 200
    R.rule = ('quadruplet sets from generated blobs × prior ∈ {identity, covariance, random, SPD array} × weights ∈ {None, array, list, rescaled} × '
              'tol × max_iter; LSML and LSML_Supervised; feasible-prior cases. case = (quadruplets, options); all non-trivial')
    R.assumptions = ['inv / slogdet / eigh are external; the twin uses its own Gauss–Jordan on the (SPD) result']
    lines, meta = [], []
    runlines, runmeta = [], []
    for rep in range(reps):
        d = int(rng.randint(2, 6))
        X, y = zoo.blobs(rng, d)
        if rep % 3 == 1:
            # comparisons that are violated under the prior (the two pairs exchanged) and listed several times with uneven
            # multiplicities: a comparison listed k times counts k times in the objective and in the search direction
            qi = zoo.quads_from(X, y, rng, n=int(rng.randint(4, 20)), repeats=False)
            fl = rng.rand(len(qi)) < 0.5
            qi[fl] = qi[fl][:, [2, 3, 0, 1]]
            quads = X[zoo.with_repeats(rng, qi)]
        else:
            quads = X[zoo.quads_from(X, y, rng, n=int(rng.randint(4, 20)))]
        if rep % 5 == 4:
            quads = quads[rng.choice(len(quads), size=int(rng.randint(1, 4)), replace=False)]   # one to three comparisons
        if rep % 6 == 2:
            # comparisons whose second pair is one point (c == d): always violated, linear in the metric
            quads = quads.copy()
            for j in rng.choice(len(quads), size=min(len(quads), int(rng.randint(1, 3))), replace=False):
                quads[j, 3] = quads[j, 2]
        heavy = None
        if rep % 6 == 0 and len(quads) >= 3:
            # comparisons whose FIRST pair is one point (a == b): never violated, yet they carry their share of the total weight
            quads = quads.copy()
            heavy = rng.choice(len(quads), size=int(rng.randint(1, max(2, len(quads) // 2))), replace=False)
            for j in heavy:
                quads[j, 1] = quads[j, 0]
        nq = len(quads)
        prior_kind = ['identity', 'covariance', 'random', 'array'][rep % 4]
        if nq <= 3 and prior_kind == 'covariance':
            prior_kind = 'identity'          # (the covariance of so few points is singular: a documented rejection)
        B = rng.randn(d, d)
        prior = B.dot(B.T) + 0.5 * np.eye(d) if prior_kind == 'array' else prior_kind
        wmode = ['none', 'array', 'list', 'none'][(rep // 4) % 4]
        wraw = rng.uniform(0.2, 3.0, size=nq) * (10.0 ** rng.randint(-2, 3))
        if heavy is not None:
            wraw[heavy] *= 20.0          # (most of the weight on the never-violated comparisons)
        weights = None if wmode == 'none' else (wraw.copy() if wmode == 'array' else wraw.tolist())
        tol = float(rng.choice([1e-3, 1e-5]))
        max_iter = int(rng.choice([5, 50, 1000]))
        sd = int(rng.randint(1 << 30))
        feasible = rep % 6 == 5
        case = {'prior': prior_kind, 'weights': wmode, 'tol': tol, 'max_iter': max_iter, 'quadruplets': quads, 'feasible_prior': feasible}
        store = {}
        orig = ml._initialize_metric_mahalanobis

        def spy(*a, **k):
            out = orig(*a, **k)
            store['M0'] = np.array(out[0], copy=True); store['Pinv'] = np.array(out[1], copy=True)
            store['eigh'] = []                       # (decompositions asked for by the solver loop from here on)
            return out
        ml._initialize_metric_mahalanobis = spy
        o_eigh = ml.scipy.linalg.eigh

        def spy_eigh(a_, *aa, **kk_):
            out = o_eigh(a_, *aa, **kk_)
            if 'eigh' in store and not aa and not kk_:
                store['eigh'].append((np.array(out[0], copy=True), np.array(out[1], copy=True)))
            return out
        ml.scipy.linalg.eigh = spy_eigh
        try:
            with warnings.catch_warnings():
                warnings.simplefilter('ignore')
                if feasible:
                    # make every quadruplet hold under the prior: order the two pairs by their prior distance
                    probe = LSML(prior=prior, random_state=sd, max_iter=1).fit(quads)
                    M0 = store['M0']
                    vab = quads[:, 0] - quads[:, 1]; vcd = quads[:, 2] - quads[:, 3]
                    dab = np.einsum('ij,jk,ik->i', vab, M0, vab); dcd = np.einsum('ij,jk,ik->i', vcd, M0, vcd)
                    sw = dab > dcd
                    quads = quads.copy(); quads[sw] = quads[sw][:, [2, 3, 0, 1]]
                    case['quadruplets'] = quads
                est = LSML(prior=prior, tol=tol, max_iter=max_iter, random_state=sd)
                est.fit(quads, weights=(None if weights is None else (weights.copy() if isinstance(weights, np.ndarray) else list(weights))))
        except Exception as e:
            R.violation(f'LSML/fit-raises-{type(e).__name__}/{wmode}', f'LSML.fit(weights={wmode}) raised {type(e).__name__}: {str(e)[:200]}', case)
            continue
        finally:
            ml._initialize_metric_mahalanobis = orig
            ml.scipy.linalg.eigh = o_eigh
        M0, Pinv = store['M0'], store['Pinv']
        want0, cond0 = zoo.documented_prior(prior_kind, quads, prior if prior_kind == 'array' else None)
        if want0 is not None and np.abs(M0 - want0).max() > max(1e-9, 1e3 * 2.3e-16 * cond0) * max(np.abs(want0).max(), 1e-300):
            R.violation(f'LSML/prior-{prior_kind}-not-as-documented', f'the prior LSML starts from differs from the documented {prior_kind} prior of these quadruplets (max diff {np.abs(M0 - want0).max():.3g})', case)
        M = est.get_mahalanobis_matrix()
        R.case(('c12', quads.tobytes().hex()[:64], prior_kind, wmode, tol, max_iter, feasible), True,
               sample={'d': d, 'n_quadruplets': nq, 'prior': prior_kind, 'weights': wmode, 'tol': tol, 'max_iter': max_iter, 'n_iter_': int(est.n_iter_)},
               branch=f'{prior_kind}:{wmode}:{"feasible" if feasible else "general"}')
        vab = quads[:, 0] - quads[:, 1]; vcd = quads[:, 2] - quads[:, 3]
        w = np.ones(nq) if weights is None else np.asarray(weights, dtype=float)
        w = w / w.sum()
        nm = np.abs(M).max()
        if np.abs(M - M.T).max() > 1e-10 * nm or np.linalg.eigvalsh((M + M.T) / 2).min() <= 0:
            R.violation('LSML/not-spd', 'learned M is not symmetric positive definite', case); continue
        l1, G1 = py_loss_grad(M, Pinv, vab, vcd, w)
        l0, G0 = py_loss_grad(M0, Pinv, vab, vcd, w)
        if l1 > l0 + 1e-9 * max(1.0, abs(l0)):
            R.violation('LSML/objective-increased', f'objective at the result ({l1:.6g}) is larger than at the prior ({l0:.6g})', case)
        if feasible and np.abs(M - M0).max() > 1e-9 * np.abs(M0).max():
            R.violation('LSML/feasible-prior-changed', 'all quadruplets hold under the prior but the prior was not returned', case)
        gn = np.linalg.norm(G1)
        if est.n_iter_ < max_iter and gn > tol * (1 + 1e-6) + 1e-9:
            R.violation(f'LSML/not-stationary/{"weighted" if wmode != "none" else "unweighted"}',
                        f'solver stopped after {est.n_iter_} < max_iter={max_iter} iterations but the gradient norm of the documented objective is {gn:.4g} > tol={tol}', case)
        # weights: any positive rescaling is immaterial; list and array agree
        if wmode != 'none' and rep % 2 == 0:
            with warnings.catch_warnings():
                warnings.simplefilter('ignore')
                try:
                    e2 = LSML(prior=prior, tol=tol, max_iter=max_iter, random_state=sd).fit(quads, weights=np.asarray(wraw) * 7.5)
                    e3 = LSML(prior=prior, tol=tol, max_iter=max_iter, random_state=sd).fit(quads, weights=(list(wraw) if wmode == 'array' else np.asarray(wraw)))
                    for tag, ee in (('rescaled', e2), ('list-vs-array', e3)):
                        M2 = ee.get_mahalanobis_matrix()
                        l2, G2_ = py_loss_grad(M2, Pinv, vab, vcd, w)
                        # (last-bit differences in the normalised weights may flip one accept/reject decision of the
                        # line search: both runs must still end at the same optimum up to the solver tolerance)
                        exact = np.abs(M2 - M).max() <= 1e-8 * nm
                        # … and two runs that exhaust max_iter without converging are two unconverged trajectories: rounding
                        # differences grow along them, only the objective level is comparable (1 %)
                        unconv = ee.n_iter_ >= max_iter or est.n_iter_ >= max_iter
                        if unconv:
                            if abs(l2 - l1) > 1e-2 * max(1.0, abs(l1)):
                                R.violation(f'LSML/weights-{tag}', f'{tag} weights change the objective level reached within max_iter ({l2:.8g} vs {l1:.8g})', case)
                        elif not exact and (abs(l2 - l1) > 1e-4 * max(1.0, abs(l1)) or np.abs(M2 - M).max() > 1e-2 * nm):
                            R.violation(f'LSML/weights-{tag}', f'{tag} weights change the learned metric (objective {l2:.8g} vs {l1:.8g}, max diff {np.abs(M2 - M).max() / nm:.3g}; n_iter_ {ee.n_iter_} vs {est.n_iter_}, gradient norms {np.linalg.norm(G2_):.3g} vs {gn:.3g})', case)
                except Exception as e:
                    R.violation(f'LSML/weights-variant-raises-{type(e).__name__}', f'weights variant raised {type(e).__name__}: {str(e)[:100]}', case)
        # the whole solver loop replayed by the model with the implementation's own eigen-decompositions as oracle
        recs = store.get('eigh', [])
        if max_iter <= 50 and len(recs) % 10 == 0 and len(recs) <= 10 * max_iter:
            flat = ' '.join(bits(np.concatenate([w_, V_.ravel()])) for w_, V_ in recs)
            for M0_ in (M0, M0 * (1 + 2.2e-16 * rng.randn(*M0.shape))):
                M0s = (M0_ + M0_.T) / 2
                runlines.append(f'lsml_run {d} {nq} {bits(M0s)} {bits(Pinv)} {bits(vab)} {bits(vcd)} {bits(w)} {f2b(tol)} {max_iter} '
                                f'{bits(np.logspace(-10, 0, 10))} {len(recs)} {flat}')
            runmeta.append((M.copy(), int(est.n_iter_), dict(case)))
        # what the implementation's own _total_loss / _gradient return at its result (with its own normalised weights)
        try:
            li = float(est._total_loss(M, vab, vcd, Pinv)); Gi = np.asarray(est._gradient(M, vab, vcd, Pinv))
        except (TypeError, AttributeError):
            # the private helpers were refactored (another signature): this tie is not available; the oracle above still judges
            R.count('impl-gradient-helpers-unavailable'); li, Gi = None, None
        except Exception as e:
            R.violation(f'LSML/loss-gradient-raises-{type(e).__name__}', f'_total_loss/_gradient raised {type(e).__name__} at the learned matrix', case); continue
        lines.append(f'lsml_eval {d} {nq} {bits(M)} {bits(Pinv)} {bits(vab)} {bits(vcd)} {bits(w)}')
        meta.append((l1, G1, case, li, Gi))
    # ---- a zero iteration budget returns the prior
    for rep in range(2 if tier == 'quick' else 10):
        d = int(rng.randint(2, 5))
        X, y = zoo.blobs(rng, d)
        quads = X[zoo.quads_from(X, y, rng, n=6)]
        store = {}
        orig = ml._initialize_metric_mahalanobis

        def spy0(*a, **k):
            out = orig(*a, **k); store['M0'] = np.array(out[0], copy=True); return out
        ml._initialize_metric_mahalanobis = spy0
        R.case(('c12-zero', quads.tobytes().hex()[:64]), True, branch='zero-budget')
        try:
            with warnings.catch_warnings():
                warnings.simplefilter('ignore')
                e0 = LSML(max_iter=0, prior=['identity', 'covariance'][rep % 2]).fit(quads)
            if np.abs(e0.get_mahalanobis_matrix() - store['M0']).max() > 1e-9 * np.abs(store['M0']).max():
                R.violation('LSML/zero-budget', 'max_iter=0 does not return the prior', {'quadruplets': quads})
        except Exception as e:
            R.violation(f'LSML/fit-raises-{type(e).__name__}/zero-budget', f'LSML(max_iter=0).fit raised {type(e).__name__}: {str(e)[:160]}', {'quadruplets': quads})
        finally:
            ml._initialize_metric_mahalanobis = orig
    if driver_ok and lines:
        outs = lean_run(lines)
        for o, (l1, G1, case, li, Gi) in zip(outs, meta):
            v = parse_ok_floats(o)
            if v is None or v.size != 1 + G1.size:
                R.broken('correspondence:C12:lsml_eval', f'model answered {o[:60]}', case); continue
            if abs(v[0] - l1) > 1e-8 * max(1.0, abs(l1)) or np.abs(v[1:] - G1.ravel()).max() > 1e-7 * max(1.0, np.abs(G1).max()):
                R.broken('correspondence:C12:lsml_eval', f'twin objective/gradient differ from the reference evaluation (loss {v[0]} vs {l1})', case)
            elif li is not None and (abs(v[0] - li) > 1e-8 * max(1.0, abs(li)) or Gi.shape != G1.shape or np.abs(v[1:] - Gi.ravel()).max() > 1e-7 * max(1.0, np.abs(Gi).max())):
                R.broken('correspondence:C12:lsml_impl', f"the model's objective/gradient (C12_first_order is about them) differ from the implementation's _total_loss/_gradient at the learned matrix (loss {v[0]} vs {li}, max gradient difference {np.abs(v[1:] - Gi.ravel()).max() if Gi.shape == G1.shape else 'shape'})", case)
        outs = lean_run(runlines)
        worst = 0.0
        for i_, (Mf, nit, case) in enumerate(runmeta):
            o1, o2 = outs[2 * i_], outs[2 * i_ + 1]
            tk = o1.split()
            if tk[:1] != ['ok'] or len(tk) < 4:
                R.broken('driver:lsml_run', f'model driver answered {o1[:80]}', case); continue
            v = parse_ok_floats('ok ' + ' '.join(tk[2:]))
            vp = parse_ok_floats('ok ' + ' '.join(o2.split()[2:])) if o2.startswith('ok') else None
            Mm = v[2:].reshape(Mf.shape)
            scale = max(np.abs(Mf).max(), 1e-300)
            sens = 1.0 if (vp is None or vp.size != v.size or o2.split()[1] != tk[1]) else float(np.abs(vp[2:] - v[2:]).max()) / scale
            if 1e3 * sens > 1e-4:
                R.count('lsml_run:skipped-rounding-sensitive'); continue
            rel = float(np.abs(Mm - Mf).max()) / scale
            worst = max(worst, rel)
            if rel > 1e-8 + 1e3 * sens or int(tk[1]) != nit:
                R.broken('correspondence:C12:lsml_run', f'the model of the solver loop (gradient, ten candidate steps, eigenvalue flooring, strict-improvement scan, stop rules) ends after {tk[1]} iterations at a matrix that differs from the learned one by {rel:.3g} (relative; implementation n_iter_={nit}; rounding sensitivity {sens:.3g})', case)
            elif v[1] > 1e-7 * scale:
                R.broken('correspondence:C12:eigh-contract', f'a recorded eigen-decomposition does not reconstruct the candidate the model forms (max deviation {v[1]:.3g})', case)
        R.count('lsml_run_traces', len(runmeta))
        R.extra['lsml_run_worst_relative_difference'] = worst
        R.extra['traces_validated_against_impl'] = len(lines) + len(runmeta)


def replay(R, obj):
    print(obj.get('what'))
    return 0
