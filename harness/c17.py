"""C17 — fitting is deterministic, side-effect free and history independent.

History fuzzing: random operation sequences over {fit(data_i), set_params, set_threshold,
calibrate_threshold, transform, pair_distance, predict, score, get_metric, get_mahalanobis_matrix, clone,
pickle round trip} on each of the 17 estimators with datasets of differing sizes and dimensionalities.
After every step the observables predicted by the state-machine model are compared with the estimator:
model (= a fresh clone fitted on the last data with the parameters then in force), threshold_,
n_features_in_, query outputs unchanged by intervening queries, old get_metric handles and old Mahalanobis
matrices unaffected (also after mutating the returned matrix), every argument array and get_params()
byte-identical before and after each call."""
import copy
import pickle
import warnings
import numpy as np
from sklearn.base import clone
from common import quiet
import zoo


def snapshot(obj):
    """hashable byte-level snapshot of an argument (arrays, lists of arrays, scalars, None)"""
    if isinstance(obj, np.ndarray):
        return ('nd', obj.shape, str(obj.dtype), obj.tobytes())
    if isinstance(obj, (list, tuple)):
        return ('seq', tuple(snapshot(o) for o in obj))
    if isinstance(obj, dict):
        return ('dict', tuple(sorted((k, snapshot(v)) for k, v in obj.items())))
    return ('val', repr(obj))


def params_snapshot(est):
    return tuple(sorted((k, snapshot(v)) for k, v in est.get_params().items()))


def fitted_state(est):
    """the attributes a fit leaves behind (trailing underscore): arrays and scalars by value, other objects by identity"""
    out = []
    for k, v in sorted(vars(est).items()):
        if not k.endswith('_') or k.startswith('_'):
            continue
        if isinstance(v, np.ndarray):
            out.append((k, ('nd', v.shape, str(v.dtype), v.tobytes())))
        elif isinstance(v, (int, float, bool, str, type(None), np.generic)):
            out.append((k, ('val', repr(v))))
        else:
            out.append((k, ('obj', id(v))))
    return out


class Tracker:
    def __init__(self, R, name):
        self.R, self.name = R, name

    def call(self, est, method, args, kwargs=None, case=None):
        kwargs = kwargs or {}
        before_a = [snapshot(a) for a in args] + [snapshot(v) for v in kwargs.values()]
        before_p = params_snapshot(est)
        query = method not in ('fit', 'set_params', 'set_threshold', 'calibrate_threshold')
        before_s = fitted_state(est) if query else None
        with warnings.catch_warnings():
            warnings.simplefilter('ignore')
            out = getattr(est, method)(*args, **kwargs)
        if query:
            after_s = fitted_state(est)
            if before_s != after_s:
                changed = sorted(set(k for k, v in before_s) ^ set(k for k, v in after_s)) or sorted(k for (k, v), (k2, v2) in zip(before_s, after_s) if v != v2)
                self.R.violation(f'{self.name}.{method}/changes-fitted-state', f'{self.name}.{method} (a query method) changed the fitted state: {changed[:4]}', case)
        after_a = [snapshot(a) for a in args] + [snapshot(v) for v in kwargs.values()]
        if before_a != after_a:
            which = [i for i, (x, y) in enumerate(zip(before_a, after_a)) if x != y]
            names = list(range(len(args))) + list(kwargs)
            self.R.violation(f'{self.name}.{method}/argument-modified/{names[which[0]]}',
                             f'{self.name}.{method} modified its argument {names[which[0]]!r}', case)
        if method != 'set_params' and before_p != params_snapshot(est):
            self.R.violation(f'{self.name}.{method}/hyper-parameter-modified', f'{self.name}.{method} modified a hyper-parameter', case)
        return out


def make_dataset(rng, name, d):
    n_classes = int(rng.randint(2, 4))
    X, y = zoo.blobs(rng, d, n_classes, max(6, int(np.ceil(4 * d / n_classes)) + int(rng.randint(0, 3))))
    fa = zoo.fit_args(name, X, y, rng)
    return X, y, fa


def observables(est, probe_pts, probe_pairs, name):
    obs = {'M': est.get_mahalanobis_matrix(), 'transform': est.transform(probe_pts), 'pair_distance': est.pair_distance(probe_pairs),
           'n_features_in_': getattr(est, 'n_features_in_', None)}
    if name in zoo.PAIRS:
        obs['threshold_'] = est.threshold_
        obs['predict'] = np.asarray(est.predict(probe_pairs))
    return obs


def same_obs(a, b, exact):
    for k in a:
        x, y = a[k], b[k]
        if isinstance(x, np.ndarray):
            if x.shape != y.shape:
                return k
            if exact:
                if not np.array_equal(x, y):
                    return k
            elif x.size and np.abs(x - y).max() > 1e-9 * max(np.abs(x).max(), 1e-300):
                return k
        elif isinstance(x, float):
            if (x != y) if exact else (abs(x - y) > 1e-9 * max(abs(x), 1e-300)):
                return k
        elif x != y:
            return k
    return None


def run(R, tier, seed, driver_ok):
    quiet()
    rng = np.random.RandomState(seed + 1717)
    n_hist = 2 if tier == 'quick' else 5
    hist_len = 12 if tier == 'quick' else 30
    R.rule = ('17 estimators × random histories (length 12 quick / 30 thorough) over the operation alphabet, datasets of differing sizes and '
              'dimensionalities, integer seeds, array-valued hyper-parameters (init / prior / basis / bounds / weights / preprocessor). '
              'case = (estimator, history prefix); non-trivial = the prefix contains a fit; distinct by hash of the operation sequence')
    R.assumptions = ['the map seed → random draws (numpy) is trusted; pickle / clone are CPython / scikit-learn behaviour (observed)']
    for name in zoo.ALL:
        T = Tracker(R, name)
        for h in range(n_hist):
            sd = int(rng.randint(1 << 30))
            d0 = int(rng.randint(2, 5))
            params = zoo.default_params(name, rng, d0)
            if 'random_state' in params:
                params['random_state'] = sd
            arrays = {}
            # array-valued hyper-parameters
            if name in ('ITML', 'LSML', 'SDML', 'ITML_Supervised', 'LSML_Supervised', 'SDML_Supervised') and h % 2 == 1:
                B = rng.randn(d0, d0); params['prior'] = B.dot(B.T) + np.eye(d0)
            if name in ('MMC', 'MMC_Supervised') and h % 2 == 1:
                B = rng.randn(d0, d0); params['init'] = B.dot(B.T) + np.eye(d0)
            if name in ('LMNN', 'NCA', 'MLKR') and h % 2 == 1:
                params['init'] = rng.randn(d0, d0)
            if name == 'LFDA' and h % 2 == 1:
                params['k'] = d0 + 3                      # an explicit neighbour count above the dimensionality (clamped when used)
            if name.startswith('SCML') and h % 2 == 1:
                Bs = rng.randn(3 * d0, d0); params['basis'] = Bs / np.linalg.norm(Bs, axis=1, keepdims=True); params['n_basis'] = 3 * d0
            fixed_dim = any(isinstance(v, np.ndarray) for v in params.values())
            if name.startswith('SDML'):
                params['balance_param'] = 1e-7
            est = zoo.CLASSES[name](**params)
            hist = []
            fitted = None          # dict: data, params_at_fit, oracle observables, probes
            handles = []           # (metric_fun, u, v, expected)
            old_M = []             # (copy of a returned Mahalanobis matrix, expected)
            cal_shared = None
            steps = 0
            while steps < hist_len:
                steps += 1
                ops = ['fit']
                if fitted is not None:
                    ops += ['fit', 'transform', 'pair_distance', 'get_metric', 'get_mahalanobis_matrix', 'clone', 'pickle', 'set_params']
                    if name in zoo.TUPLE_SIZE:
                        ops += ['predict', 'score']
                    if name in zoo.PAIRS:
                        ops += ['set_threshold', 'calibrate_threshold']
                op = ops[int(rng.randint(len(ops)))]
                hist.append(op)
                case = {'est': name, 'history': list(hist), 'seed': sd}
                R.case(('c17', name, h, tuple(hist)), 'fit' in hist, sample={'est': name, 'history': list(hist)}, branch=op)
                try:
                    if op == 'fit':
                        d = d0 if (fixed_dim or 'n_basis' in params and False) else int(rng.choice([d0, d0, d0 + 1, max(2, d0 - 1)]))
                        if name.startswith('SCML') and not fixed_dim:
                            est.set_params(n_basis=3 * d + 2)
                        if name == 'RCA_Supervised':
                            est.set_params(n_chunks=d + 2, chunk_size=2)
                        X, y, fa = make_dataset(rng, name, d)
                        if name == 'RCA_Supervised':
                            est.set_params(**{k: v for k, v in zoo.fix_params(name, est.get_params(), X, y).items() if k in ('n_chunks', 'chunk_size')})
                        if name == 'LSML' and len(fa[0]) >= 6:
                            fa = (fa[0][:6],)       # (the same number of comparisons in every fit of a history: nothing sized by it may be carried over)
                        kw = {}
                        one_class = name == 'ITML' and rng.rand() < 0.3
                        if one_class:
                            # legal pair labels that happen to be all similar / all dissimilar: the threshold of this fit is
                            # still a function of this fit alone
                            fa = (fa[0], np.full(len(fa[1]), int(rng.choice([1, -1]))))
                        if name == 'ITML' and rng.rand() < 0.5:
                            kw['bounds'] = np.array([0.0, float(rng.uniform(2, 6))]) if rng.rand() < 0.5 else np.array([0.5, 3.0])
                        if name == 'LSML' and rng.rand() < 0.5:
                            kw['weights'] = rng.uniform(0.5, 2.0, size=len(fa[0]))
                        if name in zoo.PAIRS and not name.endswith('_Supervised') and rng.rand() < 0.6 and not one_class:
                            # ONE dict object per history, handed to every fit of that history (a caller re-using its settings)
                            if cal_shared is None:
                                strat = ['f_beta', 'max_tpr', 'max_tnr', 'accuracy'][int(rng.randint(4))]
                                cal_shared = {'strategy': strat}
                                if strat in ('max_tpr', 'max_tnr'):
                                    cal_shared['min_rate'] = float(rng.choice([0.3, 0.6, 0.9]))
                                if strat == 'f_beta':
                                    cal_shared['beta'] = float(rng.choice([0.5, 1.0, 2.0]))
                            kw['calibration_params'] = cal_shared
                        p_at_fit = copy.deepcopy(est.get_params())
                        kw_oracle = copy.deepcopy(kw)
                        fa_oracle = copy.deepcopy(fa)
                        T.call(est, 'fit', fa, kw, case)
                        with warnings.catch_warnings():
                            warnings.simplefilter('ignore')
                            fresh = zoo.CLASSES[name](**{k: v for k, v in p_at_fit.items() if not (isinstance(v, str) and v == 'deprecated')})
                            fresh.fit(*fa_oracle, **kw_oracle)
                        probe_pts = rng.randn(5, d); probe_pairs = rng.randn(5, 2, d)
                        probe_t = rng.randn(5, zoo.TUPLE_SIZE.get(name, 2), d)
                        fitted = {'fresh': fresh, 'd': d, 'pts': probe_pts, 'pairs': probe_pairs, 'tuples': probe_t, 'X': X, 'y': y,
                                  'oracle': observables(fresh, probe_pts, probe_pairs, name)}
                    elif op == 'set_params':
                        key = [k for k in ('max_iter', 'tol', 'verbose') if k in est.get_params()]
                        if key:
                            k0 = key[int(rng.randint(len(key)))]
                            v = int(est.get_params()['max_iter']) + 1 if k0 == 'max_iter' else (2e-3 if k0 == 'tol' else False)
                            T.call(est, 'set_params', (), {k0: v}, case)
                    elif op == 'transform':
                        T.call(est, 'transform', (fitted['pts'],), None, case)
                    elif op == 'pair_distance':
                        T.call(est, 'pair_distance', (fitted['pairs'],), None, case)
                    elif op == 'predict':
                        T.call(est, 'predict', (fitted['tuples'],), None, case)
                    elif op == 'score':
                        a = (fitted['tuples'], np.array([1, -1, 1, -1, 1])) if name in zoo.PAIRS else (fitted['tuples'],)
                        T.call(est, 'score', a, None, case)
                    elif op == 'get_metric':
                        f = T.call(est, 'get_metric', (), None, case)
                        u, v = fitted['pts'][0], fitted['pts'][1]
                        handles.append((f, u.copy(), v.copy(), float(f(u, v))))
                    elif op == 'get_mahalanobis_matrix':
                        Mr = T.call(est, 'get_mahalanobis_matrix', (), None, case)
                        expected = Mr.copy()
                        Mr[:] = 0                            # mutate the returned matrix
                        M2 = est.get_mahalanobis_matrix()
                        if not np.array_equal(M2, expected):
                            R.violation(f'{name}/returned-matrix-aliased', f'{name}: mutating the matrix returned by get_mahalanobis_matrix changed the estimator', case)
                    elif op == 'set_threshold':
                        t = float(rng.uniform(0.1, 3.0))
                        T.call(est, 'set_threshold', (t,), None, case)
                        fitted['fresh'].set_threshold(t)
                        fitted['oracle'] = observables(fitted['fresh'], fitted['pts'], fitted['pairs'], name)
                    elif op == 'calibrate_threshold':
                        yv = np.array([1, -1, 1, -1, 1])
                        strat = ['accuracy', 'f_beta', 'max_tpr', 'max_tnr'][int(rng.randint(4))]
                        kw = {'strategy': strat}
                        if strat in ('max_tpr', 'max_tnr'):
                            kw['min_rate'] = 0.5
                        T.call(est, 'calibrate_threshold', (fitted['pairs'], yv), kw, case)
                        with warnings.catch_warnings():
                            warnings.simplefilter('ignore')
                            fitted['fresh'].calibrate_threshold(fitted['pairs'], yv, **kw)
                        fitted['oracle'] = observables(fitted['fresh'], fitted['pts'], fitted['pairs'], name)
                    elif op == 'clone':
                        try:
                            c = clone(est)
                        except RuntimeError as e:
                            import inspect
                            sig = inspect.signature(zoo.CLASSES[name].__init__).parameters
                            aliases = [p for p in sig if isinstance(sig[p].default, str) and sig[p].default == 'deprecated']
                            m = [a for a in aliases if f'parameter {a}' in str(e)]
                            if m and 'pickle' in hist:
                                # clone's identity check fails on the 'deprecated' sentinel string once it went through pickle
                                R.violation(f'{name}.clone/after-pickle/deprecated-alias-identity',
                                            f'{name}: clone raises RuntimeError after a pickle round trip (alias {m[0]}): {str(e)[:120]}', case)
                                continue
                            raise
                        if params_snapshot(c) != params_snapshot(est):
                            R.violation(f'{name}/clone-params', f'{name}: clone has different parameters', case)
                        if hasattr(c, 'components_'):
                            R.violation(f'{name}/clone-fitted', f'{name}: clone of a fitted estimator is fitted', case)
                    elif op == 'pickle':
                        est = pickle.loads(pickle.dumps(est))
                except Exception as e:
                    if name.startswith('SDML') and isinstance(e, RuntimeError):
                        fitted = None; hist.append('(SDML solver failure)'); est = zoo.CLASSES[name](**params); continue
                    R.violation(f'{name}.{op}/raises-{type(e).__name__}', f'{name}: {op} raised {type(e).__name__}: {str(e)[:160]} after history {hist}', case)
                    break
                # ---- after every step: the state the model predicts
                if fitted is not None:
                    try:
                        with warnings.catch_warnings():
                            warnings.simplefilter('ignore')
                            obs = observables(est, fitted['pts'], fitted['pairs'], name)
                    except Exception as e:
                        R.violation(f'{name}/observe-raises-{type(e).__name__}', f'{name}: observing after {hist} raised {type(e).__name__}: {str(e)[:120]}', case)
                        break
                    exact = name not in ('LFDA',)            # LFDA: ARPACK start vector from numpy's global state (sign only)
                    bad = same_obs(fitted['oracle'], obs, exact=False)
                    if bad is not None:
                        R.violation(f'{name}/history-dependent/{bad}', f'{name}: after history {hist}, {bad} differs from a fresh clone fitted on the last data with the parameters in force', case)
                        break
                for (f, u, v, expected) in handles:
                    got = float(f(u, v))
                    if got != expected:
                        R.violation(f'{name}/get_metric-handle-changed', f'{name}: a function handed out by get_metric changed its value after {hist[-1]}', case)
                        handles = []
                        break
    # ---- histories with array preprocessors and index inputs: set_params(preprocessor=other array) between fits
    names = zoo.ALL if tier == 'thorough' else [zoo.ALL[i] for i in rng.choice(len(zoo.ALL), 8, replace=False)]
    for name in names:
        T = Tracker(R, name)
        sd = int(rng.randint(1 << 30))
        d1 = int(rng.randint(2, 4)); d2 = d1 + int(rng.choice([0, 1, 2]))
        params = zoo.default_params(name, rng, d1)
        if 'random_state' in params:
            params['random_state'] = sd
        if name.startswith('SDML'):
            params['balance_param'] = 1e-7
        hist = []
        try:
            datasets = []
            for dd in (d1, d2):
                X, y = zoo.blobs(rng, dd, int(rng.randint(2, 4)), 7)
                ia, fa = zoo.fit_args(name, X, y, rng, indices=True)
                datasets.append((X, y, ia, fa))
            est = zoo.CLASSES[name](preprocessor=datasets[0][0], **zoo.fix_params(name, params, datasets[0][0], datasets[0][1]))
            order = [0, 1, 0] if rng.rand() < 0.5 else [0, 1]
            for step, k in enumerate(order):
                X, y, ia, fa = datasets[k]
                if step > 0:
                    kw = {'preprocessor': X}
                    if name.startswith('SCML'):
                        kw['n_basis'] = 3 * X.shape[1] + 2
                    if name == 'RCA_Supervised':
                        kw.update({k_: v_ for k_, v_ in zoo.fix_params(name, est.get_params(), X, y).items() if k_ in ('n_chunks', 'chunk_size')})
                    T.call(est, 'set_params', (), kw, {'est': name, 'history': hist})
                    hist.append(f'set_params(preprocessor=X{k})')
                p_at_fit = copy.deepcopy(est.get_params())
                T.call(est, 'fit', copy.deepcopy(ia), None, {'est': name, 'history': hist})
                hist.append(f'fit(indices into X{k})')
                case = {'est': name, 'history': list(hist), 'seed': sd}
                R.case(('c17-pre', name, tuple(hist), X.tobytes().hex()[:24]), True, sample={'est': name, 'history': list(hist)}, branch='preprocessor-history')
                with warnings.catch_warnings():
                    warnings.simplefilter('ignore')
                    fresh = zoo.CLASSES[name](**{k_: v_ for k_, v_ in p_at_fit.items() if not (isinstance(v_, str) and v_ == 'deprecated')})
                    fresh.fit(*copy.deepcopy(ia))
                # query methods on indicator input, also after the preprocessor parameter was replaced without a refit: no query
                # changes the fitted state or what a later query answers
                iq = rng.randint(0, len(X), size=(5, 2))
                tq = rng.randint(0, len(X), size=(5, zoo.TUPLE_SIZE.get(name, 2)))
                qcase = {'est': name, 'history': list(hist) + ['queries on indicators']}
                try:
                    d_before = T.call(est, 'pair_distance', (iq,), None, qcase)
                    T.call(est, 'transform', (iq[:, 0],), None, qcase)
                    est.set_params(preprocessor=np.ascontiguousarray(X[::-1]) * 1.25 + 0.5)
                    d_mid = T.call(est, 'pair_distance', (iq,), None, qcase)
                    if name in zoo.TUPLE_SIZE:
                        T.call(est, 'predict', (tq,), None, qcase)
                        T.call(est, 'decision_function', (tq,), None, qcase)
                        T.call(est, 'score', (tq, np.array([1, -1, 1, -1, 1])) if name in zoo.PAIRS else (tq,), None, qcase)
                    T.call(est, 'pair_score', (iq,), None, qcase)
                    d_after = T.call(est, 'pair_distance', (iq,), None, qcase)
                    if not np.array_equal(d_mid, d_after):
                        R.violation(f'{name}/query-changes-later-answers', f'{name}: pair_distance on the same indicator pairs answers differently after intervening query methods (predict / score / …)', qcase)
                    est.set_params(preprocessor=X)
                except Exception as e:
                    R.violation(f'{name}/indicator-queries-raise-{type(e).__name__}', f'{name}: query methods on indicator input raised {type(e).__name__}: {str(e)[:120]}', qcase)
                probe_pts = rng.randn(4, X.shape[1]); probe_pairs = rng.randn(4, 2, X.shape[1])
                try:
                    bad = same_obs(observables(fresh, probe_pts, probe_pairs, name), observables(est, probe_pts, probe_pairs, name), exact=False)
                except Exception as e:
                    bad = f'observing raised {type(e).__name__}'
                if bad is not None:
                    R.violation(f'{name}/history-dependent/preprocessor/{bad}', f'{name}: after {hist}, {bad} differs from a fresh clone with the parameters in force fitted on the same indices', case)
                    break
        except Exception as e:
            if name.startswith('SDML') and isinstance(e, RuntimeError):
                continue
            R.violation(f'{name}/preprocessor-history-raises-{type(e).__name__}', f'{name}: {type(e).__name__}: {str(e)[:160]} after {hist}', {'est': name, 'history': hist})
    # ---- a wide, tall data set: the helpers that switch to randomised algorithms on large inputs (scikit-learn's PCA
    #      behind init='pca' / 'auto') must still be driven by the estimator's integer seed
    from metric_learn import NCA, MLKR
    nL, dL = 520, 60
    XL = rng.randn(nL, dL) * (1 + rng.rand(dL)); yL = rng.randint(0, 2, size=nL)
    for cls, yy_ in ((NCA, yL), (MLKR, yL.astype(float) + 0.1 * rng.randn(nL))):
        for init in ('pca', 'auto'):
            sd = int(rng.randint(1 << 30))
            case = {'est': cls.__name__, 'init': init, 'n_components': 3, 'shape': [nL, dL], 'seed': sd}
            R.case(('c17-large', cls.__name__, init), True, sample=case, branch='large-data-determinism')
            with warnings.catch_warnings():
                warnings.simplefilter('ignore')
                e1 = cls(n_components=3, init=init, max_iter=1, random_state=sd).fit(XL, yy_)
                np.random.seed(int(rng.randint(1 << 30)))          # whatever the global generator holds must not matter
                e2 = clone(e1).fit(XL, yy_)
            a, b = e1.components_, e2.components_
            if a.shape != b.shape or np.abs(a - b).max() > 1e-9 * max(np.abs(a).max(), 1e-300):
                R.violation(f'{cls.__name__}/large-data/not-deterministic', f'{cls.__name__}(init={init!r}, n_components=3, random_state={sd}) on a {nL}×{dL} data set: a clone fitted on the same data differs (relative {np.abs(a - b).max() / max(np.abs(a).max(), 1e-300):.3g})', case)
    # ---- an optional fit argument given in one fit and omitted in the next (weights of LSML, bounds of ITML, calibration
    #      settings of the pairs learners): the second fit is the fit a fresh clone would do with the argument omitted
    from metric_learn import LSML, ITML, MMC
    for rep in range(3 if tier == 'quick' else 12):
        d_ = int(rng.randint(2, 5)); Xo = rng.randn(30, d_) * (1 + rng.rand(d_))
        q1 = rng.choice(30, size=(7, 4)); q2 = rng.choice(30, size=(7, 4))
        q1 = q1[(q1[:, 0] != q1[:, 1]) & (q1[:, 2] != q1[:, 3])]; q2 = q2[(q2[:, 0] != q2[:, 1]) & (q2[:, 2] != q2[:, 3])]
        m_ = min(len(q1), len(q2)); q1, q2 = q1[:m_], q2[:m_]
        p1 = rng.choice(30, size=(10, 2)); p1 = p1[p1[:, 0] != p1[:, 1]]; yp1 = np.where(np.arange(len(p1)) % 2, 1, -1)
        p2 = rng.choice(30, size=(10, 2)); p2 = p2[p2[:, 0] != p2[:, 1]]; yp2 = np.where(np.arange(len(p2)) % 2, 1, -1)
        plans = [('LSML', lambda: LSML(max_iter=30), (Xo[q1],), dict(weights=rng.uniform(0.2, 5.0, size=m_)), (Xo[q2 if rep % 2 else q1],)),
                 ('ITML', lambda: ITML(max_iter=30), (Xo[p1], yp1), dict(bounds=np.array([0.3, 4.0])), (Xo[p2 if rep % 2 else p1], yp2 if rep % 2 else yp1)),
                 ('MMC', lambda: MMC(max_iter=5), (Xo[p1], yp1), dict(calibration_params={'strategy': 'max_tpr', 'min_rate': 0.6}), (Xo[p2 if rep % 2 else p1], yp2 if rep % 2 else yp1))]
        for nm_, mk, a1, kw1, a2 in plans:
            case = {'est': nm_, 'history': [f'fit(…, {", ".join(kw1)}=…)', 'fit(…) without it'], 'X': Xo}
            R.case(('c17-optional-arg', nm_, rep, Xo.tobytes().hex()[:32]), True, sample={'est': nm_, 'optional': list(kw1)}, branch='optional-fit-argument-omitted')
            try:
                with warnings.catch_warnings():
                    warnings.simplefilter('ignore')
                    e1 = mk(); e1.fit(*a1, **kw1); e1.fit(*a2)
                    e2 = mk(); e2.fit(*a2)
            except Exception as e:
                R.count(f'optional-fit-argument: {nm_} raised {type(e).__name__}'); continue
            Ma, Mb = e1.get_mahalanobis_matrix(), e2.get_mahalanobis_matrix()
            bad = np.abs(Ma - Mb).max() > 1e-9 * max(np.abs(Mb).max(), 1e-300)
            if nm_ != 'LSML' and not bad:
                bad = e1.threshold_ != e2.threshold_
            if bad:
                R.violation(f'{nm_}/refit-differs-from-fresh/optional-argument-omitted', f'{nm_}: a fit given {list(kw1)} followed by a fit without it differs from a fresh estimator fitted without it (max diff {np.abs(Ma - Mb).max():.3g})', case)
    R.extra['traces_validated_against_impl'] = R.evaluations


def replay(R, obj):
    print(obj.get('what'))
    return 0
