"""C14 — MMC returns a PSD matrix that satisfies its similarity budget.

Oracle on real fits: M PSD and equal to the stored A_; Σ_S d²_M ≤ 1.01·t with t = (Σ_S d²_{A0})/100 for the
initial matrix given by `init`; diagonal variant: diagonal, non-negative, never NaN (ValueError allowed).
Correspondence: Float twins of the budget, the 1 % test, the half-space and PSD projections, the dissimilarity
objective and its gradient, the gradient projection and the diagonal objective against the real helper methods."""
import contextlib
import io
import re
import warnings
import numpy as np
from common import bits, lean_run, parse_ok_floats, quiet, f2b
import zoo
import metric_learn.mmc as mm
from metric_learn import MMC, MMC_Supervised


def first_cycle(A0, S, t, max_proj):
    """does the alternating projection of cycle 0 (mmc.py:104-128) reach the 1 % test within max_proj steps?"""
    d = A0.shape[0]
    A = np.array(A0, dtype=float, copy=True)
    w = np.einsum('ij,ik->jk', S, S).ravel()
    w1 = w / np.linalg.norm(w); t1 = t / np.linalg.norm(w)
    for _ in range(max_proj):
        x0 = A.ravel()
        if not w.dot(x0) <= t:
            A[:] = (x0 + (t1 - w1.dot(x0)) * w1).reshape(d, d)
        l, V = np.linalg.eigh((A + A.T) / 2)
        A[:] = np.dot(V * np.maximum(0, l[None, :]), V.T)
        if (w.dot(A.ravel()) - t) / t < 1e-2:
            return True
    return False


def run(R, tier, seed, driver_ok):
    quiet()
    rng = np.random.RandomState(seed + 1414)
    reps = 24 if tier == 'quick' else 200
    R.rule = ('labelled pair sets (both labels, d ≥ 2) × init ∈ {identity, covariance, random, array} × max_iter × tol × diagonal ∈ {False, True} × '
              'diagonal_c; MMC and MMC_Supervised. case = (pairs, options); all non-trivial')
    R.assumptions = ['the eigen-decomposition inside the PSD projection is external (its output is what the twin projects)',
                     'max_proj: default (10000) in the first stream; small in the second stream, where the first cycle is re-simulated and instances whose first projection does not converge are outside the quantifier']
    lines, meta = [], []
    runlines, runmeta = [], []
    extra = 24 if tier == 'quick' else 150
    for rep in range(reps + extra):
        # second stream: a small max_proj with an initial matrix whose FIRST projection is cheap (a multiple of the
        # similar-pair scatter, or the identity on lattice data) while later ones may run out of projection steps
        special = rep >= reps
        d = int(rng.randint(2, 6)) if not special else int(rng.randint(2, 4))
        X, y = zoo.blobs(rng, d)
        if special and rep % 2 == 1:
            X = np.round(X)                                  # lattice data
        idx, yy = zoo.pairs_from(X, y, rng, n=int(rng.randint(5, 25)) if not special else int(rng.randint(3 * d + 4, 30)))
        pairs = X[idx]
        init_kind = ['identity', 'covariance', 'random', 'array'][rep % 4]
        B = rng.randn(d, d)
        init = B.dot(B.T) + 0.3 * np.eye(d) if init_kind == 'array' else init_kind
        if init_kind == 'array' and rep % 8 >= 4:
            init = np.asfortranarray(init)                 # the same matrix, column-major
        max_proj = 10000
        if special:
            max_proj = int(rng.choice([1, 2, 3, 4, 6]))
            if rep % 2 == 1:
                # isotropic similar-pair scatter: the same number of unit steps along every axis
                k = int(rng.randint(2, 5))
                base = np.round(rng.randn(k * d, d) * 3)
                steps = np.tile(np.eye(d), (k, 1)) * rng.choice([-1.0, 1.0], size=(k * d, 1))
                posp = np.stack([base, base + steps], axis=1)
                nn = int(rng.randint(d + 2, 12))
                negp = np.stack([np.round(rng.randn(nn, d) * 3), np.round(rng.randn(nn, d) * 3) + rng.choice([-4.0, 4.0], size=(nn, d))], axis=1)
                pairs = np.concatenate([posp, negp]); yy = np.array([1] * len(posp) + [-1] * len(negp))
                perm = rng.permutation(len(yy)); pairs, yy = np.ascontiguousarray(pairs[perm]), yy[perm]
            if rep % 2 == 0:
                Sp = pairs[yy == 1][:, 0] - pairs[yy == 1][:, 1]
                Wm = Sp.T.dot(Sp)
                if np.linalg.eigvalsh(Wm).min() > 1e-6 * np.abs(Wm).max():
                    init_kind, init = 'scatter', Wm * float(rng.uniform(0.5, 2.0))
                    if rng.rand() < 0.5:
                        init = np.asfortranarray(init)
            else:
                init_kind, init = 'identity', 'identity'
        diagonal = rep % 3 == 2 and not special
        max_iter = int(rng.choice([1, 3, 10, 40])) if not special else int(rng.choice([10, 40, 100]))
        tol = float(rng.choice([1e-3, 1e-6]))
        dc = float(rng.choice([0.5, 1.0, 5.0]))
        sd = int(rng.randint(1 << 30))
        supervised = rep % 8 == 5 and not special
        case = {'init': init_kind, 'max_proj': max_proj, 'diagonal': diagonal, 'max_iter': max_iter, 'tol': tol, 'diagonal_c': dc, 'pairs': pairs, 'y': yy, 'supervised': supervised}
        store = {}
        orig = mm._initialize_metric_mahalanobis

        def spy(*a, **k):
            out = orig(*a, **k)
            store['A0'] = np.array(out, copy=True)
            return out
        mm._initialize_metric_mahalanobis = spy
        # per-cycle observables of the full-matrix loop: the two objective evaluations (at A_old, then at the projected A)
        # and whether the accept branch ran (it is the only caller of _fS1 inside the loop)
        fd_calls, fs1_marks = [], []
        o_fd, o_fs1 = mm._BaseMMC._fD, mm._BaseMMC._fS1

        def spy_fd(self_, neg_, A_):
            v = o_fd(self_, neg_, A_)
            fd_calls.append((np.array(A_, copy=True), float(v)))
            return v

        def spy_fs1(self_, pos_, A_):
            fs1_marks.append(len(fd_calls))
            return o_fs1(self_, pos_, A_)
        mm._BaseMMC._fD = spy_fd; mm._BaseMMC._fS1 = spy_fs1
        # the eigen-decompositions the projection loops ask for, grouped by cycle (two _fD calls close a cycle)
        eigh_rec = []
        o_eigh = np.linalg.eigh

        def spy_eigh(a_, *aa, **kk_):
            out = o_eigh(a_, *aa, **kk_)
            if np.ndim(a_) == 2 and not aa and not kk_:
                eigh_rec.append((len(fd_calls) // 2, np.array(out[0], copy=True), np.array(out[1], copy=True)))
            return out
        np.linalg.eigh = spy_eigh
        outcome = 'ok'
        buf = io.StringIO()
        try:
            with warnings.catch_warnings(), contextlib.redirect_stdout(buf):
                warnings.simplefilter('ignore')
                if supervised:
                    est = MMC_Supervised(init=init, max_proj=max_proj, diagonal=diagonal, max_iter=max_iter, tol=tol, diagonal_c=dc, n_constraints=15, random_state=sd, verbose=True)
                    est.fit(X, y)
                    from metric_learn import Constraints
                    from metric_learn.constraints import wrap_pairs
                    pairs, yy = wrap_pairs(X, Constraints(y).positive_negative_pairs(15, random_state=sd))
                else:
                    est = MMC(init=init, max_proj=max_proj, diagonal=diagonal, max_iter=max_iter, tol=tol, diagonal_c=dc, random_state=sd, verbose=True)
                    est.fit(pairs, yy)
        except ValueError as e:
            # (the documented failure clause is the plain ValueError about a NaN objective; subclasses such as NonPSDError /
            #  LinAlgError are other failures)
            outcome = 'ValueError' if type(e) is ValueError and 'NaN' in str(e) else type(e).__name__
        except Exception as e:
            outcome = type(e).__name__
        finally:
            mm._initialize_metric_mahalanobis = orig
            np.linalg.eigh = o_eigh
            mm._BaseMMC._fD = o_fd; mm._BaseMMC._fS1 = o_fs1
        R.case(('c14', pairs.tobytes().hex()[:64], init_kind, diagonal, max_iter, tol, dc, supervised, max_proj), True,
               sample={'d': d, 'n_pairs': len(yy), 'init': init_kind, 'diagonal': diagonal, 'max_iter': max_iter, 'max_proj': max_proj, 'outcome': outcome},
               branch=f'{"diag" if diagonal else "full"}:{init_kind}' + (':small-max_proj' if special else ''))
        if outcome != 'ok':
            if not (diagonal and outcome == 'ValueError'):
                R.violation(f'MMC/fit-raises-{outcome}', f'MMC.fit (diagonal={diagonal}) raised {outcome}', case)
            continue
        A0 = store['A0']
        M = est.get_mahalanobis_matrix()
        pos, neg = pairs[yy == 1], pairs[yy == -1]
        S = pos[:, 0] - pos[:, 1]; Dn = neg[:, 0] - neg[:, 1]
        if not np.all(np.isfinite(M)):
            R.violation('MMC/nonfinite', f'MMC (diagonal={diagonal}) returned a non-finite matrix', case); continue
        nm = max(np.abs(M).max(), 1e-300)
        if diagonal:
            off = M - np.diag(np.diag(M))
            if np.abs(off).max() != 0 or np.diag(M).min() < 0:
                R.violation('MMC/diag-not-diagonal-nonneg', 'diagonal=True: learned matrix is not diagonal with non-negative entries', case)
            lines.append(f'mmc_dobj {d} {len(Dn)} {bits(Dn)} {bits(np.diag(M))}')
            meta.append(('scalar', est._D_objective(neg, np.diag(M).copy()), 1e-12, 'mmc_dobj', case))
            continue
        if np.abs(M - M.T).max() > 1e-10 * nm or np.linalg.eigvalsh((M + M.T) / 2).min() < -1e-10 * nm:
            R.violation('MMC/not-psd', 'learned matrix is not symmetric PSD', case)
        if np.abs(M - est.A_).max() > 1e-8 * nm:
            R.violation('MMC/components-vs-A_', 'components_ does not reproduce the stored A_', case)
        # the whole loop replayed by the model (mmcCycle with the model's projections, objective, gradients) with the recorded
        # decompositions as oracle; a second line from an initial matrix perturbed in the last bit probes rounding sensitivity
        ncyc = len(fd_calls) // 2
        groups = [[(l_, V_) for c_, l_, V_ in eigh_rec if c_ == c] for c in range(ncyc)]
        if ncyc and all(len(g) for g in groups) and sum(len(g) for g in groups) <= 4000:
            flat = ' '.join(f'{len(g)} ' + ' '.join(bits(np.concatenate([l_, V_.ravel()])) for l_, V_ in g) for g in groups)
            for A0_ in (A0, A0 * (1 + 2.2e-16 * rng.randn(*A0.shape))):
                A0s = (A0_ + A0_.T) / 2 if A0_ is not A0 else A0
                runlines.append(f'mmc_run {d} {len(S)} {len(Dn)} {bits(A0s)} {bits(S)} {bits(Dn)} {f2b(tol)} {max_iter} {max_proj} {ncyc} {flat}')
            runmeta.append((np.array(est.A_, copy=True), int(est.n_iter_), dict(case)))
        t = np.einsum('ij,jk,ik->', S, A0, S) / 100.0
        ssum = np.einsum('ij,jk,ik->', S, M, S)
        # the property's quantifier: max_proj large enough for the projections of the first cycle to converge
        m0 = re.search(r'mmc iter: 0, conv = \S+, projections = (\d+)', buf.getvalue())
        first_cycle_converged = (m0 is None) or int(m0.group(1)) < est.max_proj
        if first_cycle_converged and m0 is None and not special:
            # no iteration line was printed (the loop left at cycle 0): decide by re-running the projection of cycle 0
            first_cycle_converged = first_cycle(A0, S, t, max_proj)
        if special:
            first_cycle_converged = first_cycle(A0, S, t, max_proj)
            R.count('small-max_proj:first-cycle-converged' if first_cycle_converged else 'small-max_proj:first-cycle-not-converged')
            later = [int(k) for k in re.findall(r'mmc iter: [1-9]\d*, conv = \S+, projections = (\d+)', buf.getvalue())]
            if first_cycle_converged and any(k >= max_proj for k in later):
                R.count('small-max_proj:later-cycle-ran-out-of-projections')
        if not first_cycle_converged:
            R.count('projection-not-converged-in-max_proj (outside the quantifier)')
        elif ssum > 1.01 * t * (1 + 1e-9) + 1e-300:
            R.violation('MMC/budget-exceeded', f'Σ_S d²_M = {ssum:.6g} exceeds 1.01·t = {1.01 * t:.6g} (init {init_kind})', case)
        # --- the accept/shrink loop: the model's mmcCycles run on the observed (satisfy, obj(A_old), obj(A)) of every
        #     cycle must name, after each cycle, the very iterate the implementation keeps as A_old
        ncyc = len(fd_calls) // 2
        if ncyc >= 1 and len(fd_calls) == 2 * ncyc:
            wv = np.einsum('ij,ik->jk', S, S).ravel()
            rows, proj_iter, olds_impl = [], [], []
            for c in range(ncyc):
                (Aold_c, objprev_c), (A_c, obj_c) = fd_calls[2 * c], fd_calls[2 * c + 1]
                sat_c = bool((wv.dot(A_c.ravel()) - t) / t < 0.01)
                rows += [1.0 if sat_c else 0.0, objprev_c, obj_c]
                proj_iter.append(A_c)
            # which iterate is A_old after cycle c: the A_old handed to _fD in cycle c+1, the returned A_ after the last
            for c in range(ncyc):
                nxt = fd_calls[2 * (c + 1)][0] if c + 1 < ncyc else np.asarray(est.A_)
                ident = [2 * j + 1 for j in range(c + 1) if np.array_equal(proj_iter[j], nxt)]
                olds_impl.append(ident[-1] if ident else (0 if np.array_equal(nxt, A0) else -1))
            lines.append(f'mmc_loop {ncyc} ' + ' '.join(str(f2b(v)) for v in rows))
            meta.append(('loop', olds_impl, 0, 'mmc_loop', dict(case, cycles=ncyc)))
        # --- twins of the helper functions on this instance
        lines.append(f'mmc_budget {d} {len(S)} {bits(S)} {bits(A0)} {bits(M)}')
        meta.append(('vec', np.array([t, ssum, 1.0 if (ssum - t) / t < 0.01 else 0.0]), 1e-10 * max(abs(t), abs(ssum)), 'mmc_budget', case))
        Ar = rng.randn(d, d); Ar = Ar.dot(Ar.T) + 0.1 * np.eye(d)
        g = est._fD1(neg, Ar)
        lines.append(f'mmc_fd {d} {len(Dn)} {bits(Dn)} {bits(Ar)}')
        meta.append(('vec', np.concatenate([[est._fD(neg, Ar)], g.ravel()]), 1e-10 * max(np.abs(g).max(), 1.0), 'mmc_fd', case))
        g1 = est._fS1(pos, Ar)
        lines.append(f'mmc_gradproj {d} {bits(g1)} {bits(g)}')
        meta.append(('vec', est._grad_projection(g1, g).ravel(), 1e-9, 'mmc_gradproj', case))
        w = np.einsum('ij,ik->jk', S, S)
        Aout = Ar * (3 * t / max(np.sum(w * Ar), 1e-300))          # outside the half-space
        x0 = Aout.ravel(); wv = w.ravel(); wn = np.linalg.norm(wv)
        proj = (x0 + (t / wn - (wv / wn).dot(x0)) * (wv / wn)).reshape(d, d)
        lines.append(f'mmc_halfspace {d} {bits(w)} {bits(Aout)} {f2b(t)}')
        meta.append(('vec', proj.ravel(), 1e-10 * np.abs(Aout).max(), 'mmc_halfspace', case))
        l, V = np.linalg.eigh((proj + proj.T) / 2)
        psd = np.dot(V * np.maximum(0, l[None, :]), V.T)
        lines.append(f'mmc_psdproj {d} {bits(V)} {bits(l)}')
        meta.append(('vec', psd.ravel(), 1e-10 * max(np.abs(psd).max(), 1e-300), 'mmc_psdproj', case))
    # ---- a zero similarity budget: a singular PSD initial matrix (legal for MMC) whose null space holds every similar-pair
    #      difference makes the budget 0; the result must still keep the similar pairs at distance 0
    for rep in range(2 if tier == 'quick' else 8):
        d = int(rng.randint(3, 5))
        # (axis-aligned and dyadic, so that the budget is EXACTLY 0: with a rotated null direction it is ±1e-17 and rounding
        #  decides whether the constraint is vacuous)
        Qz = np.eye(d)[:, rng.permutation(d)]
        u = Qz[:, -1]
        A0z = (Qz[:, :-1] * rng.choice([0.5, 1.0, 2.0], size=d - 1)).dot(Qz[:, :-1].T)
        npz = int(rng.randint(2, 6)); nnz = int(rng.randint(3, 8))
        bz = rng.randn(npz, d) * 2
        posz = np.stack([bz, bz + rng.choice([0.5, 1.0, 1.5, 2.0], size=(npz, 1)) * u], axis=1)
        negz = np.stack([rng.randn(nnz, d) * 2, rng.randn(nnz, d) * 2 + 3.0], axis=1)
        pz = np.concatenate([posz, negz]); yz = np.array([1] * npz + [-1] * nnz)
        casez = {'init': 'singular PSD array, similar differences in its null space (budget 0)', 'pairs': pz, 'y': yz, 'max_proj': 3, 'max_iter': 3}
        R.case(('c14-zero-budget', pz.tobytes().hex()[:48]), True, branch='zero-budget-init')
        try:
            with warnings.catch_warnings():
                warnings.simplefilter('ignore')
                ez = MMC(init=A0z, max_proj=3, max_iter=3).fit(pz, yz)
            Mz = ez.get_mahalanobis_matrix()
            Sz = posz[:, 0] - posz[:, 1]
            ssz = float(np.einsum('ij,jk,ik->', Sz, Mz, Sz))
            if not np.all(np.isfinite(Mz)) or np.linalg.eigvalsh((Mz + Mz.T) / 2).min() < -1e-9 * max(np.abs(Mz).max(), 1e-300):
                R.violation('MMC/not-psd', 'zero-budget instance: the learned matrix is not finite PSD', casez)
            elif ssz > 1e-9 * max(np.abs(Mz).max(), 1e-300) * float((Sz ** 2).sum()):
                R.violation('MMC/budget-exceeded', f'zero-budget instance: the sum of squared learned distances over the similar pairs is {ssz:.6g}, the budget is 0', casez)
        except Exception as e:
            if not isinstance(e, ValueError):
                R.violation(f'MMC/fit-raises-{type(e).__name__}/zero-budget-init', f'MMC.fit raised {type(e).__name__}: {str(e)[:120]}', casez)
            else:
                R.count('zero-budget-init: ValueError')
    # ---- a zero iteration budget: the iterations start from the initial matrix, so with none of them it is returned
    for rep in range(2 if tier == 'quick' else 8):
        d = int(rng.randint(2, 5))
        X, y = zoo.blobs(rng, d)
        idx, yy = zoo.pairs_from(X, y, rng, n=8, repeats=False)
        B = rng.randn(d, d); A0 = B.dot(B.T) + np.eye(d)
        init = ['identity', A0][rep % 2]
        R.case(('c14-zero', X.tobytes().hex()[:48], rep % 2), True, branch='zero-budget')
        try:
            with warnings.catch_warnings():
                warnings.simplefilter('ignore')
                e0 = MMC(max_iter=0, init=init).fit(X[idx], yy)
            want = np.eye(d) if rep % 2 == 0 else A0
            if np.abs(e0.get_mahalanobis_matrix() - want).max() > 1e-9 * np.abs(want).max():
                R.violation('MMC/zero-budget', 'MMC(max_iter=0) does not return the initial matrix', {'pairs': X[idx], 'y': yy})
        except Exception as e:
            R.violation(f'MMC/fit-raises-{type(e).__name__}/zero-budget', f'MMC(max_iter=0).fit raised {type(e).__name__}: {str(e)[:160]}', {'pairs': X[idx], 'y': yy})
    if driver_ok and runlines:
        outs = lean_run(runlines)
        worst = 0.0
        for i_, (Af, nit, case) in enumerate(runmeta):
            tk, tkp = outs[2 * i_].split(), outs[2 * i_ + 1].split()
            if tk[:1] != ['ok'] or len(tk) != 3 + Af.size:
                R.broken('driver:mmc_run', f'model driver answered {outs[2 * i_][:80]}', case); continue
            Am = parse_ok_floats('ok ' + ' '.join(tk[3:])).reshape(Af.shape)
            scale = max(np.abs(Af).max(), 1e-300)
            if tkp[:1] == ['ok'] and len(tkp) == len(tk) and tkp[1] == tk[1] and tkp[2] == '0':
                sens = float(np.abs(parse_ok_floats('ok ' + ' '.join(tkp[3:])).reshape(Af.shape) - Am).max()) / scale
            else:
                sens = 1.0
            if tk[2] != '0' and sens >= 1.0:
                R.count('mmc_run:skipped-rounding-sensitive'); continue
            if 1e3 * sens > 1e-4:
                R.count('mmc_run:skipped-rounding-sensitive'); continue
            rel = float(np.abs(Am - Af).max()) / scale
            worst = max(worst, rel)
            if tk[2] != '0' or rel > 1e-8 + 1e3 * sens or int(tk[1]) != nit:
                R.broken('correspondence:C14:mmc_run', f"the model of the projected-gradient loop ends after {tk[1]} cycles (implementation n_iter_={nit}) at a stored matrix that differs from A_ by {rel:.3g} (relative); projection-count / decomposition-contract flag {tk[2]}; rounding sensitivity {sens:.3g}", case)
        R.count('mmc_run_traces', len(runmeta))
        R.extra['mmc_run_worst_relative_difference'] = worst
    if driver_ok and lines:
        outs = lean_run(lines)
        for o, (kind, impl, tol, what, case) in zip(outs, meta):
            if kind == 'loop':
                got = o.split()[1:] if o.startswith('ok') else None
                if got is None or [int(x) for x in got] != list(impl):
                    R.broken('correspondence:C14:mmc_loop', f'the model loop keeps iterates {got} as A_old after the cycles, the implementation {impl} (2c+1 = projection of cycle c, 0 = initial matrix)', case)
                continue
            v = parse_ok_floats(o)
            want = np.atleast_1d(np.asarray(impl, dtype=float))
            if v is None or v.size != want.size or not np.abs(v - want).max() <= tol + 1e-300:
                R.broken(f'correspondence:C14:{what}', f'model twin differs from the implementation ({what}): {None if v is None else np.abs(v - want).max():.3g} > {tol:.3g}' if v is not None and v.size == want.size else f'model answered {o[:60]}', case)
        R.extra['traces_validated_against_impl'] = len(lines)


def replay(R, obj):
    print(obj.get('what'))
    return 0
