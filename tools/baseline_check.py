#!/usr/bin/env python3
"""Run the repository's pinned test suite (guard OFF) and compare with /root/.vp/BASELINE.json.

usage: baseline_check.py [--xml existing.junit.xml] [--repo <checkout>] [--fast]
exit 0 iff every test in BASELINE.stable_pass passes."""
import json, os, subprocess, sys, tempfile
import xml.etree.ElementTree as ET

def main():
    base = json.load(open('/root/.vp/BASELINE.json'))
    xml = None
    if '--xml' in sys.argv:
        xml = sys.argv[sys.argv.index('--xml') + 1]
    else:
        fd, xml = tempfile.mkstemp(suffix='.junit.xml', dir=os.environ.get('TMPDIR', '/tmp'))
        os.close(fd)
        env = dict(os.environ)
        env.pop('METRIC_LEARN_VERIF', None)
        cmd = base['cmd'].replace('<file>', xml)
        if '--fast' in sys.argv:      # development only: pytest-xdist (the registered baseline command stays as pinned)
            cmd = cmd.replace('-m pytest', '-m pytest -n 4')
        if '--repo' in sys.argv:
            cmd = cmd.replace('cd /repo', 'cd ' + sys.argv[sys.argv.index('--repo') + 1])
        subprocess.run(cmd, shell=True, env=env, stdout=subprocess.DEVNULL, stderr=subprocess.DEVNULL)
    passed = set()
    for tc in ET.parse(xml).getroot().iter('testcase'):
        bad = any(c.tag in ('failure', 'error', 'skipped') for c in tc)
        if not bad:
            passed.add(f"{tc.get('classname')}::{tc.get('name')}")
    missing = [t for t in base['stable_pass'] if t not in passed]
    print(f"baseline stable_pass={len(base['stable_pass'])} passed_now={len(passed)} missing={len(missing)}")
    for t in missing[:20]:
        print("  MISSING", t)
    if '--xml' not in sys.argv:
        os.unlink(xml)
    sys.exit(1 if missing else 0)

main()
