#!/usr/bin/env python3
"""Regression of the checks against the confirmed seeded changes: for every /verif/seeded/<id> apply patch.diff to
/repo, run the recorded detecting checks (quick tier, seeds 0..2), restore /repo, and report whether each change is
still caught.  usage: seeded_regression.py [ids...]   (exit 0 iff every change is caught on at least one seed by every
check recorded as detecting it)"""
import json, os, subprocess, sys
V = os.path.dirname(os.path.dirname(os.path.abspath(__file__)))
ids = sys.argv[1:] or sorted(os.listdir(os.path.join(V, 'seeded')))
bad = 0
for i in ids:
    d = os.path.join(V, 'seeded', i)
    meta = json.load(open(os.path.join(d, 'meta.json')))
    if meta.get('retired'):
        print(f"{i}: retired — {meta['retired'][:120]}"); continue
    checks = meta.get('confirmed', {}).get('detected_by') or [meta['property']]
    r = subprocess.run([sys.executable, os.path.join(V, 'tools', 'eval_mutant.py'), d, '--seeds', '0,1,2', '--skip-baseline', '--no-demo',
                        '--checks', ','.join(checks)], stdout=subprocess.PIPE, stderr=subprocess.STDOUT)
    t = r.stdout.decode()
    try:
        o = json.loads(t[t.index('{'):])
    except Exception:
        print(f'{i}: evaluation failed: {t[-400:]}'); bad += 1; continue
    if 'checks' not in o:
        print(f"{i}: patch does not apply to the tree under test: {o.get('apply_output', '')[:200]}"); bad += 1; continue
    per = {c: [o['checks'][f'{c}@{s}']['rc'] for s in (0, 1, 2)] for c in checks}
    ok = o.get('patch_applies') and all(1 in v for v in per.values())
    print(f"{i}: {'caught' if ok else 'MISSED'}  applies={o.get('patch_applies')}  exit codes per seed: {per}")
    bad += 0 if ok else 1
sys.exit(1 if bad else 0)
