#!/usr/bin/env python3
"""Re-base stored seeded changes whose patch.diff no longer applies to /repo HEAD (after a `fix:` commit touched the
same lines): three-way apply in a scratch worktree of HEAD; on success patch.diff is rewritten (the old one is kept in
meta.json's history), on conflict the id is reported and left alone.  usage: rebase_seeded.py [ids...]"""
import json, os, subprocess, sys, tempfile
V = os.path.dirname(os.path.dirname(os.path.abspath(__file__)))


def sh(cmd, cwd=None):
    r = subprocess.run(cmd, cwd=cwd, stdout=subprocess.PIPE, stderr=subprocess.STDOUT)
    return r.returncode, r.stdout.decode(errors='replace')


ids = sys.argv[1:] or sorted(os.listdir(os.path.join(V, 'seeded')))
head = sh(['git', '-C', '/repo', 'rev-parse', '--short', 'HEAD'])[1].strip()
for i in ids:
    patch = os.path.join(V, 'seeded', i, 'patch.diff')
    import json as _json
    if _json.load(open(os.path.join(V, 'seeded', i, 'meta.json'))).get('retired'):
        continue                      # (kept as stored, see meta.json)
    if sh(['git', '-C', '/repo', 'apply', '--check', patch])[0] == 0:
        continue
    wt = tempfile.mkdtemp(prefix='rebase_', dir='/tmp'); os.rmdir(wt)
    sh(['git', '-C', '/repo', 'worktree', 'add', '-q', wt, 'HEAD'])
    try:
        rc, out = sh(['git', 'apply', '--3way', patch], cwd=wt)
        conflicted = sh(['git', 'diff', '--name-only', '--diff-filter=U'], cwd=wt)[1].strip()
        if rc != 0 or conflicted:
            print(f'{i}: CONFLICT ({conflicted or out.strip()[:200]})'); continue
        rc, new = sh(['git', 'diff', 'HEAD', '--', 'metric_learn'], cwd=wt)
        rc2, _ = sh(['/venv/bin/python', '-c', 'import metric_learn'], cwd=wt)
        if not new.strip() or rc2 != 0:
            print(f'{i}: re-based patch empty or does not import'); continue
        open(patch, 'w').write(new)
        mp = os.path.join(V, 'seeded', i, 'meta.json')
        meta = json.load(open(mp))
        meta.setdefault('rebased_onto', []).append(head)
        json.dump(meta, open(mp, 'w'), indent=1)
        print(f'{i}: re-based onto {head}')
    finally:
        sh(['git', '-C', '/repo', 'worktree', 'remove', '--force', wt])
