#!/usr/bin/env python3
"""Regenerate /verif/MANIFEST.json from the table below (kept in one place so it stays valid)."""
import json, os
V = os.path.dirname(os.path.dirname(os.path.abspath(__file__)))

TB = ("Trusted: Lean 4.33 kernel + Mathlib (axioms propext, Classical.choice, Quot.sound only; audited each run); "
      "the Python translator/correspondence harness; theorems are over the real numbers — IEEE rounding and the "
      "NumPy/SciPy/scikit-learn kernels are outside the model (their contracts are checked per call on the explored inputs). ")

CHECKS = {
 'C01': dict(
   text="Theorems for all k,d and all L,x,y,z over ℝ (non-negativity, d(x,x)=0, symmetry, triangle inequality, Cauchy–Schwarz bound, pair_score = −distance, get_metric closure = pair_distance) about the executable model of pair_distance/get_metric/pair_score; the model is tied to /repo by a differential run of the compiled Float twin against the real API on every fitted estimator (17 + low-rank variants) and by an implementation-only oracle of the property itself.",
   note=TB + "A fitted learner is abstracted to its components_ matrix; binary64 finiteness and bitwise symmetry are checked on the implementation only.",
   technique="Lean 4 proof (norm/triangle inequality in EuclideanSpace) + differential correspondence model↔code",
   ref="§6 C01"),
 'C02': dict(
   text="Theorems for all k,d,L over ℝ: pair_distance = sqrt((x'-x)ᵀ(LᵀL)(x'-x)) = Euclidean distance of the transformed points = get_metric closure; squared closure = square; transform linear; M=LᵀL symmetric and Matrix.PosSemidef; score_pairs = pair_distance. Tie: Float twin of transform / LᵀL / quadratic form / embedded distance run against the real API on every fitted estimator; implementation-only oracle compares the six views pairwise and all equivalent array-likes (list, int, Fortran, strided, single-pair, indices through array/list/callable preprocessor).",
   note=TB + "Views are compared with tolerance 1e-9·scale, never bit-for-bit; score_pairs must equal pair_distance exactly.",
   technique="Lean 4 proof (matrix algebra, posSemidef_conjTranspose_mul_self) + differential correspondence model↔code",
   ref="§6 C02"),
 'C04': dict(
   text="Decision-logic theorems over ℝ (ties included): predict=+1 ⇔ d ≤ threshold, monotone in distance and in threshold, decision_function = −distance; triplet +1 ⇔ d(a,b)<d(a,c) and score = fraction predicted +1; quadruplet prediction = sign of d(c,d)−d(a,b); swapping the compared pairs negates the decision; after any history of fit/calibrate/set_threshold the stored threshold is the last one written. Tie: the exact-rational (Rat) twin is fed the implementation's own distances and must reproduce every prediction exactly, decision values bitwise (Float twin), AUC and score fraction; implementation-only oracle checks the same equalities on ITML/MMC/SDML/SCML/LSML, formed and through preprocessors, with tie-rich tuples.",
   note=TB + "roc_auc_score is assumed to be the Mann–Whitney statistic with half credit for ties (checked per call against the model's auc).",
   technique="Lean 4 proof (decision logic) + exact Rat twin on the implementation's own distances",
   ref="§6 C04"),
 'C16': dict(
   text="Master theorem over ℝ: for any criterion and any feasibility constraint that see the threshold only through the prediction vector, the first maximiser over {reject-all} ∪ observed distances is feasible and optimal over all real thresholds (validation sets of any size, ties, conflicting duplicates, zero distances); accuracy, F-beta (any β), max-TPR s.t. TNR ≥ r and max-TNR s.t. TPR ≥ r are instances; parameter validation characterised exactly. Tie: the Rat twin computes the optimum on the implementation's own distances/labels and the criterion value attained by the implementation's threshold_ must equal it (plus feasibility); an independent exact brute-force oracle is run on the implementation alone; invalid calibration parameters must raise ValueError before components_ exists.",
   note=TB + "roc_curve / precision_recall_curve are external: only the criterion value attained by threshold_ is compared, never the threshold itself; min_rate values are kept 1e-6 away from attainable rates unless dyadic so float rounding cannot decide feasibility.",
   technique="Lean 4 proof (calibration master theorem) + exact Rat twin + brute-force oracle",
   ref="§6 C16"),
 'C18': dict(
   text="Generic theorems (any value type, equality on the stored object) about every well-formed constructor table: the stored value of a non-alias parameter is the argument itself or the supplied deprecated alias, alias attributes hold the sentinel, aliases warn and name a real parameter, set_params/get_params round-trip, and clone (= construct from get_params) reproduces every parameter. The 17 tables and the 140-row method table are REGENERATED from /repo's __init__ methods and public methods by the AST translator on every run; one `decide` obligation per table (C18_wf_<Class>) and one for the method table (every public query method starts with a check_is_fitted guard). The harness cross-checks the translator against the real constructors with sentinel objects and runs the property oracle (identity, aliases, clone, NotFittedError on 17×all methods, pickle fidelity bitwise).",
   note=TB + "get_params / clone / pickle are scikit-learn/CPython behaviour (exercised, not modelled beyond 'read the attribute named like the parameter'); pickle fidelity is observed only.",
   technique="Lean 4 proof (generic round-trip theorems + decide on tables regenerated by a Python-AST translator)",
   ref="§6 C18"),
 'C03': dict(
   text="Theorems about the GENERATED transcription of _check_n_components (regenerated from _util.py every run): accepted ⇔ n_components ∈ [1,d] (k = n_components) or None (k = d), otherwise ValueError; row count of components_ per estimator kind (k ≤ d; k < d without n_components only in SCML's low-rank branch, with its warning); M = LᵀL PSD and symmetric for any L; transform output length k; n_features_in_ after any history of fits = last axis of the last fit's data (points or tuples). Tie: generated function vs the real one on a grid; implementation oracle over the documented option product × generated data (fit returns self, real finite float 2-D components_ of the predicted shape, PSD M, n_features_in_, transform shape) incl. a refit on another dimensionality.",
   note=TB + "Finiteness and real dtype of components_ come from external numeric kernels (eigh, L-BFGS, …): checked on every fit of the run, not proved.",
   technique="Lean 4 proof about source-generated decision function + shape/state-machine theorems; differential correspondence",
   ref="§6 C03"),
 'C20': dict(
   text="Theorems over ℝ, all sizes: eigen-branch conversion gives LᵀL = V·diag(max(0,w))·Vᵀ for any (V,w), hence = M when M = V diag(w) Vᵀ with w ≥ 0; diagonal shortcut and Cholesky branch give LᵀL = M; spectrum check: eigenvalue < −tol ⇒ NonPSDError, otherwise accepted and 'definite' ⇔ all |w| ≥ tol, negative tol ⇒ ValueError; non-symmetric ⇒ ValueError; V·diag(w⁺)·Vᵀ satisfies the four Penrose equations (with Penrose uniqueness ⇒ it is the pseudo-inverse / the inverse); initialiser dispatch (identity / covariance / random / array, strict_pd rejection); the GENERATED _auto_select_init equals the documented rule for all arguments. Tie: matrices generated with their certificate (Q, w) run through components_from_metric, the spectrum check, the pseudo-inverse, the initialisers via public fits (feasible ITML prior returns the prior) and via LMNN with an empty loop; Float twin compared on the same inputs.",
   note=TB + "Cholesky/eigh/pinvh are external; near-boundary cases are kept a factor 8 away from the tolerance and explicit tolerances below rounding level accept either verdict for singular matrices.",
   technique="Lean 4 proof (matrix algebra, Penrose equations, decision logic, generated function) + certificate-carrying differential tests",
   ref="§6 C20"),
 'C07': dict(
   text="Theorems for EVERY random-draw oracle (an out-of-contract draw aborts the model): pairs — positive pairs join distinct points with equal known labels, negative pairs different known labels, indices are positions in the caller's array and never unlabeled, no ordered pair twice, at most n, warning ⇔ fewer than n, equal counts under same_length; chunks — loop invariant (potential idx+Σ⌊|class|/size⌋, disjointness, membership in one initial class) and a termination measure give exactly n chunks of exactly chunk_size distinct members of one class, pairwise disjoint, whenever Σ⌊|class|/size⌋ ≥ n, and ValueError exactly otherwise; k-NN triplets — membership characterisation and count of the combination scheme. Tie: the real generators run with a recording RandomState / NearestNeighbors (patched in-process); the model replays the recorded draws and must reproduce the constraints (sets for pairs, exact arrays for chunks/triplets), warnings and errors; the neighbour search is validated exactly (rational arithmetic) per call; implementation-only soundness oracle and same-seed reproducibility.",
   note=TB + "numpy's RandomState (seed → draws) and scikit-learn's NearestNeighbors are external; the latter's output is validated exactly on every call of the run.",
   technique="Lean 4 proof (loop invariants by induction over fuel, for all oracles) + recorded-draw replay correspondence",
   ref="§6 C07"),
 'C05': dict(
   text="Theorems (any element type, any tuple size): with an array-like preprocessor and in-range indices the tuples that reach the solver are exactly X[idx] with member order preserved and one preprocessor call per column; indices+preprocessor and formed data give the same validated value, hence the same result of EVERY function of it (refinement through the common value), also for callable preprocessors; formed data never consults the preprocessor; an exception inside the preprocessor surfaces as PreprocessorError; indices without preprocessor ⇒ ValueError; generated method table: every validating method passes self.preprocessor_. Tie: for all 17 estimators × {ndarray, list, callable} × all integer dtypes × every data-taking method the real API is run on indices (into a permuted pool, with repeats) and on formed data and must agree (models, thresholds, outputs; call counts as the model predicts); the tuples observed at check_input's return equal the model's formTuples bit for bit.",
   note=TB + "Equality of results is required to 1e-12 relative; bitwise equality is expected and reported as a statistic.",
   technique="Lean 4 proof (refinement through the validated value) + differential correspondence incl. observed solver input",
   ref="§6 C05"),
 'C06': dict(
   text="Decision-logic theorems over all array descriptors (shape of any rank, element kind, NaN/inf flags), any preprocessor, any tuple size and min-samples: metric-learn's points and tuples validation (with the GENERATED check_tuple_size) accepts EXACTLY the documented form and rejects everything else with ValueError — never another error class; pair-label check characterised; generated method table obligation: every data-taking method of every class validates with its estimator's tuple size (decide over 140 rows regenerated from the source). Tie: an enumerated grammar of malformations × 17 estimators × 9 methods × with/without preprocessor run against the real API (outcome must be ValueError), the model's outcome class on the same descriptors, the assumed scikit-learn contract compared with the real check_array, and equivalent array-likes (list/int/Fortran/strided) refitted.",
   note=TB + "scikit-learn's check_array/check_X_y are external: their contract for the option sets used is an explicit model (skCheckArray) compared with the real validator on every descriptor of the run. 'Non-numeric' means text entries; arbitrary Python objects are outside the grammar.",
   technique="Lean 4 proof (exact accept/reject characterisation + decide on source-generated method table) + grammar-driven differential tests",
   ref="§6 C06"),
 'C08': dict(
   text="Theorems for every base solver (an arbitrary function), every oracle, every n: the supervised fit factors as base ∘ form; because generated constraints never mention an unlabeled point (C07), the pairs+labels (ITML/MMC/SDML), the quadruplets (LSML) and any index tuples over labelled points (chunks, k-NN triplets) are formed identically from X and from any X' that agrees with X on the labelled rows — so the learned model is a function of the labelled points and their constraints alone; default n_constraints = 20·classes² and the per-estimator wiring (generator and arguments). Tie: the real supervised fit is compared with the real base algorithm fitted on constraints the harness derives through the Constraints helper with the same seed and the wiring the Lean model prescribes (6 estimators, label vectors with −1 at arbitrary positions), and the feature rows of unlabeled points are perturbed (metric must not change).",
   note=TB + "The base solver is not modelled here (C09–C15 do that); SCML_Supervised's perturbation relation is applied with basis='triplet_diffs' because the 'lda' basis is built from all rows by design.",
   technique="Lean 4 proof (factorisation + independence from unlabeled rows, building on the C07 theorems) + impl-vs-impl differential check driven by the model's wiring",
   ref="§6 C08"),
 'C09': dict(
   text="Theorems over ℝ, all sizes: the four Penrose equations determine the pseudo-inverse uniquely (= the inverse when invertible), so the certificate evaluated on Covariance's output identifies M; RCA: L·C·Lᵀ = 1 ⇒ LᵀL = C⁻¹, and the code's inverse square root V·diag(1/√w)·Vᵀ whitens C = V·diag(w)·Vᵀ; LFDA: the class-by-class vectorised accumulation of BOTH scatter matrices (G_c = Xcᵀdiag(A·1)Xc − XcᵀAXc, S_w = Σ_c G_c/n_c, S_b = Σ_c[G_c/n + (1−n_c/n)XcᵀXc + s_c s_cᵀ/n] − s sᵀ/n − S_w) equals the documented pairwise definitions ½Σ W_ij (x_i−x_j)(x_i−x_j)ᵀ with W^w_ij = A_ij/n_c and W^b_ij = A_ij(1/n − 1/n_c) inside a class, 1/n across classes (Laplacian identity + linearity in the weights), weighted / plain embeddings give LᵀL = Σλ_i v_i v_iᵀ / Σ v_i v_iᵀ. Tie: Float twins of np.cov, the within-chunk covariance and BOTH LFDA scatter matrices (code form, local scaling by the k-th nearest same-class neighbour) compared with independent reference computations; certificates (Penrose residuals, whitening, generalized-eigen optimality of RCA's retained directions, LFDA's M against the documented generalized-eigen solution for every embedding_type × k × n_components, classes smaller than k) evaluated on the real fits.",
   note=TB + "Completeness of the generalized eigen-solution rests on the external eigen-solver, certified a posteriori.",
   technique="Lean 4 proof (Penrose uniqueness, whitening algebra, Laplacian/pairwise scatter identity) + certificate evaluation on real fits",
   ref="§6 C09"),
 'C11': dict(
   text="Loop invariant by induction over ANY sequence of Bregman projections (any order, any number of sweeps / max_iter), for every prior A₀ ≻ 0, every list of non-collapsed pairs, every γ > 0 and positive bounds: the iterate is symmetric positive definite, A·(A₀⁻¹ + Σ y_i λ_i v_i v_iᵀ) = 1 (so M⁻¹ − M₀⁻¹ is the signed combination with the solver's duals), λ ≥ 0, ξ > 0 (Sherman–Morrison step, PD through the inverse when the step is negative, scalar bounds for positive and negative pairs). A prior that satisfies all bounds is a fixed point of every sweep. The theorems are about the very definitions the compiled Float twin executes (bridge lemma model step = Mathlib matrix expression). Tie: the twin replays real ITML / ITML_Supervised fits (prior captured from the real initialiser; priors identity/covariance/random/array, γ, explicit/default bounds, max_iter 1…1000, tol) and must reproduce M and n_iter_ within a tolerance calibrated per instance by a last-bit perturbation probe; the KKT certificate (stationarity with the twin's duals, dual feasibility, slackness at convergence) and an NNLS oracle are evaluated on the implementation's M.",
   note=TB + "Proved: the invariant/certificate half (dual feasibility, stationarity, PD) and that convergence of the solver is exactly the slackness condition. Not proved: that the KKT point is the unique minimiser of the slack-regularised LogDet problem (convex-analysis lift) — that clause is carried by the per-run certificate only.",
   technique="Lean 4 proof (loop invariant by induction, Sherman–Morrison / PosDef algebra on the executable model) + Float-twin replay of real fits",
   ref="§6 C11"),
 'C14': dict(
   text="Theorems over ℝ, all sizes: the flattened constraint w·A equals the sum of squared learned distances over the similar pairs and the budget t is one hundredth of it under the initial matrix; the half-space projection lands on the budget (w·P(A) ≤ t, = t from outside); the PSD projection V·max(0,l)·Vᵀ is symmetric PSD for ANY eigen-solver output; passing the 1 % test gives Σ_S d² < 1.01·t; invariant over cycles of the accept/shrink loop (for arbitrary projection / objective / direction maps): once the first cycle's projections converge, the stored A_old returned by fit is always an iterate that came out of a successful projection — hence PSD and within the budget; the first projection is applied to the init matrix; every diagonal-variant candidate is max(0,·) ≥ 0; a non-finite objective raises ValueError. Tie: Float twins of the budget/1 % test, half-space and PSD projections, _fD, _fD1, _grad_projection and _D_objective compared with the real helper methods on every instance; oracle on real MMC / MMC_Supervised fits for all init options, both variants (PSD, A_ round trip, budget with t recomputed from the captured init, diagonal non-negativity, never NaN).",
   note=TB + "np.linalg.eigh inside the PSD projection is external. Fits whose first cycle exhausts max_proj without converging are outside the property's quantifier ('max_proj large enough') and are counted, not judged; the full projected-gradient trajectory is not replayed (only its helper functions and the loop invariant).",
   technique="Lean 4 proof (projection identities, abstract loop invariant) + Float twins of the helper functions + oracle on real fits",
   ref="§6 C14"),
 'C15': dict(
   text="Theorems for EVERY batch sequence (the random batches are an oracle argument of the model): after any number of stochastic dual-averaging steps the current and the best-checkpoint weights are all ≥ 0 (γ > 0 makes the AdaGrad scale negative, the proximal term min(avg+β,0) is ≤ 0); the strict-improvement bookkeeping keeps a checkpoint with the lowest objective (first among ties: bestIndex_spec); LᵀL = Σ_i w_i b_i b_iᵀ in the low-rank branch and (through the C20 conversion theorem) in the full-rank branch; that matrix is symmetric PSD for w ≥ 0; row count and warning of the low-rank case. The theorems are about the definitions the compiled Float twin executes. Tie: real SCML / SCML_Supervised fits (bases triplet_diffs / lda / array) with the basis, dist_diff matrix and best weights captured in-process; the batch matrix is reproduced with the same NumPy call and the twin must return the same best-checkpoint weights (1e-8); oracle: weights ≥ 0, M = Σ w b bᵀ, generated bases have n_basis unit-norm rows, shapes and warning.",
   note=TB + "k-means, LDA and eigh inside the two basis generators are external (only their post-conditions — count and unit norm — are checked); numpy's RandomState(seed).randint is trusted to reproduce the batches.",
   technique="Lean 4 proof (invariants for all batch sequences, matrix form) + Float-twin replay with reproduced batches",
   ref="§6 C15"),
 'C12': dict(
   text="Theorems over ℝ: for ANY candidate generator (any external eigh) the acceptance loop only accepts strictly smaller losses, so the loss of the returned matrix is ≤ the loss at the prior (induction over iterations); a stationary start is returned at once; the code's loss and gradient are sums of one documented term per violated constraint (grad form M₀⁻¹ − M⁻¹ + Σ w_i[…]); if every quadruplet holds under the prior the gradient at the prior is 0 (so the prior is returned); multiplying a constraint's weight by c multiplies its loss and gradient terms by c, and any common factor of the weights is immaterial after normalisation; the eigenvalue floor V·max(w,1e-8)·Vᵀ is positive definite for orthogonal V. Tie: Float twin of the objective and gradient (own Gauss–Jordan for inverse/logdet) evaluated on the real result, prior (captured from the initialiser) and weights; oracle on real LSML / LSML_Supervised fits: SPD, objective(result) ≤ objective(prior), feasible prior returned, gradient norm ≤ tol whenever the solver stops before max_iter, rescaled / list / array weights agree.",
   note=TB + "Not proved: convexity ⇒ a stationary point is the global minimiser (that clause is carried by the per-run stationarity check only); np.linalg.inv/slogdet/eigh are external.",
   technique="Lean 4 proof (descent invariant for any candidate generator, gradient/weight algebra, PD by flooring) + Float twin of objective/gradient on real fits",
   ref="§6 C12"),
 'C10': dict(
   text="Theorems over ℝ: the value the code computes through scipy's shifted logsumexp, exp(−d_ij − logsumexp_{l≠i}(−d_il)), equals the documented softmax exp(−d_ij)/Σ_{l≠i}exp(−d_il) for any shift, rows sum to one, hence the NCA objective is the documented Σ_i Σ_{j≠i,y_j=y_i} p_ij and the MLKR cost the documented leave-one-out regression error; LMNN's documented pull+push objective is ≥ 0; LMNN's acceptance loop, for ANY loss and ANY step map: accepted objectives never increase (induction over iterations incl. the step-halving inner loop), the returned transformation is never worse than the initial one, and with max_iter ≤ 2 (no loop iteration) the result is exactly the initialisation. Tie: the function handed to scipy.optimize.minimize (NCA, MLKR) and LMNN._loss_grad are captured in-process; the model's documented objective (Float twin, k<d included) must equal the captured value at random L and at iterates of real fits; oracle: central finite differences of the documented objective vs the captured gradient, result vs initialisation, LMNN verbose trace non-increasing, target neighbours are the k nearest same-class points, zero-iteration fits return the captured initialisation.",
   note=TB + "The statement 'the gradient is the derivative of the objective' is checked by finite differences per run, not proved (HasFDerivAt statements are a stretch item); L-BFGS-B never returning a point worse than x0 is SciPy behaviour, checked per fit.",
   technique="Lean 4 proof (softmax/logsumexp identity, abstract acceptance-loop monotonicity) + Float twin of the documented objectives vs captured optimiser inputs",
   ref="§6 C10"),
 'C13': dict(
   text="Theorems over ℝ, all sizes: the graphical-lasso input is E = M₀⁻¹ + balance·Σ y_i v_i v_iᵀ (symmetric; labels and balance enter linearly); vetting: a solver exception, a negative eigenvalue or a non-finite entry ⇔ RuntimeError; n_features < 2 ⇒ ValueError; log det X ≤ tr X − d for X ≻ 0; Hölder bound tr(WN) ≤ tr(EN) + λ‖N‖₁,off for dual-feasible W; and WEAK DUALITY: for dual-feasible W = BᵀB (B invertible) every symmetric positive definite N has objective f(N) ≥ d + log det W — so the duality gap tr(EM)+λ‖M‖₁,off−d evaluated on the learned M bounds its sub-optimality (certificate ⇒ near-optimal). Tie: the matrix the real code hands to the graphical lasso (captured in-process) must equal the model's E recomputed from pairs, labels and the prior captured from the initialiser; Float twin of objective / gap / dual feasibility at the learned M; oracle: M finite SPD, objective within solver tolerance of an independent proximal-gradient solution (warm and cold start), failure stream (indefinite input) must end in RuntimeError or a finite SPD matrix.",
   note=TB + "scikit-learn's graphical lasso is external (its tolerance 1e-4 on the dual gap bounds what 'minimises' can mean); the weak-duality theorem takes a factorisation W = BᵀB as the certificate form of M⁻¹ ≻ 0.",
   technique="Lean 4 proof (input construction, vetting logic, log-det inequality, weak duality) + certificate / independent-solver comparison on real fits",
   ref="§6 C13"),
 'C17': dict(
   text="State-machine theorems over ALL finite histories, with the learner an arbitrary function of (hyper-parameters, data): after any history followed by fit(data) and any non-fit operations the model and n_features_in_ are those of a fresh estimator fitted once on data with the parameters then in force (history independence, whatever was fitted before on whatever dimensionality); refitting is idempotent; query operations, get_metric, get_mahalanobis_matrix, clone and pickle leave the state unchanged; get_metric handles evaluate with the model they copied; hyper-parameters change only through set_params; the last threshold-writing operation determines threshold_; the argument write set of every operation is empty. Tie: history fuzzing on all 17 estimators (random sequences over the full operation alphabet, datasets of differing sizes and dimensionalities, array-valued hyper-parameters, bounds containing 0, array weights): after EVERY step the real estimator is compared with the model's prediction — a fresh clone fitted on the last data — for M, threshold_, n_features_in_ and query outputs; old get_metric handles re-evaluated; returned matrices mutated; every argument array and get_params() compared byte for byte before/after each call.",
   note=TB + "The map seed → random draws, pickle and clone are external (observed, not modelled). Known finding (recorded, not repaired): clone() raises RuntimeError after a pickle round trip for the 8 classes with deprecated alias parameters (see known_findings.json).",
   technique="Lean 4 proof (state machine over all histories) + history fuzzing against a fresh-clone oracle",
   ref="§6 C17"),
 'C19': dict(
   text="Theorems over ℝ: within-tuple differences — all the tuple learners read — are translation invariant; the sample covariance is invariant under translation and under any permutation of the samples, maps to QᵀCQ under X ↦ XQ and scales by c² under X ↦ cX (so M = C⁻¹ scales distances by 1/c: C19_distance_scale); squared sample distances and the embedded distances of the NCA/MLKR/LMNN objectives are translation invariant; the quadratic form of QMQᵀ at v is that of M at Qᵀv; and, on the executable ITML model (via the C11 bridge lemmas), a projection with every pair's difference vector negated yields the same matrix, duals and bounds (swap invariance). Tie: metamorphic runs of the real estimators on dyadic-grid data — translation for all 17, within-tuple swaps (ITML, MMC, SDML; both pairs for LSML), sample permutation (Covariance, RCA), rotation by an orthogonal Q for the listed learners incl. covariance priors/inits (M' vs QᵀMQ), scaling (Covariance, RCA) — plus the Float twin's covariance under translation.",
   note=TB + "Proved for the closed-form ingredients and for ITML's step; for the other iterative learners (LSML/MMC spectral steps, SCML's stochastic loop, L-BFGS/ARPACK learners) invariance of the whole trajectory is carried by the metamorphic runs only, with tolerances 1e-9 (exact-arithmetic relations), 1e-6 (rotation/scaling) and 1e-5 (NCA, MLKR, LFDA; small iteration budgets).",
   technique="Lean 4 proof (invariance/equivariance of the modelled ingredients and of the ITML step) + metamorphic runs on dyadic data",
   ref="§6 C19"),
}

NOT_YET = {}

def main():
    props = [json.loads(l) for l in open(os.path.join(V, 'properties.jsonl'))]
    checks, na = [], []
    for p in props:
        pid = p['id']
        if pid in CHECKS:
            c = CHECKS[pid]
            checks.append({
                'property_id': pid,
                'quick_cmd': f'./check {pid} --tier quick',
                'thorough_cmd': f'./check {pid} --tier thorough',
                'evidence_file': f'/verif/evidence/{pid}.json',
                'replay_cmd_template': f'./check {pid} --replay {{path}}',
                'engine': 'lean4-model+correspondence',
                'level_claimed': {'category': 'proof', 'text': c['text'], 'design_ref': c['ref']},
                'level_note': c['note'],
                'technique': c['technique'],
            })
        else:
            na.append({'property_id': pid, 'reason': NOT_YET.get(pid, 'check not built yet in this session (planned: Lean model + theorems + correspondence, see DESIGN.md §6); not a claim that the technique cannot apply')})
    hooks_commits = []
    hp = os.path.join(V, 'hooks_commits.txt')
    if os.path.exists(hp):
        hooks_commits = [l.split()[0] for l in open(hp) if l.strip()]
    m = {
        'version': 1,
        'setup_cmd': 'python3 translate/translate.py && cd lean && lake build',
        'hooks': {
            'guard': 'METRIC_LEARN_VERIF',
            'enable': 'no source hooks are needed: the harness observes the real code by wrapping module-level names in-process (RandomState, NearestNeighbors, scipy.optimize.minimize, …); METRIC_LEARN_VERIF=1 is reserved should a hook become necessary',
            'baseline_off_cmd': 'python3 tools/baseline_check.py',
            'source_commits': hooks_commits,
            'add_only': True,
        },
        'engines': [{'name': 'lean4-model+correspondence', 'path': '/verif/lean + /verif/harness + /verif/translate',
                     'serves_properties': sorted(CHECKS),
                     'kind_free_text': 'Lean 4 model (core-only, polymorphic in the scalar) with theorems over ℝ (Mathlib); tied to /repo by a regenerating translator for table-like code and by a differential correspondence check (compiled Float/Rat twin vs the real API) for numerical code'}],
        'checks': checks,
        'not_applicable': na,
        'notes': 'All checks: ./check Cxx --tier quick|thorough; exit 0 = held, 1 = VIOLATION line printed, 2 = infrastructure failure/timeout (not a verdict). Known findings: known_findings.json.',
    }
    json.dump(m, open(os.path.join(V, 'MANIFEST.json'), 'w'), indent=1, ensure_ascii=False)
    print('checks', len(checks), 'not_applicable', len(na))

main()
