#!/usr/bin/env python3
"""Full confirmation of a seeded change (demo both ways, 875 baseline tests with the change, checks against /repo)
and storage under /verif/seeded/<name>/.   usage: keep_mutant.py <src dir> <name> [--checks ...] [--seeds ...]"""
import json, os, shutil, subprocess, sys
V = os.path.dirname(os.path.dirname(os.path.abspath(__file__)))
src, name = sys.argv[1], sys.argv[2]
extra = sys.argv[3:]
r = subprocess.run([sys.executable, os.path.join(V, 'tools', 'eval_mutant.py'), src] + extra, stdout=subprocess.PIPE, stderr=subprocess.STDOUT)
t = r.stdout.decode()
try:
    o = json.loads(t[t.index('{'):])
except Exception:
    print('eval failed:', t[-2000:]); sys.exit(2)
ok = o.get('patch_applies') and o.get('demo_unchanged_rc') == 0 and o.get('demo_changed_rc') not in (0, None) and o.get('baseline_ok')
print(json.dumps({k: o.get(k) for k in ('property', 'patch_applies', 'demo_unchanged_rc', 'demo_changed_rc', 'baseline_ok', 'detected_by')}))
if not ok:
    print('NOT KEPT (confirmation failed)'); sys.exit(1)
dst = os.path.join(V, 'seeded', name)
os.makedirs(dst, exist_ok=True)
shutil.copy(os.path.join(src, 'patch.diff'), dst)
shutil.copy(os.path.join(src, 'demo.py'), dst)
meta = json.load(open(os.path.join(src, 'meta.json')))
meta['confirmed'] = {
    'demo_on_unchanged_tree_exit': o['demo_unchanged_rc'], 'demo_with_change_exit': o['demo_changed_rc'],
    'baseline_875_pass_with_change': o['baseline_ok'],
    'what_was_run': 'tools/eval_mutant.py: fresh scratch worktree of /repo HEAD; demo.py before/after `git apply patch.diff`; tools/baseline_check.py --repo <worktree>; then `git -C /repo apply`, ./check <ids> --tier quick with VERIF_SEED in the listed seeds, `git -C /repo checkout -- .`',
    'checks': {k: {'exit': v['rc'], 'first_violation': v.get('first')} for k, v in o['checks'].items()},
    'detected_by': o['detected_by'],
}
json.dump(meta, open(os.path.join(dst, 'meta.json'), 'w'), indent=1)
print('kept in', dst)
