#!/bin/bash
# usage: tools/soak.sh <first_seed> <last_seed> [checks...]   — runs the harness part of every check on many seeds
cd "$(dirname "$0")/.."
a=$1; b=$2; shift 2
checks=${@:-$(python3 -c "import json;print(' '.join(c['property_id'] for c in json.load(open('MANIFEST.json'))['checks']))")}
for c in $checks; do
  for s in $(seq $a $b); do
    out=$(VERIF_SEED=$s flock /tmp/verif_repo_apply.lock timeout 900 ./check $c --no-lean 2>&1); rc=$?   # (the lock: seeded-change evaluations patch /repo)
    if [ $rc -ne 0 ]; then echo "SOAK-FAIL $c seed=$s rc=$rc :: $(echo "$out" | grep -v '^VIOLATION' | tail -1)"; echo "$out" | grep VIOLATION | head -3; fi
  done
  echo "soak $c seeds $a..$b done"
done
