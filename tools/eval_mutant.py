#!/usr/bin/env python3
"""Confirm a seeded change and run the checks against it.

usage: eval_mutant.py <dir with patch.diff, demo.py, meta.json> [--checks C01,C02 | --all] [--seeds 0,1] [--skip-baseline]
 1. fresh scratch worktree of /repo (under /tmp), demo on the unchanged tree must exit 0
 2. apply the patch there: demo must exit non-zero; the 875 baseline tests must still pass
 3. apply the patch to /repo itself, run the requested checks (quick tier), undo (git checkout -- .)
Prints a JSON summary."""
import json, os, shutil, subprocess, sys, tempfile, time

V = os.path.dirname(os.path.dirname(os.path.abspath(__file__)))


def sh(cmd, cwd=None, timeout=3600, env=None):
    r = subprocess.run(cmd, cwd=cwd, shell=isinstance(cmd, str), stdout=subprocess.PIPE, stderr=subprocess.STDOUT, timeout=timeout, env=env)
    return r.returncode, r.stdout.decode(errors='replace')


def main():
    d = os.path.abspath(sys.argv[1])
    args = sys.argv[2:]
    meta = json.load(open(os.path.join(d, 'meta.json')))
    pid = meta['property']
    checks = [pid]
    if '--checks' in args:
        checks = args[args.index('--checks') + 1].split(',')
    if '--all' in args:
        checks = [c['property_id'] for c in json.load(open(os.path.join(V, 'MANIFEST.json')))['checks']]
    seeds = [0]
    if '--seeds' in args:
        seeds = [int(x) for x in args[args.index('--seeds') + 1].split(',')]
    patch = os.path.join(d, 'patch.diff')
    out = {'property': pid, 'dir': d}
    wt = tempfile.mkdtemp(prefix='mutcheck_', dir='/tmp')
    os.rmdir(wt)
    try:
        if '--no-demo' in args:
            raise StopIteration
        rc, o = sh(['git', '-C', '/repo', 'worktree', 'add', '-q', wt, 'HEAD'])
        assert rc == 0, o
        os.makedirs(os.path.join(wt, '_mutant'))
        shutil.copy(os.path.join(d, 'demo.py'), os.path.join(wt, '_mutant', 'demo.py'))
        penv = dict(os.environ, PYTHONPATH=wt)
        rc0, o0 = sh(['/venv/bin/python', '_mutant/demo.py'], cwd=wt, timeout=1800, env=penv)
        out['demo_unchanged_rc'] = rc0
        rc, o = sh(['git', 'apply', patch], cwd=wt)
        out['patch_applies'] = rc == 0
        if rc != 0:
            out['apply_output'] = o[-500:]
            print(json.dumps(out, indent=1)); return
        rc1, o1 = sh(['/venv/bin/python', '_mutant/demo.py'], cwd=wt, timeout=1800, env=penv)
        out['demo_changed_rc'] = rc1
        out['demo_changed_tail'] = o1[-400:]
        if '--skip-baseline' not in args:
            rc, o = sh(['python3', os.path.join(V, 'tools', 'baseline_check.py'), '--repo', wt, '--fast'], timeout=7200,
                       env=dict(os.environ, OPENBLAS_NUM_THREADS='1', OMP_NUM_THREADS='1'))
            out['baseline_ok'] = rc == 0
            out['baseline_tail'] = o[-300:]
    except StopIteration:
        out['patch_applies'] = True
    finally:
        sh(['git', '-C', '/repo', 'worktree', 'remove', '--force', wt])
    # run the checks against /repo with the patch applied (one evaluation at a time: /repo is shared)
    # the tree the checks run against is NEVER /repo itself: a private scratch worktree of /repo's HEAD (or the copy named by
    # VERIF_REPO in background runs) gets the patch, and the checks are pointed at it through VERIF_REPO — so that work on
    # /repo can go on while evaluations run, and a commit there can never pick up a seeded change
    own_target = 'VERIF_REPO' not in os.environ
    if own_target:
        target = tempfile.mkdtemp(prefix='muteval_', dir='/tmp'); os.rmdir(target)
        rc, o = sh(['git', '-C', '/repo', 'worktree', 'add', '-q', target, 'HEAD'])
        assert rc == 0, o
    else:
        target = os.environ['VERIF_REPO']
    import fcntl
    # one evaluation at a time in this /verif: the checks regenerate lean/MLGen from the tree under test
    lock = open(os.path.join(V, 'lean', '.lake', 'eval.lock') if os.path.isdir(os.path.join(V, 'lean', '.lake')) else '/tmp/verif_eval.lock', 'w')
    fcntl.flock(lock, fcntl.LOCK_EX)
    rc, o = sh(['git', 'apply', patch], cwd=target)
    if rc != 0:
        out['patch_applies'] = False; out['apply_output'] = o[-300:]
        if own_target:
            sh(['git', '-C', '/repo', 'worktree', 'remove', '--force', target])
        print(json.dumps(out, indent=1)); return
    res = {}
    try:
        for c in checks:
            for s in seeds:
                env = dict(os.environ, VERIF_SEED=str(s), VERIF_EVIDENCE_DIR=os.path.join(V, 'evidence_dev'), VERIF_REPO=target)
                t0 = time.time()
                rc, o = sh([os.path.join(V, 'check'), c, '--tier', 'quick'], cwd=V, timeout=3000, env=env)
                viol = [l for l in o.split('\n') if l.startswith('VIOLATION')]
                info = {'rc': rc, 'violations': viol[:4], 'wall': round(time.time() - t0, 1)}
                if viol:
                    try:
                        rp = json.load(open(viol[0].split('replay=')[1].split()[0]))
                        info['first'] = (rp.get('key') or rp.get('no_longer_checks'), rp.get('what', '')[:200])
                    except Exception:
                        pass
                if rc == 2:
                    info['tail'] = o[-400:]
                res[f'{c}@{s}'] = info
    finally:
        if own_target:
            sh(['git', '-C', '/repo', 'worktree', 'remove', '--force', target])
        else:
            sh(['git', 'apply', '-R', patch], cwd=target)
    out['checks'] = res
    out['detected_by'] = sorted({k.split('@')[0] for k, v in res.items() if v['rc'] == 1})
    print(json.dumps(out, indent=1))


main()
