import MLProps.Bridge
import Mathlib.Analysis.SpecialFunctions.ExpDeriv
import Mathlib.Analysis.Calculus.Deriv.Inv
import Mathlib.Analysis.Calculus.Deriv.Pow
import Mathlib.Tactic.Linarith
import Mathlib.Tactic.Ring
import Mathlib.Tactic.FieldSimp
/-!
# Calculus behind C10: the gradients the code hands to the optimiser are derivatives

Everything is stated along a line `t ↦ L + t·D` (any direction `D`): a matrix `G` is the gradient of `f` at
`L` when `d/dt f(L + tD)|₀ = ⟨G, D⟩_F` for every `D`.
-/
open ML

variable {n k d : ℕ}

/-- the denominator of the softmax is positive as soon as there is another sample -/
theorem softmax_denom_pos (e : Mat ℝ n n) (i : Fin n) (h : ∃ l : Fin n, l ≠ i) :
    0 < ∑ l, (if l = i then 0 else Real.exp (-(e i l))) := by
  obtain ⟨l0, hl0⟩ := h
  have hnn : ∀ l ∈ Finset.univ, 0 ≤ (if l = i then (0:ℝ) else Real.exp (-(e i l))) := by
    intro l _; split
    · exact le_refl _
    · exact (Real.exp_pos _).le
  have : 0 < (if l0 = i then (0:ℝ) else Real.exp (-(e i l0))) := by rw [if_neg hl0]; exact Real.exp_pos _
  exact lt_of_lt_of_le this (Finset.single_le_sum hnn (Finset.mem_univ l0))

/-- `(L v)_a` and the bilinear form `B(u, w) = ⟨L u, D w⟩` -/
noncomputable def lv (L : Mat ℝ k d) (v : Vec ℝ d) (a : Fin k) : ℝ := ∑ b, L a b * v b
noncomputable def bil (L D : Mat ℝ k d) (u w : Vec ℝ d) : ℝ := ∑ a, lv L u a * lv D w a

theorem lv_sub (L : Mat ℝ k d) (u w : Vec ℝ d) (a : Fin k) : lv L (vsub u w) a = lv L u a - lv L w a := by
  simp only [lv, vsub, mul_sub, Finset.sum_sub_distrib]

theorem bil_sub_sub (L D : Mat ℝ k d) (u w : Vec ℝ d) :
    bil L D (vsub u w) (vsub u w) = bil L D u u - bil L D u w - bil L D w u + bil L D w w := by
  simp only [bil, lv_sub, ← Finset.sum_sub_distrib, ← Finset.sum_add_distrib]
  apply Finset.sum_congr rfl; intro a _; ring

theorem sum_sq_line (A B : Fin k → ℝ) (t : ℝ) :
    (∑ a, (A a + t * B a) * (A a + t * B a)) =
      (∑ a, A a * A a) + t * (2 * ∑ a, A a * B a) + t ^ 2 * ∑ a, B a * B a := by
  simp only [Finset.mul_sum, ← Finset.sum_add_distrib]
  apply Finset.sum_congr rfl; intro a _; ring

/-- the squared embedded distance along the line is a quadratic polynomial in `t` -/
theorem embSqDist_line (L D : Mat ℝ k d) (X : Mat ℝ n d) (i j : Fin n) (t : ℝ) :
    embSqDist (lineAt L D t) X i j =
      embSqDist L X i j + t * (2 * bil L D (vsub (X i) (X j)) (vsub (X i) (X j))) +
        t ^ 2 * embSqDist D X i j := by
  simp only [embSqDist, sumSq, vsum_eq_sum, transform_apply, lineAt, bil, lv]
  have h : ∀ a : Fin k, (∑ b, (L a b + t * D a b) * vsub (X i) (X j) b) =
      (∑ b, L a b * vsub (X i) (X j) b) + t * ∑ b, D a b * vsub (X i) (X j) b := by
    intro a; rw [Finset.mul_sum, ← Finset.sum_add_distrib]
    apply Finset.sum_congr rfl; intro b _; ring
  simp only [h]
  exact sum_sq_line _ _ t

theorem quad_hasDerivAt (c0 c1 c2 : ℝ) : HasDerivAt (fun t : ℝ => c0 + t * c1 + t ^ 2 * c2) c1 0 := by
  have h1 : HasDerivAt (fun t : ℝ => t * c1) c1 0 := by simpa using (hasDerivAt_id (0:ℝ)).mul_const c1
  have h2 : HasDerivAt (fun t : ℝ => t ^ 2 * c2) 0 0 := by simpa using ((hasDerivAt_id (0:ℝ)).pow 2).mul_const c2
  have h := ((hasDerivAt_const (0:ℝ) c0).fun_add h1).fun_add h2
  simpa using h

/-- derivative of the squared embedded distance along the line: `2⟨L v, D v⟩` -/
theorem embSqDist_hasDerivAt (L D : Mat ℝ k d) (X : Mat ℝ n d) (i j : Fin n) :
    HasDerivAt (fun t => embSqDist (lineAt L D t) X i j)
      (2 * bil L D (vsub (X i) (X j)) (vsub (X i) (X j))) 0 := by
  have hfun : (fun t => embSqDist (lineAt L D t) X i j) = fun t : ℝ =>
      embSqDist L X i j + t * (2 * bil L D (vsub (X i) (X j)) (vsub (X i) (X j))) + t ^ 2 * embSqDist D X i j := by
    funext t; exact embSqDist_line L D X i j t
  rw [hfun]
  exact quad_hasDerivAt _ _ _

/-! ## Softmax along a curve of "energies" -/

/-- derivative of the documented softmax weight when the energies `e_ij` move with derivatives `e'_ij`:
`p_ij' = p_ij · (Σ_l p_il e'_il − e'_ij)` (also for `j = i`, where both sides vanish) -/
theorem softmaxDoc_hasDerivAt (e : ℝ → Mat ℝ n n) (e' : Mat ℝ n n)
    (he : ∀ i j, HasDerivAt (fun t => e t i j) (e' i j) 0) (i j : Fin n) (h : ∃ l : Fin n, l ≠ i) :
    HasDerivAt (fun t => softmaxDoc (e t) i j)
      (softmaxDoc (e 0) i j * ((∑ l, softmaxDoc (e 0) i l * e' i l) - e' i j)) 0 := by
  by_cases hji : j = i
  · have : (fun t => softmaxDoc (e t) i j) = fun _ => (0:ℝ) := by
      funext t; simp [softmaxDoc, hji]
    rw [this]
    have : softmaxDoc (e 0) i j = 0 := by simp [softmaxDoc, hji]
    rw [this, zero_mul]; exact hasDerivAt_const _ _
  · -- numerator and denominator
    have hN : HasDerivAt (fun t => Real.exp (-(e t i j))) (Real.exp (-(e 0 i j)) * (-(e' i j))) 0 :=
      ((he i j).neg).exp
    have hS : HasDerivAt (fun t => ∑ l, (if l = i then (0:ℝ) else Real.exp (-(e t i l))))
        (∑ l, (if l = i then (0:ℝ) else Real.exp (-(e 0 i l)) * (-(e' i l)))) 0 := by
      have := HasDerivAt.fun_sum (u := Finset.univ) (A := fun l t => (if l = i then (0:ℝ) else Real.exp (-(e t i l))))
        (A' := fun l => (if l = i then (0:ℝ) else Real.exp (-(e 0 i l)) * (-(e' i l)))) (x := (0:ℝ))
        (by
          intro l _
          by_cases hl : l = i
          · simp only [hl, if_true]; exact hasDerivAt_const _ _
          · simp only [hl, if_false]; exact ((he i l).neg).exp)
      simpa using this
    have hpos := softmax_denom_pos (e 0) i h
    have hq := hN.fun_div hS hpos.ne'
    have hfun : (fun t => softmaxDoc (e t) i j) =
        fun t => Real.exp (-(e t i j)) / ∑ l, (if l = i then (0:ℝ) else Real.exp (-(e t i l))) := by
      funext t; simp [softmaxDoc, hji, vsum_eq_sum]
    rw [hfun]
    refine hq.congr_deriv ?_
    -- algebra
    set S := ∑ l, (if l = i then (0:ℝ) else Real.exp (-(e 0 i l))) with hSdef
    have hP : ∀ l, softmaxDoc (e 0) i l = (if l = i then (0:ℝ) else Real.exp (-(e 0 i l))) / S := by
      intro l; simp only [softmaxDoc, vsum_eq_sum, exp_real]; split <;> simp [hSdef]
    have hsum : (∑ l, softmaxDoc (e 0) i l * e' i l) =
        (∑ l, (if l = i then (0:ℝ) else Real.exp (-(e 0 i l)) * (e' i l))) / S := by
      rw [Finset.sum_div]; apply Finset.sum_congr rfl; intro l _
      rw [hP l]; split <;> simp [div_mul_eq_mul_div]
    have hneg : (∑ l, (if l = i then (0:ℝ) else Real.exp (-(e 0 i l)) * (-(e' i l)))) =
        -(∑ l, (if l = i then (0:ℝ) else Real.exp (-(e 0 i l)) * (e' i l))) := by
      rw [← Finset.sum_neg_distrib]; apply Finset.sum_congr rfl; intro l _; split <;> simp
    rw [hsum, hneg, hP j, if_neg hji]
    field_simp
    ring

/-! ## The weighted-Laplacian form of the code's gradient -/

theorem transform_lv (L : Mat ℝ k d) (x : Vec ℝ d) (a : Fin k) : transform L x a = lv L x a :=
  transform_apply L x a

theorem grad_row_aux (c : ℝ) (Z : Fin n → ℝ) (S : Mat ℝ n n) (X : Mat ℝ n d) (Dr : Fin d → ℝ) :
    (∑ b, (c * ∑ j, (∑ i, Z i * S i j) * X j b) * Dr b) =
      c * ∑ i, ∑ j, S i j * (Z i * ∑ b, Dr b * X j b) := by
  simp only [Finset.mul_sum, Finset.sum_mul]
  rw [Finset.sum_comm]
  rw [show (∑ j, ∑ b, ∑ i, c * (Z i * S i j * X j b) * Dr b) = ∑ j, ∑ i, ∑ b, c * (Z i * S i j * X j b) * Dr b from
    Finset.sum_congr rfl fun j _ => Finset.sum_comm]
  rw [Finset.sum_comm]
  apply Finset.sum_congr rfl; intro i _
  apply Finset.sum_congr rfl; intro j _
  apply Finset.sum_congr rfl; intro b _
  ring

/-- `⟨c·(XLᵀ)ᵀ S X, D⟩_F = c · Σ_ij S_ij ⟨L x_i, D x_j⟩` -/
theorem frob_gradFromWeights (c : ℝ) (L D : Mat ℝ k d) (X : Mat ℝ n d) (S : Mat ℝ n n) :
    frob (gradFromWeights c L X S) D = c * ∑ i, ∑ j, S i j * bil L D (X i) (X j) := by
  simp only [frob, gradFromWeights, vsum_eq_sum, transform_lv]
  have h : ∀ a, (∑ b, (c * ∑ j, (∑ i, lv L (X i) a * S i j) * X j b) * D a b) =
      c * ∑ i, ∑ j, S i j * (lv L (X i) a * lv D (X j) a) := by
    intro a
    have := grad_row_aux c (fun i => lv L (X i) a) S X (fun b => D a b)
    simpa only [lv] using this
  simp only [h, bil, ← Finset.mul_sum]
  congr 1
  rw [Finset.sum_comm]
  apply Finset.sum_congr rfl; intro i _
  rw [Finset.sum_comm]
  apply Finset.sum_congr rfl; intro j _
  rw [Finset.mul_sum]

/-- for a weight matrix with zero diagonal and zero row sums, the code's symmetrised matrix gives minus the
weighted sum of the pairwise forms: `Σ_ij S_ij B(x_i, x_j) = −Σ_ij W_ij B(x_i − x_j, x_i − x_j)` -/
theorem symFillDiag_laplacian (W : Mat ℝ n n) (L D : Mat ℝ k d) (X : Mat ℝ n d)
    (hdiag : ∀ i, W i i = 0) (hrow : ∀ i, ∑ j, W i j = 0) :
    (∑ i, ∑ j, symFillDiag W i j * bil L D (X i) (X j)) =
      -(∑ i, ∑ j, W i j * bil L D (vsub (X i) (X j)) (vsub (X i) (X j))) := by
  have hS : ∀ i j, symFillDiag W i j * bil L D (X i) (X j) =
      (W i j + W j i) * bil L D (X i) (X j) - (if i = j then (∑ l, W l i) * bil L D (X i) (X i) else 0) := by
    intro i j
    simp only [symFillDiag, vsum_eq_sum]
    by_cases hij : i = j
    · subst hij; simp [hdiag i]
    · simp [hij]
  have hL : ∀ i j, W i j * bil L D (vsub (X i) (X j)) (vsub (X i) (X j)) =
      W i j * bil L D (X i) (X i) - W i j * bil L D (X i) (X j) - W i j * bil L D (X j) (X i)
        + W i j * bil L D (X j) (X j) := by
    intro i j; rw [bil_sub_sub]; ring
  simp only [hS, hL, Finset.sum_sub_distrib, Finset.sum_add_distrib, Finset.sum_ite_eq, Finset.mem_univ, if_true,
    add_mul]
  have h1 : (∑ i, ∑ j, W i j * bil L D (X i) (X i)) = 0 := by
    apply Finset.sum_eq_zero; intro i _; rw [← Finset.sum_mul, hrow i, zero_mul]
  have h2 : (∑ i, ∑ j, W j i * bil L D (X i) (X j)) = ∑ i, ∑ j, W i j * bil L D (X j) (X i) := Finset.sum_comm
  have h3 : (∑ i, ∑ j, W i j * bil L D (X j) (X j)) = ∑ i, (∑ l, W l i) * bil L D (X i) (X i) := by
    rw [Finset.sum_comm]; apply Finset.sum_congr rfl; intro j _; rw [Finset.sum_mul]
  rw [h1, h2, h3]; ring

/-! ## From softmax derivatives to the weight matrices of the code -/

@[simp] theorem lineAt_zero (L D : Mat ℝ k d) : lineAt L D 0 = L := by
  funext a b; simp [lineAt]

theorem exists_ne_of_two_le (hn : 2 ≤ n) (i : Fin n) : ∃ l : Fin n, l ≠ i := by
  by_cases hi : i.val = 0
  · exact ⟨⟨1, by omega⟩, by intro e; have := congrArg Fin.val e; simp at this; omega⟩
  · exact ⟨⟨0, by omega⟩, by intro e; have := congrArg Fin.val e; simp at this; omega⟩

/-- NCA bookkeeping: `Σ_j m_ij p_ij (Σ_l p_il b_il − b_ij) = −Σ_j (m_ij p_ij − p_ij p_i) b_ij` per row -/
theorem nca_row_algebra (P m b : Fin n → ℝ) :
    (∑ j, m j * P j * ((∑ l, P l * b l) - b j)) =
      -(∑ j, (m j * P j - P j * ∑ l, m l * P l) * b j) := by
  have h1 : (∑ j, m j * P j * ((∑ l, P l * b l) - b j)) =
      (∑ j, m j * P j) * (∑ l, P l * b l) - ∑ j, m j * P j * b j := by
    rw [Finset.sum_mul, ← Finset.sum_sub_distrib]; apply Finset.sum_congr rfl; intro j _; ring
  have h2 : (∑ j, (m j * P j - P j * ∑ l, m l * P l) * b j) =
      (∑ j, m j * P j * b j) - (∑ l, m l * P l) * ∑ j, P j * b j := by
    rw [Finset.mul_sum, ← Finset.sum_sub_distrib]; apply Finset.sum_congr rfl; intro j _; ring
  rw [h1, h2]; ring

/-- MLKR bookkeeping: `Σ_j y_j p_ij (Σ_l p_il b_il − b_ij) = −Σ_j p_ij (y_j − ŷ_i) b_ij` per row -/
theorem mlkr_row_algebra (P y b : Fin n → ℝ) :
    (∑ j, P j * y j * ((∑ l, P l * b l) - b j)) =
      -(∑ j, P j * (y j - ∑ l, P l * y l) * b j) := by
  have h1 : (∑ j, P j * y j * ((∑ l, P l * b l) - b j)) =
      (∑ j, P j * y j) * (∑ l, P l * b l) - ∑ j, P j * y j * b j := by
    rw [Finset.sum_mul, ← Finset.sum_sub_distrib]; apply Finset.sum_congr rfl; intro j _; ring
  have h2 : (∑ j, P j * (y j - ∑ l, P l * y l) * b j) =
      (∑ j, P j * y j * b j) - (∑ l, P l * y l) * ∑ j, P j * b j := by
    rw [Finset.mul_sum, ← Finset.sum_sub_distrib]; apply Finset.sum_congr rfl; intro j _; ring
  rw [h1, h2]; ring
