import MLModel.Constraints
import Mathlib.Data.List.Basic
import Mathlib.Data.List.Nodup
import Mathlib.Algebra.BigOperators.Group.List.Basic
import Mathlib.Algebra.Group.Action.Defs
/-!
# C07 — constraints generated from labels respect the labels

Every theorem quantifies over *every* random-draw oracle: an oracle answer outside its range contract
makes the model return `none`, so a `some` result always comes from contract-respecting draws.
-/
open ML

/-! ## pairs -/

def PairsSound (known : List Int) (same : Bool) (ab : List (Nat × Nat)) : Prop :=
  ∀ p ∈ ab, p.1 < known.length ∧ p.2 < known.length ∧
    (if same then known.getD p.2 0 = known.getD p.1 0 ∧ p.2 ≠ p.1 else known.getD p.2 0 ≠ known.getD p.1 0)

theorem mem_bChoices {known same a b} (h : b ∈ bChoices known same a) :
    b < known.length ∧
    (if same then known.getD b 0 = known.getD a 0 ∧ b ≠ a else known.getD b 0 ≠ known.getD a 0) := by
  unfold bChoices at h
  rw [List.mem_filter, List.mem_range] at h
  obtain ⟨hb, hc⟩ := h
  refine ⟨hb, ?_⟩
  cases same <;> simp_all

theorem insertNew_sound {known same ab x} (h : PairsSound known same ab)
    (hx : x.1 < known.length ∧ x.2 < known.length ∧
      (if same then known.getD x.2 0 = known.getD x.1 0 ∧ x.2 ≠ x.1 else known.getD x.2 0 ≠ known.getD x.1 0)) :
    PairsSound known same (insertNew x ab) := by
  unfold insertNew; split
  · exact h
  · intro p hp
    rcases List.mem_append.mp hp with hp | hp
    · exact h p hp
    · simp at hp; subst hp; exact hx

theorem insertNew_nodup {ab : List (Nat × Nat)} {x} (h : ab.Nodup) : (insertNew x ab).Nodup := by
  unfold insertNew; split
  · exact h
  · rename_i hx
    exact List.Nodup.append h (List.nodup_singleton x) (by simpa using hx)

theorem insertNew_length {ab : List (Nat × Nat)} {x} : (insertNew x ab).length ≤ ab.length + 1 := by
  unfold insertNew; split <;> simp

theorem pairsRound_spec {known same} : ∀ (ds : List Draw) (ab ab' : List (Nat × Nat)),
    pairsRound known same ds ab = some ab' → PairsSound known same ab → ab.Nodup →
    PairsSound known same ab' ∧ ab'.Nodup ∧ ab'.length ≤ ab.length + ds.length := by
  intro ds
  induction ds with
  | nil => intro ab ab' h hs hn; simp [pairsRound] at h; subst h; exact ⟨hs, hn, by simp⟩
  | cons d ds ih =>
    intro ab ab' h hs hn
    unfold pairsRound at h
    split at h
    · rename_i ha
      simp only at h
      split at h
      · obtain ⟨a, b, c⟩ := ih ab ab' h hs hn
        exact ⟨a, b, by simp; omega⟩
      · split at h
        · rename_i hpick
          have hm := mem_bChoices hpick
          obtain ⟨a, b, c⟩ := ih _ ab' h
            (insertNew_sound hs ⟨ha, hm.1, hm.2⟩) (insertNew_nodup hn)
          refine ⟨a, b, ?_⟩
          have := @insertNew_length ab (d.aidx, d.pick)
          simp; omega
        · exact absurd h (by simp)
    · exact absurd h (by simp)

theorem pairsLoop_spec {known same n} : ∀ (fuel : Nat) (rounds : List (List Draw)) (ab ab' : List (Nat × Nat)),
    pairsLoop known same n fuel rounds ab = some ab' → PairsSound known same ab → ab.Nodup → ab.length ≤ n →
    PairsSound known same ab' ∧ ab'.Nodup ∧ ab'.length ≤ n := by
  intro fuel
  induction fuel with
  | zero => intro rounds ab ab' h hs hn hl; simp [pairsLoop] at h; subst h; exact ⟨hs, hn, hl⟩
  | succ fuel ih =>
    intro rounds ab ab' h hs hn hl
    unfold pairsLoop at h
    split at h
    · simp at h; subst h; exact ⟨hs, hn, hl⟩
    · rename_i hlt
      split at h
      · exact absurd h (by simp)
      · rename_i r rs
        split at h
        · rename_i hr
          split at h
          · rename_i ab1 hround
            obtain ⟨a, b, c⟩ := pairsRound_spec r ab ab1 hround hs hn
            exact ih rs ab1 ab' h a b (by omega)
          · exact absurd h (by simp)
        · exact absurd h (by simp)

theorem knownIdx_nodup (labels : List Int) : (knownIdx labels).Nodup :=
  (List.nodup_range).filter _

theorem knownIdx_getD (labels : List Int) (j : Nat) (hj : j < (knownIdx labels).length) :
    (knownIdx labels).getD j 0 = (knownIdx labels)[j] := by
  simp [List.getD_eq_getElem?_getD, List.getElem?_eq_getElem hj]

theorem knownIdx_spec (labels : List Int) (j : Nat) (hj : j < (knownIdx labels).length) :
    (knownIdx labels).getD j 0 < labels.length ∧ 0 ≤ labels.getD ((knownIdx labels).getD j 0) (-1) := by
  rw [knownIdx_getD labels j hj]
  have hmem : (knownIdx labels)[j] ∈ knownIdx labels := List.getElem_mem hj
  generalize (knownIdx labels)[j] = i at hmem
  unfold knownIdx at hmem
  rw [List.mem_filter, List.mem_range] at hmem
  exact ⟨hmem.1, by simpa using hmem.2⟩

theorem knownIdx_inj (labels : List Int) (i j : Nat) (hi : i < (knownIdx labels).length)
    (hj : j < (knownIdx labels).length) (h : (knownIdx labels).getD i 0 = (knownIdx labels).getD j 0) : i = j := by
  rw [knownIdx_getD labels i hi, knownIdx_getD labels j hj] at h
  exact (List.Nodup.getElem_inj_iff (knownIdx_nodup labels)).mp h

theorem knownLabels_getD (labels : List Int) (j : Nat) (hj : j < (knownIdx labels).length) :
    (knownLabels labels).getD j 0 = labels.getD ((knownIdx labels).getD j 0) (-1) := by
  have hj' : j < (knownLabels labels).length := by simpa [knownLabels] using hj
  rw [knownIdx_getD labels j hj]
  simp [knownLabels, List.getD_eq_getElem?_getD, List.getElem?_eq_getElem hj]

theorem knownLabels_length (labels : List Int) : (knownLabels labels).length = (knownIdx labels).length := by
  simp [knownLabels]

/-- what soundness means in the caller's frame -/
def PairsSoundCaller (labels : List Int) (same : Bool) (qs : List (Nat × Nat)) : Prop :=
  ∀ q ∈ qs, q.1 < labels.length ∧ q.2 < labels.length ∧
    0 ≤ labels.getD q.1 (-1) ∧ 0 ≤ labels.getD q.2 (-1) ∧
    (if same then labels.getD q.2 (-1) = labels.getD q.1 (-1) ∧ q.2 ≠ q.1
     else labels.getD q.2 (-1) ≠ labels.getD q.1 (-1))

theorem mapBack_sound (labels : List Int) (same : Bool) (ab : List (Nat × Nat))
    (hs : PairsSound (knownLabels labels) same ab) : PairsSoundCaller labels same (mapBack labels ab) := by
  intro q hq
  unfold mapBack at hq
  simp only [List.mem_map] at hq
  obtain ⟨p, hp, rfl⟩ := hq
  obtain ⟨h1, h2, h3⟩ := hs p hp
  rw [knownLabels_length] at h1 h2
  obtain ⟨a1, a2⟩ := knownIdx_spec labels p.1 h1
  obtain ⟨b1, b2⟩ := knownIdx_spec labels p.2 h2
  refine ⟨a1, b1, a2, b2, ?_⟩
  rw [knownLabels_getD labels p.1 h1, knownLabels_getD labels p.2 h2] at h3
  cases same with
  | true =>
    simp only [if_true] at h3 ⊢
    refine ⟨h3.1, fun heq => h3.2 ?_⟩
    exact knownIdx_inj labels p.2 p.1 h2 h1 heq
  | false => simpa using h3

theorem mapBack_nodup (labels : List Int) (same : Bool) (ab : List (Nat × Nat))
    (hs : PairsSound (knownLabels labels) same ab) (hn : ab.Nodup) : (mapBack labels ab).Nodup := by
  unfold mapBack
  apply List.Nodup.map_on _ hn
  intro p hp p' hp' heq
  obtain ⟨h1, h2, _⟩ := hs p hp
  obtain ⟨h1', h2', _⟩ := hs p' hp'
  rw [knownLabels_length] at h1 h2 h1' h2'
  simp only [Prod.mk.injEq] at heq
  have e1 := knownIdx_inj labels p.1 p'.1 h1 h1' heq.1
  have e2 := knownIdx_inj labels p.2 p'.2 h2 h2' heq.2
  exact Prod.ext e1 e2

/-- **pairs are sound, for every oracle**: positive pairs join two distinct points with the same
known label, negative pairs points with different known labels; indices are positions in the caller's
array and never carry an unknown label; no ordered pair twice; at most `n` pairs; a warning exactly
when fewer than `n` were found. -/
theorem C07_pairs_sound (labels : List Int) (same : Bool) (n : Nat) (rounds : List (List Draw))
    (qs : List (Nat × Nat)) (w : Bool) (h : pairsOf labels same n rounds = some (qs, w)) :
    PairsSoundCaller labels same qs ∧ qs.Nodup ∧ qs.length ≤ n ∧ (w = true ↔ qs.length < n) := by
  unfold pairsOf at h
  cases hl : pairsLoop (knownLabels labels) same n 10 rounds [] with
  | none => rw [hl] at h; simp at h
  | some ab =>
    rw [hl] at h
    simp only [Option.map_some, Option.some.injEq, Prod.mk.injEq] at h
    obtain ⟨rfl, rfl⟩ := h
    obtain ⟨hs, hn, hlen⟩ := pairsLoop_spec 10 rounds [] ab hl (by intro p hp; simp at hp) List.nodup_nil (Nat.zero_le _)
    have htake : ab.take n = ab := List.take_of_length_le hlen
    rw [htake]
    refine ⟨mapBack_sound labels same ab hs, mapBack_nodup labels same ab hs hn, ?_, ?_⟩
    · simpa [mapBack] using hlen
    · simp [mapBack]

/-- points with a negative (unknown) label never appear in any pair -/
theorem C07_unknown_never (labels : List Int) (same : Bool) (n : Nat) (rounds) (qs w)
    (h : pairsOf labels same n rounds = some (qs, w)) :
    ∀ q ∈ qs, 0 ≤ labels.getD q.1 (-1) ∧ 0 ≤ labels.getD q.2 (-1) := by
  intro q hq
  obtain ⟨hs, _⟩ := C07_pairs_sound labels same n rounds qs w h
  exact ⟨(hs q hq).2.2.1, (hs q hq).2.2.2.1⟩

/-- with `same_length` both kinds are returned equally many; each is a prefix of what was found -/
theorem C07_same_length (labels : List Int) (n : Nat) (pr nr) (pos neg : List (Nat × Nat)) (wp wn : Bool)
    (h : positiveNegativePairs labels n true pr nr = some (pos, neg, wp, wn)) : pos.length = neg.length := by
  unfold positiveNegativePairs at h
  cases h1 : pairsOf labels true n pr with
  | none => rw [h1] at h; simp at h
  | some a =>
    cases h2 : pairsOf labels false n nr with
    | none => rw [h1, h2] at h; simp at h
    | some b =>
      obtain ⟨p0, w0⟩ := a; obtain ⟨n0, w1⟩ := b
      rw [h1, h2] at h
      simp only [Bool.true_and] at h
      split at h
      · simp only [Option.some.injEq, Prod.mk.injEq] at h
        obtain ⟨rfl, rfl, _, _⟩ := h
        simp [List.length_take]
      · rename_i hne
        simp only [Option.some.injEq, Prod.mk.injEq] at h
        obtain ⟨rfl, rfl, _, _⟩ := h
        simpa using hne

/-- the output is a function of labels, parameters and draws (same seed ⇒ same constraints) -/
theorem C07_deterministic (labels : List Int) (same : Bool) (n : Nat) (r1 r2 : List (List Draw)) (h : r1 = r2) :
    pairsOf labels same n r1 = pairsOf labels same n r2 := by rw [h]

/-! ## chunks -/

def chunkPot (size : Nat) (s : CState) : Nat := s.idx + maxChunks size s.classes

theorem pickClass_lt {k rs c rs'} (hk : 0 < k) (h : pickClass k rs = some (c, rs')) : c < k := by
  unfold pickClass at h
  split at h
  · simp at h; omega
  · split at h
    · simp at h
    · split at h
      · simp at h; omega
      · simp at h

theorem sum_map_eraseIdx (f : List Nat → Nat) (l : List (List Nat)) (c : Nat) (hc : c < l.length) :
    (l.map f).sum = ((l.eraseIdx c).map f).sum + f (l.getD c []) := by
  induction l generalizing c with
  | nil => simp at hc
  | cons a l ih =>
    cases c with
    | zero => simp; omega
    | succ c =>
      simp only [List.length_cons, Nat.add_lt_add_iff_right] at hc
      have := ih c hc
      simp only [List.map_cons, List.sum_cons, List.eraseIdx_cons_succ, List.getD_cons_succ] at *
      omega

theorem sum_map_set (f : List Nat → Nat) (l : List (List Nat)) (c : Nat) (hc : c < l.length) (x : List Nat) :
    ((l.set c x).map f).sum + f (l.getD c []) = (l.map f).sum + f x := by
  induction l generalizing c with
  | nil => simp at hc
  | cons a l ih =>
    cases c with
    | zero => simp; omega
    | succ c =>
      simp only [List.length_cons, Nat.add_lt_add_iff_right] at hc
      have := ih c hc
      simp only [List.map_cons, List.sum_cons, List.set_cons_succ, List.getD_cons_succ] at *
      omega

theorem filter_notMem_length (inds ii : List Nat) (hn : ii.Nodup) (hi : inds.Nodup) (hsub : ∀ x ∈ ii, x ∈ inds) :
    (inds.filter fun x => decide (x ∉ ii)).length + ii.length = inds.length := by
  induction inds generalizing ii with
  | nil =>
    have : ii = [] := by
      cases ii with
      | nil => rfl
      | cons a t => exact absurd (hsub a List.mem_cons_self) (by simp)
    simp [this]
  | cons a t ih =>
    have hat : a ∉ t := (List.nodup_cons.mp hi).1
    have ht : t.Nodup := (List.nodup_cons.mp hi).2
    by_cases ha : a ∈ ii
    · have hsub' : ∀ x ∈ ii.erase a, x ∈ t := by
        intro x hx
        have hx' : x ∈ ii := List.mem_of_mem_erase hx
        have hne : x ≠ a := by
          intro h; subst h
          exact (List.Nodup.not_mem_erase hn) hx
        rcases List.mem_cons.mp (hsub x hx') with h | h
        · exact absurd h hne
        · exact h
      have ih' := ih (ii.erase a) (hn.erase a) ht hsub'
      have hlen : (ii.erase a).length + 1 = ii.length := by
        rw [List.length_erase_of_mem ha]
        have : 0 < ii.length := List.length_pos_of_mem ha
        omega
      have hfilt : (t.filter fun x => decide (x ∉ ii.erase a)) = t.filter fun x => decide (x ∉ ii) := by
        apply List.filter_congr
        intro x hx
        have hxa : x ≠ a := fun h => hat (h ▸ hx)
        simp [List.mem_erase_of_ne hxa]
      simp only [List.filter_cons, ha, not_true_eq_false, decide_false, List.length_cons]
      simp only [Bool.false_eq_true, if_false]
      rw [hfilt] at ih'
      omega
    · have hsub' : ∀ x ∈ ii, x ∈ t := by
        intro x hx
        rcases List.mem_cons.mp (hsub x hx) with h | h
        · exact absurd (h ▸ hx) ha
        · exact h
      have ih' := ih ii hn ht hsub'
      simp only [List.filter_cons, ha, not_false_eq_true, decide_true, if_true, List.length_cons]
      omega

theorem getD_mem {l : List (List Nat)} {c : Nat} (hc : c < l.length) : l.getD c [] ∈ l := by
  have : l.getD c [] = l[c] := by simp [List.getD_eq_getElem?_getD, List.getElem?_eq_getElem hc]
  rw [this]; exact List.getElem_mem hc

def Disj (a b : List Nat) : Prop := ∀ x ∈ a, x ∉ b

theorem pairwise_set_subset {l : List (List Nat)} {c : Nat} {y : List Nat} (hc : c < l.length)
    (hp : l.Pairwise Disj) (hy : ∀ x ∈ y, x ∈ l.getD c []) : (l.set c y).Pairwise Disj := by
  rw [List.pairwise_iff_getElem] at hp ⊢
  intro i j hi hj hij
  simp only [List.length_set] at hi hj
  have hget : l.getD c [] = l[c] := by simp [List.getD_eq_getElem?_getD, List.getElem?_eq_getElem hc]
  rw [hget] at hy
  rw [List.getElem_set, List.getElem_set]
  by_cases h1 : c = i
  · subst h1
    have h2 : ¬ c = j := by omega
    simp only [if_true, h2, if_false]
    intro x hx; exact hp c j hi hj hij x (hy x hx)
  · by_cases h2 : c = j
    · subst h2
      simp only [h1, if_false, if_true]
      intro x hx hxy; exact hp i c hi hj hij x hx (hy x hxy)
    · simp only [h1, h2, if_false]; exact hp i j hi hj hij

/-- invariant of the chunk state relative to the initial classes `cl0`: remaining classes are
duplicate-free, mutually disjoint and each inside one initial class; every produced chunk has exactly
`size` distinct members of one initial class; chunks are disjoint from each other and from what
remains -/
structure ChunkInv (size : Nat) (cl0 : List (List Nat)) (s : CState) : Prop where
  classNodup : ∀ c ∈ s.classes, c.Nodup
  classDisj : s.classes.Pairwise Disj
  classSub : ∀ c ∈ s.classes, ∃ c0 ∈ cl0, ∀ x ∈ c, x ∈ c0
  chunkLen : ∀ ch ∈ s.chunks, ch.length = size ∧ ch.Nodup
  chunkSub : ∀ ch ∈ s.chunks, ∃ c0 ∈ cl0, ∀ x ∈ ch, x ∈ c0
  count : s.chunks.length = s.idx
  chunkClass : ∀ ch ∈ s.chunks, ∀ c ∈ s.classes, Disj ch c
  chunkDisj : s.chunks.Pairwise Disj

theorem disj_of_pairwise_ne {l : List (List Nat)} (hp : l.Pairwise Disj) {i j : Nat} (hi : i < l.length)
    (hj : j < l.length) (hne : i ≠ j) : Disj l[i] l[j] := by
  rw [List.pairwise_iff_getElem] at hp
  rcases Nat.lt_or_gt_of_ne hne with h | h
  · exact hp i j hi hj h
  · intro x hx hxj; exact hp j i hj hi h x hxj hx

/-- the potential `idx + Σ ⌊|class|/size⌋`, `idx ≤ n` and the structural invariant are preserved by
the loop, for every oracle and every fuel -/
theorem chunksLoop_inv (size n : Nat) (cl0 : List (List Nat)) (hsize : 0 < size) :
    ∀ (fuel : Nat) (s s' : CState) (rs cs),
    chunksLoop size n fuel s rs cs = some s' →
    ChunkInv size cl0 s → s.idx ≤ n →
    chunkPot size s' = chunkPot size s ∧ s'.idx ≤ n ∧ ChunkInv size cl0 s' := by
  intro fuel
  induction fuel with
  | zero => intro s s' rs cs h hinv hle; simp [chunksLoop] at h; subst h; exact ⟨rfl, hle, hinv⟩
  | succ fuel ih =>
    intro s s' rs cs h hinv hle
    unfold chunksLoop at h
    split at h
    · rename_i hcond
      split at h
      · simp at h
      · rename_i c rs' hpick
        have hlen : 0 < s.classes.length := List.length_pos_of_ne_nil hcond.2
        have hc : c < s.classes.length := pickClass_lt hlen hpick
        simp only at h
        split at h
        · rename_i hsmall
          have hinv' : ChunkInv size cl0 { s with classes := s.classes.eraseIdx c } :=
            { classNodup := fun x hx => hinv.classNodup x (List.mem_of_mem_eraseIdx hx)
              classDisj := hinv.classDisj.sublist (List.eraseIdx_sublist _ _)
              classSub := fun x hx => hinv.classSub x (List.mem_of_mem_eraseIdx hx)
              chunkLen := hinv.chunkLen
              chunkSub := hinv.chunkSub
              count := hinv.count
              chunkClass := fun ch hch x hx => hinv.chunkClass ch hch x (List.mem_of_mem_eraseIdx hx)
              chunkDisj := hinv.chunkDisj }
          obtain ⟨h1, h2, h3⟩ := ih _ s' rs' cs h hinv' hle
          refine ⟨?_, h2, h3⟩
          rw [h1]
          unfold chunkPot maxChunks
          have := sum_map_eraseIdx (fun c => c.length / size) s.classes c hc
          simp only at this ⊢
          have hz : (s.classes.getD c []).length / size = 0 := Nat.div_eq_of_lt hsmall
          omega
        · rename_i hbig
          split at h
          · simp at h
          · rename_i ii cs'
            split at h
            · rename_i hvalid
              obtain ⟨hl, hn, hsub⟩ := hvalid
              have hmemc : s.classes.getD c [] ∈ s.classes := getD_mem hc
              have hget : s.classes.getD c [] = s.classes[c] := by
                simp [List.getD_eq_getElem?_getD, List.getElem?_eq_getElem hc]
              have hinds : (s.classes.getD c []).Nodup := hinv.classNodup _ hmemc
              have hfsub : ∀ x ∈ (s.classes.getD c []).filter (fun x => decide (x ∉ ii)), x ∈ s.classes.getD c [] :=
                fun x hx => (List.mem_filter.mp hx).1
              have hinv' : ChunkInv size cl0
                  { classes := s.classes.set c ((s.classes.getD c []).filter fun x => decide (x ∉ ii)),
                    idx := s.idx + 1, chunks := s.chunks ++ [ii] } :=
                { classNodup := by
                    intro x hx
                    rcases List.mem_or_eq_of_mem_set hx with hx | hx
                    · exact hinv.classNodup x hx
                    · subst hx; exact hinds.filter _
                  classDisj := pairwise_set_subset hc hinv.classDisj hfsub
                  classSub := by
                    intro x hx
                    rcases List.mem_or_eq_of_mem_set hx with hx | hx
                    · exact hinv.classSub x hx
                    · subst hx
                      obtain ⟨c0, hc0, hin⟩ := hinv.classSub _ hmemc
                      exact ⟨c0, hc0, fun y hy => hin y (hfsub y hy)⟩
                  chunkLen := by
                    intro ch hch
                    rcases List.mem_append.mp hch with hch | hch
                    · exact hinv.chunkLen ch hch
                    · simp at hch; subst hch; exact ⟨hl, hn⟩
                  chunkSub := by
                    intro ch hch
                    rcases List.mem_append.mp hch with hch | hch
                    · exact hinv.chunkSub ch hch
                    · simp at hch; subst hch
                      obtain ⟨c0, hc0, hin⟩ := hinv.classSub _ hmemc
                      exact ⟨c0, hc0, fun y hy => hin y (hsub y hy)⟩
                  count := by simp [hinv.count]
                  chunkClass := by
                    intro ch hch cl hcl
                    rcases List.mem_append.mp hch with hch | hch
                    · rcases List.mem_or_eq_of_mem_set hcl with hcl | hcl
                      · exact hinv.chunkClass ch hch cl hcl
                      · subst hcl
                        intro x hx hxin
                        exact hinv.chunkClass ch hch _ hmemc x hx (hfsub x hxin)
                    · simp at hch; subst hch
                      obtain ⟨j, hj, hjeq⟩ := List.getElem_of_mem hcl
                      simp only [List.length_set] at hj
                      rw [List.getElem_set] at hjeq
                      by_cases hcj : c = j
                      · subst hcj
                        simp only [if_true] at hjeq
                        subst hjeq
                        intro x hx hxin
                        have := (List.mem_filter.mp hxin).2
                        simp at this; exact this hx
                      · simp only [hcj, if_false] at hjeq
                        subst hjeq
                        intro x hx hxin
                        have hd := disj_of_pairwise_ne hinv.classDisj hc hj hcj
                        exact hd x (hget ▸ hsub x hx) hxin
                  chunkDisj := by
                    rw [List.pairwise_append]
                    refine ⟨hinv.chunkDisj, by simp, ?_⟩
                    intro a ha b hb
                    simp at hb; subst hb
                    intro x hx hxb
                    exact hinv.chunkClass a ha _ hmemc x hx (hsub x hxb) }
              obtain ⟨h1, h2, h3⟩ := ih _ s' rs' cs' h hinv' (by simp; omega)
              refine ⟨?_, h2, h3⟩
              rw [h1]
              unfold chunkPot maxChunks
              have hs := sum_map_set (fun c => c.length / size) s.classes c hc
                ((s.classes.getD c []).filter fun x => decide (x ∉ ii))
              have hf := filter_notMem_length (s.classes.getD c []) ii hn hinds hsub
              simp only at hs hf ⊢
              have hdiv : ((s.classes.getD c []).filter fun x => decide (x ∉ ii)).length / size + 1
                  = (s.classes.getD c []).length / size := by
                have : (s.classes.getD c []).length
                    = ((s.classes.getD c []).filter fun x => decide (x ∉ ii)).length + size := by omega
                rw [this, Nat.add_div_right _ hsize]
              omega
            · simp at h
    · simp at h; subst h; exact ⟨rfl, hle, hinv⟩

/-- termination: with fuel above the measure `Σ|class| + #classes` the loop stops because its own
exit condition holds (never because fuel ran out) -/
theorem chunksLoop_exit (size n : Nat) (hsize : 0 < size) : ∀ (fuel : Nat) (s s' : CState) (rs cs),
    chunksLoop size n fuel s rs cs = some s' → chunkMeasure s < fuel →
    ¬ (s'.idx < n ∧ s'.classes ≠ []) := by
  intro fuel
  induction fuel with
  | zero => intro s s' rs cs _ hm; omega
  | succ fuel ih =>
    intro s s' rs cs h hm
    unfold chunksLoop at h
    split at h
    · rename_i hcond
      split at h
      · simp at h
      · rename_i c rs' hpick
        have hlen : 0 < s.classes.length := List.length_pos_of_ne_nil hcond.2
        have hc : c < s.classes.length := pickClass_lt hlen hpick
        simp only at h
        split at h
        · apply ih _ s' rs' cs h
          unfold chunkMeasure at hm ⊢
          have := sum_map_eraseIdx List.length s.classes c hc
          simp only [List.length_eraseIdx_of_lt hc] at this ⊢
          omega
        · rename_i hbig
          split at h
          · simp at h
          · rename_i ii cs'
            split at h
            · rename_i hvalid
              apply ih _ s' rs' cs' h
              unfold chunkMeasure at hm ⊢
              have hs := sum_map_set List.length s.classes c hc
                ((s.classes.getD c []).filter fun x => decide (x ∉ ii))
              simp only [List.length_set] at hs ⊢
              have hdec : ((s.classes.getD c []).filter fun x => decide (x ∉ ii)).length < (s.classes.getD c []).length := by
                obtain ⟨hl, _, hsub⟩ := hvalid
                have hpos : 0 < ii.length := by omega
                obtain ⟨x, hx⟩ := List.exists_mem_of_length_pos hpos
                apply List.length_filter_lt_length_iff_exists.mpr
                exact ⟨x, hsub x hx, by simpa using hx⟩
              omega
            · simp at h
    · rename_i hcond; simp at h; subst h; exact hcond

/-- initial classes satisfy the invariant when they are duplicate-free and mutually disjoint -/
theorem chunkInv_init (size : Nat) (cl0 : List (List Nat)) (hnd : ∀ c ∈ cl0, c.Nodup) (hd : cl0.Pairwise Disj) :
    ChunkInv size cl0 { classes := cl0, idx := 0, chunks := [] } :=
  { classNodup := hnd, classDisj := hd, classSub := fun c hc => ⟨c, hc, fun _ h => h⟩
    chunkLen := by simp, chunkSub := by simp, count := rfl, chunkClass := by simp, chunkDisj := by simp }

/-- **chunks, for every oracle**: when `Σ ⌊|class|/size⌋ ≥ n` the loop produces exactly `n` chunks,
each of exactly `size` distinct members of one initial class, pairwise disjoint -/
theorem C07_chunks (size n : Nat) (cl0 : List (List Nat)) (hsize : 0 < size)
    (hnd : ∀ c ∈ cl0, c.Nodup) (hd : cl0.Pairwise Disj) (hmax : n ≤ maxChunks size cl0)
    (rs cs) (s' : CState)
    (h : chunksLoop size n (chunkMeasure { classes := cl0, idx := 0, chunks := [] } + 1)
          { classes := cl0, idx := 0, chunks := [] } rs cs = some s') :
    s'.chunks.length = n ∧
    (∀ ch ∈ s'.chunks, ch.length = size ∧ ch.Nodup ∧ ∃ c0 ∈ cl0, ∀ x ∈ ch, x ∈ c0) ∧
    s'.chunks.Pairwise Disj := by
  obtain ⟨hpot, hle, hinv⟩ := chunksLoop_inv size n cl0 hsize _ _ s' rs cs h (chunkInv_init size cl0 hnd hd) (Nat.zero_le _)
  have hexit := chunksLoop_exit size n hsize _ _ s' rs cs h (Nat.lt_succ_self _)
  have hidx : s'.idx = n := by
    by_cases hlt : s'.idx < n
    · have hnil : s'.classes = [] := by
        by_contra hne; exact hexit ⟨hlt, hne⟩
      unfold chunkPot at hpot
      simp only [hnil, maxChunks, List.map_nil, List.sum_nil, Nat.add_zero, Nat.zero_add] at hpot
      unfold maxChunks at hmax; omega
    · omega
  refine ⟨by rw [hinv.count, hidx], ?_, hinv.chunkDisj⟩
  intro ch hch
  exact ⟨(hinv.chunkLen ch hch).1, (hinv.chunkLen ch hch).2, hinv.chunkSub ch hch⟩

/-- and `ValueError` exactly when that many chunks are impossible -/
theorem C07_chunks_impossible (labels : List Int) (n size : Nat) (rs cs) :
    maxChunks size (classMembers labels) < n ↔ chunksOf labels n size rs cs = some (.error ()) := by
  unfold chunksOf
  constructor
  · intro h; simp [h]
  · intro h
    by_contra hn
    simp only [hn, if_false] at h
    cases hl : chunksLoop size n _ _ rs cs with
    | none => rw [hl] at h; simp at h
    | some s => rw [hl] at h; simp at h

/-! ## k-NN triplets -/

/-- membership: exactly the combinations (a, one of a's genuine neighbours, one of a's impostors) -/
theorem C07_knn_mem (members : List Nat) (gen imp : List (List Nat)) (t : Nat × Nat × Nat) :
    t ∈ classTriplets members gen imp ↔
      ∃ a gs is, (a, gs, is) ∈ members.zip (gen.zip imp) ∧ t.1 = a ∧ t.2.1 ∈ gs ∧ t.2.2 ∈ is := by
  unfold classTriplets
  simp only [List.mem_flatMap, List.mem_map]
  constructor
  · rintro ⟨⟨a, gs, is⟩, hmem, b, hb, c, hc, rfl⟩
    exact ⟨a, gs, is, hmem, rfl, hb, hc⟩
  · rintro ⟨a, gs, is, hmem, h1, h2, h3⟩
    exact ⟨(a, gs, is), hmem, t.2.1, h2, t.2.2, h3, by rw [← h1]⟩

/-- count: `Σ_a |genuine(a)| · |impostors(a)|` -/
theorem C07_knn_count (members : List Nat) (gen imp : List (List Nat)) :
    (classTriplets members gen imp).length =
      ((members.zip (gen.zip imp)).map fun (_, gs, is) => gs.length * is.length).sum := by
  unfold classTriplets
  rw [List.length_flatMap]
  congr 1
  apply List.map_congr_left
  rintro ⟨a, gs, is⟩ _
  simp only [List.length_flatMap, List.length_map, List.map_const', List.sum_replicate]
  exact smul_eq_mul ..
