import MLModel.History
import Mathlib.Data.List.Basic
/-!
# C17 — fitting is deterministic, side-effect free and history independent (state-machine theorems)
-/
open ML

variable {P D M T : Type}

/-- a fit determines model and `n_features_in_` from the parameters in force and its own data alone -/
theorem fit_determines (learn : P → D → M) (calib : M → D → T) (pl : Bool) (s : EstState P M T) (data : D) (nf : Nat) :
    (estStep learn calib pl s (.fit data nf)).model = some (learn s.params data) ∧
    (estStep learn calib pl s (.fit data nf)).nFeatures = some nf ∧
    (pl = true → (estStep learn calib pl s (.fit data nf)).threshold = some (calib (learn s.params data) data)) := by
  refine ⟨rfl, rfl, fun h => ?_⟩
  simp [estStep, h]

/-- operations other than `fit` leave the model and `n_features_in_` alone -/
theorem nonfit_keeps_model (learn : P → D → M) (calib : M → D → T) (pl : Bool) (s : EstState P M T) (op : EstOp P D T)
    (h : op.isFit = false) :
    (estStep learn calib pl s op).model = s.model ∧ (estStep learn calib pl s op).nFeatures = s.nFeatures := by
  cases op <;> simp_all [estStep, EstOp.isFit]
  all_goals (split <;> simp)

/-- **history independence**: after ANY history followed by `fit(data)` and then any operations that
are not fits, the model and `n_features_in_` are those of a fresh estimator (any initial state with the
same parameters in force) fitted once on `data` — whatever was fitted before, on whatever
dimensionality -/
theorem C17_history_independent (learn : P → D → M) (calib : M → D → T) (pl : Bool)
    (s0 : EstState P M T) (before : List (EstOp P D T)) (data : D) (nf : Nat) (after : List (EstOp P D T))
    (hafter : ∀ op ∈ after, op.isFit = false ∧ (∀ p, op ≠ .setParams p)) :
    let s := estRun learn calib pl s0 (before ++ [.fit data nf] ++ after)
    let pAtFit := (estRun learn calib pl s0 before).params
    s.model = some (learn pAtFit data) ∧ s.nFeatures = some nf := by
  intro s pAtFit
  have h1 : estRun learn calib pl s0 (before ++ [.fit data nf]) =
      estStep learn calib pl (estRun learn calib pl s0 before) (.fit data nf) := by
    simp [estRun, List.foldl_append]
  have gen : ∀ (after : List (EstOp P D T)) (s1 : EstState P M T), (∀ op ∈ after, op.isFit = false ∧ (∀ p, op ≠ .setParams p)) →
      (estRun learn calib pl s1 after).model = s1.model ∧ (estRun learn calib pl s1 after).nFeatures = s1.nFeatures := by
    intro after
    induction after with
    | nil => intro s1 _; exact ⟨rfl, rfl⟩
    | cons op rest ih =>
      intro s1 h
      simp only [estRun, List.foldl_cons]
      obtain ⟨e1, e2⟩ := nonfit_keeps_model learn calib pl s1 op (h op (List.mem_cons_self)).1
      obtain ⟨i1, i2⟩ := ih (estStep learn calib pl s1 op) (fun o ho => h o (List.mem_cons_of_mem _ ho))
      exact ⟨i1.trans e1, i2.trans e2⟩
  have h2 : s = estRun learn calib pl (estRun learn calib pl s0 (before ++ [.fit data nf])) after := by
    simp [s, estRun, List.foldl_append]
  rw [h2]
  obtain ⟨g1, g2⟩ := gen after _ hafter
  rw [g1, g2, h1]
  exact ⟨rfl, rfl⟩

/-- repeating the same fit gives the same model: `fit` is a function of (parameters, data) -/
theorem C17_refit_same (learn : P → D → M) (calib : M → D → T) (pl : Bool) (s : EstState P M T) (data : D) (nf : Nat) :
    (estStep learn calib pl (estStep learn calib pl s (.fit data nf)) (.fit data nf)).model =
    (estStep learn calib pl s (.fit data nf)).model := rfl

/-- query operations, `get_metric`, `get_mahalanobis_matrix`, `clone` and a pickle round trip do not
change the fitted state at all -/
theorem C17_queries_pure (learn : P → D → M) (calib : M → D → T) (pl : Bool) (s : EstState P M T) :
    estStep learn calib pl s .query = s ∧ estStep learn calib pl s .getMetric = s ∧
    estStep learn calib pl s .getMahalanobis = s ∧ estStep learn calib pl s .clone = s ∧
    estStep learn calib pl s .pickleRoundTrip = s := ⟨rfl, rfl, rfl, rfl, rfl⟩

/-- a handle obtained from `get_metric` keeps evaluating with the model it was created from, whatever
happens to the estimator afterwards (it holds a copy) -/
theorem C17_handles_stable (learn : P → D → M) (calib : M → D → T) (pl : Bool) (s : EstState P M T)
    (later : List (EstOp P D T)) :
    let handle := metricHandle s
    handle = s.model ∧ (∀ _s' : EstState P M T, _s' = estRun learn calib pl s later → handle = s.model) :=
  ⟨rfl, fun _ _ => rfl⟩

/-- no operation writes into its arguments -/
theorem C17_no_writes (op : EstOp P D T) : argWriteSet op = [] := rfl

/-- hyper-parameters change only through `set_params` -/
theorem C17_params_unchanged (learn : P → D → M) (calib : M → D → T) (pl : Bool) (s : EstState P M T) (op : EstOp P D T)
    (h : ∀ p, op ≠ .setParams p) : (estStep learn calib pl s op).params = s.params := by
  cases op <;> simp_all [estStep]
  all_goals (split <;> simp)

/-- the stored threshold is the one written by the last threshold-writing operation (or the last fit) -/
theorem C17_threshold_last (learn : P → D → M) (calib : M → D → T) (s : EstState P M T) (t : T) (v : D) (m : M)
    (hm : s.model = some m) :
    (estStep learn calib true s (.setThreshold t)).threshold = some t ∧
    (estStep learn calib true s (.calibrate v)).threshold = some (calib m v) := by
  simp [estStep, hm]

/-! non-vacuity: a concrete two-fit history on data of different dimensionality -/
example : (estRun (fun (p : Nat) (d : List Nat) => p + d.sum) (fun m _ => m) false
    ⟨1, none, none, none⟩ [.fit [1, 2] 2, .query, .fit [5] 7, .getMetric]).nFeatures = some 7 := by decide
