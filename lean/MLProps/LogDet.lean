import MLProps.Bridge
import Mathlib.Analysis.Matrix.Spectrum
import Mathlib.Analysis.Matrix.PosDef
import Mathlib.Analysis.Matrix.Order
import Mathlib.Algebra.BigOperators.Group.List.Basic
/-!
# `log det` inequalities shared by C11 (ITML optimality) and C13 (SDML weak duality)
-/
open Matrix

variable {d : ℕ}

/-- `log det X ≤ tr X − d` for positive definite `X`: the inequality behind weak duality of the
graphical lasso (and behind the non-negativity of the LogDet divergence in C11/C12) -/
theorem log_det_le_trace_sub (X : Matrix (Fin d) (Fin d) ℝ) (hX : X.PosDef) :
    Real.log X.det ≤ X.trace - d := by
  have hH := hX.isHermitian
  rw [hH.det_eq_prod_eigenvalues, hH.trace_eq_sum_eigenvalues]
  simp only [RCLike.ofReal_real_eq_id, id_eq]
  rw [Real.log_prod (fun i _ => (hX.eigenvalues_pos i).ne')]
  have : ∑ i, Real.log (hH.eigenvalues i) ≤ ∑ i, (hH.eigenvalues i - 1) :=
    Finset.sum_le_sum fun i _ => Real.log_le_sub_one_of_pos (hX.eigenvalues_pos i)
  calc ∑ i, Real.log (hH.eigenvalues i) ≤ ∑ i, (hH.eigenvalues i - 1) := this
    _ = ∑ i, hH.eigenvalues i - d := by simp [Finset.sum_sub_distrib]

/-- `log det W + log det N ≤ tr(W·N) − d` for positive definite `W = BᵀB` (B invertible) and `N` -/
theorem log_det_mul_le (B N : Matrix (Fin d) (Fin d) ℝ) (hB : IsUnit B.det) (hN : N.PosDef) :
    Real.log (Bᵀ * B).det + Real.log N.det ≤ ((Bᵀ * B) * N).trace - d := by
  have hinj : Function.Injective B.vecMul := by
    intro x y hxy
    have hBB : B * B⁻¹ = 1 := Matrix.mul_nonsing_inv B hB
    have hxy' : Matrix.vecMul x B = Matrix.vecMul y B := hxy
    have : Matrix.vecMul (Matrix.vecMul x B) B⁻¹ = Matrix.vecMul (Matrix.vecMul y B) B⁻¹ := by rw [hxy']
    simpa [Matrix.vecMul_vecMul, hBB] using this
  have hX : (B * N * Bᴴ).PosDef := hN.mul_mul_conjTranspose_same hinj
  have hX' : (B * N * Bᵀ).PosDef := by simpa [Matrix.conjTranspose_eq_transpose_of_trivial] using hX
  have hdet : (B * N * Bᵀ).det = (Bᵀ * B).det * N.det := by
    simp only [Matrix.det_mul, Matrix.det_transpose]; ring
  have htr : (B * N * Bᵀ).trace = ((Bᵀ * B) * N).trace := by
    rw [Matrix.trace_mul_comm, ← Matrix.mul_assoc]
  have hdB : 0 < (Bᵀ * B).det := by
    rw [Matrix.det_mul, Matrix.det_transpose]
    have : B.det ≠ 0 := hB.ne_zero
    exact mul_self_pos.mpr this
  have hdN : 0 < N.det := hN.det_pos
  have := log_det_le_trace_sub (B * N * Bᵀ) hX'
  rw [hdet, htr, Real.log_mul hdB.ne' hdN.ne'] at this
  exact this

open scoped MatrixOrder in
/-- the same for any two positive definite matrices (a factor `W = BᵀB` always exists) -/
theorem log_det_pd_le (W N : Matrix (Fin d) (Fin d) ℝ) (hW : W.PosDef) (hN : N.PosDef) :
    Real.log W.det + Real.log N.det ≤ (W * N).trace - d := by
  obtain ⟨B, hB⟩ := CStarAlgebra.nonneg_iff_eq_star_mul_self.mp hW.posSemidef.nonneg
  have hB' : W = Bᵀ * B := by
    rw [hB, Matrix.star_eq_conjTranspose, Matrix.conjTranspose_eq_transpose_of_trivial]
  have hdet : IsUnit B.det := by
    have h := hW.det_pos
    rw [hB', Matrix.det_mul, Matrix.det_transpose] at h
    have : B.det ≠ 0 := by
      intro h0; rw [h0] at h; simp at h
    exact isUnit_iff_ne_zero.mpr this
  rw [hB']
  exact log_det_mul_le B N hdet hN

/-- equality in `log det X ≤ tr X − d` forces `X = 1` -/
theorem eq_one_of_log_det_eq (X : Matrix (Fin d) (Fin d) ℝ) (hX : X.PosDef)
    (h : X.trace - d ≤ Real.log X.det) : X = 1 := by
  have hH := hX.isHermitian
  have hev : ∀ i, hH.eigenvalues i = 1 := by
    rw [hH.det_eq_prod_eigenvalues, hH.trace_eq_sum_eigenvalues] at h
    simp only [RCLike.ofReal_real_eq_id, id_eq] at h
    rw [Real.log_prod (fun i _ => (hX.eigenvalues_pos i).ne')] at h
    have hle : ∀ i ∈ Finset.univ, Real.log (hH.eigenvalues i) ≤ hH.eigenvalues i - 1 :=
      fun i _ => Real.log_le_sub_one_of_pos (hX.eigenvalues_pos i)
    have hsum : ∑ i, Real.log (hH.eigenvalues i) = ∑ i, (hH.eigenvalues i - 1) := by
      apply le_antisymm (Finset.sum_le_sum hle)
      have : ∑ i, (hH.eigenvalues i - 1) = ∑ i, hH.eigenvalues i - d := by simp [Finset.sum_sub_distrib]
      rw [this]; exact h
    have := (Finset.sum_eq_sum_iff_of_le hle).mp hsum
    intro i
    by_contra hne
    have := Real.log_lt_sub_one_of_pos (hX.eigenvalues_pos i) hne
    linarith [this, (Finset.sum_eq_sum_iff_of_le hle).mp hsum i (Finset.mem_univ i)]
  have hs := hH.spectral_theorem
  have hd : diagonal ((RCLike.ofReal : ℝ → ℝ) ∘ hH.eigenvalues) = 1 := by
    rw [← Matrix.diagonal_one]; congr 1; funext i; simp [hev i]
  rw [hd, map_one] at hs
  exact hs

open scoped MatrixOrder in
/-- equality in `log det W + log det N ≤ tr(W N) − d` forces `W N = 1` -/
theorem mul_eq_one_of_log_det_eq (W N : Matrix (Fin d) (Fin d) ℝ) (hW : W.PosDef) (hN : N.PosDef)
    (h : (W * N).trace - d ≤ Real.log W.det + Real.log N.det) : W * N = 1 := by
  obtain ⟨B, hB⟩ := CStarAlgebra.nonneg_iff_eq_star_mul_self.mp hW.posSemidef.nonneg
  have hB' : W = Bᵀ * B := by
    rw [hB, Matrix.star_eq_conjTranspose, Matrix.conjTranspose_eq_transpose_of_trivial]
  have hdW := hW.det_pos
  have hdet : IsUnit B.det := by
    have h := hW.det_pos
    rw [hB', Matrix.det_mul, Matrix.det_transpose] at h
    have : B.det ≠ 0 := by
      intro h0; rw [h0] at h; simp at h
    exact isUnit_iff_ne_zero.mpr this
  have hinj : Function.Injective B.vecMul := by
    intro x y hxy
    have hBB : B * B⁻¹ = 1 := Matrix.mul_nonsing_inv B hdet
    have hxy' : Matrix.vecMul x B = Matrix.vecMul y B := hxy
    have : Matrix.vecMul (Matrix.vecMul x B) B⁻¹ = Matrix.vecMul (Matrix.vecMul y B) B⁻¹ := by rw [hxy']
    simpa [Matrix.vecMul_vecMul, hBB] using this
  have hX : (B * N * Bᴴ).PosDef := hN.mul_mul_conjTranspose_same hinj
  have hX' : (B * N * Bᵀ).PosDef := by simpa [Matrix.conjTranspose_eq_transpose_of_trivial] using hX
  have hdetX : (B * N * Bᵀ).det = W.det * N.det := by
    rw [hB']; simp only [Matrix.det_mul, Matrix.det_transpose]; ring
  have htr : (B * N * Bᵀ).trace = (W * N).trace := by
    rw [hB', Matrix.trace_mul_comm, ← Matrix.mul_assoc]
  have hone : B * N * Bᵀ = 1 := by
    apply eq_one_of_log_det_eq _ hX'
    rw [hdetX, htr, Real.log_mul hdW.ne' hN.det_pos.ne']; exact h
  -- Bᵀ (B N Bᵀ) = Bᵀ, cancel Bᵀ on the right
  have hBt : IsUnit Bᵀ.det := by rw [Matrix.det_transpose]; exact hdet
  have h1 : W * N * Bᵀ = Bᵀ := by
    rw [hB']
    calc Bᵀ * B * N * Bᵀ = Bᵀ * (B * N * Bᵀ) := by simp only [Matrix.mul_assoc]
      _ = Bᵀ := by rw [hone, Matrix.mul_one]
  have h2 := congrArg (· * (Bᵀ)⁻¹) h1
  simp only [Matrix.mul_assoc, Matrix.mul_nonsing_inv _ hBt, Matrix.mul_one] at h2
  exact h2

