import Mathlib.Data.Matrix.Mul
import Mathlib.LinearAlgebra.Matrix.NonsingularInverse
import Mathlib.Data.Real.Basic
/-! The four Penrose equations determine the pseudo-inverse (Mathlib has no Moore–Penrose inverse). -/
open Matrix
variable {m n : ℕ}

/-- The four Penrose equations. -/
structure IsPinv (A : Matrix (Fin m) (Fin n) ℝ) (X : Matrix (Fin n) (Fin m) ℝ) : Prop where
  axa : A * X * A = A
  xax : X * A * X = X
  ax_symm : (A * X)ᵀ = A * X
  xa_symm : (X * A)ᵀ = X * A

theorem IsPinv.eq_mul {A : Matrix (Fin m) (Fin n) ℝ} {X Y : Matrix (Fin n) (Fin m) ℝ}
    (hX : IsPinv A X) (hY : IsPinv A Y) : X = X * A * Y := by
  calc X = X * A * X := hX.xax.symm
    _ = X * (A * X)ᵀ := by rw [hX.ax_symm, Matrix.mul_assoc]
    _ = X * ((A * Y * A) * X)ᵀ := by rw [hY.axa]
    _ = X * ((A * Y) * (A * X))ᵀ := by rw [Matrix.mul_assoc (A * Y) A X]
    _ = X * ((A * X)ᵀ * (A * Y)ᵀ) := by rw [Matrix.transpose_mul]
    _ = X * ((A * X) * (A * Y)) := by rw [hX.ax_symm, hY.ax_symm]
    _ = (X * A * X) * A * Y := by simp only [Matrix.mul_assoc]
    _ = X * A * Y := by rw [hX.xax]

theorem IsPinv.eq_mul' {A : Matrix (Fin m) (Fin n) ℝ} {X Y : Matrix (Fin n) (Fin m) ℝ}
    (hX : IsPinv A X) (hY : IsPinv A Y) : Y = X * A * Y := by
  calc Y = Y * A * Y := hY.xax.symm
    _ = (Y * A)ᵀ * Y := by rw [hY.xa_symm]
    _ = (Y * (A * X * A))ᵀ * Y := by rw [hX.axa]
    _ = ((Y * A) * (X * A))ᵀ * Y := by simp only [Matrix.mul_assoc]
    _ = ((X * A)ᵀ * (Y * A)ᵀ) * Y := by rw [Matrix.transpose_mul]
    _ = ((X * A) * (Y * A)) * Y := by rw [hX.xa_symm, hY.xa_symm]
    _ = X * A * (Y * A * Y) := by simp only [Matrix.mul_assoc]
    _ = X * A * Y := by rw [hY.xax]

/-- The pseudo-inverse is unique. -/
theorem IsPinv.unique {A : Matrix (Fin m) (Fin n) ℝ} {X Y : Matrix (Fin n) (Fin m) ℝ}
    (hX : IsPinv A X) (hY : IsPinv A Y) : X = Y :=
  (hX.eq_mul hY).trans (hX.eq_mul' hY).symm

/-- For an invertible square matrix the pseudo-inverse is the inverse. -/
theorem IsPinv.eq_inv {A X : Matrix (Fin n) (Fin n) ℝ} (hA : IsUnit A.det) (hX : IsPinv A X) : X = A⁻¹ := by
  have h : IsPinv A A⁻¹ :=
    { axa := by rw [Matrix.mul_nonsing_inv A hA, Matrix.one_mul]
      xax := by rw [Matrix.nonsing_inv_mul A hA, Matrix.one_mul]
      ax_symm := by rw [Matrix.mul_nonsing_inv A hA, Matrix.transpose_one]
      xa_symm := by rw [Matrix.nonsing_inv_mul A hA, Matrix.transpose_one] }
  exact hX.unique h
