import MLProps.Bridge
import MLProps.C20
/-!
# C15 — SCML learns a non-negative combination of its basis by the documented scheme

For EVERY batch sequence (the random batches are an oracle argument of the model).
-/
open ML

variable {nt nb d : ℕ}

/-- after any stochastic step the weights are non-negative: the AdaGrad scale is negative for `γ > 0`
and the proximal term `min(avg + β, 0)` is non-positive -/
theorem scmlStep_w_nonneg (β γ : ℝ) (hγ : 0 < γ) (distDiff : Vector (Vector ℝ nb) nt) (bs iter : ℕ)
    (idx : List (Fin nt)) (s : ScmlState ℝ nb) (i : Fin nb) :
    0 ≤ (scmlStep β γ distDiff bs iter idx s).w[i] := by
  simp only [scmlStep, Fin.getElem_fin, Vector.getElem_ofFn, sqrt_real, smin_real, lit_real, ofNat_real]
  apply mul_nonneg_of_nonpos_of_nonpos
  · apply div_nonpos_of_nonpos_of_nonneg
    · have : (0:ℝ) ≤ ((iter + 1 : ℕ) : ℝ) := Nat.cast_nonneg _
      linarith
    · apply mul_nonneg hγ.le
      exact add_nonneg (by norm_num) (Real.sqrt_nonneg _)
  · exact min_le_right _ _

def AllNonneg (v : Vector ℝ nb) : Prop := ∀ i : Fin nb, 0 ≤ v[i]

theorem scmlCheckpoint_fields (obj : ℝ) (s : ScmlState ℝ nb) :
    (scmlCheckpoint obj s).w = s.w ∧ ((scmlCheckpoint obj s).bestW = s.bestW ∨ (scmlCheckpoint obj s).bestW = s.w) := by
  unfold scmlCheckpoint
  cases s.bestObj with
  | none => exact ⟨rfl, Or.inr rfl⟩
  | some b => simp only; split <;> simp

/-- **weights are non-negative for every batch sequence**: the current and the best-checkpoint weights -/
theorem C15_w_nonneg (β γ : ℝ) (hγ : 0 < γ) (distDiff : Vector (Vector ℝ nb) nt) (bs oi : ℕ)
    (batches : List (List (Fin nt))) (iter : ℕ) (s : ScmlState ℝ nb)
    (hw : AllNonneg s.w) (hb : AllNonneg s.bestW) :
    AllNonneg (scmlRun β γ distDiff bs oi batches iter s).w ∧ AllNonneg (scmlRun β γ distDiff bs oi batches iter s).bestW := by
  induction batches generalizing iter s with
  | nil => exact ⟨hw, hb⟩
  | cons idx rest ih =>
    simp only [scmlRun]
    have h1 : AllNonneg (scmlStep β γ distDiff bs iter idx s).w := fun i => scmlStep_w_nonneg β γ hγ distDiff bs iter idx s i
    have h1b : (scmlStep β γ distDiff bs iter idx s).bestW = s.bestW := by simp [scmlStep]
    apply ih
    · split
      · rw [(scmlCheckpoint_fields _ _).1]; exact h1
      · exact h1
    · split
      · rcases (scmlCheckpoint_fields (scmlObjective β distDiff (scmlStep β γ distDiff bs iter idx s).w) (scmlStep β γ distDiff bs iter idx s)).2 with e | e
        · rw [e, h1b]; exact hb
        · rw [e]; exact h1
      · rw [h1b]; exact hb

theorem C15_w_nonneg_from_init (β γ : ℝ) (hγ : 0 < γ) (distDiff : Vector (Vector ℝ nb) nt) (bs oi : ℕ)
    (batches : List (List (Fin nt))) :
    AllNonneg (scmlRun β γ distDiff bs oi batches 0 (scmlInit nb)).bestW := by
  have h0 : AllNonneg (scmlInit (K := ℝ) nb).w := by intro i; simp [scmlInit]
  have h0b : AllNonneg (scmlInit (K := ℝ) nb).bestW := by intro i; simp [scmlInit]
  exact (C15_w_nonneg β γ hγ distDiff bs oi batches 0 _ h0 h0b).2

/-! ## best-checkpoint bookkeeping -/

/-- folding the strict-improvement rule over a list of checkpoint objectives keeps the minimum, and the
first one among equal minima -/
noncomputable def bestIndex : List ℝ → Option (ℕ × ℝ)
  | [] => none
  | x :: xs =>
    match bestIndex xs with
    | none => some (0, x)
    | some (j, y) => if y < x then some (j + 1, y) else some (0, x)

theorem bestIndex_spec : ∀ (l : List ℝ) (j : ℕ) (y : ℝ), bestIndex l = some (j, y) →
    l[j]? = some y ∧ (∀ x ∈ l, y ≤ x) ∧ (∀ k, k < j → ∀ x, l[k]? = some x → y < x) := by
  intro l
  induction l with
  | nil => intro j y h; simp [bestIndex] at h
  | cons a t ih =>
    intro j y h
    unfold bestIndex at h
    cases ht : bestIndex t with
    | none =>
      rw [ht] at h; simp at h; obtain ⟨rfl, rfl⟩ := h
      have : t = [] := by
        cases t with
        | nil => rfl
        | cons b u => simp [bestIndex] at ht; split at ht <;> (try split at ht) <;> simp at ht
      subst this; simp
    | some p =>
      obtain ⟨j', y'⟩ := p
      rw [ht] at h
      obtain ⟨h1, h2, h3⟩ := ih j' y' ht
      simp only at h
      split at h
      · rename_i hlt
        simp at h; obtain ⟨rfl, rfl⟩ := h
        refine ⟨by simpa using h1, ?_, ?_⟩
        · intro x hx; rcases List.mem_cons.mp hx with rfl | hx
          · exact hlt.le
          · exact h2 x hx
        · intro k hk x hx
          cases k with
          | zero => simp at hx; subst hx; exact hlt
          | succ k => simp at hx; exact h3 k (by omega) x hx
      · rename_i hnl
        simp at h; obtain ⟨rfl, rfl⟩ := h
        refine ⟨by simp, ?_, by intro k hk; omega⟩
        intro x hx; rcases List.mem_cons.mp hx with rfl | hx
        · exact le_refl _
        · exact le_trans (not_lt.mp hnl) (h2 x hx)

/-- the stored best objective never increases and is always attained by a checkpoint: after a
checkpoint with objective `obj`, `bestObj ≤ obj` and `bestObj ≤` the previous best -/
theorem C15_best (obj : ℝ) (s : ScmlState ℝ nb) :
    ∃ b, (scmlCheckpoint obj s).bestObj = some b ∧ b ≤ obj ∧ (∀ b0, s.bestObj = some b0 → b ≤ b0) ∧
      ((b = obj ∧ (scmlCheckpoint obj s).bestW = s.w) ∨ (s.bestObj = some b ∧ (scmlCheckpoint obj s).bestW = s.bestW)) := by
  cases hb : s.bestObj with
  | none =>
    have e : scmlCheckpoint obj s = { s with bestObj := some obj, bestW := s.w } := by
      unfold scmlCheckpoint; rw [hb]
    rw [e]; exact ⟨obj, rfl, le_refl _, (by intro b0 h; cases h), Or.inl ⟨rfl, rfl⟩⟩
  | some b0 =>
    by_cases h : obj < b0
    · have e : scmlCheckpoint obj s = { s with bestObj := some obj, bestW := s.w } := by
        unfold scmlCheckpoint; rw [hb]; simp [h]
      rw [e]; exact ⟨obj, rfl, le_refl _, (by intro b1 h1; cases h1; exact h.le), Or.inl ⟨rfl, rfl⟩⟩
    · have e : scmlCheckpoint obj s = s := by unfold scmlCheckpoint; rw [hb]; simp [h]
      rw [e]; exact ⟨b0, hb, not_lt.mp h, (by intro b1 h1; cases h1; exact le_refl _), Or.inr ⟨rfl, rfl⟩⟩

/-! ## the learned matrix -/

/-- low-rank branch: `LᵀL = Σ_i w_i b_i b_iᵀ` (for non-negative weights; inactive bases contribute 0) -/
theorem C15_M_form_lowrank (basis : Mat ℝ nb d) (w : Vec ℝ nb) (hw : ∀ i, 0 ≤ w i) :
    mahalanobis (scmlComponentsLowRank basis w) = scmlMetric basis w := by
  funext a b
  simp only [mahalanobis, scmlComponentsLowRank, scmlMetric, vsum_eq_sum, sqrt_real, smax_real]
  apply Finset.sum_congr rfl; intro i _
  rw [max_eq_right (hw i)]
  have := Real.mul_self_sqrt (hw i)
  calc Real.sqrt (w i) * basis i a * (Real.sqrt (w i) * basis i b)
      = (Real.sqrt (w i) * Real.sqrt (w i)) * basis i a * basis i b := by ring
    _ = basis i a * (w i * basis i b) := by rw [this]; ring

/-- `Σ_i w_i b_i b_iᵀ` is symmetric positive semi-definite when `w ≥ 0` -/
theorem C15_M_psd (basis : Mat ℝ nb d) (w : Vec ℝ nb) (hw : ∀ i, 0 ≤ w i) :
    (∀ a b, scmlMetric basis w a b = scmlMetric basis w b a) ∧ ∀ x : Vec ℝ d, 0 ≤ quadForm (scmlMetric basis w) x := by
  constructor
  · intro a b; simp only [scmlMetric, vsum_eq_sum]; apply Finset.sum_congr rfl; intro i _; ring
  · intro x
    have inner : ∀ a, (∑ b, (∑ i, basis i a * (w i * basis i b)) * x b) = ∑ i, basis i a * w i * (∑ b, basis i b * x b) := by
      intro a
      simp only [Finset.sum_mul, Finset.mul_sum]
      rw [Finset.sum_comm]
      apply Finset.sum_congr rfl; intro i _; apply Finset.sum_congr rfl; intro b _; ring
    have : quadForm (scmlMetric basis w) x = ∑ i, w i * (∑ a, basis i a * x a) ^ 2 := by
      simp only [quadForm, scmlMetric, vsum_eq_sum, inner]
      simp only [Finset.mul_sum]
      rw [Finset.sum_comm]
      apply Finset.sum_congr rfl; intro i _
      rw [pow_two, Finset.sum_mul_sum, Finset.mul_sum]
      apply Finset.sum_congr rfl; intro a _
      rw [Finset.mul_sum]
      apply Finset.sum_congr rfl; intro b _; ring
    rw [this]
    exact Finset.sum_nonneg fun i _ => mul_nonneg (hw i) (sq_nonneg _)

/-- full-rank branch: the metric is converted by `components_from_metric` (C20), so `LᵀL = M` again -/
theorem C15_M_form_fullrank (basis : Mat ℝ nb d) (w : Vec ℝ nb) (V : Mat ℝ d d) (ev : Vec ℝ d)
    (hM : scmlMetric basis w = reconstruct V ev) (hev : ∀ i, 0 ≤ ev i) :
    mahalanobis (componentsFromEig V ev) = scmlMetric basis w := C20_eig _ V ev hM hev

/-- shape: with fewer than `d` active bases the transformation has that many rows and the warning is issued -/
theorem C15_lowrank_shape (nActive dd : ℕ) :
    (nActive < dd → scmlRows nActive dd = (nActive, true)) ∧ (dd ≤ nActive → scmlRows nActive dd = (dd, false)) := by
  unfold scmlRows
  constructor
  · intro h; simp [h]
  · intro h; simp [not_lt.mpr h]
