import MLModel.Params
import MLGen.Tables
/-!
# C18 — constructor parameters round-trip; unfitted use is guarded

Generic theorems (proved once, for an arbitrary value type `V`, with `=` on the stored *object*)
about any well-formed constructor table, plus one `decide` obligation per generated table
(`MLGen/Tables.lean` is regenerated from `/repo`'s `__init__` methods on every run).  `get_params`
is the scikit-learn contract "read the attribute named like each signature parameter";
`clone` is "construct from `get_params`".
-/
open ML

variable {V : Type} [DecidableEq V]

theorem lookup_of_wf (t : InitTable) (h : wfInit t = true) (p : String) (hp : p ∈ t.params) :
    lookupAttr t.attrs p = some (if isAlias t p then aliasAttr p else expectedAttr t p) := by
  unfold wfInit at h
  have h1 := (Bool.and_eq_true _ _ ▸ h).1
  have := (List.all_eq_true.mp h1) p hp
  by_cases ha : isAlias t p = true
  · simp only [ha, if_true] at this ⊢; simpa using this
  · have ha' : isAlias t p = false := by simpa using ha
    simp only [ha', Bool.false_eq_true, if_false] at this ⊢; simpa using this

/-- the value stored for a non-alias parameter `p` is the argument object itself — or, when the
deprecated alias of `p` was supplied, the alias argument -/
theorem C18_roundtrip (t : InitTable) (h : wfInit t = true) (isDep : V → Bool) (constV : String → V) (args : String → V)
    (p : String) (hp : p ∈ t.params) (hna : isAlias t p = false) :
    runInit t isDep constV args p = some (evalSym isDep constV args (expectedAttr t p)) := by
  unfold runInit
  rw [lookup_of_wf t h p hp]; simp [hna]

/-- no alias involved: `get_params()[p]` is the identical object that was passed -/
theorem C18_roundtrip_plain (t : InitTable) (h : wfInit t = true) (isDep : V → Bool) (constV : String → V)
    (args : String → V) (p : String) (hp : p ∈ t.params) (hna : isAlias t p = false)
    (hnr : t.deprecated.find? (·.2 == p) = none) :
    runInit t isDep constV args p = some (args p) := by
  rw [C18_roundtrip t h isDep constV args p hp hna]
  simp [expectedAttr, hnr, evalSym]

/-- a replaced parameter holds the alias value exactly when the alias was supplied -/
theorem C18_alias_maps (t : InitTable) (h : wfInit t = true) (isDep : V → Bool) (constV : String → V)
    (args : String → V) (p a r : String) (hp : p ∈ t.params) (hna : isAlias t p = false)
    (hr : t.deprecated.find? (·.2 == p) = some (a, r)) :
    runInit t isDep constV args p = some (if isDep (args a) then args p else args a) := by
  rw [C18_roundtrip t h isDep constV args p hp hna]
  simp [expectedAttr, hr, evalSym]

/-- what an alias attribute holds: the very object passed when that is a `'deprecated'` string, the literal
otherwise -/
theorem C18_alias_attr (t : InitTable) (h : wfInit t = true) (isDep : V → Bool) (constV : String → V)
    (args : String → V) (a : String) (hp : a ∈ t.params) (ha : isAlias t a = true) :
    runInit t isDep constV args a = some (if isDep (args a) then args a else constV depConst) := by
  unfold runInit
  rw [lookup_of_wf t h a hp]; simp [ha, evalSym, aliasAttr]

/-- alias attributes always hold the `'deprecated'` sentinel (by value) after construction -/
theorem C18_alias_sentinel (t : InitTable) (h : wfInit t = true) (isDep : V → Bool) (constV : String → V)
    (hconst : isDep (constV depConst) = true)
    (args : String → V) (a : String) (hp : a ∈ t.params) (ha : isAlias t a = true) :
    ∃ v, runInit t isDep constV args a = some v ∧ isDep v = true := by
  rw [C18_alias_attr t h isDep constV args a hp ha]
  by_cases hd : isDep (args a) = true
  · exact ⟨args a, by simp [hd], hd⟩
  · exact ⟨constV depConst, by simp [hd], hconst⟩

/-- every deprecated alias issues a FutureWarning and names a real replacement parameter -/
theorem C18_alias_warns (t : InitTable) (h : wfInit t = true) (a r : String) (har : (a, r) ∈ t.deprecated) :
    (a, "FutureWarning") ∈ t.warns ∧ r ∈ t.params := by
  unfold wfInit at h
  have h2 := (Bool.and_eq_true _ _ ▸ h).2
  have := (List.all_eq_true.mp h2) (a, r) har
  simp only [Bool.and_eq_true, List.contains_eq_mem, decide_eq_true_eq] at this
  exact ⟨by simpa using this.2, by simpa using this.1.1.2⟩

/-- **the constructor stores what it is given, as the identical object**, whenever no alias is in use —
i.e. whenever every alias argument is a `'deprecated'` string, be it the literal of the signature default or
an equal string that came out of `pickle` / `get_params`.  This is the check scikit-learn's `clone` performs
(`param1 is param2` for every parameter). -/
theorem C18_ctor_identity (t : InitTable) (h : wfInit t = true) (isDep : V → Bool) (constV : String → V)
    (args : String → V) (hargs : ∀ a, isAlias t a = true → isDep (args a) = true)
    (hdep : ∀ a r, (a, r) ∈ t.deprecated → isAlias t a = true)
    (p : String) (hp : p ∈ t.params) :
    runInit t isDep constV args p = some (args p) := by
  by_cases ha : isAlias t p = true
  · rw [C18_alias_attr t h isDep constV args p hp ha]; simp [hargs p ha]
  · have hna : isAlias t p = false := by simpa using ha
    cases hr : t.deprecated.find? (·.2 == p) with
    | none => exact C18_roundtrip_plain t h isDep constV args p hp hna hr
    | some ar =>
      obtain ⟨a, r⟩ := ar
      have hmem : (a, r) ∈ t.deprecated := List.mem_of_find?_eq_some hr
      rw [C18_alias_maps t h isDep constV args p a r hp hna hr]
      simp [hargs a (hdep a r hmem)]

/-- `get_params` of a constructed estimator, as an argument assignment for a new construction -/
def getParams (t : InitTable) (isDep : V → Bool) (constV : String → V) (args : String → V) (dflt : V) : String → V :=
  fun p => (runInit t isDep constV args p).getD dflt

theorem isAlias_of_mem (t : InitTable) (a r : String) (h : (a, r) ∈ t.deprecated) : isAlias t a = true := by
  unfold isAlias; simp only [List.any_eq_true]; exact ⟨(a, r), h, by simp⟩

/-- **clone is accepted and exact**: constructing from `get_params()` — of an estimator built with ANY
arguments, aliases included — stores every parameter as the identical object `get_params()` returned, so
scikit-learn's identity check passes and the clone has the same parameters as the original -/
theorem C18_clone_eq (t : InitTable) (h : wfInit t = true) (isDep : V → Bool) (constV : String → V)
    (hconst : isDep (constV depConst) = true) (args : String → V)
    (dflt : V) (p : String) (hp : p ∈ t.params)
    (hdep : ∀ a r, (a, r) ∈ t.deprecated → a ∈ t.params) :
    runInit t isDep constV (getParams t isDep constV args dflt) p = runInit t isDep constV args p := by
  have hal : ∀ a, isAlias t a = true → a ∈ t.params := by
    intro a ha
    unfold isAlias at ha
    simp only [List.any_eq_true, beq_iff_eq] at ha
    obtain ⟨⟨a', r⟩, hmem, rfl⟩ := ha
    exact hdep a' r hmem
  have hget : ∀ a, isAlias t a = true → isDep (getParams t isDep constV args dflt a) = true := by
    intro a ha
    obtain ⟨v, hv, hd⟩ := C18_alias_sentinel t h isDep constV hconst args a (hal a ha) ha
    unfold getParams; rw [hv]; exact hd
  rw [C18_ctor_identity t h isDep constV (getParams t isDep constV args dflt) hget
    (fun a r hm => isAlias_of_mem t a r hm) p hp]
  -- the original estimator does hold a value for `p`
  unfold getParams
  cases hr : runInit t isDep constV args p with
  | some v => rfl
  | none =>
    exfalso
    unfold runInit at hr
    rw [lookup_of_wf t h p hp] at hr
    simp at hr

/-- `set_params(p = v)` then `get_params()[p]` is `v` (set_params = setattr of a signature name;
modelled as reconstruction with the argument replaced) -/
theorem C18_set_get (t : InitTable) (h : wfInit t = true) (isDep : V → Bool) (constV : String → V) (args : String → V)
    (p : String) (v : V) (hp : p ∈ t.params) (hna : isAlias t p = false)
    (hnr : t.deprecated.find? (·.2 == p) = none) :
    runInit t isDep constV (fun q => if q = p then v else args q) p = some v := by
  rw [C18_roundtrip_plain t h isDep constV _ p hp hna hnr]; simp

/-! ## one obligation per generated table -/
theorem C18_wf_Covariance : wfInit MLGen.init_Covariance = true := by decide
theorem C18_wf_LFDA : wfInit MLGen.init_LFDA = true := by decide
theorem C18_wf_LMNN : wfInit MLGen.init_LMNN = true := by decide
theorem C18_wf_NCA : wfInit MLGen.init_NCA = true := by decide
theorem C18_wf_MLKR : wfInit MLGen.init_MLKR = true := by decide
theorem C18_wf_RCA : wfInit MLGen.init_RCA = true := by decide
theorem C18_wf_RCA_Supervised : wfInit MLGen.init_RCA_Supervised = true := by decide
theorem C18_wf_ITML : wfInit MLGen.init_ITML = true := by decide
theorem C18_wf_ITML_Supervised : wfInit MLGen.init_ITML_Supervised = true := by decide
theorem C18_wf_MMC : wfInit MLGen.init_MMC = true := by decide
theorem C18_wf_MMC_Supervised : wfInit MLGen.init_MMC_Supervised = true := by decide
theorem C18_wf_SDML : wfInit MLGen.init_SDML = true := by decide
theorem C18_wf_SDML_Supervised : wfInit MLGen.init_SDML_Supervised = true := by decide
theorem C18_wf_LSML : wfInit MLGen.init_LSML = true := by decide
theorem C18_wf_LSML_Supervised : wfInit MLGen.init_LSML_Supervised = true := by decide
theorem C18_wf_SCML : wfInit MLGen.init_SCML = true := by decide
theorem C18_wf_SCML_Supervised : wfInit MLGen.init_SCML_Supervised = true := by decide

theorem C18_tables_complete : MLGen.initTables.map (·.1) = allClasses := by decide

/-- every public method of every class that needs a fitted model starts with a `check_is_fitted`
guard (so an unfitted estimator raises `NotFittedError`), and validates its data -/
theorem C18_methods_guarded : wfMethodTable MLGen.methodTable = true := by decide +kernel

/-! non-vacuity: a concrete table with an alias, evaluated on concrete objects -/
example : runInit MLGen.init_LMNN (· == "'deprecated'") (fun c => c) (fun p => if p = "k" then "7" else if p = "n_neighbors" then "3" else "x")
    "n_neighbors" = some "7" := by decide

/-! objects as (content, identity): an unpickled `'deprecated'` string (identity 7) is not the literal
(identity 0), passes the constructor's value test, and is stored as the very object that was passed -/
example : runInit (V := String × Nat) MLGen.init_LMNN (fun v => v.1 == "'deprecated'") (fun c => (c, 0))
    (fun p => if p = "k" then ("'deprecated'", 7) else (p, 1)) "k" = some ("'deprecated'", 7) := by decide
example : runInit (V := String × Nat) MLGen.init_LMNN (fun v => v.1 == "'deprecated'") (fun c => (c, 0))
    (fun p => if p = "k" then ("5", 7) else (p, 1)) "k" = some ("'deprecated'", 0) := by decide
