import MLModel.Validate
import MLGen.Tables
import MLGen.Funcs
import Mathlib.Tactic.Common
/-!
# C06 — malformed input is always rejected (decision logic over array descriptors)

`skCheckArray` is the *assumed* contract of scikit-learn's validator (checked against the real one by
the harness); on top of it, metric-learn's dispatch (`check_input_classic`, `check_input_tuples`, the
GENERATED `check_tuple_size`) accepts exactly the inputs of the documented form and rejects every
other one with `ValueError`.  The generated method table shows that every data-taking method of every
class runs this validation with its estimator's tuple size.
-/
open ML

theorem skCheckArray_err (a : ArrDesc) (ms mf : Nat) (e : Err) (h : skCheckArray a ms mf = .error e) :
    e = .valueError := by
  unfold skCheckArray at h
  repeat' (split at h)
  all_goals first | (cases h; rfl) | cases h

theorem formClassic_err (a : ArrDesc) (pre : Option Nat) (e : Err) (h : formClassic a pre = .error e) :
    e = .valueError := by
  unfold formClassic at h
  repeat' (split at h)
  all_goals first | (cases h; rfl) | cases h

theorem formTuplesDesc_err (a : ArrDesc) (pre : Option Nat) (e : Err) (h : formTuplesDesc a pre = .error e) :
    e = .valueError := by
  unfold formTuplesDesc at h
  repeat' (split at h)
  all_goals first | (cases h; rfl) | cases h

/-- the points validation never fails with anything but `ValueError` -/
theorem C06_points_only_valueError (a : ArrDesc) (pre : Option Nat) (ms : Nat) (e : Err)
    (h : checkInputClassic a pre ms = .error e) : e = .valueError := by
  unfold checkInputClassic at h
  split at h
  · rename_i e' he; cases h; exact formClassic_err a pre _ he
  · split at h
    · rename_i e' he; cases h; exact skCheckArray_err _ _ _ _ he
    · split at h
      · cases h; rfl
      · cases h

/-- the tuples validation never fails with anything but `ValueError` -/
theorem C06_tuples_only_valueError (a : ArrDesc) (pre : Option Nat) (ts : Option Nat) (ms : Nat) (e : Err)
    (h : checkInputTuples MLGen.checkTupleSize a pre ts ms = .error e) : e = .valueError := by
  unfold checkInputTuples at h
  split at h
  · rename_i e' he; cases h; exact formTuplesDesc_err a pre _ he
  · split at h
    · rename_i e' he; cases h; exact skCheckArray_err _ _ _ _ he
    · repeat' (split at h)
      all_goals first | (cases h; rfl) | cases h

theorem checkTupleSize_ok_iff (sz : Nat) (ts : Option Nat) :
    MLGen.checkTupleSize (sz : Int) (ts.map Int.ofNat) = .ok () ↔ ∀ t, ts = some t → sz = t := by
  unfold MLGen.checkTupleSize
  cases ts with
  | none => simp
  | some t =>
    simp only [Option.map_some, reduceCtorEq, not_false_eq_true, true_and, Option.getD_some, ne_eq]
    constructor
    · intro h t' ht'; cases ht'
      split at h
      · cases h
      · rename_i hne; simp at hne; exact_mod_cast hne
    · intro h
      have := h t rfl; subst this
      simp

/-- **points**: accepted exactly when of the documented form -/
theorem C06_points_accept_iff (a : ArrDesc) (pre : Option Nat) (ms : Nat) :
    (∃ b, checkInputClassic a pre ms = .ok b) ↔ wellFormedPoints a pre ms := by
  obtain ⟨shape, kind, nan, inf⟩ := a
  unfold checkInputClassic formClassic wellFormedPoints skCheckArray formedShape ArrDesc.ndim
  rcases shape with _ | ⟨n, _ | ⟨m, _ | ⟨k, rest⟩⟩⟩
  · simp
  · cases pre with
    | none => simp
    | some d =>
      cases kind <;> cases nan <;> cases inf <;> simp <;>
        by_cases h1 : n < ms <;> by_cases h2 : d = 0 <;> simp [h1, h2] <;> omega
  · cases kind <;> cases nan <;> cases inf <;> simp <;>
      by_cases h1 : n < ms <;> by_cases h2 : m = 0 <;> simp [h1, h2] <;> omega
  · simp

/-- **points**: anything that is not of the documented form is rejected with `ValueError` -/
theorem C06_reject_points (a : ArrDesc) (pre : Option Nat) (ms : Nat) (h : ¬ wellFormedPoints a pre ms) :
    checkInputClassic a pre ms = .error .valueError := by
  cases hc : checkInputClassic a pre ms with
  | ok b => exact absurd ((C06_points_accept_iff a pre ms).mp ⟨b, hc⟩) h
  | error e => rw [C06_points_only_valueError a pre ms e hc]

/-- **tuples**: accepted exactly when of the documented form (tuple size from the generated
`check_tuple_size`) -/
theorem C06_tuples_accept_iff (a : ArrDesc) (pre : Option Nat) (ts : Option Nat) (ms : Nat) :
    (∃ b, checkInputTuples MLGen.checkTupleSize a pre ts ms = .ok b) ↔ wellFormedTuples a pre ts ms := by
  obtain ⟨shape, kind, nan, inf⟩ := a
  unfold checkInputTuples formTuplesDesc wellFormedTuples skCheckArray formedShape ArrDesc.ndim
  rcases shape with _ | ⟨n, _ | ⟨m, _ | ⟨k, _ | ⟨l, rest⟩⟩⟩⟩
  · simp
  · simp
  · cases pre with
    | none => simp
    | some d =>
      have hts := checkTupleSize_ok_iff m ts
      cases kind <;> cases nan <;> cases inf <;> simp <;>
        by_cases h1 : n < ms <;> by_cases h2 : d = 0 <;> simp [h1, h2] <;>
        (try omega) <;>
        (cases hck : MLGen.checkTupleSize (m : Int) (ts.map Int.ofNat) <;> simp_all <;> omega)
  · have hts := checkTupleSize_ok_iff m ts
    cases kind <;> cases nan <;> cases inf <;> simp <;>
      by_cases h1 : n < ms <;> by_cases h2 : k = 0 <;> simp [h1, h2] <;>
      (try omega) <;>
      (cases hck : MLGen.checkTupleSize (m : Int) (ts.map Int.ofNat) <;> simp_all <;> omega)
  · simp

theorem C06_reject_tuples (a : ArrDesc) (pre : Option Nat) (ts : Option Nat) (ms : Nat)
    (h : ¬ wellFormedTuples a pre ts ms) :
    checkInputTuples MLGen.checkTupleSize a pre ts ms = .error .valueError := by
  cases hc : checkInputTuples MLGen.checkTupleSize a pre ts ms with
  | ok b => exact absurd ((C06_tuples_accept_iff a pre ts ms).mp ⟨b, hc⟩) h
  | error e => rw [C06_tuples_only_valueError a pre ts ms e hc]

/-- pair labels outside {-1,+1} or of the wrong length are rejected with `ValueError` -/
theorem C06_labels (labels : List Int) (n : Nat) :
    checkPairLabels labels n = .ok () ↔ labels.length = n ∧ ∀ v ∈ labels, v = 1 ∨ v = -1 := by
  unfold checkPairLabels
  by_cases h1 : labels.length = n
  · by_cases h2 : labels.all (fun v => v == 1 || v == -1) = true
    · simp only [h1, ne_eq, not_true_eq_false, if_false, h2, if_true, true_and, true_iff]
      intro v hv; have := List.all_eq_true.mp h2 v hv; simpa using this
    · simp only [h1, ne_eq, not_true_eq_false, if_false, h2, Bool.false_eq_true, reduceCtorEq, true_and, false_iff]
      intro h; apply h2; apply List.all_eq_true.mpr; intro v hv; simpa using h v hv
  · simp [h1]

/-- generated table: every data-taking method of every class validates its input with its
estimator's tuple size (pair_distance & co. with size 2, classifiers with the class's size) -/
theorem C06_every_method : wfMethodTable MLGen.methodTable = true := by decide +kernel

/-! non-vacuity: a 3-D array of quadruplets handed to a pairs method is malformed; formed pairs are fine -/
example : checkInputTuples MLGen.checkTupleSize { shape := [5, 4, 3] } none (some 2) 1 = .error .valueError := by decide
example : checkInputTuples MLGen.checkTupleSize { shape := [5, 2, 3] } none (some 2) 1 = .ok { shape := [5, 2, 3] } := by decide
