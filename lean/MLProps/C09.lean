import MLProps.Bridge
import MLProps.Pinv
import Mathlib.Algebra.BigOperators.Group.Finset.Sigma
import Mathlib.LinearAlgebra.Matrix.NonsingularInverse
/-!
# C09 — closed-form learners compute their documented formula
-/
open ML Matrix Finset

/-! ## Covariance: the Penrose equations determine `M` -/

/-- a matrix satisfying the four Penrose equations for `C` *is* the pseudo-inverse of `C`:
the certificate evaluated on `Covariance`'s output identifies it uniquely -/
theorem C09_penrose_unique {m n : ℕ} (C : Matrix (Fin m) (Fin n) ℝ) (M M' : Matrix (Fin n) (Fin m) ℝ)
    (h : IsPinv C M) (h' : IsPinv C M') : M = M' := h.unique h'

/-- and for an invertible covariance it is the inverse -/
theorem C09_pinv_inv {n : ℕ} (C M : Matrix (Fin n) (Fin n) ℝ) (hC : IsUnit C.det) (h : IsPinv C M) : M = C⁻¹ :=
  h.eq_inv hC

/-! ## RCA: whitening of the within-chunk covariance -/

/-- full-rank RCA: if the within-chunk covariance of the transformed data is the identity
(`L C Lᵀ = 1`, square `L`) then the learned `M = LᵀL` is the inverse of `C` -/
theorem C09_rca_whitens {d : ℕ} (L C : Matrix (Fin d) (Fin d) ℝ) (h : L * C * Lᵀ = 1) : Lᵀ * L = C⁻¹ := by
  have h1 : Lᵀ * (L * C) = 1 := mul_eq_one_comm.mp h
  have h2 : (Lᵀ * L) * C = 1 := by rw [Matrix.mul_assoc]; exact h1
  exact (Matrix.inv_eq_left_inv h2).symm

/-- the code's `_inv_sqrtm`: for `C = V diag(w) Vᵀ` with orthogonal `V` and `w > 0`,
`S = V diag(1/√w) Vᵀ` whitens `C` -/
theorem C09_inv_sqrtm_whitens {d : ℕ} (V : Mat ℝ d d) (w : Vec ℝ d) (hw : ∀ i, 0 < w i)
    (hV : (Matrix.of V)ᵀ * Matrix.of V = 1) :
    Matrix.of (invSqrtm V w) * (Matrix.of V * Matrix.diagonal w * (Matrix.of V)ᵀ) * (Matrix.of (invSqrtm V w))ᵀ = 1 := by
  have hVV : Matrix.of V * (Matrix.of V)ᵀ = 1 := mul_eq_one_comm.mp hV
  set Q := Matrix.of V
  have hS : Matrix.of (invSqrtm V w) = Q * Matrix.diagonal (fun i => 1 / Real.sqrt (w i)) * Qᵀ := by
    ext a b
    simp only [invSqrtm, vsum_eq_sum, sqrt_real, Matrix.of_apply, Matrix.mul_apply, Matrix.diagonal, Matrix.transpose_apply, Q]
    apply Finset.sum_congr rfl; intro i _
    simp [Finset.sum_ite_eq', div_eq_mul_inv]
  rw [hS]
  set E := Matrix.diagonal (fun i => 1 / Real.sqrt (w i))
  set D := Matrix.diagonal w
  have hEDE : E * D * E = 1 := by
    simp only [E, D, Matrix.diagonal_mul_diagonal]
    rw [← Matrix.diagonal_one]
    congr 1; funext i
    have hs : Real.sqrt (w i) ≠ 0 := (Real.sqrt_pos.mpr (hw i)).ne'
    have : Real.sqrt (w i) * Real.sqrt (w i) = w i := Real.mul_self_sqrt (hw i).le
    field_simp
    linarith [this]
  have hEt : Eᵀ = E := Matrix.diagonal_transpose _
  calc Q * E * Qᵀ * (Q * D * Qᵀ) * (Q * E * Qᵀ)ᵀ
      = Q * E * (Qᵀ * Q) * D * (Qᵀ * Q) * Eᵀ * Qᵀ := by
        simp only [Matrix.transpose_mul, Matrix.transpose_transpose, Matrix.mul_assoc]
    _ = Q * (E * D * E) * Qᵀ := by rw [hV, hEt]; simp only [Matrix.mul_one, Matrix.mul_assoc]
    _ = 1 := by rw [hEDE, Matrix.mul_one, hVV]

/-! ## LFDA: the vectorised scatter accumulation equals the documented pairwise definition -/

variable {n d : ℕ}

/-- pairwise (documented) form = Laplacian (vectorised code) form, entrywise -/
theorem laplacian_form (W : Fin n → Fin n → ℝ) (X : Fin n → Fin d → ℝ) (a b : Fin d) :
    ∑ i, ∑ j, W i j * (X i a - X j a) * (X i b - X j b)
      = ∑ i, (∑ j, W i j) * X i a * X i b + ∑ j, (∑ i, W i j) * X j a * X j b
        - ∑ i, ∑ j, W i j * (X i a * X j b + X j a * X i b) := by
  have h1 : ∀ i j, W i j * (X i a - X j a) * (X i b - X j b)
      = W i j * X i a * X i b + W i j * X j a * X j b - W i j * (X i a * X j b + X j a * X i b) := by
    intro i j; ring
  simp only [h1, Finset.sum_sub_distrib, Finset.sum_add_distrib]
  have h2 : ∑ i, ∑ j, W i j * X i a * X i b = ∑ i, (∑ j, W i j) * X i a * X i b := by
    apply Finset.sum_congr rfl; intro i _
    rw [Finset.sum_mul, Finset.sum_mul]
  have h3 : ∑ i, ∑ j, W i j * X j a * X j b = ∑ j, (∑ i, W i j) * X j a * X j b := by
    rw [Finset.sum_comm]
    apply Finset.sum_congr rfl; intro j _
    rw [Finset.sum_mul, Finset.sum_mul]
  rw [h2, h3]

/-- symmetric affinities: `Xᵀ diag(A.sum) X − Xᵀ A X` is half the pairwise sum (lfda.py `G`) -/
theorem lfda_G_form (A : Fin n → Fin n → ℝ) (hA : ∀ i j, A i j = A j i) (X : Fin n → Fin d → ℝ) (a b : Fin d) :
    ∑ i, (∑ j, A j i) * X i a * X i b - ∑ i, ∑ j, X i a * A i j * X j b
      = (1/2) * ∑ i, ∑ j, A i j * (X i a - X j a) * (X i b - X j b) := by
  rw [laplacian_form]
  have hc : ∀ i, (∑ j, A i j) = ∑ j, A j i := by intro i; apply Finset.sum_congr rfl; intro j _; exact hA i j
  have hswap : ∑ i, ∑ j, A i j * (X j a * X i b) = ∑ i, ∑ j, A i j * (X i a * X j b) := by
    rw [Finset.sum_comm]
    apply Finset.sum_congr rfl; intro i _; apply Finset.sum_congr rfl; intro j _
    rw [hA j i]
  have hsplit : ∑ i, ∑ j, A i j * (X i a * X j b + X j a * X i b)
      = 2 * ∑ i, ∑ j, X i a * A i j * X j b := by
    simp only [mul_add, Finset.sum_add_distrib, hswap]
    rw [two_mul]; congr 1 <;>
    (apply Finset.sum_congr rfl; intro i _; apply Finset.sum_congr rfl; intro j _; ring)
  rw [hsplit]
  simp only [hc]
  ring

theorem ind_real (p : Bool) : (ind p : ℝ) = if p then 1 else 0 := rfl

/-- one class's `G_c` (as the code accumulates it) is the pairwise sum over that class -/
theorem C09_lfda_G_pairwise (X : Mat ℝ n d) (cls : Fin n → Nat) (A : Mat ℝ n n) (hA : ∀ i j, A i j = A j i)
    (c : Nat) (a b : Fin d) :
    lfdaG X cls A c a b =
      (1/2) * ∑ i, ∑ j, (ind (cls i == c) * ind (cls j == c) * A i j) * (X i a - X j a) * (X i b - X j b) := by
  have hsym : ∀ i j, ind (cls i == c) * ind (cls j == c) * A i j = (ind (cls j == c) * ind (cls i == c) * A j i : ℝ) := by
    intro i j; rw [hA i j]; ring
  rw [← lfda_G_form (fun i j => ind (cls i == c) * ind (cls j == c) * A i j) hsym X a b]
  simp only [lfdaG, vsum_eq_sum]
  congr 1
  · apply Finset.sum_congr rfl; intro i _
    rw [Finset.mul_sum, Finset.sum_mul, Finset.sum_mul, Finset.sum_mul, Finset.sum_mul]
    apply Finset.sum_congr rfl; intro j _; ring
  · apply Finset.sum_congr rfl; intro i _
    apply Finset.sum_congr rfl; intro j _; ring

/-- **within-class scatter**: the class-by-class accumulation `Σ_c G_c / n_c` equals the documented
pairwise definition `½ Σ_ij W^w_ij (x_i − x_j)(x_i − x_j)ᵀ`, `W^w_ij = A_ij / n_c` for same-class pairs -/
theorem C09_lfda_pairwise_Sw (X : Mat ℝ n d) (cls : Fin n → Nat) (A : Mat ℝ n n) (hA : ∀ i j, A i j = A j i)
    (C : Nat) (hC : ∀ i, cls i < C) (a b : Fin d) :
    lfdaSw X cls A C a b = pairwiseScatter X (lfdaWw cls A) a b := by
  simp only [lfdaSw, pairwiseScatter, vsum_eq_sum, lit_real]
  simp only [C09_lfda_G_pairwise X cls A hA]
  -- push the sum over classes inside: only c = cls i contributes
  have key : ∀ i j : Fin n,
      ∑ c : Fin C, (ind (cls i == c.val) * ind (cls j == c.val) * A i j) / ((classSize cls c.val : ℕ) : ℝ)
        = lfdaWw cls A i j := by
    intro i j
    rw [Finset.sum_eq_single (⟨cls i, hC i⟩ : Fin C)]
    · simp only [lfdaWw, ind_real, beq_self_eq_true, if_true, one_mul]
      by_cases h : cls i = cls j
      · simp [h, ofNat_real]
      · have h' : (cls j == cls i) = false := by simpa using fun e => h e.symm
        have h'' : (cls i == cls j) = false := by simpa using h
        simp [h', h'']
    · intro c _ hne
      have : (cls i == c.val) = false := by
        simp only [beq_eq_false_iff_ne, ne_eq]; intro e; apply hne; exact Fin.ext e.symm
      simp [ind_real, this]
    · intro h; exact absurd (Finset.mem_univ _) h
  calc ∑ c : Fin C, (1/2 * ∑ i, ∑ j, (ind (cls i == c.val) * ind (cls j == c.val) * A i j) * (X i a - X j a) * (X i b - X j b))
          / (Scalar.ofNat (classSize cls c.val) : ℝ)
      = 1/2 * ∑ i, ∑ j, (∑ c : Fin C, (ind (cls i == c.val) * ind (cls j == c.val) * A i j) / ((classSize cls c.val : ℕ) : ℝ))
          * (X i a - X j a) * (X i b - X j b) := by
        simp only [ofNat_real, Finset.mul_sum, Finset.sum_div, Finset.sum_mul]
        rw [Finset.sum_comm]
        apply Finset.sum_congr rfl; intro i _
        rw [Finset.sum_comm]
        apply Finset.sum_congr rfl; intro j _
        apply Finset.sum_congr rfl; intro c _
        ring
    _ = (1:ℝ) / (2:ℝ) * ∑ i, ∑ j, lfdaWw cls A i j * (X i a - X j a) * (X i b - X j b) := by
        simp only [key]
  norm_num

/-! ## embedding post-processing -/

/-- `weighted`: `LᵀL = Σ_i λ_i v_i v_iᵀ` (for non-negative eigenvalues) -/
theorem C09_embedding_weighted {k : ℕ} (vecs : Mat ℝ d k) (vals : Vec ℝ k) (hv : ∀ i, 0 ≤ vals i) (a b : Fin d) :
    mahalanobis (lfdaEmbedWeighted vecs vals) a b = ∑ i, vals i * vecs a i * vecs b i := by
  simp only [mahalanobis, lfdaEmbedWeighted, vsum_eq_sum, sqrt_real]
  apply Finset.sum_congr rfl; intro i _
  have := Real.mul_self_sqrt (hv i)
  calc vecs a i * Real.sqrt (vals i) * (vecs b i * Real.sqrt (vals i))
      = (Real.sqrt (vals i) * Real.sqrt (vals i)) * vecs a i * vecs b i := by ring
    _ = vals i * vecs a i * vecs b i := by rw [this]

/-- `plain`: the rows are the eigenvectors, `LᵀL = Σ_i v_i v_iᵀ` -/
theorem C09_embedding_plain {k : ℕ} (vecs : Mat ℝ d k) (a b : Fin d) :
    mahalanobis (lfdaEmbedPlain vecs) a b = ∑ i, vecs a i * vecs b i := by
  simp only [mahalanobis, lfdaEmbedPlain, vsum_eq_sum]

/-! non-vacuity -/
example : (cov (fun (i : Fin 3) (_ : Fin 1) => ([1, 2, 6] : List Rat).getD i.val 0) 0 0) = 7 := by decide +kernel

/-! ## LFDA between-class scatter: code form = documented pairwise form -/

theorem classSize_eq_sum (cls : Fin n → Nat) (c : Nat) :
    ((classSize cls c : ℕ) : ℝ) = ∑ i : Fin n, (ind (cls i == c) : ℝ) := by
  unfold classSize
  rw [← List.countP_eq_length_filter]
  have : ∀ l : List (Fin n), ((l.countP fun i => cls i == c : ℕ) : ℝ) = (l.map fun i => (ind (cls i == c) : ℝ)).sum := by
    intro l
    induction l with
    | nil => simp
    | cons a t ih =>
      rw [List.countP_cons, List.map_cons, List.sum_cons, ← ih]
      by_cases h : (cls a == c) = true
      · simp [h, ind_real]; ring
      · simp [h, ind_real]
  rw [this, ← List.sum_toFinset _ (List.nodup_finRange n)]
  · simp [List.toFinset_finRange]
  
/-- total scatter: `Σ_ij (x_i − x_j)_a (x_i − x_j)_b = 2n Σ_i x_ia x_ib − 2 s_a s_b` -/
theorem total_pairwise (X : Mat ℝ n d) (a b : Fin d) :
    ∑ i, ∑ j, (X i a - X j a) * (X i b - X j b) =
      2 * (n : ℝ) * ∑ i, X i a * X i b - 2 * ((∑ i, X i a) * (∑ i, X i b)) := by
  have h := laplacian_form (fun _ _ => (1 : ℝ)) X a b
  simp only [one_mul, Finset.sum_const, Finset.card_univ, Fintype.card_fin, nsmul_eq_mul, mul_one] at h
  rw [h]
  have h1 : ∑ i : Fin n, (n : ℝ) * X i a * X i b = (n : ℝ) * ∑ i, X i a * X i b := by
    rw [Finset.mul_sum]; apply Finset.sum_congr rfl; intro i _; ring
  have h2 : ∑ i, ∑ j, (X i a * X j b + X j a * X i b) = 2 * ((∑ i, X i a) * (∑ i, X i b)) := by
    simp only [Finset.sum_add_distrib]
    rw [Finset.sum_mul_sum]
    have : ∑ i, ∑ j, X j a * X i b = ∑ i, ∑ j, X i a * X j b := by rw [Finset.sum_comm]
    rw [this]; ring
  rw [h1, h2]; ring

/-- per-class scatter with indicator weights -/
theorem class_pairwise (X : Mat ℝ n d) (e : Fin n → ℝ) (a b : Fin d) :
    ∑ i, ∑ j, (e i * e j) * (X i a - X j a) * (X i b - X j b) =
      2 * (∑ j, e j) * (∑ i, e i * (X i a * X i b)) - 2 * ((∑ i, e i * X i a) * (∑ i, e i * X i b)) := by
  have h := laplacian_form (fun i j => e i * e j) X a b
  rw [h]
  have h1 : ∑ i, (∑ j, e i * e j) * X i a * X i b = (∑ j, e j) * ∑ i, e i * (X i a * X i b) := by
    rw [Finset.mul_sum]; apply Finset.sum_congr rfl; intro i _
    rw [← Finset.mul_sum]; ring
  have h1' : ∑ j, (∑ i, e i * e j) * X j a * X j b = (∑ j, e j) * ∑ i, e i * (X i a * X i b) := by
    rw [Finset.mul_sum]; apply Finset.sum_congr rfl; intro j _
    rw [← Finset.sum_mul]; ring
  have h2 : ∑ i, ∑ j, e i * e j * (X i a * X j b + X j a * X i b) = 2 * ((∑ i, e i * X i a) * (∑ i, e i * X i b)) := by
    have e1 : ∑ i, ∑ j, e i * e j * (X i a * X j b) = (∑ i, e i * X i a) * (∑ i, e i * X i b) := by
      rw [Finset.sum_mul_sum]; apply Finset.sum_congr rfl; intro i _; apply Finset.sum_congr rfl; intro j _; ring
    have e2 : ∑ i, ∑ j, e i * e j * (X j a * X i b) = (∑ i, e i * X i a) * (∑ i, e i * X i b) := by
      rw [Finset.sum_comm, Finset.sum_mul_sum]; apply Finset.sum_congr rfl; intro i _; apply Finset.sum_congr rfl; intro j _; ring
    simp only [mul_add, Finset.sum_add_distrib, e1, e2]; ring
  rw [h1, h1', h2]; ring

theorem same_class_sum (cls : Fin n → Nat) (C : Nat) (hC : ∀ i, cls i < C) (i j : Fin n) :
    ∑ c : Fin C, (ind (cls i == c.val) : ℝ) * ind (cls j == c.val) = if cls i = cls j then 1 else 0 := by
  rw [Finset.sum_eq_single (⟨cls i, hC i⟩ : Fin C)]
  · simp only [ind_real, beq_self_eq_true, if_true, one_mul]
    by_cases h : cls i = cls j
    · simp [h]
    · have : (cls j == cls i) = false := by simpa using fun e => h e.symm
      simp [h, this]
  · intro c _ hne
    have : (cls i == c.val) = false := by
      simp only [beq_eq_false_iff_ne, ne_eq]; intro e; apply hne; exact Fin.ext e.symm
    simp [ind_real, this]
  · intro h; exact absurd (Finset.mem_univ _) h

theorem class_partition (cls : Fin n → Nat) (C : Nat) (hC : ∀ i, cls i < C) (f : Fin n → ℝ) :
    ∑ c : Fin C, ∑ i, (ind (cls i == c.val) : ℝ) * f i = ∑ i, f i := by
  rw [Finset.sum_comm]
  apply Finset.sum_congr rfl; intro i _
  rw [← Finset.sum_mul]
  have : ∑ c : Fin C, (ind (cls i == c.val) : ℝ) = 1 := by
    rw [Finset.sum_eq_single (⟨cls i, hC i⟩ : Fin C)]
    · simp [ind_real]
    · intro c _ hne
      have : (cls i == c.val) = false := by
        simp only [beq_eq_false_iff_ne, ne_eq]; intro e; apply hne; exact Fin.ext e.symm
      simp [ind_real, this]
    · intro h; exact absurd (Finset.mem_univ _) h
  rw [this, one_mul]

/-- weighted pairwise sum `Σ_ij W_ij D_ij` and its linearity in `W` -/
def PS (W D : Fin n → Fin n → ℝ) : ℝ := ∑ i, ∑ j, W i j * D i j

theorem PS_sub (W1 W2 D : Fin n → Fin n → ℝ) : PS (fun i j => W1 i j - W2 i j) D = PS W1 D - PS W2 D := by
  simp only [PS, sub_mul, Finset.sum_sub_distrib]
theorem PS_add (W1 W2 D : Fin n → Fin n → ℝ) : PS (fun i j => W1 i j + W2 i j) D = PS W1 D + PS W2 D := by
  simp only [PS, add_mul, Finset.sum_add_distrib]
theorem PS_smul (c : ℝ) (W D : Fin n → Fin n → ℝ) : PS (fun i j => c * W i j) D = c * PS W D := by
  simp only [PS, Finset.mul_sum, mul_assoc]
theorem PS_sum {C : ℕ} (W : Fin C → Fin n → Fin n → ℝ) (D : Fin n → Fin n → ℝ) :
    PS (fun i j => ∑ c, W c i j) D = ∑ c, PS (W c) D := by
  simp only [PS, Finset.sum_mul]
  calc ∑ i, ∑ j, ∑ c, W c i j * D i j = ∑ i, ∑ c, ∑ j, W c i j * D i j := by
        apply Finset.sum_congr rfl; intro i _; exact Finset.sum_comm
    _ = ∑ c, ∑ i, ∑ j, W c i j * D i j := Finset.sum_comm

theorem pairwiseScatter_eq_PS (X : Mat ℝ n d) (W : Mat ℝ n n) (a b : Fin d) :
    pairwiseScatter X W a b = (1/2) * PS W (fun i j => (X i a - X j a) * (X i b - X j b)) := by
  simp only [pairwiseScatter, vsum_eq_sum, lit_real, PS]
  have : ∀ i j, W i j * (X i a - X j a) * (X i b - X j b) = W i j * ((X i a - X j a) * (X i b - X j b)) := by
    intro i j; ring
  simp only [this]
  norm_num

/-- **between-class scatter**: the code's accumulation
`Σ_c [G_c/n + (1 − n_c/n)·XcᵀXc + s_c s_cᵀ/n] − s sᵀ/n − S_w` equals the documented pairwise definition
`½ Σ_ij W^b_ij (x_i − x_j)(x_i − x_j)ᵀ` with `W^b_ij = A_ij(1/n − 1/n_c)` inside a class and `1/n` across
classes -/
theorem C09_lfda_pairwise_Sb (X : Mat ℝ n d) (cls : Fin n → Nat) (A : Mat ℝ n n) (hA : ∀ i j, A i j = A j i)
    (C : Nat) (hC : ∀ i, cls i < C) (hn : 0 < n) (a b : Fin d) :
    lfdaSb X cls A C a b = pairwiseScatter X (lfdaWb cls A) a b := by
  have hnn : (n : ℝ) ≠ 0 := by exact_mod_cast hn.ne'
  set D : Fin n → Fin n → ℝ := fun i j => (X i a - X j a) * (X i b - X j b) with hD
  set e : Fin C → Fin n → ℝ := fun c i => ind (cls i == c.val) with he
  -- documented weights: W^b = (1/n)·(1 − Σ_c e_c e_c + Σ_c e_c e_c A) − W^w
  have hWb : ∀ i j, lfdaWb cls A i j =
      (1 / (n : ℝ)) * ((1 - ∑ c : Fin C, e c i * e c j) + ∑ c : Fin C, e c i * e c j * A i j) - lfdaWw cls A i j := by
    intro i j
    rw [← Finset.sum_mul]
    simp only [he, same_class_sum cls C hC i j]
    unfold lfdaWb lfdaWw
    by_cases h : cls i = cls j
    · have hb : (cls i == cls j) = true := by simpa using h
      simp only [hb, if_true, if_pos h, ofNat_real]
      ring
    · have hb : (cls i == cls j) = false := by simpa using h
      simp only [hb, if_neg h, ofNat_real, Bool.false_eq_true, if_false]
      ring
  -- the four pieces
  have p1 : PS (fun _ _ => (1:ℝ)) D = 2 * (n : ℝ) * ∑ i, X i a * X i b - 2 * ((∑ i, X i a) * (∑ i, X i b)) := by
    simp only [PS, one_mul, hD]; exact total_pairwise X a b
  have p2 : ∀ c : Fin C, PS (fun i j => e c i * e c j) D =
      2 * (∑ j, e c j) * (∑ i, e c i * (X i a * X i b)) - 2 * ((∑ i, e c i * X i a) * (∑ i, e c i * X i b)) := by
    intro c
    have := class_pairwise X (e c) a b
    simp only [PS, hD]
    rw [← this]
    apply Finset.sum_congr rfl; intro i _; apply Finset.sum_congr rfl; intro j _; ring
  have p3 : ∀ c : Fin C, PS (fun i j => e c i * e c j * A i j) D = 2 * lfdaG X cls A c.val a b := by
    intro c
    rw [C09_lfda_G_pairwise X cls A hA c.val a b]
    simp only [PS, hD, he]
    rw [← mul_assoc]; norm_num
    apply Finset.sum_congr rfl; intro i _; apply Finset.sum_congr rfl; intro j _; ring
  have p4 : (1/2) * PS (lfdaWw cls A) D = lfdaSw X cls A C a b := by
    rw [C09_lfda_pairwise_Sw X cls A hA C hC a b, pairwiseScatter_eq_PS]
  -- assemble the pairwise side
  rw [pairwiseScatter_eq_PS]
  have hfun : (lfdaWb cls A) = fun i j =>
      (1 / (n : ℝ)) * ((1 - ∑ c : Fin C, e c i * e c j) + ∑ c : Fin C, e c i * e c j * A i j) - lfdaWw cls A i j := by
    funext i j; exact hWb i j
  rw [hfun, PS_sub, PS_smul, PS_add, PS_sub, PS_sum (fun c i j => e c i * e c j) D,
    PS_sum (fun c i j => e c i * e c j * A i j) D, p1]
  simp only [p2, p3]
  rw [mul_sub, p4]
  -- abstract the four class sums
  set Nc : Fin C → ℝ := fun c => ∑ j, e c j with hNc
  set S2 : Fin C → ℝ := fun c => ∑ i, e c i * (X i a * X i b) with hS2d
  set sa : Fin C → ℝ := fun c => ∑ i, e c i * X i a with hsa
  set sb : Fin C → ℝ := fun c => ∑ i, e c i * X i b with hsb
  have hT : ∑ i, X i a * X i b = ∑ c : Fin C, S2 c := (class_partition cls C hC (fun i => X i a * X i b)).symm
  have hpair : (1/2) * (1 / (n:ℝ) * (2 * (n:ℝ) * ∑ i, X i a * X i b - 2 * ((∑ i, X i a) * ∑ i, X i b)
        - ∑ c : Fin C, (2 * Nc c * S2 c - 2 * (sa c * sb c)) + ∑ c : Fin C, 2 * lfdaG X cls A c.val a b)) =
      (∑ c : Fin C, S2 c) - ((∑ i, X i a) * ∑ i, X i b) / n - (∑ c : Fin C, Nc c * S2 c) / n
        + (∑ c : Fin C, sa c * sb c) / n + (∑ c : Fin C, lfdaG X cls A c.val a b) / n := by
    rw [hT]
    have e1 : ∑ c : Fin C, (2 * Nc c * S2 c - 2 * (sa c * sb c)) = 2 * (∑ c : Fin C, Nc c * S2 c) - 2 * ∑ c : Fin C, sa c * sb c := by
      rw [Finset.sum_sub_distrib, Finset.mul_sum, Finset.mul_sum]
      congr 1; apply Finset.sum_congr rfl; intro c _; ring
    have e2 : ∑ c : Fin C, 2 * lfdaG X cls A c.val a b = 2 * ∑ c : Fin C, lfdaG X cls A c.val a b := by
      rw [Finset.mul_sum]
    rw [e1, e2]
    field_simp
    ring
  rw [hpair]
  -- the code side
  have hN : ∀ c : Fin C, ((classSize cls c.val : ℕ) : ℝ) = Nc c := fun c => classSize_eq_sum cls c.val
  have hall : ∀ (f : Fin n → ℝ), ∑ i, (ind true : ℝ) * f i = ∑ i, f i := by
    intro f; simp [ind_real]
  have hcode : lfdaSb X cls A C a b =
      (∑ c : Fin C, (lfdaG X cls A c.val a b / n + (1 - Nc c / n) * S2 c + sa c * sb c / n))
        - ((∑ i, X i a) * ∑ i, X i b) / n - lfdaSw X cls A C a b := by
    simp only [lfdaSb, sumOuter, vsum_eq_sum, ofNat_real, hN, hall]
    rfl
  rw [hcode]
  have e3 : ∑ c : Fin C, (lfdaG X cls A c.val a b / n + (1 - Nc c / n) * S2 c + sa c * sb c / n) =
      (∑ c : Fin C, lfdaG X cls A c.val a b) / n + (∑ c : Fin C, S2 c) - (∑ c : Fin C, Nc c * S2 c) / n
        + (∑ c : Fin C, sa c * sb c) / n := by
    have : ∀ c : Fin C, (lfdaG X cls A c.val a b / n + (1 - Nc c / n) * S2 c + sa c * sb c / n) =
        lfdaG X cls A c.val a b / n + S2 c - Nc c * S2 c / n + sa c * sb c / n := by
      intro c; ring
    simp only [this, Finset.sum_add_distrib, Finset.sum_sub_distrib, Finset.sum_div]
  rw [e3]; ring
