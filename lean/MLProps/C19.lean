import MLProps.C11
import Mathlib.Algebra.BigOperators.Group.Finset.Basic
/-!
# C19 — the learned distance depends on the data only through its geometry
-/
open ML Matrix

variable {n d m : ℕ}

/-! ## translation -/

/-- within-tuple differences — all that the tuple learners (ITML, MMC, SDML, LSML, SCML) read from their
tuples — do not see a common translation -/
theorem C19_diff_translate (a b t : Vec ℝ d) : vsub (vadd a t) (vadd b t) = vsub a b := by
  funext i; simp [vsub, vadd]

theorem colMean_translate (X : Mat ℝ n d) (t : Vec ℝ d) (hn : 0 < n) (a : Fin d) :
    colMean (fun i => vadd (X i) t) a = colMean X a + t a := by
  simp only [colMean, vsum_eq_sum, vadd, ofNat_real, Finset.sum_add_distrib, Finset.sum_const, Finset.card_univ,
    Fintype.card_fin, nsmul_eq_mul]
  have : (n : ℝ) ≠ 0 := by exact_mod_cast hn.ne'
  field_simp

/-- the sample covariance (Covariance learner, covariance priors / inits) is translation invariant -/
theorem C19_cov_translate (X : Mat ℝ n d) (t : Vec ℝ d) (hn : 0 < n) :
    cov (fun i => vadd (X i) t) = cov X := by
  funext a b
  simp only [cov, colMean_translate X t hn, vsum_eq_sum]
  congr 1
  apply Finset.sum_congr rfl; intro i _
  simp only [vadd]; ring

/-- squared distances between samples (LFDA affinities, LMNN targets, default ITML bounds, k-NN triplets)
are translation invariant -/
theorem C19_sqdist_translate (x y t : Vec ℝ d) : sqDist (vadd x t) (vadd y t) = sqDist x y := by
  simp only [sqDist, vadd]; congr 1; funext a; ring

/-- the embedded squared distances that the NCA / MLKR / LMNN objectives are built from -/
theorem C19_embdist_translate {k : ℕ} (L : Mat ℝ k d) (X : Mat ℝ n d) (t : Vec ℝ d) (i j : Fin n) :
    embSqDist L (fun i => vadd (X i) t) i j = embSqDist L X i j := by
  simp only [embSqDist, C19_diff_translate]

/-! ## permutation of the samples -/

theorem colMean_perm (X : Mat ℝ n d) (σ : Equiv.Perm (Fin n)) (a : Fin d) :
    colMean (fun i => X (σ i)) a = colMean X a := by
  simp only [colMean, vsum_eq_sum]
  congr 1
  exact Equiv.sum_comp σ (fun i => X i a)

/-- listing the training samples in a different order leaves the covariance unchanged -/
theorem C19_cov_perm (X : Mat ℝ n d) (σ : Equiv.Perm (Fin n)) : cov (fun i => X (σ i)) = cov X := by
  funext a b
  simp only [cov, colMean_perm, vsum_eq_sum]
  congr 1
  exact Equiv.sum_comp σ (fun i => (X i a - colMean X a) * (X i b - colMean X b))

/-! ## scaling and rotation of the covariance -/

theorem colMean_linear (X : Mat ℝ n d) (Q : Mat ℝ d d) (a : Fin d) :
    colMean (fun i => fun a => ∑ c, X i c * Q c a) a = ∑ c, colMean X c * Q c a := by
  simp only [colMean, vsum_eq_sum]
  rw [Finset.sum_comm, Finset.sum_div]
  apply Finset.sum_congr rfl; intro c _
  rw [← Finset.sum_mul]; ring

theorem gram_linear (Z : Fin n → Fin d → ℝ) (Q : Mat ℝ d d) (a b : Fin d) :
    ∑ i, (∑ c, Z i c * Q c a) * (∑ e, Z i e * Q e b) = ∑ c, ∑ e, Q c a * (∑ i, Z i c * Z i e) * Q e b := by
  simp only [Finset.sum_mul_sum]
  rw [Finset.sum_comm]
  apply Finset.sum_congr rfl; intro c _
  rw [Finset.sum_comm]
  apply Finset.sum_congr rfl; intro e _
  rw [Finset.mul_sum, Finset.sum_mul]
  apply Finset.sum_congr rfl; intro i _; ring

/-- mapping every point through a matrix `Q` (in particular an orthogonal one) maps the covariance to
`Qᵀ · cov X · Q` — so Covariance's and RCA's `M = C⁻¹` map to `Qᵀ M Q` for orthogonal `Q` -/
theorem C19_cov_rotate (X : Mat ℝ n d) (Q : Mat ℝ d d) (a b : Fin d) :
    cov (fun i => fun a => ∑ c, X i c * Q c a) a b = ∑ c, ∑ e, Q c a * cov X c e * Q e b := by
  simp only [cov, colMean_linear, vsum_eq_sum]
  have hc : ∀ i (a : Fin d), (∑ c, X i c * Q c a) - ∑ c, colMean X c * Q c a = ∑ c, (X i c - colMean X c) * Q c a := by
    intro i a; rw [← Finset.sum_sub_distrib]; apply Finset.sum_congr rfl; intro c _; ring
  simp only [hc]
  rw [gram_linear (fun i c => X i c - colMean X c) Q a b, Finset.sum_div]
  apply Finset.sum_congr rfl; intro c _
  rw [Finset.sum_div]
  apply Finset.sum_congr rfl; intro e _
  ring

/-- scaling all features by `c` scales the covariance by `c²` (so Covariance / RCA distances scale by `1/c`) -/
theorem C19_cov_scale (X : Mat ℝ n d) (c : ℝ) (a b : Fin d) :
    cov (fun i => vscale c (X i)) a b = c ^ 2 * cov X a b := by
  have hm : ∀ a, colMean (fun i => vscale c (X i)) a = c * colMean X a := by
    intro a; simp only [colMean, vsum_eq_sum, vscale, ← Finset.mul_sum]; ring
  simp only [cov, hm, vsum_eq_sum, vscale]
  rw [← mul_div_assoc, Finset.mul_sum]
  congr 1
  apply Finset.sum_congr rfl; intro i _; ring

/-- a learned matrix scaled by `1/c²` gives distances scaled by `1/c` -/
theorem C19_distance_scale (M : Mat ℝ d d) (c : ℝ) (hc : 0 < c) (x y : Vec ℝ d) :
    mahalDistance (fun a b => M a b / c ^ 2) x y = mahalDistance M x y / c := by
  have hq : quadForm (fun a b => M a b / c ^ 2) (vsub y x) = quadForm M (vsub y x) / c ^ 2 := by
    simp only [quadForm, vsum_eq_sum, Finset.sum_div, Finset.mul_sum]
    apply Finset.sum_congr rfl; intro a _; apply Finset.sum_congr rfl; intro b _; ring
  simp only [mahalDistance, hq, sqrt_real]
  rw [Real.sqrt_div' _ (by positivity), Real.sqrt_sq hc.le]

/-- the quadratic form of `Q M Qᵀ` at `v` is the quadratic form of `M` at `Qᵀ v`: distances under the
rotated metric between points equal distances under `M` between the back-rotated points -/
theorem C19_rotated_quadform (M Q : Matrix (Fin d) (Fin d) ℝ) (v : Fin d → ℝ) :
    v ⬝ᵥ (Q * M * Qᵀ) *ᵥ v = (Qᵀ *ᵥ v) ⬝ᵥ M *ᵥ (Qᵀ *ᵥ v) := by
  rw [← Matrix.mulVec_mulVec, ← Matrix.mulVec_mulVec, Matrix.dotProduct_mulVec, ← Matrix.mulVec_transpose]

/-! ## swapping the two points of a training pair (ITML): every use of `v` is even -/

def negVs (vs : Vector (Vector ℝ d) m) : Vector (Vector ℝ d) m := vs.map fun v => v.map fun x => -x

theorem vvec_neg (vs : Vector (Vector ℝ d) m) (i : Fin m) : vvec (negVs vs) i = - vvec vs i := by
  funext a
  simp [vvec, negVs, Vec.ofStore]

theorem stepP_neg (vs : Vector (Vector ℝ d) m) (i : Fin m) (s : ItmlState ℝ d m) :
    stepP (negVs vs) i s = stepP vs i s := by
  simp only [stepP, vvec_neg, Matrix.mulVec_neg, neg_dotProduct, dotProduct_neg, neg_neg]

/-- **swap invariance of an ITML projection**: with every pair's difference vector negated (the two
points of each pair swapped) a projection produces the same matrix, duals and slack-adjusted bounds -/
theorem C19_itml_swap (γ gproj : ℝ) (numPos : ℕ) (vs : Vector (Vector ℝ d) m) (i : Fin m) (s : ItmlState ℝ d m) :
    Amat (itmlStep γ gproj numPos (negVs vs) i s) = Amat (itmlStep γ gproj numPos vs i s) ∧
    (itmlStep γ gproj numPos (negVs vs) i s).lam = (itmlStep γ gproj numPos vs i s).lam ∧
    (itmlStep γ gproj numPos (negVs vs) i s).bhat = (itmlStep γ gproj numPos vs i s).bhat := by
  have hα : stepAlpha gproj numPos (negVs vs) i s = stepAlpha gproj numPos vs i s := by
    simp only [stepAlpha, stepP_neg]
  have hβ : stepBeta gproj numPos (negVs vs) i s = stepBeta gproj numPos vs i s := by
    simp only [stepBeta, hα, stepP_neg]
  refine ⟨?_, ?_, ?_⟩
  · rw [itmlStep_A, itmlStep_A, hβ, vvec_neg, Matrix.mulVec_neg]
    congr 2
    ext a b; simp [vecMulVec_apply]
  · rw [itmlStep_lam, itmlStep_lam, hα]
  · rw [itmlStep_bhat, itmlStep_bhat, hα]
theorem sum_ind_eq_count : ∀ (n : ℕ) (chunk : Fin n → Int) (c : Int),
    ∑ i, (ind (chunk i == c) : ℝ) = ((List.ofFn chunk).count c : ℝ) := by
  intro n
  induction n with
  | zero => intro chunk c; simp
  | succ n ih =>
    intro chunk c
    rw [Fin.sum_univ_succ, List.ofFn_succ, List.count_cons, ih (fun i => chunk i.succ) c]
    push_cast
    by_cases h : chunk 0 = c
    · simp [ind, h]; ring
    · simp [ind, h]

theorem chunkMean_translate (X : Mat ℝ n d) (chunk : Fin n → Int) (t : Vec ℝ d) (i : Fin n) (a : Fin d) :
    chunkMean (fun i => vadd (X i) t) chunk (chunk i) a = chunkMean X chunk (chunk i) a + t a := by
  have hpos : 0 < chunkCount chunk (chunk i) := by
    unfold chunkCount
    exact List.count_pos_iff.mpr ((List.mem_ofFn' _ _).mpr ⟨i, rfl⟩)
  have hne : ((chunkCount chunk (chunk i) : ℕ) : ℝ) ≠ 0 := by exact_mod_cast hpos.ne'
  have hsum := sum_ind_eq_count n chunk (chunk i)
  simp only [chunkMean, vsum_eq_sum, vadd, ofNat_real]
  have : ∑ j, ind (chunk j == chunk i) * (X j a + t a)
      = ∑ j, ind (chunk j == chunk i) * X j a + t a * (chunkCount chunk (chunk i) : ℝ) := by
    simp only [mul_add, Finset.sum_add_distrib]
    congr 1
    rw [← Finset.sum_mul, hsum, mul_comm]; rfl
  rw [this]
  field_simp

/-- RCA's within-chunk covariance — chunk-wise mean centring, one-point chunklets and unlabelled points
included — does not see a common translation of the data -/
theorem C19_innerCov_translate (X : Mat ℝ n d) (chunk : Fin n → Int) (t : Vec ℝ d) :
    innerCov (fun i => vadd (X i) t) chunk = innerCov X chunk := by
  funext a b
  simp only [innerCov, vsum_eq_sum]
  congr 1
  apply Finset.sum_congr rfl; intro i _
  rw [chunkMean_translate X chunk t i a, chunkMean_translate X chunk t i b]
  simp only [vadd]; ring

/-! non-vacuity: chunks {0,0,1} — the third point is a one-point chunklet — before and after a shift by 3 -/
example : innerCov (K := Rat) (n := 3) (d := 1) (fun i _ => [0, 2, 5].getD i.val 0) (fun i => [0, 0, 1].getD i.val 0) 0 0 = 2 / 3 := by
  decide +kernel
example : innerCov (K := Rat) (n := 3) (d := 1) (fun i _ => [3, 5, 8].getD i.val 0) (fun i => [0, 0, 1].getD i.val 0) 0 0 = 2 / 3 := by
  decide +kernel
