import MLProps.C11
import MLProps.C12
import MLProps.C14
import Mathlib.Algebra.BigOperators.Group.Finset.Basic
/-!
# C19 — the learned distance depends on the data only through its geometry
-/
open ML Matrix

variable {n d m : ℕ}

/-! ## translation -/

/-- within-tuple differences — all that the tuple learners (ITML, MMC, SDML, LSML, SCML) read from their
tuples — do not see a common translation -/
theorem C19_diff_translate (a b t : Vec ℝ d) : vsub (vadd a t) (vadd b t) = vsub a b := by
  funext i; simp [vsub, vadd]

theorem colMean_translate (X : Mat ℝ n d) (t : Vec ℝ d) (hn : 0 < n) (a : Fin d) :
    colMean (fun i => vadd (X i) t) a = colMean X a + t a := by
  simp only [colMean, vsum_eq_sum, vadd, ofNat_real, Finset.sum_add_distrib, Finset.sum_const, Finset.card_univ,
    Fintype.card_fin, nsmul_eq_mul]
  have : (n : ℝ) ≠ 0 := by exact_mod_cast hn.ne'
  field_simp

/-- the sample covariance (Covariance learner, covariance priors / inits) is translation invariant -/
theorem C19_cov_translate (X : Mat ℝ n d) (t : Vec ℝ d) (hn : 0 < n) :
    cov (fun i => vadd (X i) t) = cov X := by
  funext a b
  simp only [cov, colMean_translate X t hn, vsum_eq_sum]
  congr 1
  apply Finset.sum_congr rfl; intro i _
  simp only [vadd]; ring

/-- squared distances between samples (LFDA affinities, LMNN targets, default ITML bounds, k-NN triplets)
are translation invariant -/
theorem C19_sqdist_translate (x y t : Vec ℝ d) : sqDist (vadd x t) (vadd y t) = sqDist x y := by
  simp only [sqDist, vadd]; congr 1; funext a; ring

/-- the embedded squared distances that the NCA / MLKR / LMNN objectives are built from -/
theorem C19_embdist_translate {k : ℕ} (L : Mat ℝ k d) (X : Mat ℝ n d) (t : Vec ℝ d) (i j : Fin n) :
    embSqDist L (fun i => vadd (X i) t) i j = embSqDist L X i j := by
  simp only [embSqDist, C19_diff_translate]

/-! ## permutation of the samples -/

theorem colMean_perm (X : Mat ℝ n d) (σ : Equiv.Perm (Fin n)) (a : Fin d) :
    colMean (fun i => X (σ i)) a = colMean X a := by
  simp only [colMean, vsum_eq_sum]
  congr 1
  exact Equiv.sum_comp σ (fun i => X i a)

/-- listing the training samples in a different order leaves the covariance unchanged -/
theorem C19_cov_perm (X : Mat ℝ n d) (σ : Equiv.Perm (Fin n)) : cov (fun i => X (σ i)) = cov X := by
  funext a b
  simp only [cov, colMean_perm, vsum_eq_sum]
  congr 1
  exact Equiv.sum_comp σ (fun i => (X i a - colMean X a) * (X i b - colMean X b))

/-! ## scaling and rotation of the covariance -/

theorem colMean_linear (X : Mat ℝ n d) (Q : Mat ℝ d d) (a : Fin d) :
    colMean (fun i => fun a => ∑ c, X i c * Q c a) a = ∑ c, colMean X c * Q c a := by
  simp only [colMean, vsum_eq_sum]
  rw [Finset.sum_comm, Finset.sum_div]
  apply Finset.sum_congr rfl; intro c _
  rw [← Finset.sum_mul]; ring

theorem gram_linear (Z : Fin n → Fin d → ℝ) (Q : Mat ℝ d d) (a b : Fin d) :
    ∑ i, (∑ c, Z i c * Q c a) * (∑ e, Z i e * Q e b) = ∑ c, ∑ e, Q c a * (∑ i, Z i c * Z i e) * Q e b := by
  simp only [Finset.sum_mul_sum]
  rw [Finset.sum_comm]
  apply Finset.sum_congr rfl; intro c _
  rw [Finset.sum_comm]
  apply Finset.sum_congr rfl; intro e _
  rw [Finset.mul_sum, Finset.sum_mul]
  apply Finset.sum_congr rfl; intro i _; ring

/-- mapping every point through a matrix `Q` (in particular an orthogonal one) maps the covariance to
`Qᵀ · cov X · Q` — so Covariance's and RCA's `M = C⁻¹` map to `Qᵀ M Q` for orthogonal `Q` -/
theorem C19_cov_rotate (X : Mat ℝ n d) (Q : Mat ℝ d d) (a b : Fin d) :
    cov (fun i => fun a => ∑ c, X i c * Q c a) a b = ∑ c, ∑ e, Q c a * cov X c e * Q e b := by
  simp only [cov, colMean_linear, vsum_eq_sum]
  have hc : ∀ i (a : Fin d), (∑ c, X i c * Q c a) - ∑ c, colMean X c * Q c a = ∑ c, (X i c - colMean X c) * Q c a := by
    intro i a; rw [← Finset.sum_sub_distrib]; apply Finset.sum_congr rfl; intro c _; ring
  simp only [hc]
  rw [gram_linear (fun i c => X i c - colMean X c) Q a b, Finset.sum_div]
  apply Finset.sum_congr rfl; intro c _
  rw [Finset.sum_div]
  apply Finset.sum_congr rfl; intro e _
  ring

/-- scaling all features by `c` scales the covariance by `c²` (so Covariance / RCA distances scale by `1/c`) -/
theorem C19_cov_scale (X : Mat ℝ n d) (c : ℝ) (a b : Fin d) :
    cov (fun i => vscale c (X i)) a b = c ^ 2 * cov X a b := by
  have hm : ∀ a, colMean (fun i => vscale c (X i)) a = c * colMean X a := by
    intro a; simp only [colMean, vsum_eq_sum, vscale, ← Finset.mul_sum]; ring
  simp only [cov, hm, vsum_eq_sum, vscale]
  rw [← mul_div_assoc, Finset.mul_sum]
  congr 1
  apply Finset.sum_congr rfl; intro i _; ring

/-- a learned matrix scaled by `1/c²` gives distances scaled by `1/c` -/
theorem C19_distance_scale (M : Mat ℝ d d) (c : ℝ) (hc : 0 < c) (x y : Vec ℝ d) :
    mahalDistance (fun a b => M a b / c ^ 2) x y = mahalDistance M x y / c := by
  have hq : quadForm (fun a b => M a b / c ^ 2) (vsub y x) = quadForm M (vsub y x) / c ^ 2 := by
    simp only [quadForm, vsum_eq_sum, Finset.sum_div, Finset.mul_sum]
    apply Finset.sum_congr rfl; intro a _; apply Finset.sum_congr rfl; intro b _; ring
  simp only [mahalDistance, hq, sqrt_real]
  rw [Real.sqrt_div' _ (by positivity), Real.sqrt_sq hc.le]

/-- the quadratic form of `Q M Qᵀ` at `v` is the quadratic form of `M` at `Qᵀ v`: distances under the
rotated metric between points equal distances under `M` between the back-rotated points -/
theorem C19_rotated_quadform (M Q : Matrix (Fin d) (Fin d) ℝ) (v : Fin d → ℝ) :
    v ⬝ᵥ (Q * M * Qᵀ) *ᵥ v = (Qᵀ *ᵥ v) ⬝ᵥ M *ᵥ (Qᵀ *ᵥ v) := by
  rw [← Matrix.mulVec_mulVec, ← Matrix.mulVec_mulVec, Matrix.dotProduct_mulVec, ← Matrix.mulVec_transpose]

/-! ## swapping the two points of a training pair (ITML): every use of `v` is even -/

def negVs (vs : Vector (Vector ℝ d) m) : Vector (Vector ℝ d) m := vs.map fun v => v.map fun x => -x

theorem vvec_neg (vs : Vector (Vector ℝ d) m) (i : Fin m) : vvec (negVs vs) i = - vvec vs i := by
  funext a
  simp [vvec, negVs, Vec.ofStore]

theorem stepP_neg (vs : Vector (Vector ℝ d) m) (i : Fin m) (s : ItmlState ℝ d m) :
    stepP (negVs vs) i s = stepP vs i s := by
  simp only [stepP, vvec_neg, Matrix.mulVec_neg, neg_dotProduct, dotProduct_neg, neg_neg]

/-- **swap invariance of an ITML projection**: with every pair's difference vector negated (the two
points of each pair swapped) a projection produces the same matrix, duals and slack-adjusted bounds -/
theorem C19_itml_swap (γ gproj : ℝ) (numPos : ℕ) (vs : Vector (Vector ℝ d) m) (i : Fin m) (s : ItmlState ℝ d m) :
    Amat (itmlStep γ gproj numPos (negVs vs) i s) = Amat (itmlStep γ gproj numPos vs i s) ∧
    (itmlStep γ gproj numPos (negVs vs) i s).lam = (itmlStep γ gproj numPos vs i s).lam ∧
    (itmlStep γ gproj numPos (negVs vs) i s).bhat = (itmlStep γ gproj numPos vs i s).bhat := by
  have hα : stepAlpha gproj numPos (negVs vs) i s = stepAlpha gproj numPos vs i s := by
    simp only [stepAlpha, stepP_neg]
  have hβ : stepBeta gproj numPos (negVs vs) i s = stepBeta gproj numPos vs i s := by
    simp only [stepBeta, hα, stepP_neg]
  refine ⟨?_, ?_, ?_⟩
  · rw [itmlStep_A, itmlStep_A, hβ, vvec_neg, Matrix.mulVec_neg]
    congr 2
    ext a b; simp [vecMulVec_apply]
  · rw [itmlStep_lam, itmlStep_lam, hα]
  · rw [itmlStep_bhat, itmlStep_bhat, hα]
theorem sum_ind_eq_count : ∀ (n : ℕ) (chunk : Fin n → Int) (c : Int),
    ∑ i, (ind (chunk i == c) : ℝ) = ((List.ofFn chunk).count c : ℝ) := by
  intro n
  induction n with
  | zero => intro chunk c; simp
  | succ n ih =>
    intro chunk c
    rw [Fin.sum_univ_succ, List.ofFn_succ, List.count_cons, ih (fun i => chunk i.succ) c]
    push_cast
    by_cases h : chunk 0 = c
    · simp [ind, h]; ring
    · simp [ind, h]

theorem chunkMean_translate (X : Mat ℝ n d) (chunk : Fin n → Int) (t : Vec ℝ d) (i : Fin n) (a : Fin d) :
    chunkMean (fun i => vadd (X i) t) chunk (chunk i) a = chunkMean X chunk (chunk i) a + t a := by
  have hpos : 0 < chunkCount chunk (chunk i) := by
    unfold chunkCount
    exact List.count_pos_iff.mpr ((List.mem_ofFn' _ _).mpr ⟨i, rfl⟩)
  have hne : ((chunkCount chunk (chunk i) : ℕ) : ℝ) ≠ 0 := by exact_mod_cast hpos.ne'
  have hsum := sum_ind_eq_count n chunk (chunk i)
  simp only [chunkMean, vsum_eq_sum, vadd, ofNat_real]
  have : ∑ j, ind (chunk j == chunk i) * (X j a + t a)
      = ∑ j, ind (chunk j == chunk i) * X j a + t a * (chunkCount chunk (chunk i) : ℝ) := by
    simp only [mul_add, Finset.sum_add_distrib]
    congr 1
    rw [← Finset.sum_mul, hsum, mul_comm]; rfl
  rw [this]
  field_simp

/-- RCA's within-chunk covariance — chunk-wise mean centring, one-point chunklets and unlabelled points
included — does not see a common translation of the data -/
theorem C19_innerCov_translate (X : Mat ℝ n d) (chunk : Fin n → Int) (t : Vec ℝ d) :
    innerCov (fun i => vadd (X i) t) chunk = innerCov X chunk := by
  funext a b
  simp only [innerCov, vsum_eq_sum]
  congr 1
  apply Finset.sum_congr rfl; intro i _
  rw [chunkMean_translate X chunk t i a, chunkMean_translate X chunk t i b]
  simp only [vadd]; ring

/-! non-vacuity: chunks {0,0,1} — the third point is a one-point chunklet — before and after a shift by 3 -/
example : innerCov (K := Rat) (n := 3) (d := 1) (fun i _ => [0, 2, 5].getD i.val 0) (fun i => [0, 0, 1].getD i.val 0) 0 0 = 2 / 3 := by
  decide +kernel
example : innerCov (K := Rat) (n := 3) (d := 1) (fun i _ => [3, 5, 8].getD i.val 0) (fun i => [0, 0, 1].getD i.val 0) 0 0 = 2 / 3 := by
  decide +kernel

/-! ## the whole ITML solver: rotations of the data and swaps inside ANY subset of the training pairs

Two runs are related when the second sees every difference vector as `σ_i · Qᵀ v_i` (`Q` orthogonal, `σ_i = ±1`: the points
mapped through `Q`, the two points of pair `i` exchanged when `σ_i = −1`) and starts from `Qᵀ A₀ Q`.  Every projection
keeps the relation `A′ = Qᵀ A Q`, equal duals and equal slack-adjusted bounds; the stopping rule reads the duals only, so
both runs perform the same number of sweeps. -/

/-- the relation between the two runs' states -/
def ItmlRel (Q : Matrix (Fin d) (Fin d) ℝ) (s s' : ItmlState ℝ d m) : Prop :=
  Amat s' = Qᵀ * Amat s * Q ∧ s'.lam = s.lam ∧ s'.bhat = s.bhat

theorem stepP_equiv (Q : Matrix (Fin d) (Fin d) ℝ) (hQ : Q * Qᵀ = 1) (σ : Fin m → ℝ) (hσ : ∀ i, σ i * σ i = 1)
    (vs vs' : Vector (Vector ℝ d) m) (hvs : ∀ i, vvec vs' i = σ i • (Qᵀ *ᵥ vvec vs i))
    (s s' : ItmlState ℝ d m) (h : ItmlRel Q s s') (i : Fin m) :
    stepP vs' i s' = stepP vs i s := by
  unfold stepP
  rw [hvs i, h.1, Matrix.mulVec_smul, dotProduct_smul, smul_dotProduct, smul_smul, hσ i, one_smul]
  rw [Matrix.mulVec_mulVec, Matrix.mul_assoc, Matrix.mul_assoc, hQ, Matrix.mul_one]
  rw [← Matrix.mulVec_mulVec, Matrix.dotProduct_mulVec, Matrix.vecMul_transpose, Matrix.mulVec_mulVec, hQ,
    Matrix.one_mulVec]

theorem Av_equiv (Q : Matrix (Fin d) (Fin d) ℝ) (hQ : Q * Qᵀ = 1) (σ : Fin m → ℝ)
    (vs vs' : Vector (Vector ℝ d) m) (hvs : ∀ i, vvec vs' i = σ i • (Qᵀ *ᵥ vvec vs i))
    (s s' : ItmlState ℝ d m) (h : ItmlRel Q s s') (i : Fin m) :
    Amat s' *ᵥ vvec vs' i = σ i • (Qᵀ *ᵥ (Amat s *ᵥ vvec vs i)) := by
  rw [hvs i, h.1, Matrix.mulVec_smul, Matrix.mulVec_mulVec, Matrix.mul_assoc, Matrix.mul_assoc, hQ, Matrix.mul_one,
    ← Matrix.mulVec_mulVec]

/-- **one projection is equivariant** under an orthogonal change of coordinates and under swaps inside pairs -/
theorem C19_itml_step_equivariant (γ gproj : ℝ) (numPos : ℕ) (Q : Matrix (Fin d) (Fin d) ℝ) (hQ : Q * Qᵀ = 1)
    (σ : Fin m → ℝ) (hσ : ∀ i, σ i * σ i = 1) (vs vs' : Vector (Vector ℝ d) m)
    (hvs : ∀ i, vvec vs' i = σ i • (Qᵀ *ᵥ vvec vs i)) (s s' : ItmlState ℝ d m) (h : ItmlRel Q s s') (i : Fin m) :
    ItmlRel Q (itmlStep γ gproj numPos vs i s) (itmlStep γ gproj numPos vs' i s') := by
  have hp := stepP_equiv Q hQ σ hσ vs vs' hvs s s' h i
  have hα : stepAlpha gproj numPos vs' i s' = stepAlpha gproj numPos vs i s := by
    simp only [stepAlpha, hp, h.2.1, h.2.2]
  have hβ : stepBeta gproj numPos vs' i s' = stepBeta gproj numPos vs i s := by
    simp only [stepBeta, hα, hp]
  refine ⟨?_, ?_, ?_⟩
  · rw [itmlStep_A, itmlStep_A, hβ, Av_equiv Q hQ σ vs vs' hvs s s' h i, h.1]
    set u := Amat s *ᵥ vvec vs i
    have hvv : vecMulVec (σ i • (Qᵀ *ᵥ u)) (σ i • (Qᵀ *ᵥ u)) = Qᵀ * vecMulVec u u * Q := by
      have h1 : vecMulVec (σ i • (Qᵀ *ᵥ u)) (σ i • (Qᵀ *ᵥ u)) = vecMulVec (Qᵀ *ᵥ u) (Qᵀ *ᵥ u) := by
        ext a b
        simp only [vecMulVec_apply, Pi.smul_apply, smul_eq_mul]
        have := hσ i
        calc σ i * (Qᵀ *ᵥ u) a * (σ i * (Qᵀ *ᵥ u) b) = (σ i * σ i) * ((Qᵀ *ᵥ u) a * (Qᵀ *ᵥ u) b) := by ring
          _ = (Qᵀ *ᵥ u) a * (Qᵀ *ᵥ u) b := by rw [this, one_mul]
      rw [h1, Matrix.mul_vecMulVec, Matrix.vecMulVec_mul, ← Matrix.mulVec_transpose]
    rw [hvv, Matrix.mul_add, Matrix.add_mul, Matrix.mul_smul, Matrix.smul_mul, Matrix.mul_assoc]
  · rw [itmlStep_lam, itmlStep_lam, hα, h.2.1]
  · rw [itmlStep_bhat, itmlStep_bhat, hα, h.2.2]

theorem C19_itml_steps_equivariant (γ gproj : ℝ) (numPos : ℕ) (Q : Matrix (Fin d) (Fin d) ℝ) (hQ : Q * Qᵀ = 1)
    (σ : Fin m → ℝ) (hσ : ∀ i, σ i * σ i = 1) (vs vs' : Vector (Vector ℝ d) m)
    (hvs : ∀ i, vvec vs' i = σ i • (Qᵀ *ᵥ vvec vs i)) (order : List (Fin m)) :
    ∀ (s s' : ItmlState ℝ d m), ItmlRel Q s s' →
      ItmlRel Q (itmlSteps γ gproj numPos vs order s) (itmlSteps γ gproj numPos vs' order s') := by
  induction order with
  | nil => intro s s' h; exact h
  | cons i t ih =>
    intro s s' h
    simp only [itmlSteps, List.foldl_cons]
    exact ih _ _ (C19_itml_step_equivariant γ gproj numPos Q hQ σ hσ vs vs' hvs s s' h i)

/-- **the whole solver is equivariant**: for every iteration budget, tolerance and slack parameter the run on the
rotated / pair-swapped data ends, after the same number of sweeps, at `Qᵀ A Q` with the same dual variables -/
theorem C19_itml_run_equivariant (γ tol : ℝ) (numPos : ℕ) (Q : Matrix (Fin d) (Fin d) ℝ) (hQ : Q * Qᵀ = 1)
    (σ : Fin m → ℝ) (hσ : ∀ i, σ i * σ i = 1) (vs vs' : Vector (Vector ℝ d) m)
    (hvs : ∀ i, vvec vs' i = σ i • (Qᵀ *ᵥ vvec vs i)) :
    ∀ (fuel it : ℕ) (s s' : ItmlState ℝ d m) (lamOld : Vector ℝ m), ItmlRel Q s s' →
      ItmlRel Q (itmlRun γ tol numPos vs fuel it s lamOld).1 (itmlRun γ tol numPos vs' fuel it s' lamOld).1 ∧
      (itmlRun γ tol numPos vs fuel it s lamOld).2 = (itmlRun γ tol numPos vs' fuel it s' lamOld).2 := by
  intro fuel
  induction fuel with
  | zero => intro it s s' lamOld h; exact ⟨h, rfl⟩
  | succ f ih =>
    intro it s s' lamOld h
    have hsw := C19_itml_steps_equivariant γ (gammaProj γ) numPos Q hQ σ hσ vs vs' hvs (List.finRange m) s s' h
    have hlam : (itmlSweep γ (gammaProj γ) numPos vs' s').lam = (itmlSweep γ (gammaProj γ) numPos vs s).lam := hsw.2.1
    simp only [itmlRun, hlam]
    split
    · exact ⟨hsw, rfl⟩
    · split
      · exact ⟨hsw, rfl⟩
      · exact ih _ _ _ _ hsw

/-- rotation clause: ITML on points mapped through an orthogonal `Q` (prior `Qᵀ A₀ Q`, e.g. the identity or the
covariance prior of the mapped points) learns `Qᵀ M Q` -/
theorem C19_itml_rotate (γ tol : ℝ) (numPos : ℕ) (Q : Matrix (Fin d) (Fin d) ℝ) (hQ : Q * Qᵀ = 1)
    (vs vs' : Vector (Vector ℝ d) m) (hvs : ∀ i, vvec vs' i = Qᵀ *ᵥ vvec vs i)
    (fuel : ℕ) (s s' : ItmlState ℝ d m) (h : ItmlRel Q s s') (lamOld : Vector ℝ m) :
    Amat (itmlRun γ tol numPos vs' fuel 0 s' lamOld).1 = Qᵀ * Amat (itmlRun γ tol numPos vs fuel 0 s lamOld).1 * Q :=
  ((C19_itml_run_equivariant γ tol numPos Q hQ (fun _ => 1) (fun _ => by norm_num) vs vs'
    (fun i => by rw [hvs i, one_smul]) fuel 0 s s' lamOld h).1).1

/-- swap clause: exchanging the two points inside ANY subset of the training pairs (`σ_i = −1` on the subset) leaves the
learned matrix unchanged -/
theorem C19_itml_swap_any (γ tol : ℝ) (numPos : ℕ) (σ : Fin m → ℝ) (hσ : ∀ i, σ i = 1 ∨ σ i = -1)
    (vs vs' : Vector (Vector ℝ d) m) (hvs : ∀ i, vvec vs' i = σ i • vvec vs i)
    (fuel : ℕ) (s : ItmlState ℝ d m) (lamOld : Vector ℝ m) :
    Amat (itmlRun γ tol numPos vs' fuel 0 s lamOld).1 = Amat (itmlRun γ tol numPos vs fuel 0 s lamOld).1 := by
  have h0 : ItmlRel (1 : Matrix (Fin d) (Fin d) ℝ) s s := ⟨by simp, rfl, rfl⟩
  have := ((C19_itml_run_equivariant γ tol numPos 1 (by simp) σ
    (fun i => by rcases hσ i with h | h <;> rw [h] <;> norm_num) vs vs'
    (fun i => by rw [hvs i]; simp) fuel 0 s s lamOld h0).1).1
  simpa using this

/-- non-vacuity: a rotation by a quarter turn and one swapped pair satisfy the hypotheses -/
example : ∃ (Q : Matrix (Fin 2) (Fin 2) ℝ) (σ : Fin 2 → ℝ), Q * Qᵀ = 1 ∧ Q ≠ 1 ∧ (∀ i, σ i * σ i = 1) ∧ σ 0 ≠ σ 1 := by
  refine ⟨!![0, -1; 1, 0], ![1, -1], ?_, ?_, ?_, ?_⟩
  · ext i j; fin_cases i <;> fin_cases j <;> simp [Matrix.mul_apply, Fin.sum_univ_two]
  · intro h; have := congrFun (congrFun h 0) 0; simp at this
  · intro i; fin_cases i <;> simp
  · simp; norm_num

/-! ## LSML and MMC: the objectives (and LSML's gradient) only see the geometry

`rot Q M = Qᵀ M Q` is the metric, `σ • Qᵀ v` a difference vector, after the points went through the orthogonal `Q` and
the two points of the pair were exchanged (`σ = −1`) or not (`σ = 1`). -/

/-- `Qᵀ M Q` as a model matrix -/
noncomputable def rot (Q : Matrix (Fin d) (Fin d) ℝ) (M : Mat ℝ d d) : Mat ℝ d d :=
  fun a b => (Qᵀ * Matrix.of M * Q) a b

theorem rot_of (Q : Matrix (Fin d) (Fin d) ℝ) (M : Mat ℝ d d) : Matrix.of (rot Q M) = Qᵀ * Matrix.of M * Q := by
  ext a b; rfl

/-- a learned squared distance is unchanged: `(σQᵀv)ᵀ (QᵀMQ) (σQᵀv) = vᵀ M v` -/
theorem C19_quadForm_equiv (Q : Matrix (Fin d) (Fin d) ℝ) (hQ : Q * Qᵀ = 1) (M : Mat ℝ d d) (v : Vec ℝ d) (σ : ℝ)
    (hσ : σ * σ = 1) : quadForm (rot Q M) (σ • (Qᵀ *ᵥ v)) = quadForm M v := by
  rw [quadForm_eq, quadForm_eq, rot_of, Matrix.mulVec_smul, dotProduct_smul, smul_dotProduct, smul_smul, hσ, one_smul]
  rw [Matrix.mulVec_mulVec, Matrix.mul_assoc, Matrix.mul_assoc, hQ, Matrix.mul_one]
  rw [← Matrix.mulVec_mulVec, Matrix.dotProduct_mulVec, Matrix.vecMul_transpose, Matrix.mulVec_mulVec, hQ,
    Matrix.one_mulVec]

/-- how the second run sees a quadruplet: both difference vectors mapped, each with its own sign -/
def QuadRel (Q : Matrix (Fin d) (Fin d) ℝ) (q q' : Vec ℝ d × Vec ℝ d × ℝ) : Prop :=
  ∃ σ τ : ℝ, σ * σ = 1 ∧ τ * τ = 1 ∧ q'.1 = σ • (Qᵀ *ᵥ q.1) ∧ q'.2.1 = τ • (Qᵀ *ᵥ q.2.1) ∧ q'.2.2 = q.2.2

theorem lossTerm_equiv (Q : Matrix (Fin d) (Fin d) ℝ) (hQ : Q * Qᵀ = 1) (M : Mat ℝ d d)
    (q q' : Vec ℝ d × Vec ℝ d × ℝ) (h : QuadRel Q q q') : lossTerm (rot Q M) q' = lossTerm M q := by
  obtain ⟨σ, τ, hσ, hτ, h1, h2, h3⟩ := h
  unfold lossTerm
  rw [h1, h2, h3, C19_quadForm_equiv Q hQ M q.1 σ hσ, C19_quadForm_equiv Q hQ M q.2.1 τ hτ]

/-- **LSML: the comparison loss is invariant** under rotations of the data and swaps inside either pair of any
quadruplet (together with `tr` and `det` below: the whole objective) -/
theorem C19_lsml_loss_equiv (Q : Matrix (Fin d) (Fin d) ℝ) (hQ : Q * Qᵀ = 1) (M : Mat ℝ d d)
    (quads quads' : List (Vec ℝ d × Vec ℝ d × ℝ)) (h : List.Forall₂ (QuadRel Q) quads quads') :
    lsmlComparisonLoss (rot Q M) quads' = lsmlComparisonLoss M quads := by
  rw [lsmlComparisonLoss_eq_sum, lsmlComparisonLoss_eq_sum]
  induction h with
  | nil => rfl
  | cons hq _ ih => simp only [List.map_cons, List.sum_cons, ih, lossTerm_equiv Q hQ M _ _ hq]

/-- the `tr(M M₀⁻¹)` term: `⟨QᵀMQ, QᵀPQ⟩_F = ⟨M, P⟩_F` -/
theorem C19_frob_rot (Q : Matrix (Fin d) (Fin d) ℝ) (hQ : Q * Qᵀ = 1) (M P : Mat ℝ d d) :
    frob (rot Q M) (rot Q P) = frob M P := by
  have hf : ∀ A B : Mat ℝ d d, frob A B = Matrix.trace ((Matrix.of A)ᵀ * Matrix.of B) := by
    intro A B
    simp only [frob, vsum_eq_sum, Matrix.trace, Matrix.diag, Matrix.mul_apply, Matrix.transpose_apply, Matrix.of_apply]
    rw [Finset.sum_comm]
  rw [hf, hf, rot_of, rot_of]
  simp only [Matrix.transpose_mul, Matrix.transpose_transpose]
  calc Matrix.trace (Qᵀ * ((Matrix.of M)ᵀ * Q) * (Qᵀ * Matrix.of P * Q))
      = Matrix.trace (Qᵀ * ((Matrix.of M)ᵀ * (Q * Qᵀ) * Matrix.of P * Q)) := by
        congr 1; simp only [Matrix.mul_assoc]
    _ = Matrix.trace ((Matrix.of M)ᵀ * (Q * Qᵀ) * Matrix.of P * Q * Qᵀ) := by rw [Matrix.trace_mul_comm]
    _ = Matrix.trace ((Matrix.of M)ᵀ * Matrix.of P) := by
        rw [hQ, Matrix.mul_one, Matrix.mul_assoc ((Matrix.of M)ᵀ * Matrix.of P), hQ, Matrix.mul_one]

/-- the `log det` term: `det(QᵀMQ) = det M` -/
theorem C19_det_rot (Q : Matrix (Fin d) (Fin d) ℝ) (hQ : Q * Qᵀ = 1) (M : Mat ℝ d d) :
    (Matrix.of (rot Q M)).det = (Matrix.of M).det := by
  rw [rot_of, Matrix.det_mul, Matrix.det_mul, Matrix.det_transpose]
  have : Q.det * Q.det = 1 := by
    have := congrArg Matrix.det hQ
    rwa [Matrix.det_mul, Matrix.det_transpose, Matrix.det_one] at this
  calc Q.det * (Matrix.of M).det * Q.det = (Q.det * Q.det) * (Matrix.of M).det := by ring
    _ = (Matrix.of M).det := by rw [this, one_mul]

/-- **MMC: the dissimilarity objective and the similarity sum (hence the budget) are invariant** under rotations of the
data and swaps inside any pair -/
theorem C19_mmc_objective_equiv (Q : Matrix (Fin d) (Fin d) ℝ) (hQ : Q * Qᵀ = 1) (A : Mat ℝ d d)
    (vs vs' : List (Vec ℝ d)) (h : List.Forall₂ (fun v v' => ∃ σ : ℝ, σ * σ = 1 ∧ v' = σ • (Qᵀ *ᵥ v)) vs vs') :
    mmcFD vs' (rot Q A) = mmcFD vs A ∧ mmcSimilarSum vs' (rot Q A) = mmcSimilarSum vs A := by
  have hsum : ∀ f : ℝ → ℝ, (vs'.map fun v => f (quadForm (rot Q A) v)).sum = (vs.map fun v => f (quadForm A v)).sum := by
    intro f
    induction h with
    | nil => rfl
    | cons hv _ ih =>
      obtain ⟨σ, hσ, rfl⟩ := hv
      simp only [List.map_cons, List.sum_cons, ih, C19_quadForm_equiv Q hQ A _ σ hσ]
  constructor
  · simp only [mmcFD, foldl_add_eq, zero_add, sqrt_real]
    rw [hsum Real.sqrt]
  · rw [C14_similar_sum, C14_similar_sum]; exact hsum id

theorem rot_outer (Q : Matrix (Fin d) (Fin d) ℝ) (v : Vec ℝ d) (σ : ℝ) (hσ : σ * σ = 1) (a b : Fin d) :
    (σ • (Qᵀ *ᵥ v)) a * (σ • (Qᵀ *ᵥ v)) b = rot Q (fun a b => v a * v b) a b := by
  have h1 : (σ • (Qᵀ *ᵥ v)) a * (σ • (Qᵀ *ᵥ v)) b = (Qᵀ *ᵥ v) a * (Qᵀ *ᵥ v) b := by
    simp only [Pi.smul_apply, smul_eq_mul]
    calc σ * (Qᵀ *ᵥ v) a * (σ * (Qᵀ *ᵥ v) b) = (σ * σ) * ((Qᵀ *ᵥ v) a * (Qᵀ *ᵥ v) b) := by ring
      _ = _ := by rw [hσ, one_mul]
  rw [h1]
  have h2 : (Qᵀ * Matrix.of (fun a b => v a * v b) * Q) = vecMulVec (Qᵀ *ᵥ v) (Qᵀ *ᵥ v) := by
    have : Matrix.of (fun a b => v a * v b) = vecMulVec v v := by ext a b; simp [vecMulVec_apply]
    rw [this, Matrix.mul_vecMulVec, Matrix.vecMulVec_mul, ← Matrix.mulVec_transpose]
  simp only [rot, h2, vecMulVec_apply]

theorem rot_add (Q : Matrix (Fin d) (Fin d) ℝ) (A B : Mat ℝ d d) (a b : Fin d) :
    rot Q (fun a b => A a b + B a b) a b = rot Q A a b + rot Q B a b := by
  have : Matrix.of (fun a b => A a b + B a b) = Matrix.of A + Matrix.of B := by ext; rfl
  simp only [rot, this, Matrix.mul_add, Matrix.add_mul, Matrix.add_apply]

theorem rot_smul (Q : Matrix (Fin d) (Fin d) ℝ) (c : ℝ) (A : Mat ℝ d d) (a b : Fin d) :
    rot Q (fun a b => c * A a b) a b = c * rot Q A a b := by
  have : Matrix.of (fun a b => c * A a b) = c • Matrix.of A := by ext; rfl
  simp only [rot, this, Matrix.mul_smul, Matrix.smul_mul, Matrix.smul_apply, smul_eq_mul]

theorem rot_zero (Q : Matrix (Fin d) (Fin d) ℝ) (a b : Fin d) : rot Q (fun _ _ => (0:ℝ)) a b = 0 := by
  have : (Matrix.of fun (_ _ : Fin d) => (0:ℝ)) = 0 := by ext; rfl
  simp only [rot, this, Matrix.mul_zero, Matrix.zero_mul, Matrix.zero_apply]

theorem gradTerm_equiv (Q : Matrix (Fin d) (Fin d) ℝ) (hQ : Q * Qᵀ = 1) (M : Mat ℝ d d)
    (q q' : Vec ℝ d × Vec ℝ d × ℝ) (h : QuadRel Q q q') (a b : Fin d) :
    gradTerm (rot Q M) a b q' = rot Q (fun a b => gradTerm M a b q) a b := by
  obtain ⟨σ, τ, hσ, hτ, h1, h2, h3⟩ := h
  unfold gradTerm
  rw [h1, h2, h3, C19_quadForm_equiv Q hQ M q.1 σ hσ, C19_quadForm_equiv Q hQ M q.2.1 τ hτ,
    rot_outer Q q.1 σ hσ, rot_outer Q q.2.1 τ hτ]
  by_cases hv : quadForm M q.2.1 < quadForm M q.1
  · simp only [hv, if_true]
    by_cases hp : 0 < quadForm M q.2.1
    · simp only [hp, if_true]
      rw [rot_smul, rot_add, rot_smul, rot_smul]
    · simp only [hp, if_false, add_zero]
      rw [rot_smul, rot_smul]
  · simp only [hv, if_false]
    exact (rot_zero Q a b).symm

/-- **LSML: the gradient the solver computes is equivariant**: on the mapped data, at the mapped matrix, it is
`Qᵀ ∇f Q` — so gradient steps, their norms and the stopping rule correspond one to one -/
theorem C19_lsml_grad_equiv (Q : Matrix (Fin d) (Fin d) ℝ) (hQ : Q * Qᵀ = 1) (M P Minv : Mat ℝ d d)
    (quads quads' : List (Vec ℝ d × Vec ℝ d × ℝ)) (h : List.Forall₂ (QuadRel Q) quads quads') (a b : Fin d) :
    lsmlGradient (rot Q M) (rot Q P) (rot Q Minv) quads' a b = rot Q (lsmlGradient M P Minv quads) a b := by
  have hsum : (quads'.map (gradTerm (rot Q M) a b)).sum = rot Q (fun a b => (quads.map (gradTerm M a b)).sum) a b := by
    induction h with
    | nil => simp only [List.map_nil, List.sum_nil]; exact (rot_zero Q a b).symm
    | cons hq _ ih =>
      simp only [List.map_cons, List.sum_cons]
      rw [rot_add, ih, gradTerm_equiv Q hQ M _ _ hq]
  have hfun : lsmlGradient M P Minv quads = fun a b => (P a b + (-1) * Minv a b) + (quads.map (gradTerm M a b)).sum := by
    funext a b; rw [C12_grad_form]; ring
  rw [C12_grad_form, hfun, rot_add, rot_add, rot_smul, hsum]; ring
