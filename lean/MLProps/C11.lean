import MLProps.Bridge
import MLProps.LogDet
import Mathlib.LinearAlgebra.Matrix.PosDef
import Mathlib.LinearAlgebra.Matrix.NonsingularInverse
import Mathlib.Algebra.Order.Star.Real
import Mathlib.Tactic.Module
import Mathlib.Tactic.LinearCombination
import Mathlib.Tactic.Positivity
import Mathlib.Tactic.FieldSimp
/-!
# C11 — ITML: loop invariants of the Bregman-projection solver, and optimality of its fixed points

For every prior `A₀ ≻ 0`, every list of (non-collapsed) pairs, every `γ > 0`, every order and number
of projections (hence every number of sweeps / every `max_iter`): the iterate `A` is symmetric positive
definite, `A · (A₀⁻¹ + Σ_i y_i λ_i v_i v_iᵀ) = 1` (so `M⁻¹ − M₀⁻¹` is the signed combination of the
constraint outer products with the solver's dual variables), `λ ≥ 0` and `ξ > 0`.  The theorems are
about the very definitions the Float twin executes (`MLModel/ITML.lean`).
-/
open ML Matrix

variable {d m : ℕ}

/-! ## pure matrix algebra of one rank-one update -/

theorem outer_mulVec_self (A : Matrix (Fin d) (Fin d) ℝ) (hA : Aᵀ = A) (v : Fin d → ℝ) :
    vecMulVec (A *ᵥ v) (A *ᵥ v) = A * vecMulVec v v * A := by
  have h1 : vecMulVec (A *ᵥ v) (A *ᵥ v) = A * vecMulVec v (A *ᵥ v) := by rw [Matrix.mul_vecMulVec]
  have h2 : vecMulVec v (A *ᵥ v) = vecMulVec v v * A := by
    rw [Matrix.vecMulVec_mul, ← Matrix.mulVec_transpose, hA]
  rw [h1, h2, Matrix.mul_assoc]

theorem vv_A_vv (A : Matrix (Fin d) (Fin d) ℝ) (v : Fin d → ℝ) :
    vecMulVec v v * A * vecMulVec v v = (v ⬝ᵥ A *ᵥ v) • vecMulVec v v := by
  rw [Matrix.vecMulVec_mul, Matrix.vecMulVec_mul_vecMulVec, Matrix.dotProduct_mulVec]
  ext i j; simp [vecMulVec_apply]; ring

/-- Sherman–Morrison form of the update: the inverse moves by `−α v vᵀ` -/
theorem step_inverse (A B : Matrix (Fin d) (Fin d) ℝ) (hA : Aᵀ = A) (hAB : A * B = 1)
    (v : Fin d → ℝ) (α β : ℝ) (hβ : β * (1 - α * (v ⬝ᵥ A *ᵥ v)) = α) :
    (A + β • vecMulVec (A *ᵥ v) (A *ᵥ v)) * (B - α • vecMulVec v v) = 1 := by
  rw [outer_mulVec_self A hA]
  set W := vecMulVec v v
  set p := v ⬝ᵥ A *ᵥ v
  have key : A * W * A * W = p • (A * W) := by
    rw [Matrix.mul_assoc A W A, Matrix.mul_assoc A (W * A) W, vv_A_vv A v, Matrix.mul_smul]
  calc (A + β • (A * W * A)) * (B - α • W)
      = A * B - α • (A * W) + β • (A * W * (A * B)) - (β * α) • (A * W * A * W) := by
        simp only [Matrix.add_mul, Matrix.mul_sub, Matrix.smul_mul, Matrix.mul_smul, Matrix.mul_assoc]
        module
    _ = 1 + (β - α - β * α * p) • (A * W) := by
        rw [hAB, key, Matrix.mul_one, smul_smul]; module
    _ = 1 := by
        have : β - α - β * α * p = 0 := by linear_combination hβ
        rw [this, zero_smul, add_zero]

theorem vecMulVec_self_posSemidef (u : Fin d → ℝ) : (vecMulVec u u).PosSemidef := by
  have := posSemidef_vecMulVec_self_star (R := ℝ) u
  simpa using this

theorem vecMulVec_self_transpose (u : Fin d → ℝ) : (vecMulVec u u)ᵀ = vecMulVec u u := by
  ext i j; simp [vecMulVec_apply, mul_comm]

theorem posDef_transpose_eq {A : Matrix (Fin d) (Fin d) ℝ} (hA : A.PosDef) : Aᵀ = A := by
  rw [← Matrix.conjTranspose_eq_transpose_of_trivial]; exact hA.isHermitian

/-- positive definiteness is preserved: directly when `β ≥ 0`, through the inverse when `α ≤ 0` -/
theorem step_posDef (A B : Matrix (Fin d) (Fin d) ℝ) (hA : A.PosDef) (hAB : A * B = 1)
    (v : Fin d → ℝ) (α β : ℝ) (hβ : β * (1 - α * (v ⬝ᵥ A *ᵥ v)) = α)
    (hsign : 0 ≤ β ∨ α ≤ 0) :
    (A + β • vecMulVec (A *ᵥ v) (A *ᵥ v)).PosDef := by
  have hAt : Aᵀ = A := posDef_transpose_eq hA
  rcases hsign with h | h
  · exact hA.add_posSemidef ((vecMulVec_self_posSemidef _).smul h)
  · have hBinv : A⁻¹ = B := Matrix.inv_eq_right_inv hAB
    have hB : B.PosDef := hBinv ▸ hA.inv
    have hB' : (B - α • vecMulVec v v).PosDef := by
      have : B - α • vecMulVec v v = B + (-α) • vecMulVec v v := by
        rw [neg_smul, sub_eq_add_neg]
      rw [this]
      exact hB.add_posSemidef ((vecMulVec_self_posSemidef _).smul (by linarith))
    have hstep := step_inverse A B hAt hAB v α β hβ
    have : (B - α • vecMulVec v v)⁻¹ = A + β • vecMulVec (A *ᵥ v) (A *ᵥ v) :=
      Matrix.inv_eq_left_inv hstep
    rw [← this]; exact hB'.inv

/-- scalar side of a positive-pair projection (itml.py:74-78) -/
theorem pos_scalars (lam p xi γ : ℝ) (hlam : 0 ≤ lam) (hp : 0 < p) (hxi : 0 < xi) (hγ : 0 < γ) :
    let α := min lam (γ / (γ + 1) * (1 / p - 1 / xi))
    0 ≤ lam - α ∧ 0 < 1 - α * p ∧ 0 < 1 / xi + α / γ := by
  intro α
  have hgp : 0 < γ / (γ + 1) := by positivity
  have hgp1 : γ / (γ + 1) < 1 := by rw [div_lt_one (by linarith)]; linarith
  have hα1 : α ≤ lam := min_le_left _ _
  have hα2 : α ≤ γ / (γ + 1) * (1 / p - 1 / xi) := min_le_right _ _
  refine ⟨by linarith, ?_, ?_⟩
  · have h1 : α * p ≤ γ / (γ + 1) * (1 / p - 1 / xi) * p := by nlinarith
    have h2 : γ / (γ + 1) * (1 / p - 1 / xi) * p = γ / (γ + 1) * (1 - p / xi) := by
      field_simp
    have h3 : 0 < p / xi := by positivity
    nlinarith
  · rcases min_cases lam (γ / (γ + 1) * (1 / p - 1 / xi)) with ⟨h, _⟩ | ⟨h, _⟩
    · have : α = lam := h
      rw [this]; have : 0 < 1 / xi := by positivity
      have : 0 ≤ lam / γ := by positivity
      linarith
    · have hα : α = γ / (γ + 1) * (1 / p - 1 / xi) := h
      rw [hα]
      have e : γ / (γ + 1) * (1 / p - 1 / xi) / γ = (1 / p - 1 / xi) / (γ + 1) := by
        field_simp
      rw [e]
      have h1 : 0 < 1 / p := by positivity
      have h2 : 0 < 1 / xi := by positivity
      have h3 : (1 / p - 1 / xi) / (γ + 1) > - (1 / xi) / (γ + 1) := by
        apply div_lt_div_of_pos_right _ (by linarith); linarith
      have h4 : - (1 / xi) / (γ + 1) ≥ - (1 / xi) := by
        rw [ge_iff_le, neg_div, neg_le_neg_iff]
        apply div_le_self (le_of_lt h2); linarith
      linarith

/-- scalar side of a negative-pair projection (itml.py:84-89) -/
theorem neg_scalars (lam p xi γ : ℝ) (hlam : 0 ≤ lam) (hp : 0 < p) (hxi : 0 < xi) (hγ : 0 < γ) :
    let α := min lam (γ / (γ + 1) * (1 / xi - 1 / p))
    0 ≤ lam - α ∧ 0 < 1 + α * p ∧ 0 < 1 / xi - α / γ := by
  intro α
  have hgp : 0 < γ / (γ + 1) := by positivity
  have hgp1 : γ / (γ + 1) < 1 := by rw [div_lt_one (by linarith)]; linarith
  have hα1 : α ≤ lam := min_le_left _ _
  have hα2 : α ≤ γ / (γ + 1) * (1 / xi - 1 / p) := min_le_right _ _
  have h1p : 0 < 1 / p := by positivity
  have h1x : 0 < 1 / xi := by positivity
  refine ⟨by linarith, ?_, ?_⟩
  · -- α ≥ min(0, g(1/ξ − 1/p)) > −1/p
    rcases min_cases lam (γ / (γ + 1) * (1 / xi - 1 / p)) with ⟨h, _⟩ | ⟨h, _⟩
    · have : α = lam := h
      rw [this]; nlinarith
    · have hα : α = γ / (γ + 1) * (1 / xi - 1 / p) := h
      rw [hα]
      have e : γ / (γ + 1) * (1 / xi - 1 / p) * p = γ / (γ + 1) * (p / xi - 1) := by field_simp
      rw [e]
      have : 0 < p / xi := by positivity
      nlinarith
  · -- α/γ ≤ (1/ξ − 1/p)/(γ+1) < 1/ξ
    have e : γ / (γ + 1) * (1 / xi - 1 / p) / γ = (1 / xi - 1 / p) / (γ + 1) := by field_simp
    have h2 : α / γ ≤ (1 / xi - 1 / p) / (γ + 1) := by
      rw [← e]; exact div_le_div_of_nonneg_right hα2 hγ.le
    have h3 : (1 / xi - 1 / p) / (γ + 1) < (1 / xi) / (γ + 1) := by
      apply div_lt_div_of_pos_right _ (by linarith); linarith
    have h4 : (1 / xi) / (γ + 1) ≤ 1 / xi := by
      apply div_le_self (le_of_lt h1x); linarith
    linarith

/-! ## bridge: the executable step as Mathlib matrix expressions -/

/-- the iterate as a Mathlib matrix -/
def Amat (s : ItmlState ℝ d m) : Matrix (Fin d) (Fin d) ℝ := Matrix.of (Mat.ofStore s.A)
/-- difference vector of constraint `i` -/
def vvec (vs : Vector (Vector ℝ d) m) (i : Fin m) : Fin d → ℝ := Vec.ofStore vs[i]
/-- label of constraint `i`: positives first -/
def ysign (numPos : ℕ) (i : Fin m) : ℝ := if i.val < numPos then 1 else -1

theorem mulVec_model_eq (A : Vector (Vector ℝ d) d) (v : Fin d → ℝ) :
    ML.mulVec (Mat.ofStore A) v = Matrix.of (Mat.ofStore A) *ᵥ v := by
  funext i; simp [ML.mulVec, vsum_eq_sum, Matrix.mulVec, dotProduct]

theorem dot_model_eq (u v : Fin d → ℝ) : ML.dot u v = u ⬝ᵥ v := by
  simp [ML.dot, vsum_eq_sum, dotProduct]

/-- quantities of one projection, as the code computes them -/
noncomputable def stepP (vs : Vector (Vector ℝ d) m) (i : Fin m) (s : ItmlState ℝ d m) : ℝ :=
  vvec vs i ⬝ᵥ Amat s *ᵥ vvec vs i
noncomputable def stepAlpha (gproj : ℝ) (numPos : ℕ) (vs : Vector (Vector ℝ d) m) (i : Fin m) (s : ItmlState ℝ d m) : ℝ :=
  if i.val < numPos then min s.lam[i] (gproj * (1 / stepP vs i s - 1 / s.bhat[i]))
  else min s.lam[i] (gproj * (1 / s.bhat[i] - 1 / stepP vs i s))
noncomputable def stepBeta (gproj : ℝ) (numPos : ℕ) (vs : Vector (Vector ℝ d) m) (i : Fin m) (s : ItmlState ℝ d m) : ℝ :=
  if i.val < numPos then stepAlpha gproj numPos vs i s / (1 - stepAlpha gproj numPos vs i s * stepP vs i s)
  else (- stepAlpha gproj numPos vs i s) / (1 + stepAlpha gproj numPos vs i s * stepP vs i s)

theorem itmlStep_A (γ gproj : ℝ) (numPos : ℕ) (vs : Vector (Vector ℝ d) m) (i : Fin m) (s : ItmlState ℝ d m) :
    Amat (itmlStep γ gproj numPos vs i s) =
      Amat s + stepBeta gproj numPos vs i s • vecMulVec (Amat s *ᵥ vvec vs i) (Amat s *ᵥ vvec vs i) := by
  have hAv : ∀ c : Fin d, (Vector.ofFn (ML.mulVec (Mat.ofStore s.A) (Vec.ofStore vs[i])))[c] = (Amat s *ᵥ vvec vs i) c := by
    intro c; simp only [Fin.getElem_fin, Vector.getElem_ofFn, Fin.eta]; rw [mulVec_model_eq]; rfl
  have hp : ML.dot (Vec.ofStore vs[i]) (Vec.ofStore (Vector.ofFn (ML.mulVec (Mat.ofStore s.A) (Vec.ofStore vs[i])))) = stepP vs i s := by
    rw [dot_model_eq]; unfold stepP vvec; congr 1; funext c; exact hAv c
  ext a b
  by_cases h : i.val < numPos
  · simp only [itmlStep, h, if_true, Amat, Mat.ofStore, Matrix.of_apply, Matrix.add_apply, Matrix.smul_apply,
      vecMulVec_apply, smul_eq_mul, stepBeta, stepAlpha, Fin.getElem_fin, Vector.getElem_ofFn, Fin.eta]
    simp only [Fin.getElem_fin] at hp
    have hAv' : ∀ c : Fin d, ML.mulVec (Mat.ofStore s.A) (Vec.ofStore vs[(i : ℕ)]) c = (Amat s *ᵥ vvec vs i) c := by
      intro c; rw [mulVec_model_eq]; rfl
    simp only [hAv', hp, smin_real]
    simp only [Amat, Mat.ofStore, Matrix.of_apply]
    ring
  · simp only [itmlStep, h, if_false, Amat, Mat.ofStore, Matrix.of_apply, Matrix.add_apply, Matrix.smul_apply,
      vecMulVec_apply, smul_eq_mul, stepBeta, stepAlpha, Fin.getElem_fin, Vector.getElem_ofFn, Fin.eta]
    simp only [Fin.getElem_fin] at hp
    have hAv' : ∀ c : Fin d, ML.mulVec (Mat.ofStore s.A) (Vec.ofStore vs[(i : ℕ)]) c = (Amat s *ᵥ vvec vs i) c := by
      intro c; rw [mulVec_model_eq]; rfl
    simp only [hAv', hp, smin_real]
    simp only [Amat, Mat.ofStore, Matrix.of_apply]
    ring

theorem itmlStep_lam (γ gproj : ℝ) (numPos : ℕ) (vs : Vector (Vector ℝ d) m) (i : Fin m) (s : ItmlState ℝ d m) :
    (itmlStep γ gproj numPos vs i s).lam = s.lam.set i (s.lam[i] - stepAlpha gproj numPos vs i s) := by
  have hp : ML.dot (Vec.ofStore vs[(i : ℕ)]) (Vec.ofStore (Vector.ofFn (ML.mulVec (Mat.ofStore s.A) (Vec.ofStore vs[(i : ℕ)])))) = stepP vs i s := by
    rw [dot_model_eq]; unfold stepP vvec; congr 1; funext c
    simp only [Vec.ofStore, Fin.getElem_fin, Vector.getElem_ofFn, Fin.eta]; rw [mulVec_model_eq]; rfl
  by_cases h : i.val < numPos
  · simp only [itmlStep, h, if_true, stepAlpha, Fin.getElem_fin, hp, smin_real]
  · simp only [itmlStep, h, if_false, stepAlpha, Fin.getElem_fin, hp, smin_real]

theorem itmlStep_bhat (γ gproj : ℝ) (numPos : ℕ) (vs : Vector (Vector ℝ d) m) (i : Fin m) (s : ItmlState ℝ d m) :
    (itmlStep γ gproj numPos vs i s).bhat = s.bhat.set i
      (if i.val < numPos then 1 / (1 / s.bhat[i] + stepAlpha gproj numPos vs i s / γ)
       else 1 / (1 / s.bhat[i] - stepAlpha gproj numPos vs i s / γ)) := by
  have hp : ML.dot (Vec.ofStore vs[(i : ℕ)]) (Vec.ofStore (Vector.ofFn (ML.mulVec (Mat.ofStore s.A) (Vec.ofStore vs[(i : ℕ)])))) = stepP vs i s := by
    rw [dot_model_eq]; unfold stepP vvec; congr 1; funext c
    simp only [Vec.ofStore, Fin.getElem_fin, Vector.getElem_ofFn, Fin.eta]; rw [mulVec_model_eq]; rfl
  by_cases h : i.val < numPos
  · simp only [itmlStep, h, if_true, stepAlpha, Fin.getElem_fin, hp, smin_real]
  · simp only [itmlStep, h, if_false, stepAlpha, Fin.getElem_fin, hp, smin_real]

/-! ## the invariant -/

/-- `A₀⁻¹ + Σ_i y_i λ_i v_i v_iᵀ` -/
noncomputable def Bmat (B0 : Matrix (Fin d) (Fin d) ℝ) (numPos : ℕ) (vs : Vector (Vector ℝ d) m)
    (lam : Vector ℝ m) : Matrix (Fin d) (Fin d) ℝ :=
  B0 + ∑ j : Fin m, (ysign numPos j * lam[j]) • vecMulVec (vvec vs j) (vvec vs j)

structure ItmlInv (B0 : Matrix (Fin d) (Fin d) ℝ) (numPos : ℕ) (vs : Vector (Vector ℝ d) m)
    (s : ItmlState ℝ d m) : Prop where
  pd : (Amat s).PosDef
  inv : Amat s * Bmat B0 numPos vs s.lam = 1
  lam_nonneg : ∀ j : Fin m, 0 ≤ s.lam[j]
  xi_pos : ∀ j : Fin m, 0 < s.bhat[j]

theorem vector_set_get (v : Vector ℝ m) (i j : Fin m) (x : ℝ) :
    (v.set i x)[j] = if i = j then x else v[j] := by
  by_cases h : i = j
  · subst h; simp
  · have : (i : ℕ) ≠ (j : ℕ) := fun e => h (Fin.ext e)
    simp [h, Vector.getElem_set_ne, this]

theorem Bmat_set (B0 : Matrix (Fin d) (Fin d) ℝ) (numPos : ℕ) (vs : Vector (Vector ℝ d) m)
    (lam : Vector ℝ m) (i : Fin m) (x : ℝ) :
    Bmat B0 numPos vs (lam.set i x) =
      Bmat B0 numPos vs lam + (ysign numPos i * (x - lam[i])) • vecMulVec (vvec vs i) (vvec vs i) := by
  unfold Bmat
  have : ∀ j : Fin m, (ysign numPos j * (lam.set i x)[j]) • vecMulVec (vvec vs j) (vvec vs j) =
      (ysign numPos j * lam[j]) • vecMulVec (vvec vs j) (vvec vs j) +
      (if i = j then (ysign numPos i * (x - lam[i])) • vecMulVec (vvec vs i) (vvec vs i) else 0) := by
    intro j
    rw [vector_set_get]
    by_cases h : i = j
    · subst h; simp only [if_true]; module
    · simp [h]
  simp only [this, Finset.sum_add_distrib, Finset.sum_ite_eq, Finset.mem_univ, if_true]
  abel

/-- **one projection preserves the invariant**, for a non-collapsed pair and `γ > 0` -/
theorem itmlStep_inv (γ : ℝ) (hγ : 0 < γ) (B0 : Matrix (Fin d) (Fin d) ℝ) (numPos : ℕ)
    (vs : Vector (Vector ℝ d) m) (i : Fin m) (hv : vvec vs i ≠ 0) (s : ItmlState ℝ d m)
    (h : ItmlInv B0 numPos vs s) : ItmlInv B0 numPos vs (itmlStep γ (γ / (γ + 1)) numPos vs i s) := by
  set A := Amat s
  set v := vvec vs i
  set p := stepP vs i s
  have hp : 0 < p := by
    have := h.pd.dotProduct_mulVec_pos hv
    simpa [p, stepP] using this
  have hAt : Aᵀ = A := posDef_transpose_eq h.pd
  set α := stepAlpha (γ / (γ + 1)) numPos vs i s with hα
  set β := stepBeta (γ / (γ + 1)) numPos vs i s with hβdef
  by_cases hpos : i.val < numPos
  · -- positive pair
    have hαv : α = min s.lam[i] (γ / (γ + 1) * (1 / p - 1 / s.bhat[i])) := by simp [hα, stepAlpha, hpos, p]
    have hβv : β = α / (1 - α * p) := by simp [hβdef, stepBeta, hpos, hα, p]
    obtain ⟨h1, h2, h3⟩ := pos_scalars s.lam[i] p s.bhat[i] γ (h.lam_nonneg i) hp (h.xi_pos i) hγ
    rw [← hαv] at h1 h2 h3
    have hβ : β * (1 - α * (v ⬝ᵥ A *ᵥ v)) = α := by
      show β * (1 - α * p) = α
      rw [hβv]; field_simp
    have hsign : 0 ≤ β ∨ α ≤ 0 := by
      by_cases ha : 0 ≤ α
      · left; rw [hβv]; exact div_nonneg ha h2.le
      · right; linarith
    have hy : ysign numPos i = 1 := by simp [ysign, hpos]
    refine ⟨?_, ?_, ?_, ?_⟩
    · rw [itmlStep_A]; exact step_posDef A _ h.pd h.inv v α β hβ hsign
    · rw [itmlStep_A, itmlStep_lam, Bmat_set, hy]
      have := step_inverse A _ hAt h.inv v α β hβ
      have e : (1:ℝ) * (s.lam[i] - α - s.lam[i]) = -α := by ring
      rw [e, neg_smul, ← sub_eq_add_neg]
      exact this
    · intro j; rw [itmlStep_lam, vector_set_get]; split
      · exact h1
      · exact h.lam_nonneg j
    · intro j; rw [itmlStep_bhat, vector_set_get]; split
      · first | exact one_div_pos.mpr h3 | (exfalso; omega)
      · exact h.xi_pos j
  · -- negative pair: the same algebra with α' = −α
    have hαv : α = min s.lam[i] (γ / (γ + 1) * (1 / s.bhat[i] - 1 / p)) := by simp [hα, stepAlpha, hpos, p]
    have hβv : β = (-α) / (1 + α * p) := by simp [hβdef, stepBeta, hpos, hα, p]
    obtain ⟨h1, h2, h3⟩ := neg_scalars s.lam[i] p s.bhat[i] γ (h.lam_nonneg i) hp (h.xi_pos i) hγ
    rw [← hαv] at h1 h2 h3
    have hβ : β * (1 - (-α) * (v ⬝ᵥ A *ᵥ v)) = -α := by
      show β * (1 - (-α) * p) = -α
      rw [hβv]; field_simp; ring
    have hsign : 0 ≤ β ∨ (-α) ≤ 0 := by
      by_cases ha : 0 ≤ α
      · right; linarith
      · left; rw [hβv]; exact div_nonneg (by linarith) h2.le
    have hy : ysign numPos i = -1 := by simp [ysign, hpos]
    refine ⟨?_, ?_, ?_, ?_⟩
    · rw [itmlStep_A]; exact step_posDef A _ h.pd h.inv v (-α) β hβ hsign
    · rw [itmlStep_A, itmlStep_lam, Bmat_set, hy]
      have := step_inverse A _ hAt h.inv v (-α) β hβ
      have e : (-1:ℝ) * (s.lam[i] - α - s.lam[i]) = α := by ring
      rw [e]
      rw [neg_smul, sub_neg_eq_add] at this
      exact this
    · intro j; rw [itmlStep_lam, vector_set_get]; split
      · exact h1
      · exact h.lam_nonneg j
    · intro j; rw [itmlStep_bhat, vector_set_get]; split
      · first | exact one_div_pos.mpr h3 | (exfalso; omega)
      · exact h.xi_pos j

/-- the initial state satisfies the invariant: `A₀ ≻ 0`, `B₀ = A₀⁻¹`, `λ = 0`, positive bounds -/
theorem itmlInit_inv (A0 : Vector (Vector ℝ d) d) (B0 : Matrix (Fin d) (Fin d) ℝ) (numPos : ℕ)
    (vs : Vector (Vector ℝ d) m) (u l : ℝ) (hu : 0 < u) (hl : 0 < l)
    (hpd : (Matrix.of (Mat.ofStore A0)).PosDef) (hB : Matrix.of (Mat.ofStore A0) * B0 = 1) :
    ItmlInv B0 numPos vs (itmlInit A0 numPos u l : ItmlState ℝ d m) := by
  refine ⟨hpd, ?_, ?_, ?_⟩
  · simp only [Bmat, itmlInit, Amat]
    have : ∀ j : Fin m, (Vector.ofFn fun _ : Fin m => (0:ℝ))[j] = 0 := by intro j; simp
    simp only [this, mul_zero, zero_smul, Finset.sum_const_zero, add_zero]
    exact hB
  · intro j; simp [itmlInit]
  · intro j; simp only [itmlInit, Fin.getElem_fin, Vector.getElem_ofFn]; split <;> assumption

/-- **C11 main invariant.**  After any sequence of projections (any order, any number of sweeps,
hence any `max_iter`) starting from a prior `A₀ ≻ 0`, with positive bounds, `γ > 0` and non-collapsed
pairs: the iterate is symmetric positive definite, its inverse is `A₀⁻¹ + Σ_i y_i λ_i v_i v_iᵀ`
with all `λ_i ≥ 0`, and all slack-adjusted bounds `ξ_i` stay positive. -/
theorem C11_invariant (γ : ℝ) (hγ : 0 < γ) (A0 : Vector (Vector ℝ d) d) (B0 : Matrix (Fin d) (Fin d) ℝ)
    (numPos : ℕ) (vs : Vector (Vector ℝ d) m) (u l : ℝ) (hu : 0 < u) (hl : 0 < l)
    (hpd : (Matrix.of (Mat.ofStore A0)).PosDef) (hB : Matrix.of (Mat.ofStore A0) * B0 = 1)
    (hv : ∀ i, vvec vs i ≠ 0) (order : List (Fin m)) :
    ItmlInv B0 numPos vs (itmlSteps γ (γ / (γ + 1)) numPos vs order (itmlInit A0 numPos u l)) := by
  have gen : ∀ (order : List (Fin m)) (s : ItmlState ℝ d m), ItmlInv B0 numPos vs s →
      ItmlInv B0 numPos vs (itmlSteps γ (γ / (γ + 1)) numPos vs order s) := by
    intro order
    induction order with
    | nil => intro s hs; exact hs
    | cons i rest ih =>
      intro s hs
      simp only [itmlSteps, List.foldl_cons]
      exact ih _ (itmlStep_inv γ hγ B0 numPos vs i (hv i) s hs)
  exact gen order _ (itmlInit_inv A0 B0 numPos vs u l hu hl hpd hB)

/-- the learned matrix is symmetric positive definite -/
theorem C11_pd (γ : ℝ) (hγ : 0 < γ) (A0 : Vector (Vector ℝ d) d) (B0 : Matrix (Fin d) (Fin d) ℝ)
    (numPos : ℕ) (vs : Vector (Vector ℝ d) m) (u l : ℝ) (hu : 0 < u) (hl : 0 < l)
    (hpd : (Matrix.of (Mat.ofStore A0)).PosDef) (hB : Matrix.of (Mat.ofStore A0) * B0 = 1)
    (hv : ∀ i, vvec vs i ≠ 0) (order : List (Fin m)) :
    let s := itmlSteps γ (γ / (γ + 1)) numPos vs order (itmlInit A0 numPos u l)
    (Amat s).PosDef ∧ (Amat s)ᵀ = Amat s := by
  intro s
  have := C11_invariant γ hγ A0 B0 numPos vs u l hu hl hpd hB hv order
  exact ⟨this.pd, posDef_transpose_eq this.pd⟩

/-- `M⁻¹ − M₀⁻¹ = Σ_i y_i λ_i v_i v_iᵀ` with `λ ≥ 0` -/
theorem C11_inverse_form (γ : ℝ) (hγ : 0 < γ) (A0 : Vector (Vector ℝ d) d) (B0 : Matrix (Fin d) (Fin d) ℝ)
    (numPos : ℕ) (vs : Vector (Vector ℝ d) m) (u l : ℝ) (hu : 0 < u) (hl : 0 < l)
    (hpd : (Matrix.of (Mat.ofStore A0)).PosDef) (hB : Matrix.of (Mat.ofStore A0) * B0 = 1)
    (hv : ∀ i, vvec vs i ≠ 0) (order : List (Fin m)) :
    let s := itmlSteps γ (γ / (γ + 1)) numPos vs order (itmlInit A0 numPos u l)
    (Amat s)⁻¹ - B0 = ∑ j : Fin m, (ysign numPos j * s.lam[j]) • vecMulVec (vvec vs j) (vvec vs j) ∧
    ∀ j : Fin m, 0 ≤ s.lam[j] := by
  intro s
  have h := C11_invariant γ hγ A0 B0 numPos vs u l hu hl hpd hB hv order
  refine ⟨?_, h.lam_nonneg⟩
  have : (Amat s)⁻¹ = Bmat B0 numPos vs s.lam := Matrix.inv_eq_right_inv h.inv
  rw [this, Bmat]; abel

/-! ## a feasible prior is a fixed point -/

/-- constraint `i` holds with its current slack-adjusted bound -/
def Feasible (numPos : ℕ) (vs : Vector (Vector ℝ d) m) (s : ItmlState ℝ d m) (i : Fin m) : Prop :=
  0 < stepP vs i s ∧ 0 < s.bhat[i] ∧
  (if i.val < numPos then stepP vs i s ≤ s.bhat[i] else s.bhat[i] ≤ stepP vs i s)

theorem stepAlpha_zero_of_feasible (γ : ℝ) (hγ : 0 < γ) (numPos : ℕ) (vs : Vector (Vector ℝ d) m)
    (s : ItmlState ℝ d m) (i : Fin m) (hl : s.lam[i] = 0) (hf : Feasible numPos vs s i) :
    stepAlpha (γ / (γ + 1)) numPos vs i s = 0 := by
  obtain ⟨hp, hx, hc⟩ := hf
  have hg : 0 < γ / (γ + 1) := by positivity
  unfold stepAlpha
  by_cases h : i.val < numPos
  · simp only [h, if_true] at hc ⊢
    rw [hl]
    apply min_eq_left
    apply mul_nonneg hg.le
    rw [sub_nonneg]
    exact one_div_le_one_div_of_le hp hc
  · simp only [h, if_false] at hc ⊢
    rw [hl]
    apply min_eq_left
    apply mul_nonneg hg.le
    rw [sub_nonneg]
    exact one_div_le_one_div_of_le hx hc

theorem itmlStep_fixed (γ : ℝ) (hγ : 0 < γ) (numPos : ℕ) (vs : Vector (Vector ℝ d) m)
    (s : ItmlState ℝ d m) (i : Fin m) (hl : s.lam[i] = 0) (hf : Feasible numPos vs s i) :
    Amat (itmlStep γ (γ / (γ + 1)) numPos vs i s) = Amat s ∧
    (itmlStep γ (γ / (γ + 1)) numPos vs i s).lam = s.lam ∧
    (itmlStep γ (γ / (γ + 1)) numPos vs i s).bhat = s.bhat := by
  have hα := stepAlpha_zero_of_feasible γ hγ numPos vs s i hl hf
  have hβ : stepBeta (γ / (γ + 1)) numPos vs i s = 0 := by
    unfold stepBeta; rw [hα]; split <;> simp
  have hx : s.bhat[i] ≠ 0 := (hf.2.1).ne'
  refine ⟨?_, ?_, ?_⟩
  · rw [itmlStep_A, hβ, zero_smul, add_zero]
  · rw [itmlStep_lam, hα, sub_zero]
    apply Vector.ext; intro j hj
    have := vector_set_get s.lam i ⟨j, hj⟩ s.lam[i]
    simp only [Fin.getElem_fin] at this ⊢
    rw [this]; split
    · rename_i e; subst e; rfl
    · rfl
  · rw [itmlStep_bhat, hα]
    have e : (if i.val < numPos then 1 / (1 / s.bhat[i] + 0 / γ) else 1 / (1 / s.bhat[i] - 0 / γ)) = s.bhat[i] := by
      split <;> simp
    rw [e]
    apply Vector.ext; intro j hj
    have := vector_set_get s.bhat i ⟨j, hj⟩ s.bhat[i]
    simp only [Fin.getElem_fin] at this ⊢
    rw [this]; split
    · rename_i e; subst e; rfl
    · rfl

/-- **if the prior already satisfies all bounds it is returned unchanged**: with all `λ = 0` and every
constraint feasible, no projection of any sweep changes the matrix -/
theorem C11_prior_feasible_fixed (γ : ℝ) (hγ : 0 < γ) (numPos : ℕ) (vs : Vector (Vector ℝ d) m)
    (order : List (Fin m)) (s : ItmlState ℝ d m)
    (hl : ∀ i : Fin m, s.lam[i] = 0) (hf : ∀ i : Fin m, Feasible numPos vs s i) :
    Amat (itmlSteps γ (γ / (γ + 1)) numPos vs order s) = Amat s := by
  -- strengthen: the three observable components are all unchanged
  have gen : ∀ (order : List (Fin m)) (s' : ItmlState ℝ d m),
      Amat s' = Amat s → s'.lam = s.lam → s'.bhat = s.bhat →
      Amat (itmlSteps γ (γ / (γ + 1)) numPos vs order s') = Amat s := by
    intro order
    induction order with
    | nil => intro s' hA _ _; exact hA
    | cons i rest ih =>
      intro s' hA hlam hb
      simp only [itmlSteps, List.foldl_cons]
      have hl' : s'.lam[i] = 0 := by rw [hlam]; exact hl i
      have hf' : Feasible numPos vs s' i := by
        have := hf i
        unfold Feasible stepP at this ⊢
        rw [hA, hb]; exact this
      obtain ⟨e1, e2, e3⟩ := itmlStep_fixed γ hγ numPos vs s' i hl' hf'
      exact ih _ (e1.trans hA) (e2.trans hlam) (e3.trans hb)
  exact gen order s rfl rfl rfl

/-- the KKT certificate evaluated by the correspondence check on the solver's final state -/
structure KKT (B0 : Matrix (Fin d) (Fin d) ℝ) (numPos : ℕ) (vs : Vector (Vector ℝ d) m) (γ : ℝ)
    (s : ItmlState ℝ d m) : Prop where
  stationarity : Amat s * Bmat B0 numPos vs s.lam = 1
  dual_feasible : ∀ j : Fin m, 0 ≤ s.lam[j]
  /-- every constraint is a fixed point of its projection: inactive (`λ = 0`, bound satisfied) or tight -/
  slackness : ∀ j : Fin m, stepAlpha (γ / (γ + 1)) numPos vs j s = 0

/-- `C11_kkt_def`: the first two KKT conditions hold after any number of projections; the third is the
solver's own convergence condition (all projection steps vanish) -/
theorem C11_kkt_of_converged (γ : ℝ) (B0 : Matrix (Fin d) (Fin d) ℝ) (numPos : ℕ)
    (vs : Vector (Vector ℝ d) m) (s : ItmlState ℝ d m) (h : ItmlInv B0 numPos vs s)
    (hconv : ∀ j : Fin m, stepAlpha (γ / (γ + 1)) numPos vs j s = 0) : KKT B0 numPos vs γ s :=
  ⟨h.inv, h.lam_nonneg, hconv⟩

/-! non-vacuity: a violated similarity constraint (distance² 4 > bound 1) makes the projection move -/
example : (itmlStep (K := Rat) 1 (1/2) 1 #v[#v[2]] ⟨0, by decide⟩ (itmlInit #v[#v[1]] 1 1 1)).lam[0] = 3/8 := by
  decide +kernel

/-! ## KKT ⇒ global optimum of the slack-regularised LogDet program -/

/-- the documented objective `D_ld(M, M₀) + γ·D_ld(diag ξ, diag ξ₀)` up to the additive constant
`−log det M₀⁻¹ − d − γ Σ_j (1 − log ξ₀ⱼ)`; `B0 = M₀⁻¹` -/
noncomputable def itmlObjective (B0 : Matrix (Fin d) (Fin d) ℝ) (γ : ℝ) (ξ0 : Fin m → ℝ)
    (M : Matrix (Fin d) (Fin d) ℝ) (ξ : Fin m → ℝ) : ℝ :=
  (M * B0).trace - Real.log M.det + γ * ∑ j, (ξ j / ξ0 j - Real.log (ξ j))

/-- similar pairs within their slack bound, dissimilar pairs beyond it -/
def ItmlFeasible (numPos : ℕ) (v : Fin m → Fin d → ℝ) (M : Matrix (Fin d) (Fin d) ℝ) (ξ : Fin m → ℝ) : Prop :=
  ∀ j : Fin m, 0 ≤ ysign numPos j * (ξ j - v j ⬝ᵥ M *ᵥ v j)

theorem trace_mul_vecMulVec (M : Matrix (Fin d) (Fin d) ℝ) (v : Fin d → ℝ) :
    (M * vecMulVec v v).trace = v ⬝ᵥ M *ᵥ v := by
  rw [Matrix.mul_vecMulVec, Matrix.trace_vecMulVec, dotProduct_comm]

theorem trace_mul_sum_vecMulVec (M : Matrix (Fin d) (Fin d) ℝ) (c : Fin m → ℝ) (v : Fin m → Fin d → ℝ) :
    (M * ∑ j, c j • vecMulVec (v j) (v j)).trace = ∑ j, c j * (v j ⬝ᵥ M *ᵥ v j) := by
  rw [Matrix.mul_sum, Matrix.trace_sum]
  apply Finset.sum_congr rfl; intro j _
  rw [Matrix.mul_smul, Matrix.trace_smul, trace_mul_vecMulVec, smul_eq_mul]

/-- **KKT ⇒ the unique optimum.**  If `A ≻ 0`, `A⁻¹ = M₀⁻¹ + Σ y_j λ_j v_j v_jᵀ`,
`γ(1/ξ₀ⱼ − 1/ξⱼ) = y_j λ_j`, `λ ≥ 0` and every constraint is inactive (`λ_j = 0`) or tight, then `(A, ξ)`
minimises the objective over every feasible `(M', ξ')` with `M' ≻ 0`, `ξ' > 0`, and any feasible point
that does as well is `(A, ξ)` itself. -/
theorem C11_kkt_optimal_unique (B0 : Matrix (Fin d) (Fin d) ℝ) (γ : ℝ) (hγ : 0 < γ) (ξ0 : Fin m → ℝ) (numPos : ℕ)
    (v : Fin m → Fin d → ℝ) (A : Matrix (Fin d) (Fin d) ℝ) (ξ lam : Fin m → ℝ)
    (hA : A.PosDef) (hξ : ∀ j, 0 < ξ j)
    (hinv : A * (B0 + ∑ j, (ysign numPos j * lam j) • vecMulVec (v j) (v j)) = 1)
    (hslack : ∀ j, 1 / ξ j = 1 / ξ0 j - ysign numPos j * lam j / γ)
    (hlam : ∀ j, 0 ≤ lam j)
    (hcs : ∀ j, lam j = 0 ∨ v j ⬝ᵥ A *ᵥ v j = ξ j)
    (M' : Matrix (Fin d) (Fin d) ℝ) (ξ' : Fin m → ℝ) (hM' : M'.PosDef) (hξ' : ∀ j, 0 < ξ' j)
    (hfeas : ItmlFeasible numPos v M' ξ') :
    itmlObjective B0 γ ξ0 A ξ ≤ itmlObjective B0 γ ξ0 M' ξ' ∧
    (itmlObjective B0 γ ξ0 M' ξ' ≤ itmlObjective B0 γ ξ0 A ξ → M' = A ∧ ξ' = ξ) := by
  set S := ∑ j, (ysign numPos j * lam j) • vecMulVec (v j) (v j) with hS
  set W := B0 + S with hW
  have hWinv : A⁻¹ = W := Matrix.inv_eq_right_inv hinv
  have hWpd : W.PosDef := hWinv ▸ hA.inv
  -- determinant bookkeeping
  have hdetAW : A.det * W.det = 1 := by rw [← Matrix.det_mul, hinv, Matrix.det_one]
  have hdA := hA.det_pos
  have hlogW : Real.log W.det = - Real.log A.det := by
    have : W.det = (A.det)⁻¹ := by field_simp; linarith [hdetAW]
    rw [this, Real.log_inv]
  -- the matrix part
  have h1 := log_det_pd_le W M' hWpd hM'
  have htrAW : (A * W).trace = d := by rw [hinv]; simp
  have hB0 : B0 = W - S := by simp [hW]
  have e1 : (M' * B0).trace = (W * M').trace - ∑ j, (ysign numPos j * lam j) * (v j ⬝ᵥ M' *ᵥ v j) := by
    rw [hB0, Matrix.mul_sub, Matrix.trace_sub, Matrix.trace_mul_comm M' W, hS, trace_mul_sum_vecMulVec]
  have e2 : (A * B0).trace = d - ∑ j, (ysign numPos j * lam j) * (v j ⬝ᵥ A *ᵥ v j) := by
    rw [hB0, Matrix.mul_sub, Matrix.trace_sub, htrAW, hS, trace_mul_sum_vecMulVec]
  -- the slack part: the gap of term j is exactly the gap of `log x ≤ x − 1` at `x = ξ'ⱼ/ξⱼ`
  have key : ∀ j, (ξ' j / ξ0 j - Real.log (ξ' j))
      - (ξ j / ξ0 j - Real.log (ξ j) + ysign numPos j * lam j / γ * (ξ' j - ξ j))
      = (ξ' j / ξ j - 1) - (Real.log (ξ' j) - Real.log (ξ j)) := by
    intro j
    have hs := hslack j
    have : ysign numPos j * lam j / γ = 1 / ξ0 j - 1 / ξ j := by linarith
    rw [this]
    have hne := (hξ j).ne'
    have e : ξ' j / ξ j = (ξ' j - ξ j) * (1 / ξ j) + 1 := by field_simp; ring
    rw [e]; ring
  have hlog : ∀ j, Real.log (ξ' j) - Real.log (ξ j) ≤ ξ' j / ξ j - 1 := by
    intro j
    have hx : 0 < ξ' j / ξ j := div_pos (hξ' j) (hξ j)
    have hl := Real.log_le_sub_one_of_pos hx
    rwa [Real.log_div (hξ' j).ne' (hξ j).ne'] at hl
  have h2 : ∀ j ∈ Finset.univ, ξ j / ξ0 j - Real.log (ξ j) + ysign numPos j * lam j / γ * (ξ' j - ξ j)
      ≤ ξ' j / ξ0 j - Real.log (ξ' j) := by
    intro j _
    have := key j; have := hlog j
    linarith
  have h2s := Finset.sum_le_sum h2
  -- complementary slackness and feasibility, term by term
  have h3 : ∀ j, 0 ≤ (ysign numPos j * lam j) * ((v j ⬝ᵥ A *ᵥ v j) - ξ j)
      - (ysign numPos j * lam j) * ((v j ⬝ᵥ M' *ᵥ v j) - ξ' j) := by
    intro j
    have hf := hfeas j
    have t1 : (ysign numPos j * lam j) * ((v j ⬝ᵥ A *ᵥ v j) - ξ j) = 0 := by
      rcases hcs j with h | h
      · rw [h]; ring
      · rw [h]; ring
    rw [t1]
    have : (ysign numPos j * lam j) * ((v j ⬝ᵥ M' *ᵥ v j) - ξ' j)
        = - (lam j * (ysign numPos j * (ξ' j - v j ⬝ᵥ M' *ᵥ v j))) := by ring
    rw [this]
    have := mul_nonneg (hlam j) hf
    linarith
  have h3s := Finset.sum_nonneg (fun j (_ : j ∈ Finset.univ) => h3 j)
  rw [Finset.sum_sub_distrib] at h3s
  simp only [mul_sub, Finset.sum_sub_distrib] at h3s
  have h2s' : γ * ∑ j, ysign numPos j * lam j / γ * (ξ' j - ξ j)
      = ∑ j, (ysign numPos j * lam j) * ξ' j - ∑ j, (ysign numPos j * lam j) * ξ j := by
    rw [Finset.mul_sum, ← Finset.sum_sub_distrib]
    apply Finset.sum_congr rfl; intro j _
    field_simp
  have hmul := mul_le_mul_of_nonneg_left h2s hγ.le
  rw [Finset.sum_add_distrib, mul_add, h2s'] at hmul
  unfold itmlObjective
  rw [e1, e2]
  refine ⟨by linarith, ?_⟩
  intro hle
  -- all three gaps vanish
  have g1 : (W * M').trace - d ≤ Real.log W.det + Real.log M'.det := by linarith
  have hWM : W * M' = 1 := mul_eq_one_of_log_det_eq W M' hWpd hM' g1
  have hMA : M' = A := by
    calc M' = (A * W) * M' := by rw [hinv, Matrix.one_mul]
      _ = A * (W * M') := Matrix.mul_assoc _ _ _
      _ = A := by rw [hWM, Matrix.mul_one]
  have g2 : γ * ∑ j, (ξ' j / ξ0 j - Real.log (ξ' j))
      ≤ γ * ∑ j, (ξ j / ξ0 j - Real.log (ξ j) + ysign numPos j * lam j / γ * (ξ' j - ξ j)) := by
    rw [Finset.sum_add_distrib, mul_add, h2s']; linarith
  have g2' := le_of_mul_le_mul_left g2 hγ
  have heq := (Finset.sum_eq_sum_iff_of_le h2).mp (le_antisymm h2s g2')
  refine ⟨hMA, ?_⟩
  funext j
  have hj := heq j (Finset.mem_univ j)
  have hk := key j
  have hx : 0 < ξ' j / ξ j := div_pos (hξ' j) (hξ j)
  by_contra hne
  have hne' : ξ' j / ξ j ≠ 1 := by
    intro h1'; exact hne ((div_eq_one_iff_eq (hξ j).ne').mp h1')
  have := Real.log_lt_sub_one_of_pos hx hne'
  rw [Real.log_div (hξ' j).ne' (hξ j).ne'] at this
  linarith

theorem C11_kkt_optimal (B0 : Matrix (Fin d) (Fin d) ℝ) (γ : ℝ) (hγ : 0 < γ) (ξ0 : Fin m → ℝ) (numPos : ℕ)
    (v : Fin m → Fin d → ℝ) (A : Matrix (Fin d) (Fin d) ℝ) (ξ lam : Fin m → ℝ)
    (hA : A.PosDef) (hξ : ∀ j, 0 < ξ j)
    (hinv : A * (B0 + ∑ j, (ysign numPos j * lam j) • vecMulVec (v j) (v j)) = 1)
    (hslack : ∀ j, 1 / ξ j = 1 / ξ0 j - ysign numPos j * lam j / γ)
    (hlam : ∀ j, 0 ≤ lam j)
    (hcs : ∀ j, lam j = 0 ∨ v j ⬝ᵥ A *ᵥ v j = ξ j)
    (M' : Matrix (Fin d) (Fin d) ℝ) (ξ' : Fin m → ℝ) (hM' : M'.PosDef) (hξ' : ∀ j, 0 < ξ' j)
    (hfeas : ItmlFeasible numPos v M' ξ') :
    itmlObjective B0 γ ξ0 A ξ ≤ itmlObjective B0 γ ξ0 M' ξ' :=
  (C11_kkt_optimal_unique B0 γ hγ ξ0 numPos v A ξ lam hA hξ hinv hslack hlam hcs M' ξ' hM' hξ' hfeas).1

/-! ## the solver's slack variables satisfy their stationarity equation at every step -/

/-- `γ(1/ξ₀ⱼ − 1/ξⱼ) = y_j λ_j`, in the form the solver maintains -/
def SlackInv (γ : ℝ) (ξ0 : Fin m → ℝ) (numPos : ℕ) (s : ItmlState ℝ d m) : Prop :=
  ∀ j : Fin m, 1 / s.bhat[j] = 1 / ξ0 j - ysign numPos j * s.lam[j] / γ

theorem itmlStep_slack (γ gproj : ℝ) (ξ0 : Fin m → ℝ) (numPos : ℕ) (vs : Vector (Vector ℝ d) m) (i : Fin m)
    (s : ItmlState ℝ d m) (h : SlackInv γ ξ0 numPos s) : SlackInv γ ξ0 numPos (itmlStep γ gproj numPos vs i s) := by
  intro j
  rw [itmlStep_lam, itmlStep_bhat, vector_set_get, vector_set_get]
  by_cases hij : i = j
  · subst hij
    simp only [if_true]
    have := h i
    by_cases hpos : i.val < numPos
    · have hy : ysign numPos i = 1 := by simp [ysign, hpos]
      rw [if_pos hpos, one_div_one_div, this, hy]; ring
    · have hy : ysign numPos i = -1 := by simp [ysign, hpos]
      rw [if_neg hpos, one_div_one_div, this, hy]; ring
  · simp only [hij, if_false]; exact h j

theorem itmlSteps_slack (γ gproj : ℝ) (ξ0 : Fin m → ℝ) (numPos : ℕ) (vs : Vector (Vector ℝ d) m)
    (order : List (Fin m)) (s : ItmlState ℝ d m) (h : SlackInv γ ξ0 numPos s) :
    SlackInv γ ξ0 numPos (itmlSteps γ gproj numPos vs order s) := by
  induction order generalizing s with
  | nil => exact h
  | cons i rest ih =>
    simp only [itmlSteps, List.foldl_cons]
    exact ih _ (itmlStep_slack γ gproj ξ0 numPos vs i s h)

theorem itmlInit_slack (γ : ℝ) (A0 : Vector (Vector ℝ d) d) (numPos : ℕ) (u l : ℝ) :
    SlackInv γ (fun j : Fin m => if j.val < numPos then u else l) numPos (itmlInit A0 numPos u l : ItmlState ℝ d m) := by
  intro j
  simp [itmlInit]

/-- a vanishing projection step means: constraint satisfied, and inactive or tight -/
theorem stepAlpha_zero (γ : ℝ) (hγ : 0 < γ) (numPos : ℕ) (vs : Vector (Vector ℝ d) m) (j : Fin m)
    (s : ItmlState ℝ d m) (hp : 0 < stepP vs j s) (hξ : 0 < s.bhat[j])
    (h0 : stepAlpha (γ / (γ + 1)) numPos vs j s = 0) :
    0 ≤ ysign numPos j * (s.bhat[j] - stepP vs j s) ∧ (s.lam[j] = 0 ∨ stepP vs j s = s.bhat[j]) := by
  have hg : 0 < γ / (γ + 1) := div_pos hγ (by linarith)
  set p := stepP vs j s
  set ξ := s.bhat[j]
  unfold stepAlpha at h0
  by_cases hpos : j.val < numPos
  · rw [if_pos hpos] at h0
    have hy : ysign numPos j = 1 := by simp [ysign, hpos]
    rw [hy]
    have hr : 0 ≤ γ / (γ + 1) * (1 / p - 1 / ξ) := by
      have := min_le_right s.lam[j] (γ / (γ + 1) * (1 / p - 1 / ξ)); rw [h0] at this; exact this
    have hr' : 0 ≤ 1 / p - 1 / ξ := nonneg_of_mul_nonneg_right hr hg
    have hle : p ≤ ξ := by
      have : 1 / ξ ≤ 1 / p := by linarith
      exact (one_div_le_one_div hξ hp).mp this
    refine ⟨by linarith, ?_⟩
    rcases min_choice s.lam[j] (γ / (γ + 1) * (1 / p - 1 / ξ)) with hm | hm
    · left; rw [hm] at h0; exact h0
    · right
      rw [hm] at h0
      have : 1 / p - 1 / ξ = 0 := by
        rcases mul_eq_zero.mp h0 with h | h
        · exact absurd h hg.ne'
        · exact h
      have : 1 / p = 1 / ξ := by linarith
      field_simp at this
      linarith
  · rw [if_neg hpos] at h0
    have hy : ysign numPos j = -1 := by simp [ysign, hpos]
    rw [hy]
    have hr : 0 ≤ γ / (γ + 1) * (1 / ξ - 1 / p) := by
      have := min_le_right s.lam[j] (γ / (γ + 1) * (1 / ξ - 1 / p)); rw [h0] at this; exact this
    have hr' : 0 ≤ 1 / ξ - 1 / p := nonneg_of_mul_nonneg_right hr hg
    have hle : ξ ≤ p := by
      have : 1 / p ≤ 1 / ξ := by linarith
      exact (one_div_le_one_div hp hξ).mp this
    refine ⟨by linarith, ?_⟩
    rcases min_choice s.lam[j] (γ / (γ + 1) * (1 / ξ - 1 / p)) with hm | hm
    · left; rw [hm] at h0; exact h0
    · right
      rw [hm] at h0
      have : 1 / ξ - 1 / p = 0 := by
        rcases mul_eq_zero.mp h0 with h | h
        · exact absurd h hg.ne'
        · exact h
      have : 1 / ξ = 1 / p := by linarith
      field_simp at this
      linarith

/-- **C11, optimality of the converged solver state.**  Start from any prior `A₀ ≻ 0` (`B₀ = A₀⁻¹`),
positive bounds `u` (similar) and `l` (dissimilar) — in either order —, `γ > 0`, non-collapsed pairs; run
any sequence of projections.  If every projection step now vanishes (the solver's convergence condition)
then the final `(A, ξ)` is feasible, minimises the slack-regularised LogDet objective over all feasible
`(M', ξ')`, and is the only feasible point attaining that minimum.  (The hypothesis is satisfiable: see
`C11_prior_feasible_fixed` — a prior that meets all bounds makes every step vanish.) -/
theorem C11_converged_optimal (γ : ℝ) (hγ : 0 < γ) (A0 : Vector (Vector ℝ d) d) (B0 : Matrix (Fin d) (Fin d) ℝ)
    (numPos : ℕ) (vs : Vector (Vector ℝ d) m) (u l : ℝ) (hu : 0 < u) (hl : 0 < l)
    (hpd : (Matrix.of (Mat.ofStore A0)).PosDef) (hB : Matrix.of (Mat.ofStore A0) * B0 = 1)
    (hv : ∀ i : Fin m, vvec vs i ≠ 0) (order : List (Fin m))
    (hconv : ∀ j : Fin m, stepAlpha (γ / (γ + 1)) numPos vs j
      (itmlSteps γ (γ / (γ + 1)) numPos vs order (itmlInit A0 numPos u l)) = 0) :
    let s := itmlSteps γ (γ / (γ + 1)) numPos vs order (itmlInit A0 numPos u l)
    let ξ0 : Fin m → ℝ := fun j => if j.val < numPos then u else l
    let ξ : Fin m → ℝ := fun j => s.bhat[j]
    ItmlFeasible numPos (vvec vs) (Amat s) ξ ∧
    ∀ (M' : Matrix (Fin d) (Fin d) ℝ) (ξ' : Fin m → ℝ), M'.PosDef → (∀ j, 0 < ξ' j) →
      ItmlFeasible numPos (vvec vs) M' ξ' →
      itmlObjective B0 γ ξ0 (Amat s) ξ ≤ itmlObjective B0 γ ξ0 M' ξ' ∧
      (itmlObjective B0 γ ξ0 M' ξ' ≤ itmlObjective B0 γ ξ0 (Amat s) ξ → M' = Amat s ∧ ξ' = ξ) := by
  intro s ξ0 ξ
  have hI : ItmlInv B0 numPos vs s := C11_invariant γ hγ A0 B0 numPos vs u l hu hl hpd hB hv order
  have hS : SlackInv γ ξ0 numPos s := itmlSteps_slack γ _ ξ0 numPos vs order _ (itmlInit_slack γ A0 numPos u l)
  have hp : ∀ j, 0 < stepP vs j s := fun j => by
    have := hI.pd.dotProduct_mulVec_pos (hv j)
    simpa [stepP] using this
  have hz := fun j => stepAlpha_zero γ hγ numPos vs j s (hp j) (hI.xi_pos j) (hconv j)
  refine ⟨fun j => (hz j).1, ?_⟩
  intro M' ξ' hM' hξ' hfeas
  exact C11_kkt_optimal_unique B0 γ hγ ξ0 numPos (vvec vs) (Amat s) ξ (fun j => s.lam[j]) hI.pd (fun j => hI.xi_pos j)
    hI.inv (fun j => hS j) (fun j => hI.lam_nonneg j) (fun j => (hz j).2) M' ξ' hM' hξ' hfeas
