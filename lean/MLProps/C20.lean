import MLProps.Bridge
import MLProps.Pinv
import MLGen.Funcs
/-!
# C20 — PSD matrices are converted, validated and initialised as documented
-/
open ML Matrix

variable {d : ℕ}

theorem reconstruct_eq (V : Mat ℝ d d) (w : Vec ℝ d) :
    Matrix.of (reconstruct V w) = Matrix.of V * Matrix.diagonal w * (Matrix.of V)ᵀ := by
  ext a b
  simp [reconstruct, vsum_eq_sum, Matrix.mul_apply, Matrix.diagonal]

/-- eigen branch: for *any* `V`, `w` the returned `L` has `LᵀL = V diag(max 0 w) Vᵀ` -/
theorem C20_eig_clipped (V : Mat ℝ d d) (w : Vec ℝ d) :
    mahalanobis (componentsFromEig V w) = reconstruct V (fun i => max 0 (w i)) := by
  funext a b
  simp only [mahalanobis, componentsFromEig, reconstruct, vsum_eq_sum, sqrt_real, smax_real]
  apply Finset.sum_congr rfl; intro i _
  have h : Real.sqrt (max 0 (w i)) * Real.sqrt (max 0 (w i)) = max 0 (w i) :=
    Real.mul_self_sqrt (le_max_left _ _)
  calc V a i * Real.sqrt (max 0 (w i)) * (V b i * Real.sqrt (max 0 (w i)))
      = V a i * (Real.sqrt (max 0 (w i)) * Real.sqrt (max 0 (w i))) * V b i := by ring
    _ = V a i * max 0 (w i) * V b i := by rw [h]

/-- eigen branch with a PSD spectrum: `LᵀL = M` whenever `M = V diag(w) Vᵀ`, `w ≥ 0` -/
theorem C20_eig (M V : Mat ℝ d d) (w : Vec ℝ d) (hM : M = reconstruct V w) (hw : ∀ i, 0 ≤ w i) :
    mahalanobis (componentsFromEig V w) = M := by
  rw [C20_eig_clipped, hM]
  congr 1; funext i; exact max_eq_right (hw i)

/-- diagonal shortcut: `LᵀL = M` for a diagonal matrix with non-negative diagonal -/
theorem C20_diag (m : Vec ℝ d) (hm : ∀ i, 0 ≤ m i) :
    mahalanobis (componentsFromDiag m) = fun a b => if a = b then m a else 0 := by
  funext a b
  simp only [mahalanobis, componentsFromDiag, vsum_eq_sum, sqrt_real, smax_real]
  by_cases hab : a = b
  · subst hab
    rw [Finset.sum_eq_single a]
    · simp [max_eq_right (hm a), Real.mul_self_sqrt (hm a)]
    · intro i _ hi; simp [hi]
    · simp
  · simp only [hab, if_false]
    apply Finset.sum_eq_zero; intro i _
    by_cases h1 : i = a
    · subst h1; simp [hab]
    · simp [h1]

/-- Cholesky branch: `C·Cᵀ = M ⇒ (Cᵀ)ᵀ(Cᵀ) = M` -/
theorem C20_chol (M C : Mat ℝ d d) (hC : ∀ a b, (∑ i, C a i * C b i) = M a b) :
    mahalanobis (componentsFromChol C) = M := by
  funext a b
  simp only [mahalanobis, componentsFromChol, ML.transpose, vsum_eq_sum]
  exact hC a b

/-- an eigenvalue below `−tol` is rejected with `NonPSDError` -/
theorem C20_reject_neg (w : List ℝ) (tol : ℝ) (ht : 0 ≤ tol) (h : ∃ x ∈ w, x < -tol) :
    checkSdpFromEigen w tol = .error .nonPSD := by
  unfold checkSdpFromEigen
  have h1 : ¬ tol < 0 := not_lt.mpr ht
  obtain ⟨x, hx, hlt⟩ := h
  have : (w.any fun x => decide (x < -tol)) = true := List.any_eq_true.mpr ⟨x, hx, by simpa using hlt⟩
  simp [h1, this]

/-- otherwise the spectrum is accepted, and reported definite iff every eigenvalue is further than `tol` from 0 -/
theorem C20_sdp_definite (w : List ℝ) (tol : ℝ) (ht : 0 ≤ tol) (h : ∀ x ∈ w, -tol ≤ x) :
    checkSdpFromEigen w tol = .ok (decide (∀ x ∈ w, tol < |x|)) := by
  unfold checkSdpFromEigen
  have h1 : ¬ tol < 0 := not_lt.mpr ht
  have h2 : (w.any fun x => decide (x < -tol)) = false := by
    rw [List.any_eq_false]; intro x hx; simpa using h x hx
  simp only [h1, if_false, h2, Bool.false_eq_true]
  by_cases h3 : ∀ x ∈ w, tol < |x|
  · have : (w.any fun x => decide (sabs x ≤ tol)) = false := by
      rw [List.any_eq_false]; intro x hx; rw [sabs_real]; simpa using h3 x hx
    simp only [this, Bool.false_eq_true, if_false]
    rw [decide_eq_true h3]
  · have h3' := h3
    push Not at h3
    obtain ⟨x, hx, hlt⟩ := h3
    have : (w.any fun x => decide (sabs x ≤ tol)) = true :=
      List.any_eq_true.mpr ⟨x, hx, by rw [sabs_real]; simpa using hlt⟩
    simp only [this, if_true]
    rw [decide_eq_false h3']

/-- in particular a spectrum that contains a zero — the zero matrix included, whose default tolerance is 0 — is never
reported definite -/
theorem C20_zero_eigenvalue_not_definite (w : List ℝ) (tol : ℝ) (ht : 0 ≤ tol) (h : ∀ x ∈ w, -tol ≤ x) (h0 : (0:ℝ) ∈ w) :
    checkSdpFromEigen w tol = .ok false := by
  rw [C20_sdp_definite w tol ht h]
  congr 1
  rw [decide_eq_false]
  intro hall
  have := hall 0 h0
  simp at this
  linarith

theorem C20_negative_tol (w : List ℝ) (tol : ℝ) (ht : tol < 0) : checkSdpFromEigen w tol = .error .valueError := by
  simp [checkSdpFromEigen, ht]

/-- a non-symmetric matrix is rejected with `ValueError` before anything else -/
theorem C20_reject_nonsym (isDiag cholOk : Bool) (sp dg : List ℝ) (tol : ℝ) :
    cfmOutcome false isDiag cholOk sp dg tol = .error .valueError := by simp [cfmOutcome]

/-- a symmetric non-diagonal matrix whose Cholesky attempt fails and whose spectrum has an
eigenvalue below `−tol` is rejected with `NonPSDError` -/
theorem C20_reject_indefinite (sp dg : List ℝ) (tol : ℝ) (ht : 0 ≤ tol) (h : ∃ x ∈ sp, x < -tol) :
    cfmOutcome true false false sp dg tol = .error .nonPSD := by
  simp [cfmOutcome, C20_reject_neg sp tol ht h, Except.map]

/-- the eigen formula `V diag(w⁺) Vᵀ` satisfies the four Penrose equations for `M = V diag(w) Vᵀ`
when `V` is orthogonal and every eigenvalue is either zero or above the tolerance — hence (by
`IsPinv.unique`) it *is* the Moore–Penrose pseudo-inverse, and the inverse when `M` is invertible -/
theorem C20_pinv_eig (V : Mat ℝ d d) (w : Vec ℝ d) (tol : ℝ) (ht : 0 ≤ tol)
    (hV : (Matrix.of V)ᵀ * Matrix.of V = 1)
    (hw : ∀ i, w i = 0 ∨ tol < |w i|) :
    IsPinv (Matrix.of (reconstruct V w)) (Matrix.of (pseudoInverseFromEig w V tol)) := by
  have hV' : Matrix.of V * (Matrix.of V)ᵀ = 1 := by
    have := mul_eq_one_comm.mp hV; exact this
  set Q := Matrix.of V
  set D := Matrix.diagonal w
  set p := pinvSpectrum w tol
  set E := Matrix.diagonal p
  have hA : Matrix.of (reconstruct V w) = Q * D * Qᵀ := reconstruct_eq V w
  have hX : Matrix.of (pseudoInverseFromEig w V tol) = Q * E * Qᵀ := reconstruct_eq V p
  have hp : ∀ i, w i * p i * w i = w i ∧ p i * w i * p i = p i := by
    intro i
    simp only [p, pinvSpectrum, sabs_real]
    rcases hw i with h0 | hgt
    · have : ¬ tol < |w i| := by rw [h0]; simpa using ht
      simp [h0]
    · have hne : w i ≠ 0 := by intro h0; rw [h0] at hgt; simp at hgt; linarith
      simp only [hgt, if_true]
      constructor <;> field_simp
  have hDED : D * E * D = D := by
    simp only [D, E, Matrix.diagonal_mul_diagonal]
    congr 1; funext i; exact (hp i).1
  have hEDE : E * D * E = E := by
    simp only [D, E, Matrix.diagonal_mul_diagonal]
    congr 1; funext i; exact (hp i).2
  have hDE : (D * E)ᵀ = D * E := by simp only [D, E, Matrix.diagonal_mul_diagonal, Matrix.diagonal_transpose]
  have hED : (E * D)ᵀ = E * D := by simp only [D, E, Matrix.diagonal_mul_diagonal, Matrix.diagonal_transpose]
  have mid : ∀ (A B : Matrix (Fin d) (Fin d) ℝ), (Q * A * Qᵀ) * (Q * B * Qᵀ) = Q * (A * B) * Qᵀ := by
    intro A B
    calc (Q * A * Qᵀ) * (Q * B * Qᵀ) = Q * A * (Qᵀ * Q) * B * Qᵀ := by simp only [Matrix.mul_assoc]
      _ = Q * (A * B) * Qᵀ := by rw [hV, Matrix.mul_one]; simp only [Matrix.mul_assoc]
  rw [hA, hX]
  refine ⟨?_, ?_, ?_, ?_⟩
  · rw [mid, mid, hDED]
  · rw [mid, mid, hEDE]
  · rw [mid, Matrix.transpose_mul, Matrix.transpose_mul, Matrix.transpose_transpose, hDE]; simp only [Matrix.mul_assoc]
  · rw [mid, Matrix.transpose_mul, Matrix.transpose_mul, Matrix.transpose_transpose, hED]; simp only [Matrix.mul_assoc]

/-! ### initialiser dispatch (`_initialize_metric_mahalanobis`) -/

theorem C20_init_identity (sh sy : Bool) (sdp : Except Err Bool) (spd : Bool) :
    initializeMetric .identity sh sy sdp spd = .ok .identity := rfl

theorem C20_init_random (sh sy : Bool) (sdp : Except Err Bool) (spd : Bool) :
    initializeMetric .random sh sy sdp spd = .ok .randomSpd := rfl

theorem C20_init_invalid (sh sy : Bool) (sdp : Except Err Bool) (spd : Bool) :
    initializeMetric .invalid sh sy sdp spd = .error .valueError := rfl

/-- an array is used as given exactly when its shape, symmetry and PSD checks pass (and it is
definite when the learner requires strict positive definiteness) -/
theorem C20_init_array (sh sy : Bool) (sdp : Except Err Bool) (spd : Bool) :
    initializeMetric .array sh sy sdp spd = .ok .given ↔
      sh = true ∧ sy = true ∧ ∃ definite, sdp = .ok definite ∧ (spd = true → definite = true) := by
  cases sh <;> cases sy <;> cases sdp <;> cases spd <;> simp [initializeMetric]

theorem C20_init_array_rejects (sh sy : Bool) (sdp : Except Err Bool) (spd : Bool) :
    (sh = false ∨ sy = false → initializeMetric .array sh sy sdp spd = .error .valueError) ∧
    (sh = true → sy = true → sdp = .error .nonPSD → initializeMetric .array sh sy sdp spd = .error .nonPSD) := by
  constructor
  · rintro (h | h)
    · subst h; simp [initializeMetric]
    · subst h; cases sh <;> simp [initializeMetric]
  · rintro rfl rfl rfl; simp [initializeMetric]

/-- learners that require a strictly positive definite prior reject a singular array or covariance -/
theorem C20_strict_pd_rejects_singular (sh sy : Bool) :
    initializeMetric .array true true (.ok false) true = .error .linAlg ∧
    initializeMetric .covariance sh sy (.ok false) true = .error .linAlg ∧
    initializeMetric .covariance sh sy (.ok false) false = .ok .pinvCovariance ∧
    initializeMetric .covariance sh sy (.ok true) true = .ok .pinvCovariance := by
  simp [initializeMetric]

/-- the GENERATED `_auto_select_init` is the documented rule, for all argument values -/
theorem C20_auto_rule (hasClasses : Bool) (nf ns nc ncl : Int) :
    MLGen.autoSelectInit hasClasses nf ns nc ncl =
      .ok (if hasClasses = true ∧ nc ≤ nf ∧ nc ≤ ncl - 1 then "lda"
           else if nc < nf ∧ nc < ns then "pca" else "identity") := by
  unfold MLGen.autoSelectInit
  by_cases h1 : hasClasses = true ∧ nc ≤ min nf (ncl - 1)
  · have : hasClasses = true ∧ nc ≤ nf ∧ nc ≤ ncl - 1 := ⟨h1.1, (le_min_iff.mp h1.2).1, (le_min_iff.mp h1.2).2⟩
    simp [h1, this]
  · have h1' : ¬ (hasClasses = true ∧ nc ≤ nf ∧ nc ≤ ncl - 1) := by
      intro h; exact h1 ⟨h.1, le_min_iff.mpr ⟨h.2.1, h.2.2⟩⟩
    simp only [h1, if_false, h1']
    by_cases h2 : nc < min nf ns
    · have : nc < nf ∧ nc < ns := lt_min_iff.mp h2
      simp [h2, this]
    · have : ¬ (nc < nf ∧ nc < ns) := fun h => h2 (lt_min_iff.mpr h)
      simp [h2, this]

/-! non-vacuity -/
example : checkSdpFromEigen ([3, 0, 1] : List Rat) (1/1000) = .ok false := by decide +kernel
example : checkSdpFromEigen ([3, -1, 1] : List Rat) (1/1000) = .error .nonPSD := by decide +kernel
/-- **generated**: the transcription of `_check_sdp_from_eigen` (regenerated from `_util.py` on every run) is
the model `checkSdpFromEigen` applied to the given tolerance, or to the default `abs(w).max()·len(w)·eps` -/
theorem C20_sdp_generated (w : List ℝ) (tol : Option ℝ) (eps : ℝ) :
    MLGen.checkSdpFromEigenGen w tol eps
      = (checkSdpFromEigen w (tol.getD (defaultTol w eps))).mapError Err.name := by
  unfold MLGen.checkSdpFromEigenGen checkSdpFromEigen defaultTol
  cases tol with
  | none =>
    simp only [Option.isNone_none, if_true, Option.getD_none, ofNat_real, Nat.cast_zero]
    split
    · rfl
    · split
      · simp_all [Except.mapError, Err.name]
      · split <;> simp_all [Except.mapError]
  | some t =>
    simp only [Option.isNone_some, Bool.false_eq_true, if_false, Option.getD_some, ofNat_real, Nat.cast_zero]
    split
    · rfl
    · split
      · simp_all [Except.mapError, Err.name]
      · split <;> simp_all [Except.mapError]
