import MLProps.Bridge
import Mathlib.LinearAlgebra.Matrix.PosDef
import Mathlib.Algebra.Order.Star.Real
/-!
# C02 — all views of the learned metric agree with `M = LᵀL`

`pair_distance`, the `get_metric()` closure (plain and squared), the Euclidean distance between
embedded points, `sqrt((x-x')ᵀ M (x-x'))` and the deprecated `score_pairs` denote the same real
number; `transform` is linear; `M = LᵀL` is symmetric positive semi-definite.  All `k d L`.
-/
open ML

variable {k d : ℕ}

theorem sumSq_transform (L : Mat ℝ k d) (v : Vec ℝ d) :
    sumSq (transform L v) = quadForm (mahalanobis L) v := by
  rw [quadForm_eq, mahalanobis_eq, ← Matrix.mulVec_mulVec, Matrix.dotProduct_mulVec,
    Matrix.vecMul_transpose, ← transform_eq_mulVec]
  simp [sumSq, vsum_eq_sum, dotProduct]

/-- `pair_distance(x,x') = sqrt((x'-x)ᵀ M (x'-x))` with `M = get_mahalanobis_matrix()` -/
theorem C02_dist_eq_quad (L : Mat ℝ k d) (x y : Vec ℝ d) :
    pairDistance L x y = mahalDistance (mahalanobis L) x y := by
  simp only [pairDistance, mahalDistance, sumSq_transform]

theorem C02_transform_sub (L : Mat ℝ k d) (x y : Vec ℝ d) :
    transform L (vsub y x) = vsub (transform L y) (transform L x) := by
  funext i
  simp only [transform_apply, vsub, mul_sub, Finset.sum_sub_distrib]

/-- `pair_distance(x,x')` is the Euclidean distance between `transform(x)` and `transform(x')` -/
theorem C02_dist_eq_embedded (L : Mat ℝ k d) (x y : Vec ℝ d) :
    pairDistance L x y = euclid (transform L x) (transform L y) := by
  simp only [pairDistance, euclid, C02_transform_sub]

/-- the squared `get_metric()` value is the square of the plain one -/
theorem C02_metric_sq (L : Mat ℝ k d) (u v : Vec ℝ d) :
    metricFun L u v true = (metricFun L u v false)^2 := by
  simp only [metricFun, if_true, Bool.false_eq_true, if_false, sqrt_real]
  rw [Real.sq_sqrt]
  simp only [dot, vsum_eq_sum]
  exact Finset.sum_nonneg fun i _ => mul_self_nonneg _

theorem C02_metric_eq_dist (L : Mat ℝ k d) (u v : Vec ℝ d) :
    metricFun L u v false = pairDistance L v u := by
  simp only [metricFun, pairDistance, dot, sumSq, Bool.false_eq_true, if_false, transform]

theorem C02_transform_linear (L : Mat ℝ k d) (a : ℝ) (x y : Vec ℝ d) :
    transform L (vadd (vscale a x) y) = vadd (vscale a (transform L x)) (transform L y) := by
  funext i
  simp only [transform_apply, vadd, vscale, mul_add, Finset.sum_add_distrib, Finset.mul_sum]
  congr 1
  exact Finset.sum_congr rfl fun j _ => by ring

theorem C02_mahal_symm (L : Mat ℝ k d) (a b : Fin d) : mahalanobis L a b = mahalanobis L b a := by
  simp only [mahalanobis, vsum_eq_sum]
  exact Finset.sum_congr rfl fun i _ => mul_comm _ _

theorem C02_mahal_quad_nonneg (L : Mat ℝ k d) (v : Vec ℝ d) : 0 ≤ quadForm (mahalanobis L) v := by
  rw [← sumSq_transform]
  simp only [sumSq, vsum_eq_sum]
  exact Finset.sum_nonneg fun i _ => mul_self_nonneg _

theorem C02_mahal_psd (L : Mat ℝ k d) : (Matrix.of (mahalanobis L)).PosSemidef := by
  rw [mahalanobis_eq, ← Matrix.conjTranspose_eq_transpose_of_trivial]
  exact Matrix.posSemidef_conjTranspose_mul_self _

/-- the deprecated `score_pairs` returns `pair_distance` (plus a FutureWarning) -/
theorem C02_score_pairs_eq (L : Mat ℝ k d) (x y : Vec ℝ d) :
    (scorePairs L x y).1 = pairDistance L x y ∧ (scorePairs L x y).2 = true := ⟨rfl, rfl⟩

/-! non-vacuity: a non-symmetric triangular `L` (what the Cholesky-built learners return) -/
example : mahalanobis (fun (i j : Fin 2) => if i ≤ j then (1:ℝ) else 0) 0 1 = 1 := by
  simp [mahalanobis, vsum_eq_sum, Fin.sum_univ_two]
