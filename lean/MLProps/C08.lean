import MLProps.C07
import MLModel.Supervised
import MLGen.Tables
/-!
# C08 — supervised variants equal the base learner run on label-derived constraints

The supervised `fit` factors through the formed tuples (`C08_factor`); the constraints never mention
an unlabeled point (C07), so the formed tuples — and hence the result of *any* base solver — do not
depend on the feature rows of unlabeled points (`C08_unknown_ignored_*`).
-/
open ML

variable {α τ μ : Type}

/-- the supervised estimator is, by construction, `base ∘ form` -/
theorem C08_factor (form : (Nat → α) → τ) (base : τ → μ) (X : Nat → α) :
    supervisedFit form base X = base (form X) := rfl

/-- gathering rows depends only on the rows that are mentioned -/
theorem gather_congr (X X' : Nat → α) (idx : List (List Nat)) (h : ∀ t ∈ idx, ∀ i ∈ t, X i = X' i) :
    gather X idx = gather X' idx := by
  unfold gather
  apply List.map_congr_left
  intro t ht
  apply List.map_congr_left
  intro i hi; exact h t ht i hi

/-- **pairs learners (ITML, MMC, SDML)**: if `X` and `X'` agree on every labelled point, the pairs and
labels handed to the base solver are identical — for every oracle, every `n`, every base solver -/
theorem C08_unknown_ignored_pairs (labels : List Int) (n : Nat) (sl : Bool) (pr nr) (pos neg : List (Nat × Nat)) (wp wn : Bool)
    (hgen : positiveNegativePairs labels n sl pr nr = some (pos, neg, wp, wn))
    (X X' : Nat → α) (hX : ∀ i, 0 ≤ labels.getD i (-1) → X i = X' i) (base : List (List α × Int) → μ) :
    supervisedFit (fun X => wrapPairs X pos neg) base X = supervisedFit (fun X => wrapPairs X pos neg) base X' := by
  unfold supervisedFit
  show base (wrapPairs X pos neg) = base (wrapPairs X' pos neg)
  congr 1
  -- every index in pos / neg carries a known label
  have hk : (∀ q ∈ pos, 0 ≤ labels.getD q.1 (-1) ∧ 0 ≤ labels.getD q.2 (-1)) ∧
            (∀ q ∈ neg, 0 ≤ labels.getD q.1 (-1) ∧ 0 ≤ labels.getD q.2 (-1)) := by
    unfold positiveNegativePairs at hgen
    cases h1 : pairsOf labels true n pr with
    | none => rw [h1] at hgen; simp at hgen
    | some a =>
      cases h2 : pairsOf labels false n nr with
      | none => rw [h1, h2] at hgen; simp at hgen
      | some b =>
        obtain ⟨p0, w0⟩ := a; obtain ⟨n0, w1⟩ := b
        rw [h1, h2] at hgen
        have hp := C07_unknown_never labels true n pr p0 w0 h1
        have hn := C07_unknown_never labels false n nr n0 w1 h2
        simp only at hgen
        split at hgen
        · simp only [Option.some.injEq, Prod.mk.injEq] at hgen
          obtain ⟨rfl, rfl, _, _⟩ := hgen
          exact ⟨fun q hq => hp q (List.mem_of_mem_take hq), fun q hq => hn q (List.mem_of_mem_take hq)⟩
        · simp only [Option.some.injEq, Prod.mk.injEq] at hgen
          obtain ⟨rfl, rfl, _, _⟩ := hgen
          exact ⟨hp, hn⟩
  unfold wrapPairs
  congr 1
  · apply List.map_congr_left; intro q hq
    rw [hX q.1 (hk.1 q hq).1, hX q.2 (hk.1 q hq).2]
  · apply List.map_congr_left; intro q hq
    rw [hX q.1 (hk.2 q hq).1, hX q.2 (hk.2 q hq).2]

/-- **LSML**: same statement for the quadruplets built from equally many positive and negative pairs -/
theorem C08_unknown_ignored_quads (labels : List Int) (n : Nat) (pr nr) (pos neg : List (Nat × Nat)) (wp wn : Bool)
    (hgen : positiveNegativePairs labels n true pr nr = some (pos, neg, wp, wn))
    (X X' : Nat → α) (hX : ∀ i, 0 ≤ labels.getD i (-1) → X i = X' i) (base : List (List α) → μ) :
    supervisedFit (fun X => wrapQuads X pos neg) base X = supervisedFit (fun X => wrapQuads X pos neg) base X' := by
  have hp : wrapPairs X pos neg = wrapPairs X' pos neg := by
    have := C08_unknown_ignored_pairs labels n true pr nr pos neg wp wn hgen X X' hX id
    simpa [supervisedFit] using this
  unfold supervisedFit
  show base (wrapQuads X pos neg) = base (wrapQuads X' pos neg)
  congr 1
  unfold wrapPairs at hp
  have hlen : (pos.map fun p => ([X p.1, X p.2], (1 : Int))).length = (pos.map fun p => ([X' p.1, X' p.2], (1 : Int))).length := by simp
  obtain ⟨h1, h2⟩ := List.append_inj hp hlen
  unfold wrapQuads
  apply List.map_congr_left
  rintro ⟨p, q⟩ hpq
  have hpm : p ∈ pos := (List.of_mem_zip hpq).1
  have hqm : q ∈ neg := (List.of_mem_zip hpq).2
  have e1 := List.map_inj_left.mp h1 p hpm
  have e2 := List.map_inj_left.mp h2 q hqm
  simp only [Prod.mk.injEq, List.cons.injEq, and_true] at e1 e2
  simp only [e1.1, e1.2, e2.1, e2.2]

/-- tuples given by index lists that mention labelled points only (chunks members, k-NN triplets after
mapping to the caller's frame) are formed identically from `X` and `X'` -/
theorem C08_unknown_ignored_gather (labels : List Int) (idx : List (List Nat))
    (hidx : ∀ t ∈ idx, ∀ i ∈ t, 0 ≤ labels.getD i (-1))
    (X X' : Nat → α) (hX : ∀ i, 0 ≤ labels.getD i (-1) → X i = X' i) (base : List (List α) → μ) :
    supervisedFit (fun X => gather X idx) base X = supervisedFit (fun X => gather X idx) base X' := by
  unfold supervisedFit
  show base (gather X idx) = base (gather X' idx)
  rw [gather_congr X X' idx fun t ht i hi => hX i (hidx t ht i hi)]

/-- the default number of constraints -/
theorem C08_default_n (cfg : SupConfig) (c : Nat) (h : cfg.nConstraints = none) :
    wiringOf .itml cfg c = .pairs (20 * c ^ 2) false ∧ wiringOf .lsml cfg c = .pairs (20 * c ^ 2) true := by
  simp [wiringOf, resolveN, h, defaultNConstraints]

theorem C08_wiring (cfg : SupConfig) (c : Nat) :
    wiringOf .rca cfg c = .chunks cfg.nChunks cfg.chunkSize ∧
    wiringOf .scml cfg c = .knnTriplets cfg.kGenuine cfg.kImpostor ∧
    (∀ n, cfg.nConstraints = some n → wiringOf .mmc cfg c = .pairs n false ∧ wiringOf .sdml cfg c = .pairs n false) := by
  refine ⟨rfl, rfl, fun n h => ?_⟩
  simp [wiringOf, resolveN, h]
/-- **generated table**: the wiring the translator reads off the six `*_Supervised.fit` methods is the
documented one (one constraint generator per method, built from the validated labels `y`, seeded with
`self.random_state`, `same_length` only for LSML, default `20·num_classes²`, tuples formed by `wrap_pairs` /
`column_stack` / indexing, handed to the base fit; no argument is re-bound on the way) -/
theorem C08_wiring_generated : MLGen.supWiring = expectedSupWiring := by decide +kernel

/-- every row of that table denotes exactly the generator call of the model (`wiringOf`), for every
configuration and every number of classes -/
theorem C08_row_denotes (k : SupKind) (cfg : SupConfig) (c : Nat) :
    (findSupRow MLGen.supWiring k).bind (fun r => rowGenerator r cfg c) = some (wiringOf k cfg c) := by
  rw [C08_wiring_generated]
  cases k <;> cases h : cfg.nConstraints <;>
    simp [findSupRow, expectedSupWiring, SupKind.className, rowGenerator, wiringOf, resolveN, defaultNConstraints, h, List.find?]

/-! ## leaving the unlabeled rows out altogether

`L′ = knownLabels L` is the label vector of the data set without its unlabeled rows (row `i` of the reduced set is row
`knownIdx L [i]` of the full one).  For the same random draws the helper finds, on the reduced set, exactly the pairs it
finds on the full set — re-indexed through `knownIdx L` — so the tuples handed to the base solver are the same. -/

theorem knownIdx_allKnown (K : List Int) (h : ∀ x ∈ K, 0 ≤ x) : knownIdx K = List.range K.length := by
  unfold knownIdx
  rw [List.filter_eq_self]
  intro i hi
  rw [List.mem_range] at hi
  have : K.getD i (-1) ∈ K := by
    rw [List.getD_eq_getElem?_getD, List.getElem?_eq_getElem hi]; exact List.getElem_mem hi
  simpa using h _ this

theorem knownLabels_nonneg (L : List Int) : ∀ x ∈ knownLabels L, 0 ≤ x := by
  intro x hx
  unfold knownLabels at hx
  rw [List.mem_map] at hx
  obtain ⟨i, hi, rfl⟩ := hx
  unfold knownIdx at hi
  rw [List.mem_filter] at hi
  simpa using hi.2

/-- the reduced label vector has no unlabeled entry: its known labels are itself -/
theorem knownLabels_idem (L : List Int) : knownLabels (knownLabels L) = knownLabels L := by
  have h := knownIdx_allKnown (knownLabels L) (knownLabels_nonneg L)
  unfold knownLabels at h ⊢
  rw [h]
  apply List.ext_getElem
  · simp
  · intro i h1 h2
    simp only [List.getElem_map, List.getElem_range]
    simp only [List.length_map] at h2
    rw [List.getD_eq_getElem?_getD, List.getElem?_eq_getElem (by simpa using h2)]
    simp

/-- **dropping the unlabeled rows**: for every oracle, the pairs found on the reduced label vector, re-indexed through
`knownIdx L`, are the pairs found on the full label vector, with the same warning flag -/
theorem C08_drop_unlabeled_pairs (L : List Int) (same : Bool) (n : Nat) (rounds : List (List Draw))
    (qs : List (Nat × Nat)) (w : Bool) (h : pairsOf L same n rounds = some (qs, w)) :
    ∃ qs', pairsOf (knownLabels L) same n rounds = some (qs', w) ∧
      qs = qs'.map fun p => ((knownIdx L).getD p.1 0, (knownIdx L).getD p.2 0) := by
  unfold pairsOf at h ⊢
  rw [knownLabels_idem]
  cases hl : pairsLoop (knownLabels L) same n 10 rounds [] with
  | none => rw [hl] at h; simp at h
  | some ab =>
    rw [hl] at h
    simp only [Option.map_some, Option.some.injEq, Prod.mk.injEq] at h ⊢
    obtain ⟨hq, hw⟩ := h
    refine ⟨mapBack (knownLabels L) (ab.take n), ⟨rfl, hw⟩, ?_⟩
    have hsound := (pairsLoop_spec 10 rounds [] ab hl (by intro p hp; simp at hp) List.nodup_nil (Nat.zero_le _)).1
    rw [← hq]
    unfold mapBack
    rw [List.map_map]
    apply List.map_congr_left
    intro p hp
    have hp' := hsound p (List.mem_of_mem_take hp)
    have hk := knownIdx_allKnown (knownLabels L) (knownLabels_nonneg L)
    simp only [Function.comp_def, hk]
    have e1 : (List.range (knownLabels L).length).getD p.1 0 = p.1 := by
      rw [List.getD_eq_getElem?_getD, List.getElem?_eq_getElem (by simpa using hp'.1)]; simp
    have e2 : (List.range (knownLabels L).length).getD p.2 0 = p.2 := by
      rw [List.getD_eq_getElem?_getD, List.getElem?_eq_getElem (by simpa using hp'.2.1)]; simp
    rw [e1, e2]

/-- hence the formed tuples coincide: gathering the full data at the full-set pairs = gathering the reduced data
(`X′ i = X (knownIdx L [i])`) at the reduced-set pairs -/
theorem C08_drop_unlabeled_formed (L : List Int) (X : Nat → α) (qs' : List (Nat × Nat)) :
    (qs'.map fun p => ((knownIdx L).getD p.1 0, (knownIdx L).getD p.2 0)).map (fun q => [X q.1, X q.2]) =
      qs'.map fun p => [(fun i => X ((knownIdx L).getD i 0)) p.1, (fun i => X ((knownIdx L).getD i 0)) p.2] := by
  rw [List.map_map]; rfl

/-- non-vacuity: a label vector with unlabeled entries in front of and between labelled ones -/
example : knownIdx [-1, 0, 1, -1, 0] = [1, 2, 4] ∧ knownLabels [-1, 0, 1, -1, 0] = [0, 1, 0] := by decide
