import MLModel.Validate
import MLGen.Tables
/-!
# C05 — indices + preprocessor are interchangeable with formed points / tuples

Refinement through the common validated value: every data-taking method is `f ∘ formTuples`
(resp. `f ∘ formPoints`), so equal formed data gives equal results.  Tuple size `t` is arbitrary
(2, 3, 4 in the code).  The generated method table (`MLGen/Tables.lean`) shows that every method
passes `preprocessor=self.preprocessor_` to its validation.
-/
open ML

variable {α : Type}

theorem sequenceFn_ok {n : Nat} (f : Fin n → Except Err α) (g : Fin n → α) (h : ∀ i, f i = .ok (g i)) :
    sequenceFn f = .ok g := by
  unfold sequenceFn
  have hs : ∀ i, (f i).toOption.isSome = true := by intro i; rw [h i]; rfl
  rw [dif_pos hs]
  congr 1; funext i
  have : (f i).toOption = some (g i) := by rw [h i]; rfl
  simp [this]

theorem sequenceFn_err {n : Nat} (f : Fin n → Except Err α) (i : Fin n) (e : Err) (h : f i = .error e) :
    sequenceFn f = .error .preprocessorError := by
  unfold sequenceFn
  have : ¬ ∀ i, (f i).toOption.isSome = true := by
    intro hs; have := hs i; rw [h] at this; simp [Except.toOption] at this
  rw [dif_neg this]

theorem arrayIndexer_ok (X : List α) (i : Nat) (h : i < X.length) : arrayIndexer X i = .ok X[i] := by
  simp [arrayIndexer, List.getElem?_eq_getElem h]

/-- **forming**: with an array-like preprocessor and in-range indices, the tuples that reach the
solver are exactly `X[idx]`, member order preserved (any tuple size), one preprocessor call per column -/
theorem C05_form {n t : Nat} (X : List α) (idx : Fin n → Fin t → Nat) (h : ∀ j i, idx j i < X.length) :
    preprocessTuples (arrayIndexer X) idx = (.ok fun j i => X[idx j i]'(h j i), t) := by
  unfold preprocessTuples
  have hc : ∀ i : Fin t, sequenceFn (fun j => arrayIndexer X (idx j i)) = .ok (fun j => X[idx j i]'(h j i)) :=
    fun i => sequenceFn_ok _ _ fun j => arrayIndexer_ok X _ (h j i)
  simp only
  rw [sequenceFn_ok _ (fun i j => X[idx j i]'(h j i)) hc]
  rfl

theorem C05_form_points {n : Nat} (X : List α) (idx : Fin n → Nat) (h : ∀ j, idx j < X.length) :
    preprocessPoints (arrayIndexer X) idx = (.ok fun j => X[idx j]'(h j), 1) := by
  unfold preprocessPoints
  rw [sequenceFn_ok _ (fun j => X[idx j]'(h j)) fun j => arrayIndexer_ok X _ (h j)]

/-- **equivalence**: indices with a preprocessor and the already-formed tuples yield the same
validated value — hence the same result of *every* function of it (fit, predict, score, …),
whatever preprocessor is attached when formed data is passed -/
theorem C05_equiv {β : Type} {n t : Nat} (X : List α) (idx : Fin n → Fin t → Nat) (h : ∀ j i, idx j i < X.length)
    (pre' : Option (Nat → Except Err α)) (f : Except Err (Fin n → Fin t → α) → β) :
    f (formTuples (some (arrayIndexer X)) (.indices idx)).1 =
    f (formTuples pre' (.formed fun j i => X[idx j i]'(h j i))).1 := by
  simp [formTuples, C05_form X idx h]

theorem C05_equiv_points {β : Type} {n : Nat} (X : List α) (idx : Fin n → Nat) (h : ∀ j, idx j < X.length)
    (pre' : Option (Nat → Except Err α)) (f : Except Err (Fin n → α) → β) :
    f (formPoints (some (arrayIndexer X)) (.indices idx)).1 =
    f (formPoints pre' (.formed fun j => X[idx j]'(h j))).1 := by
  simp [formPoints, C05_form_points X idx h]

/-- the same holds for a callable preprocessor that returns `g k` for index `k` -/
theorem C05_equiv_callable {β : Type} {n t : Nat} (g : Nat → α) (idx : Fin n → Fin t → Nat)
    (pre' : Option (Nat → Except Err α)) (f : Except Err (Fin n → Fin t → α) → β) :
    f (formTuples (some fun k => .ok (g k)) (.indices idx)).1 =
    f (formTuples pre' (.formed fun j i => g (idx j i))).1 := by
  have hc : ∀ i : Fin t, sequenceFn (fun j => (Except.ok (g (idx j i)) : Except Err α)) = .ok (fun j => g (idx j i)) :=
    fun i => sequenceFn_ok _ _ fun j => rfl
  simp only [formTuples, preprocessTuples]
  rw [sequenceFn_ok _ (fun i j => g (idx j i)) hc]
  rfl

/-- when formed data is passed the preprocessor is not consulted -/
theorem C05_not_consulted {n t : Nat} (pre : Option (Nat → Except Err α)) (v : Fin n → Fin t → α)
    (w : Fin n → α) :
    (formTuples pre (.formed v)).2 = 0 ∧ (formPoints pre (.formed w)).2 = 0 := ⟨rfl, rfl⟩

/-- an exception raised inside the preprocessor surfaces as `PreprocessorError` -/
theorem C05_error_wrapped {n t : Nat} (pre : Nat → Except Err α) (idx : Fin n → Fin t → Nat)
    (j : Fin n) (i : Fin t) (e : Err) (h : pre (idx j i) = .error e) :
    (formTuples (some pre) (.indices idx)).1 = .error .preprocessorError := by
  simp only [formTuples, preprocessTuples]
  have hcol : sequenceFn (fun j' => pre (idx j' i)) = .error .preprocessorError := sequenceFn_err _ j e h
  rw [sequenceFn_err (fun i' => sequenceFn fun j' => pre (idx j' i')) i .preprocessorError hcol]
  rfl

/-- indices without a preprocessor are rejected with `ValueError` -/
theorem C05_indices_need_preprocessor {n t : Nat} (idx : Fin n → Fin t → Nat) :
    (formTuples (none : Option (Nat → Except Err α)) (.indices idx)).1 = .error .valueError := rfl

/-- generated table: every validating method of every class hands `self.preprocessor_` to its validation -/
theorem C05_every_method_uses_preprocessor :
    (MLGen.methodTable.all fun r => !r.validates || r.usesPreprocessor) = true := by decide +kernel

/-! non-vacuity: an asymmetric quadruplet keeps its member order -/
example : (match (preprocessTuples (arrayIndexer [10, 20, 30, 40])
      (fun (_ : Fin 1) (i : Fin 4) => [3, 0, 2, 1].getD i.val 0)).1 with
    | .ok v => (v 0 0, v 0 1, v 0 2, v 0 3) == (40, 10, 30, 20)
    | .error _ => false) = true := by decide
