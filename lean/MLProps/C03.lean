import MLProps.C02
import MLGen.Funcs
/-!
# C03 — fit yields a valid Mahalanobis model of the right shape

`MLGen.checkNComponents` is regenerated from `_util.py:_check_n_components` on every run; the
theorems below are about that transcription.
-/
open ML

/-- accepted values: `k` is `n_components` when given (and then `1 ≤ k ≤ d`), else `d` -/
theorem C03_ncomp_range (d : Int) (nc : Option Int) (k : Int) (h : MLGen.checkNComponents d nc = .ok k) :
    (nc = none → k = d) ∧ (∀ c, nc = some c → k = c ∧ 1 ≤ c ∧ c ≤ d) := by
  unfold MLGen.checkNComponents at h
  cases nc with
  | none => simp at h; exact ⟨fun _ => h.symm, fun c hc => by cases hc⟩
  | some c =>
    simp only [reduceCtorEq, if_false, Option.getD_some] at h
    split at h
    · rename_i hc
      simp only [Except.ok.injEq] at h
      refine ⟨(fun hn => by cases hn), fun c' hc' => ?_⟩
      cases hc'; exact ⟨h.symm, by omega, hc.2⟩
    · cases h

/-- rejected values: exactly the integers outside `[1, d]` raise `ValueError` -/
theorem C03_ncomp_reject (d c : Int) :
    MLGen.checkNComponents d (some c) = .error "ValueError" ↔ (c < 1 ∨ d < c) := by
  unfold MLGen.checkNComponents
  simp only [reduceCtorEq, if_false, Option.getD_some]
  constructor
  · intro h; split at h
    · cases h
    · rename_i hc; omega
  · intro h; split
    · rename_i hc; omega
    · rfl

/-- the row count of `components_`: `n_components` when given; otherwise at most `d`, and smaller
than `d` only in the SCML low-rank branch, which issues the warning -/
theorem C03_rows (kind : RowsKind) (d : Int) (nc : Option Int) (nActive : Int) (k : Int) (w : Bool)
    (h : componentsRows MLGen.checkNComponents kind d nc nActive = .ok (k, w)) :
    k ≤ d ∧
    (kind = .ncomp → ∀ c, nc = some c → k = c) ∧
    (nc = none → k < d → kind = .scml ∧ w = true ∧ k = nActive) := by
  cases kind with
  | ncomp =>
    simp only [componentsRows] at h
    cases hk : MLGen.checkNComponents d nc with
    | error e => rw [hk] at h; cases h
    | ok k' =>
      rw [hk] at h
      simp only [Except.map, Except.ok.injEq, Prod.mk.injEq] at h
      obtain ⟨rfl, rfl⟩ := h
      obtain ⟨h1, h2⟩ := C03_ncomp_range d nc k' hk
      refine ⟨?_, fun _ c hc => (h2 c hc).1, fun hn hlt => ?_⟩
      · cases nc with
        | none => rw [h1 rfl]
        | some c => obtain ⟨rfl, _, hle⟩ := h2 c rfl; exact hle
      · rw [h1 hn] at hlt; omega
  | square =>
    simp only [componentsRows, Except.ok.injEq, Prod.mk.injEq] at h
    obtain ⟨rfl, rfl⟩ := h
    exact ⟨le_refl _, (fun hk => by cases hk), fun _ hlt => by omega⟩
  | scml =>
    simp only [componentsRows] at h
    split at h
    · rename_i hlt
      simp only [Except.ok.injEq, Prod.mk.injEq] at h
      obtain ⟨rfl, rfl⟩ := h
      exact ⟨le_of_lt hlt, (fun hk => by cases hk), fun _ _ => ⟨rfl, rfl, rfl⟩⟩
    · simp only [Except.ok.injEq, Prod.mk.injEq] at h
      obtain ⟨rfl, rfl⟩ := h
      exact ⟨le_refl _, (fun hk => by cases hk), fun _ hlt => by omega⟩

/-- the induced matrix `M = LᵀL` is symmetric positive semi-definite whatever `L` is -/
theorem C03_M_psd {k d : ℕ} (L : Mat ℝ k d) :
    (Matrix.of (mahalanobis L)).PosSemidef ∧ ∀ a b, mahalanobis L a b = mahalanobis L b a :=
  ⟨C02_mahal_psd L, C02_mahal_symm L⟩

/-- `transform` maps `d`-vectors to `k`-vectors (`k` = rows of `components_`) -/
theorem C03_transform_shape {k d : ℕ} (L : Mat ℝ k d) (x : Vec ℝ d) :
    (Array.ofFn (transform L x)).size = k := by simp

/-- after any history of fits, `n_features_in_` is the number of features (last axis) of the data
seen by the last fit — points `(n, d)` or tuples `(n, t, d)` alike -/
theorem C03_nfeat (h : List (List Nat)) (shape : List Nat) :
    nFeaturesRun (h ++ [shape]) = shape.getLast? := by
  simp [nFeaturesRun, List.foldl_append, nFeaturesStep]

theorem C03_nfeat_points_tuples (h : List (List Nat)) (n t d : Nat) :
    nFeaturesRun (h ++ [[n, d]]) = some d ∧ nFeaturesRun (h ++ [[n, t, d]]) = some d := by
  simp [C03_nfeat]

/-! non-vacuity -/
example : MLGen.checkNComponents 5 (some 3) = .ok 3 ∧ MLGen.checkNComponents 5 none = .ok 5 ∧
    MLGen.checkNComponents 5 (some 0) = .error "ValueError" := by decide
example : componentsRows MLGen.checkNComponents .scml 4 none 2 = .ok (2, true) := by decide
