import MLProps.Bridge
import Mathlib.Algebra.BigOperators.Group.List.Basic
import Mathlib.Tactic.FieldSimp
import Mathlib.Tactic.Linarith
/-!
# C14 — MMC returns a PSD matrix that satisfies its similarity budget
-/
open ML

variable {d : ℕ}

theorem foldl_add_eq {β : Type} (l : List β) (f : β → ℝ) (c : ℝ) :
    l.foldl (fun acc v => acc + f v) c = c + (l.map f).sum := by
  induction l generalizing c with
  | nil => simp
  | cons a t ih => simp only [List.foldl_cons, List.map_cons, List.sum_cons]; rw [ih]; ring

theorem frob_eq (A B : Mat ℝ d d) : frob A B = ∑ a, ∑ b, A a b * B a b := by
  simp only [frob, vsum_eq_sum]

/-- the flattened linear form `w · A` *is* the sum of squared learned distances over the similar pairs -/
theorem C14_similar_sum (S : List (Vec ℝ d)) (A : Mat ℝ d d) :
    mmcSimilarSum S A = (S.map fun v => quadForm A v).sum := by
  simp only [mmcSimilarSum, frob_eq, mmcW, foldl_add_eq, zero_add]
  induction S with
  | nil => simp
  | cons v t ih =>
    simp only [List.map_cons, List.sum_cons, add_mul, Finset.sum_add_distrib, ih]
    congr 1
    simp only [quadForm, vsum_eq_sum, Finset.mul_sum]
    apply Finset.sum_congr rfl; intro a _; apply Finset.sum_congr rfl; intro b _; ring

/-- the budget is one hundredth of that sum under the initial matrix -/
theorem C14_budget_def (S : List (Vec ℝ d)) (A0 : Mat ℝ d d) :
    mmcBudget S A0 = (S.map fun v => quadForm A0 v).sum / 100 := by
  have := C14_similar_sum S A0
  simp only [mmcSimilarSum] at this
  simp only [mmcBudget, this, ofNat_real]; norm_num

/-- projection onto the similarity half-space lands on the budget: `w · P(A) ≤ t`, with equality when
`A` was outside -/
theorem C14_halfspace (w A : Mat ℝ d d) (t : ℝ) (hw : 0 < frob w w) :
    frob w (halfspaceProject w A t) ≤ t ∧ (t < frob w A → frob w (halfspaceProject w A t) = t) := by
  unfold halfspaceProject
  by_cases h : frob w A ≤ t
  · rw [if_pos h]; exact ⟨h, fun h' => absurd h (not_le.mpr h')⟩
  · rw [if_neg h]
    have hn : 0 < Real.sqrt (frob w w) := Real.sqrt_pos.mpr hw
    have hn2 : Real.sqrt (frob w w) * Real.sqrt (frob w w) = frob w w := Real.mul_self_sqrt hw.le
    have key : frob w (madd A (mscale (t / frobNorm w - frob (mscale (1 / frobNorm w) w) A) (mscale (1 / frobNorm w) w))) = t := by
      simp only [frob_eq, madd, mscale, frobNorm, sqrt_real]
      set n := Real.sqrt (∑ a, ∑ b, w a b * w a b) with hn'
      have hnn : n = Real.sqrt (frob w w) := by rw [hn', frob_eq]
      have hs : ∑ a, ∑ b, w a b * w a b = n * n := by rw [hnn, hn2, frob_eq]
      have hnpos : 0 < n := hnn ▸ hn
      have e1 : ∑ a, ∑ b, (1 / n * w a b) * A a b = (1 / n) * ∑ a, ∑ b, w a b * A a b := by
        simp only [Finset.mul_sum]; apply Finset.sum_congr rfl; intro a _; apply Finset.sum_congr rfl; intro b _; ring
      have e2 : ∀ c : ℝ, ∑ a, ∑ b, w a b * (A a b + c * (1 / n * w a b)) =
          (∑ a, ∑ b, w a b * A a b) + c * (1 / n) * ∑ a, ∑ b, w a b * w a b := by
        intro c
        simp only [mul_add, Finset.sum_add_distrib, Finset.mul_sum]
        congr 1
        apply Finset.sum_congr rfl; intro a _; apply Finset.sum_congr rfl; intro b _; ring
      rw [e1, e2, hs]
      field_simp
      ring
    exact ⟨le_of_eq key, fun _ => key⟩

/-- the PSD projection is symmetric and positive semi-definite for ANY `(V, l)` returned by the
eigen-solver -/
theorem C14_psd_proj (V : Mat ℝ d d) (l : Vec ℝ d) :
    (∀ a b, psdProject V l a b = psdProject V l b a) ∧ ∀ x : Vec ℝ d, 0 ≤ quadForm (psdProject V l) x := by
  constructor
  · intro a b; simp only [psdProject, vsum_eq_sum]; apply Finset.sum_congr rfl; intro i _; ring
  · intro x
    have inner : ∀ a, (∑ b, (∑ i, V a i * max 0 (l i) * V b i) * x b) = ∑ i, V a i * max 0 (l i) * (∑ b, V b i * x b) := by
      intro a
      simp only [Finset.sum_mul, Finset.mul_sum]
      rw [Finset.sum_comm]
      apply Finset.sum_congr rfl; intro i _; apply Finset.sum_congr rfl; intro b _; ring
    have : quadForm (psdProject V l) x = ∑ i, max 0 (l i) * (∑ a, V a i * x a) ^ 2 := by
      simp only [quadForm, psdProject, vsum_eq_sum, smax_real, inner]
      simp only [Finset.mul_sum]
      rw [Finset.sum_comm]
      apply Finset.sum_congr rfl; intro i _
      rw [pow_two, Finset.sum_mul_sum, Finset.mul_sum]
      apply Finset.sum_congr rfl; intro a _
      rw [Finset.mul_sum]
      apply Finset.sum_congr rfl; intro b _; ring
    rw [this]
    exact Finset.sum_nonneg fun i _ => mul_nonneg (le_max_left _ _) (sq_nonneg _)

/-- passing the 1 % test means the budget is met up to 1 % -/
theorem C14_budget_of_satisfied (S : List (Vec ℝ d)) (A : Mat ℝ d d) (t : ℝ) (ht : 0 < t)
    (h : mmcSatisfied S A t = true) : mmcSimilarSum S A < 1.01 * t := by
  unfold mmcSatisfied at h
  have h' := of_decide_eq_true h
  rw [lit_real, div_lt_iff₀ ht] at h'
  norm_num at h' ⊢
  linarith

/-! ## the last feasible iterate -/

variable {α : Type}

theorem mmcCycle_Aold (project : α → α × Bool) (obj : α → ℝ) (dir : α → α) (step : ℕ → α → ℝ → α → α)
    (Good : α → Prop) (hproj : ∀ a, (project a).2 = true → Good (project a).1)
    (c : Nat) (s : MmcState α ℝ) :
    (Good s.Aold → Good (mmcCycle project obj dir step c s).Aold) ∧
    (c = 0 → (project s.A).2 = true → Good (mmcCycle project obj dir step c s).Aold) := by
  unfold mmcCycle
  simp only []
  constructor
  · intro hg
    split
    · rename_i hc; exact hproj _ hc.1
    · exact hg
  · intro hc0 hs
    have : (project s.A).2 = true ∧ (obj s.Aold < obj (project s.A).1 ∨ c = 0) := ⟨hs, Or.inr hc0⟩
    rw [if_pos this]
    exact hproj _ hs

/-- **invariant over cycles**: if the projections of cycle 0 converge (`satisfy`), then after any number
`n ≥ 1` of cycles the stored matrix `A_old` — the one `fit` returns — is an iterate that came out of a
successful projection, hence has every property `Good` that successful projections guarantee -/
theorem C14_last_feasible (project : α → α × Bool) (obj : α → ℝ) (dir : α → α) (step : ℕ → α → ℝ → α → α)
    (Good : α → Prop) (hproj : ∀ a, (project a).2 = true → Good (project a).1)
    (s : MmcState α ℝ) (h0 : (project s.A).2 = true) (n : Nat) :
    Good (mmcCycles project obj dir step (n + 1) 0 s).Aold := by
  have gen : ∀ (n c : Nat) (s : MmcState α ℝ), Good s.Aold → Good (mmcCycles project obj dir step n c s).Aold := by
    intro n
    induction n with
    | zero => intro c s h; exact h
    | succ n ih =>
      intro c s h
      simp only [mmcCycles]
      exact ih _ _ ((mmcCycle_Aold project obj dir step Good hproj c s).1 h)
  simp only [mmcCycles]
  exact gen n 1 _ ((mmcCycle_Aold project obj dir step Good hproj 0 s).2 rfl h0)

/-- the iterations start from the matrix chosen by `init`: the first projection is applied to it -/
theorem C14_init_used (project : α → α × Bool) (obj : α → ℝ) (dir : α → α) (step : ℕ → α → ℝ → α → α)
    (s : MmcState α ℝ) (h0 : (project s.A).2 = true) :
    (mmcCycle project obj dir step 0 s).Aold = (project s.A).1 := by
  unfold mmcCycle
  simp [h0]

/-! ## diagonal variant -/

theorem C14_diag_nonneg (w step : Vec ℝ d) (lam : ℝ) (k : Fin d) : 0 ≤ mmcDiagCandidate w step lam k := by
  simp only [mmcDiagCandidate, smax_real]; exact le_max_left _ _

/-- a non-finite objective raises `ValueError` instead of being returned -/
theorem C14_diag_nan_raises (c : FloatClass) : assertAllFinite c = .ok () ↔ c = .finite := by
  cases c <;> simp [assertAllFinite]

/-! non-vacuity -/
example : mmcBudget ([fun _ => 2] : List (Vec Rat 1)) (fun _ _ => 1) = 1/25 := by decide +kernel
