import MLProps.Bridge
import MLGen.Decisions
/-!
# C04 — tuple classifiers decide exactly by comparing learned distances

Decision logic over ℝ for the model in `MLModel/Classify.lean`; ties included
(`d = threshold` ⇒ +1; tied triplet ⇒ −1; tied quadruplet ⇒ 0).
-/
open ML

theorem C04_pair_iff (thr d : ℝ) : predictPair thr d = 1 ↔ d ≤ thr := by
  unfold predictPair decisionPair
  rw [neg_neg]
  split <;> simp_all

theorem C04_pair_neg_iff (thr d : ℝ) : predictPair thr d = -1 ↔ thr < d := by
  unfold predictPair decisionPair
  rw [neg_neg]
  split
  · rename_i h; simp [not_lt.mpr h]
  · rename_i h; simp [not_le.mp h]

theorem C04_pair_decision_eq_neg_dist (d : ℝ) : decisionPair d = -d := rfl

/-- predictions are monotone in the distance (larger distance never turns −1 into +1) -/
theorem C04_pair_mono_d (thr d d' : ℝ) (h : d ≤ d') : predictPair thr d' ≤ predictPair thr d := by
  by_cases h1 : d' ≤ thr
  · rw [(C04_pair_iff thr d').mpr h1, (C04_pair_iff thr d).mpr (le_trans h h1)]
  · rw [(C04_pair_neg_iff thr d').mpr (not_le.mp h1)]
    by_cases h2 : d ≤ thr
    · rw [(C04_pair_iff thr d).mpr h2]; decide
    · rw [(C04_pair_neg_iff thr d).mpr (not_le.mp h2)]

/-- predictions are monotone in the threshold -/
theorem C04_pair_mono_thr (t t' d : ℝ) (h : t ≤ t') : predictPair t d ≤ predictPair t' d := by
  by_cases h1 : d ≤ t
  · rw [(C04_pair_iff t d).mpr h1, (C04_pair_iff t' d).mpr (le_trans h1 h)]
  · rw [(C04_pair_neg_iff t d).mpr (not_le.mp h1)]
    by_cases h2 : d ≤ t'
    · rw [(C04_pair_iff t' d).mpr h2]; decide
    · rw [(C04_pair_neg_iff t' d).mpr (not_le.mp h2)]

theorem C04_triplet_decision (dab dac : ℝ) : decisionTriplet dab dac = dac - dab := by
  unfold decisionTriplet; ring

theorem C04_triplet_iff (dab dac : ℝ) : predictTriplet dab dac = 1 ↔ dab < dac := by
  unfold predictTriplet
  rw [C04_triplet_decision]
  split <;> rename_i h
  · simp [sub_pos.mp h]
  · simp only [reduceCtorEq, false_iff]; intro h'; exact h (sub_pos.mpr h'); 

theorem C04_triplet_neg_iff (dab dac : ℝ) : predictTriplet dab dac = -1 ↔ dac ≤ dab := by
  unfold predictTriplet
  rw [C04_triplet_decision]
  split <;> rename_i h
  · have := sub_pos.mp h; simp [not_le.mpr this]
  · simp [sub_nonpos.mp (not_lt.mp h)]

theorem C04_quad_decision (dab dcd : ℝ) : decisionQuad dab dcd = dcd - dab := by
  unfold decisionQuad; ring

theorem C04_quad_sign (dab dcd : ℝ) :
    (predictQuad dab dcd = 1 ↔ dab < dcd) ∧ (predictQuad dab dcd = -1 ↔ dcd < dab) ∧
    (predictQuad dab dcd = 0 ↔ dab = dcd) := by
  unfold predictQuad sign
  rw [C04_quad_decision]
  rcases lt_trichotomy dab dcd with h | h | h
  · have h1 : 0 < dcd - dab := sub_pos.mpr h
    simp [h1, h, not_lt.mpr (le_of_lt h), ne_of_lt h]
  · subst h; simp
  · have h1 : dcd - dab < 0 := sub_neg.mpr h
    simp [h1, h, not_lt.mpr (le_of_lt h1), not_lt.mpr (le_of_lt h), ne_of_gt h]

/-- swapping the compared pairs negates the decision function -/
theorem C04_swap_negates (p q : ℝ) :
    decisionTriplet q p = - decisionTriplet p q ∧ decisionQuad q p = - decisionQuad p q := by
  constructor
  · rw [C04_triplet_decision, C04_triplet_decision]; ring
  · rw [C04_quad_decision, C04_quad_decision]; ring

/-- `score` of a triplets/quadruplets learner is the fraction predicted +1 -/
theorem C04_triplet_score (ps : List Int) (hn : ps ≠ []) (h : ∀ p ∈ ps, p = 1 ∨ p = -1) :
    (scoreFrac ps : ℝ) = ((ps.filter (· = 1)).length : ℝ) / (ps.length : ℝ) := by
  have hlen : (ps.filter (· = 1)).length + (ps.filter (· = -1)).length = ps.length := by
    induction ps with
    | nil => simp
    | cons a t ih =>
      by_cases ht : t = []
      · subst ht
        rcases h a (by simp) with rfl | rfl <;> simp
      · have := ih ht (fun p hp => h p (List.mem_cons_of_mem _ hp))
        rcases h a (by simp) with rfl | rfl <;> simp <;> omega
  have hpos : (0:ℝ) < (ps.length : ℝ) := by
    have : 0 < ps.length := List.length_pos_of_ne_nil hn
    exact_mod_cast this
  unfold scoreFrac
  simp only [ofNat_real, lit_real]
  have : ((ps.filter (· = -1)).length : ℝ) = (ps.length : ℝ) - ((ps.filter (· = 1)).length : ℝ) := by
    rw [← hlen]; push_cast; ring
  rw [this]
  field_simp
  ring

/-- after any history of `fit / calibrate_threshold / set_threshold` the stored threshold is the
one written by the last operation that writes -/
theorem C04_threshold_history (h : List (ThrOp ℝ)) (op : ThrOp ℝ) :
    thrRun (h ++ [op]) = thrStep (thrRun h) op := by
  simp [thrRun, List.foldl_append]

theorem C04_threshold_last_write (h : List (ThrOp ℝ)) (t : ℝ) :
    thrRun (h ++ [.fit t]) = some t ∧ thrRun (h ++ [.calibrate t]) = some t ∧
    thrRun (h ++ [.set (some t)]) = some t ∧ thrRun (h ++ [.set none]) = thrRun h := by
  simp [C04_threshold_history, thrStep]

/-! non-vacuity: ties -/
example : predictPair (2:ℝ) 2 = 1 ∧ predictTriplet (3:ℝ) 3 = -1 ∧ predictQuad (5:ℝ) 5 = 0 := by
  refine ⟨(C04_pair_iff _ _).mpr le_rfl, (C04_triplet_neg_iff _ _).mpr le_rfl, ((C04_quad_sign _ _).2.2).mpr rfl⟩

/-! ## the decision expressions read off the source are the model's -/

theorem C04_gen_decision_pair (dist : ℕ → ℕ → ℝ) : MLGen.decisionPair dist = decisionPair (dist 0 1) := by
  simp [MLGen.decisionPair, decisionPair]

theorem C04_gen_predict_pair (dist : ℕ → ℕ → ℝ) (thr : ℝ) :
    MLGen.predictPair dist thr = ((predictPair thr (dist 0 1) : Int) : ℝ) := by
  simp only [MLGen.predictPair, predictPair, decisionPair, pmOne, ofNat_real, Nat.cast_one, neg_mul, one_mul, neg_neg]
  by_cases h : dist 0 1 ≤ thr <;> simp [h]

theorem C04_gen_decision_triplet (dist : ℕ → ℕ → ℝ) : MLGen.decisionTriplet dist = decisionTriplet (dist 0 1) (dist 0 2) := by
  simp [MLGen.decisionTriplet, decisionTriplet]

theorem C04_gen_predict_triplet (dist : ℕ → ℕ → ℝ) (thr : ℝ) :
    MLGen.predictTriplet dist thr = ((predictTriplet (dist 0 1) (dist 0 2) : Int) : ℝ) := by
  simp only [MLGen.predictTriplet, predictTriplet, decisionTriplet, pmOne, ofNat_real, Nat.cast_one, Nat.cast_zero, neg_mul, one_mul, gt_iff_lt]
  by_cases h : 0 < -dist 0 1 - -dist 0 2 <;> simp [h]

theorem C04_gen_decision_quad (dist : ℕ → ℕ → ℝ) : MLGen.decisionQuad dist = decisionQuad (dist 0 1) (dist 2 3) := by
  simp [MLGen.decisionQuad, decisionQuad]

theorem C04_gen_predict_quad (dist : ℕ → ℕ → ℝ) (thr : ℝ) :
    MLGen.predictQuad dist thr = ((predictQuad (dist 0 1) (dist 2 3) : Int) : ℝ) := by
  simp only [MLGen.predictQuad, predictQuad, decisionQuad, signK, sign, ofNat_real, Nat.cast_one, neg_mul, one_mul]
  by_cases h : 0 < -dist 0 1 - -dist 2 3
  · simp [h]
  · by_cases h2 : -dist 0 1 - -dist 2 3 < 0 <;> simp [h, h2]

theorem foldr_add_cast (preds : List Int) (h : ∀ p ∈ preds, p = 1 ∨ p = -1 ∨ p = 0) :
    (preds.map fun p : Int => (p : ℝ)).foldr (· + ·) 0
      = ((preds.filter (· = 1)).length : ℝ) - ((preds.filter (· = -1)).length : ℝ) := by
  induction preds with
  | nil => simp
  | cons a t ih =>
    have ih' := ih (fun p hp => h p (List.mem_cons_of_mem _ hp))
    simp only [List.map_cons, List.foldr_cons, ih', List.filter_cons]
    rcases h a (List.mem_cons_self) with rfl | rfl | rfl <;> simp <;> ring

/-- `score` of the triplet / quadruplet classifiers, as written in the source, is the model's `scoreFrac` -/
theorem C04_gen_score_triplet (preds : List Int) (h : ∀ p ∈ preds, p = 1 ∨ p = -1 ∨ p = 0) :
    MLGen.scoreTriplet (preds.map fun p : Int => (p : ℝ)) = scoreFrac preds := by
  simp only [MLGen.scoreTriplet, scoreFrac, foldr_add_cast preds h, List.length_map, ofNat_real]

theorem C04_gen_score_quad (preds : List Int) (h : ∀ p ∈ preds, p = 1 ∨ p = -1 ∨ p = 0) :
    MLGen.scoreQuad (preds.map fun p : Int => (p : ℝ)) = scoreFrac preds := by
  simp only [MLGen.scoreQuad, scoreFrac, foldr_add_cast preds h, List.length_map, ofNat_real]

theorem C04_gen_score_pair (decisions : List ℝ) (labels : List Bool) :
    MLGen.scorePair decisions labels = auc decisions labels := rfl
