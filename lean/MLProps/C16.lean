import MLProps.Bridge
import MLGen.Funcs
import Mathlib.Data.List.MinMax
/-!
# C16 — threshold calibration picks an optimal cut-off

Master theorem: for *any* criterion and *any* feasibility constraint that see the threshold only
through the prediction vector (accuracy, F-beta, TPR subject to TNR ≥ r, TNR subject to TPR ≥ r are
instances), the first maximiser over `rejectAll :: observed distances` is feasible and optimal over
**all** real thresholds — validation sets of every size, ties, duplicated pairs with conflicting
labels and zero distances included.
-/
open ML

theorem preds_congr (ds : List ℝ) (t t' : ℝ) (h : ∀ d ∈ ds, (d ≤ t ↔ d ≤ t')) :
    preds ds t = preds ds t' := by
  unfold preds
  apply List.map_congr_left
  intro d hd; simp [h d hd]

theorem listMin_le : ∀ (ds : List ℝ) (m : ℝ), listMin ds = some m → ∀ d ∈ ds, m ≤ d := by
  intro ds
  induction ds with
  | nil => intro m h; simp [listMin] at h
  | cons x xs ih =>
    intro m h d hd
    unfold listMin at h
    cases hx : listMin xs with
    | none =>
      rw [hx] at h; simp at h; subst h
      cases xs with
      | nil => simp at hd; exact le_of_eq hd.symm
      | cons y ys => simp [listMin] at hx; split at hx <;> simp at hx
    | some m' =>
      rw [hx] at h; simp at h; subst h
      rw [smin_real]
      rcases List.mem_cons.mp hd with rfl | hd'
      · exact min_le_left _ _
      · exact le_trans (min_le_right _ _) (ih m' hx d hd')

theorem rejectAll_lt (ds : List ℝ) : ∀ d ∈ ds, rejectAll ds < d := by
  intro d hd
  unfold rejectAll
  cases h : listMin ds with
  | none =>
    cases ds with
    | nil => simp at hd
    | cons y ys => simp [listMin] at h; split at h <;> simp at h
  | some m =>
    have := listMin_le ds m h d hd
    have hb : (Scalar.below m : ℝ) = m - 1 := rfl
    simp only [smin_real, hb, min_self]; linarith

/-- every real threshold predicts like the reject-all value or like one observed distance -/
theorem C16_exists_cand (ds : List ℝ) (t : ℝ) : ∃ c ∈ cands ds, preds ds c = preds ds t := by
  by_cases hex : ∃ d ∈ ds, d ≤ t
  · let S := ds.filter (· ≤ t)
    have hne : S ≠ [] := by
      obtain ⟨d, hd, hdt⟩ := hex
      exact List.ne_nil_of_mem (List.mem_filter.mpr ⟨hd, by simpa using hdt⟩)
    have hpos : 0 < S.length := List.length_pos_of_ne_nil hne
    let m := S.maximum_of_length_pos hpos
    have hmS : m ∈ S := List.maximum_of_length_pos_mem hpos
    have hmt : m ≤ t := by simpa [S] using (List.mem_filter.mp hmS).2
    refine ⟨m, List.mem_cons_of_mem _ (List.mem_filter.mp hmS).1, ?_⟩
    apply preds_congr
    intro d hd
    constructor
    · intro h; exact le_trans h hmt
    · intro h
      exact List.le_maximum_of_length_pos_of_mem (List.mem_filter.mpr ⟨hd, by simpa using h⟩) hpos
  · push Not at hex
    refine ⟨rejectAll ds, List.mem_cons_self, ?_⟩
    apply preds_congr
    intro d hd
    constructor
    · intro h; exact absurd h (not_le.mpr (rejectAll_lt ds d hd))
    · intro h; exact absurd h (not_le.mpr (hex d hd))

theorem argmaxOk_spec (f : ℝ → ℝ) (ok : ℝ → Bool) : ∀ (cs : List ℝ),
    (∀ b, argmaxOk f ok cs = some b → ok b = true ∧ b ∈ cs ∧ ∀ c ∈ cs, ok c = true → f c ≤ f b) ∧
    (argmaxOk f ok cs = none → ∀ c ∈ cs, ok c = false) := by
  intro cs
  induction cs with
  | nil => simp [argmaxOk]
  | cons c cs ih =>
    obtain ⟨ih1, ih2⟩ := ih
    unfold argmaxOk
    cases h : argmaxOk f ok cs with
    | none =>
      have hn := ih2 h
      by_cases hc : ok c = true
      · simp only [hc, if_true]
        refine ⟨?_, by simp⟩
        intro b hb; cases hb
        refine ⟨hc, List.mem_cons_self, ?_⟩
        intro x hx hokx
        rcases List.mem_cons.mp hx with rfl | hx
        · exact le_rfl
        · have := hn x hx; simp [this] at hokx
      · have hc' : ok c = false := by simpa using hc
        simp only [hc']
        refine ⟨by simp, ?_⟩
        intro _ x hx
        rcases List.mem_cons.mp hx with rfl | hx
        · exact hc'
        · exact hn x hx
    | some b =>
      obtain ⟨hokb, hbm, hbmax⟩ := ih1 b h
      by_cases hcond : ok c = true ∧ f b ≤ f c
      · simp only [hcond, and_self, if_true]
        refine ⟨?_, by simp⟩
        intro b' hb'; cases hb'
        refine ⟨hcond.1, List.mem_cons_self, ?_⟩
        intro x hx hokx
        rcases List.mem_cons.mp hx with rfl | hx
        · exact le_rfl
        · exact le_trans (hbmax x hx hokx) hcond.2
      · simp only [hcond, if_false]
        refine ⟨?_, by simp⟩
        intro b' hb'; cases hb'
        refine ⟨hokb, List.mem_cons_of_mem _ hbm, ?_⟩
        intro x hx hokx
        rcases List.mem_cons.mp hx with rfl | hx
        · by_cases h1 : ok x = true
          · have : ¬ f b ≤ f x := fun h2 => hcond ⟨h1, h2⟩
            exact le_of_lt (not_le.mp this)
          · simp [h1] at hokx
        · exact hbmax x hx hokx

/-- **Master theorem.**  The calibrated threshold is feasible and no real threshold that is
feasible attains a larger criterion value. -/
theorem C16_calibrate_optimal (s : Strategy ℝ) (ds : List ℝ) (labels : List Bool) (b : ℝ)
    (hb : calibrate s ds labels = some b) :
    s.feas labels (preds ds b) = true ∧
    ∀ t : ℝ, s.feas labels (preds ds t) = true → s.crit labels (preds ds t) ≤ s.crit labels (preds ds b) := by
  unfold calibrate at hb
  obtain ⟨h1, _⟩ := argmaxOk_spec (fun t => s.crit labels (preds ds t)) (fun t => s.feas labels (preds ds t)) (cands ds)
  obtain ⟨hok, _, hmax⟩ := h1 b hb
  refine ⟨hok, ?_⟩
  intro t ht
  obtain ⟨c, hc, hpc⟩ := C16_exists_cand ds t
  have := hmax c hc (by simpa [hpc] using ht)
  simpa [hpc] using this

/-- a threshold is returned whenever any real threshold is feasible -/
theorem C16_calibrate_some (s : Strategy ℝ) (ds : List ℝ) (labels : List Bool) (t : ℝ)
    (ht : s.feas labels (preds ds t) = true) : ∃ b, calibrate s ds labels = some b := by
  unfold calibrate
  obtain ⟨_, h2⟩ := argmaxOk_spec (fun t => s.crit labels (preds ds t)) (fun t => s.feas labels (preds ds t)) (cands ds)
  cases h : argmaxOk (fun t => s.crit labels (preds ds t)) (fun t => s.feas labels (preds ds t)) (cands ds) with
  | some b => exact ⟨b, rfl⟩
  | none =>
    obtain ⟨c, hc, hpc⟩ := C16_exists_cand ds t
    have := h2 h c hc
    simp [hpc, ht] at this

/-- accuracy: the calibrated threshold has maximal accuracy among all thresholds -/
theorem C16_acc_optimal (ds : List ℝ) (labels : List Bool) :
    ∃ b, calibrate .accuracy ds labels = some b ∧
      ∀ t : ℝ, accuracyOf (countsOf (preds ds t) labels) ≤ (accuracyOf (countsOf (preds ds b) labels) : ℝ) := by
  obtain ⟨b, hb⟩ := C16_calibrate_some (.accuracy) ds labels 0 rfl
  exact ⟨b, hb, fun t => (C16_calibrate_optimal _ ds labels b hb).2 t rfl⟩

/-- F-beta: maximal `F_β` among all thresholds, for every `β` -/
theorem C16_fbeta_optimal (beta : ℝ) (ds : List ℝ) (labels : List Bool) :
    ∃ b, calibrate (.fBeta beta) ds labels = some b ∧
      ∀ t : ℝ, fbeta (beta * beta) (countsOf (preds ds t) labels) ≤ (fbeta (beta * beta) (countsOf (preds ds b) labels) : ℝ) := by
  obtain ⟨b, hb⟩ := C16_calibrate_some (.fBeta beta) ds labels 0 rfl
  exact ⟨b, hb, fun t => (C16_calibrate_optimal _ ds labels b hb).2 t rfl⟩

/-- max-TPR: among thresholds whose TNR is ≥ `r`, the calibrated one has maximal TPR (and itself
has TNR ≥ `r`) -/
theorem C16_tpr_optimal (r : ℝ) (ds : List ℝ) (labels : List Bool) (b : ℝ)
    (hb : calibrate (.maxTpr r) ds labels = some b) :
    r ≤ tnr (countsOf (preds ds b) labels) ∧
    ∀ t : ℝ, r ≤ tnr (countsOf (preds ds t) labels) →
      tpr (countsOf (preds ds t) labels) ≤ (tpr (countsOf (preds ds b) labels) : ℝ) := by
  obtain ⟨h1, h2⟩ := C16_calibrate_optimal _ ds labels b hb
  refine ⟨by simpa [Strategy.feas] using h1, fun t ht => h2 t (by simpa [Strategy.feas] using ht)⟩

theorem C16_tnr_optimal (r : ℝ) (ds : List ℝ) (labels : List Bool) (b : ℝ)
    (hb : calibrate (.maxTnr r) ds labels = some b) :
    r ≤ tpr (countsOf (preds ds b) labels) ∧
    ∀ t : ℝ, r ≤ tpr (countsOf (preds ds t) labels) →
      tnr (countsOf (preds ds t) labels) ≤ (tnr (countsOf (preds ds b) labels) : ℝ) := by
  obtain ⟨h1, h2⟩ := C16_calibrate_optimal _ ds labels b hb
  refine ⟨by simpa [Strategy.feas] using h1, fun t ht => h2 t (by simpa [Strategy.feas] using ht)⟩

/-- invalid strategy / min_rate / beta are rejected: exact characterisation of the *generated*
transcription of `_validate_calibration_params` (MLGen/Funcs.lean, regenerated every run) -/
theorem C16_params_rejected (strategy : String) (minRate beta : PyNum ℝ) :
    MLGen.validateCalibrationParams strategy minRate beta = .ok () ↔
      ((strategy = "accuracy") ∨
       (strategy = "f_beta" ∧ ∃ x, beta = .num x) ∨
       ((strategy = "max_tpr" ∨ strategy = "max_tnr") ∧ ∃ r, minRate = .num r ∧ 0 ≤ r ∧ r ≤ 1)) := by
  unfold MLGen.validateCalibrationParams
  by_cases h1 : strategy = "accuracy"
  · subst h1; simp
  by_cases h2 : strategy = "f_beta"
  · subst h2
    cases beta <;> simp [PyNum.isNum, PyNum.isNone]
  by_cases h3 : strategy = "max_tpr"
  · subst h3
    cases minRate <;> simp [PyNum.isNum, PyNum.isNone, PyNum.val]
  by_cases h4 : strategy = "max_tnr"
  · subst h4
    cases minRate <;> simp [PyNum.isNum, PyNum.isNone, PyNum.val]
  simp [h1, h2, h3, h4]

/-! non-vacuity: tied distances with conflicting labels; the optimum accepts the tie group -/
example : calibrate (.accuracy : Strategy Rat) [1, 1, 2] [true, false, true] = some 2 := by decide +kernel

/-! ## the code's accuracy route refines the specification

`calibrateAccCode` models what `calibrate_threshold(strategy='accuracy')` does after the tie repair:
sort, cumulative counts, mask of realisable positions, first arg-max.  The threshold it stores
classifies at least as many validation pairs correctly as ANY real threshold. -/

theorem correctCount_split (s : List (ℝ × Bool)) (t : ℝ) (i : ℕ)
    (h1 : ∀ p ∈ s.take i, p.1 ≤ t) (h2 : ∀ p ∈ s.drop i, ¬ p.1 ≤ t) :
    correctCount s t = cumCorrect s i := by
  unfold correctCount cumCorrect
  conv_lhs => rw [← List.take_append_drop i s]
  rw [List.filter_append, List.length_append]
  congr 1
  · congr 1
    apply List.filter_congr
    intro p hp
    have := h1 p hp
    simp [this]
  · congr 1
    apply List.filter_congr
    intro p hp
    have := h2 p hp
    simp [this]

theorem sorted_sortByDist (l : List (ℝ × Bool)) : (sortByDist l).Pairwise (fun a b => a.1 ≤ b.1) := by
  have := List.pairwise_mergeSort (le := fun (a b : ℝ × Bool) => decide (a.1 ≤ b.1))
    (by intro a b c hab hbc; simp only [decide_eq_true_eq] at *; exact le_trans hab hbc)
    (by intro a b; simp only [Bool.or_eq_true, decide_eq_true_eq]; exact le_total _ _) l
  unfold sortByDist
  exact this.imp (by intro a b h; simpa using h)

theorem correctCount_perm (l l' : List (ℝ × Bool)) (h : l.Perm l') (t : ℝ) : correctCount l t = correctCount l' t := by
  unfold correctCount; exact (h.filter _).length_eq

/-- in a sorted list the pairs accepted by a threshold form a prefix -/
theorem prefix_of_sorted : ∀ (s : List (ℝ × Bool)), s.Pairwise (fun a b => a.1 ≤ b.1) → ∀ t : ℝ,
    ∃ i, i ≤ s.length ∧ (∀ p ∈ s.take i, p.1 ≤ t) ∧ (∀ p ∈ s.drop i, ¬ p.1 ≤ t) := by
  intro s
  induction s with
  | nil => intro _ t; exact ⟨0, le_refl _, by simp, by simp⟩
  | cons a r ih =>
    intro hs t
    obtain ⟨har, hr⟩ := List.pairwise_cons.mp hs
    by_cases hat : a.1 ≤ t
    · obtain ⟨i, hi, h1, h2⟩ := ih hr t
      refine ⟨i + 1, by simp; omega, ?_, ?_⟩
      · intro p hp
        simp only [List.take_succ_cons, List.mem_cons] at hp
        rcases hp with rfl | hp
        · exact hat
        · exact h1 p hp
      · intro p hp; simp only [List.drop_succ_cons] at hp; exact h2 p hp
    · refine ⟨0, Nat.zero_le _, by simp, ?_⟩
      intro p hp
      simp only [List.drop_zero, List.mem_cons] at hp
      rcases hp with rfl | hp
      · exact hat
      · intro hpt; exact hat (le_trans (har p hp) hpt)

theorem getD_mem_take {s : List (ℝ × Bool)} {i : ℕ} (hi : 0 < i) (hn : i ≤ s.length) :
    s.getD (i - 1) (0, true) ∈ s.take i := by
  have h1 : i - 1 < s.length := by omega
  rw [List.getD_eq_getElem?_getD, List.getElem?_eq_getElem h1]
  simp only [Option.getD_some]
  rw [List.mem_take_iff_getElem]
  exact ⟨i - 1, by simp; omega, rfl⟩

theorem getD_mem_drop {s : List (ℝ × Bool)} {i : ℕ} (hn : i < s.length) :
    s.getD i (0, true) ∈ s.drop i := by
  rw [List.getD_eq_getElem?_getD, List.getElem?_eq_getElem hn]
  simp only [Option.getD_some]
  rw [List.mem_drop_iff_getElem]
  exact ⟨0, by simpa using hn, by simp⟩

theorem realisablePos_iff (s : List (ℝ × Bool)) (i : ℕ) : realisablePos s i = true ↔
    (i = 0 ∨ i = s.length ∨ ¬ ((s.getD (i - 1) (0, true)).1 ≤ (s.getD i (0, true)).1 ∧
      (s.getD i (0, true)).1 ≤ (s.getD (i - 1) (0, true)).1)) := by
  unfold realisablePos
  rw [Bool.or_eq_true, Bool.or_eq_true, beq_iff_eq, beq_iff_eq, Bool.not_eq_true', Bool.and_eq_false_iff,
    decide_eq_false_iff_not, decide_eq_false_iff_not, not_and_or, or_assoc]

/-- every real threshold classifies like some realisable position of the scan -/
theorem exists_realisable (s : List (ℝ × Bool)) (hs : s.Pairwise (fun a b => a.1 ≤ b.1)) (t : ℝ) :
    ∃ i, i ≤ s.length ∧ realisablePos s i = true ∧ correctCount s t = cumCorrect s i := by
  obtain ⟨i, hi, h1, h2⟩ := prefix_of_sorted s hs t
  refine ⟨i, hi, ?_, correctCount_split s t i h1 h2⟩
  rw [realisablePos_iff]
  by_cases h0 : i = 0
  · exact Or.inl h0
  by_cases hn : i = s.length
  · exact Or.inr (Or.inl hn)
  have hlt : i < s.length := by omega
  have ha := h1 _ (getD_mem_take (by omega) hi)
  have hb := h2 _ (getD_mem_drop hlt)
  have : ¬ (s.getD i (0, true)).1 ≤ (s.getD (i - 1) (0, true)).1 := fun h => hb (le_trans h ha)
  exact Or.inr (Or.inr (fun h => this h.2))

/-- at a realisable position the cumulative counts ARE the prediction counts of the stored threshold -/
theorem cum_eq_correct (s : List (ℝ × Bool)) (hs : s.Pairwise (fun a b => a.1 ≤ b.1)) (i : ℕ) (hi : i ≤ s.length)
    (hr : realisablePos s i = true) : correctCount s (thrAtPos s i) = cumCorrect s i := by
  apply correctCount_split
  · intro p hp
    by_cases h0 : i = 0
    · subst h0; simp at hp
    · unfold thrAtPos; rw [if_neg h0]
      rw [List.mem_take_iff_getElem] at hp
      obtain ⟨j, hj, rfl⟩ := hp
      have hj' : j < i := by simp at hj; omega
      have h1 : i - 1 < s.length := by omega
      rw [List.getD_eq_getElem?_getD, List.getElem?_eq_getElem h1]
      simp only [Option.getD_some]
      by_cases hje : j = i - 1
      · subst hje; exact le_refl _
      · exact (List.pairwise_iff_getElem.mp hs) j (i - 1) (by omega) h1 (by omega)
  · intro p hp
    by_cases h0 : i = 0
    · subst h0
      simp only [thrAtPos, if_true, List.drop_zero] at hp ⊢
      have := rejectAll_lt (s.map (·.1)) p.1 (List.mem_map_of_mem hp)
      exact not_le.mpr this
    · by_cases hn : i = s.length
      · subst hn; simp at hp
      · have hlt : i < s.length := by omega
        rw [realisablePos_iff] at hr
        have h1 : i - 1 < s.length := by omega
        replace hr := (hr.resolve_left h0).resolve_left hn
        have hle : (s.getD (i - 1) (0, true)).1 ≤ (s.getD i (0, true)).1 := by
          rw [List.getD_eq_getElem?_getD, List.getElem?_eq_getElem h1, List.getD_eq_getElem?_getD, List.getElem?_eq_getElem hlt]
          exact (List.pairwise_iff_getElem.mp hs) (i - 1) i h1 hlt (by omega)
        have hstrict : (s.getD (i - 1) (0, true)).1 < (s.getD i (0, true)).1 := lt_of_le_not_ge hle (fun h => hr ⟨hle, h⟩)
        unfold thrAtPos; rw [if_neg h0]
        rw [List.mem_drop_iff_getElem] at hp
        obtain ⟨j, hj, rfl⟩ := hp
        have : (s.getD i (0, true)).1 ≤ s[i + j].1 := by
          rw [List.getD_eq_getElem?_getD, List.getElem?_eq_getElem hlt]
          simp only [Option.getD_some]
          by_cases hj0 : j = 0
          · subst hj0; exact le_refl _
          · exact (List.pairwise_iff_getElem.mp hs) i (i + j) hlt (by omega) (by omega)
        exact not_le.mpr (lt_of_lt_of_le hstrict this)

theorem argmaxPos_spec (f : ℕ → ℕ) (ok : ℕ → Bool) : ∀ n : ℕ,
    (∀ b, argmaxPos f ok n = some b → b ≤ n ∧ ok b = true ∧ ∀ i, i ≤ n → ok i = true → f i ≤ f b) ∧
    (argmaxPos f ok n = none → ∀ i, i ≤ n → ok i = false) := by
  intro n
  induction n with
  | zero =>
    unfold argmaxPos
    by_cases h : ok 0 = true
    · simp only [h, if_true]
      refine ⟨?_, by simp⟩
      intro b hb; cases hb
      refine ⟨le_refl _, h, fun i hi hoki => ?_⟩
      have : i = 0 := by omega
      subst this; exact le_refl _
    · have h' : ok 0 = false := by simpa using h
      simp only [h', Bool.false_eq_true, if_false]
      refine ⟨by simp, fun _ i hi => ?_⟩
      have : i = 0 := by omega
      subst this; exact h'
  | succ n ih =>
    obtain ⟨ih1, ih2⟩ := ih
    unfold argmaxPos
    cases hprev : argmaxPos f ok n with
    | none =>
      have hn := ih2 hprev
      by_cases h : ok (n + 1) = true
      · simp only [h, if_true]
        refine ⟨?_, by simp⟩
        intro b hb; cases hb
        refine ⟨le_refl _, h, fun i hi hoki => ?_⟩
        by_cases hin : i ≤ n
        · have := hn i hin; rw [this] at hoki; cases hoki
        · have : i = n + 1 := by omega
          subst this; exact le_refl _
      · have h' : ok (n + 1) = false := by simpa using h
        simp only [h', Bool.false_eq_true, if_false]
        refine ⟨by simp, fun _ i hi => ?_⟩
        by_cases hin : i ≤ n
        · exact hn i hin
        · have : i = n + 1 := by omega
          subst this; exact h'
    | some b =>
      obtain ⟨hb1, hb2, hb3⟩ := ih1 b hprev
      by_cases hc : (ok (n + 1) && decide (f b < f (n + 1))) = true
      · simp only [hc, if_true]
        refine ⟨?_, by simp⟩
        intro b' hb'; cases hb'
        simp only [Bool.and_eq_true, decide_eq_true_eq] at hc
        refine ⟨le_refl _, hc.1, fun i hi hoki => ?_⟩
        by_cases hin : i ≤ n
        · exact le_trans (hb3 i hin hoki) hc.2.le
        · have : i = n + 1 := by omega
          subst this; exact le_refl _
      · simp only [hc, Bool.false_eq_true, if_false]
        refine ⟨?_, by simp⟩
        intro b' hb'; cases hb'
        refine ⟨by omega, hb2, fun i hi hoki => ?_⟩
        by_cases hin : i ≤ n
        · exact hb3 i hin hoki
        · have : i = n + 1 := by omega
          subst this
          simp only [Bool.and_eq_true, decide_eq_true_eq, not_and, not_lt] at hc
          exact hc hoki

/-- **the code's accuracy calibration is optimal**: the threshold it stores classifies at least as many
validation pairs correctly as any real threshold — ties, duplicated pairs with conflicting labels and
zero distances included -/
theorem C16_code_accuracy_optimal (l : List (ℝ × Bool)) :
    ∃ thr, calibrateAccCode l = some thr ∧ ∀ t : ℝ, correctCount l t ≤ correctCount l thr := by
  unfold calibrateAccCode
  set s := sortByDist l with hsdef
  have hs := sorted_sortByDist l
  have hperm : l.Perm s := (List.mergeSort_perm l _).symm
  obtain ⟨sp1, sp2⟩ := argmaxPos_spec (cumCorrect s) (realisablePos s) s.length
  cases hres : argmaxPos (cumCorrect s) (realisablePos s) s.length with
  | none =>
    have := sp2 hres 0 (Nat.zero_le _)
    simp [realisablePos] at this
  | some b =>
    obtain ⟨hb1, hb2, hb3⟩ := sp1 b hres
    refine ⟨thrAtPos s b, by simp [hres], ?_⟩
    intro t
    rw [correctCount_perm l s hperm t, correctCount_perm l s hperm (thrAtPos s b)]
    obtain ⟨i, hi, hri, hci⟩ := exists_realisable s hs t
    rw [hci, cum_eq_correct s hs b hb1 hb2]
    exact hb3 i hi hri

/-! ## the code's `max_tpr` / `max_tnr` routes refine the specification

`calibrateTprCode` / `calibrateTnrCode` model what `calibrate_threshold` does with `roc_curve(…, drop_intermediate=False)`:
one candidate per realisable cut-off, a rate mask, the first arg-max.  The threshold stored satisfies the rate constraint
and no real threshold that satisfies it does better. -/

theorem exists_realisable_split (s : List (ℝ × Bool)) (hs : s.Pairwise (fun a b => a.1 ≤ b.1)) (t : ℝ) :
    ∃ i, i ≤ s.length ∧ realisablePos s i = true ∧ (∀ p ∈ s.take i, p.1 ≤ t) ∧ (∀ p ∈ s.drop i, ¬ p.1 ≤ t) := by
  obtain ⟨i, hi, h1, h2⟩ := prefix_of_sorted s hs t
  refine ⟨i, hi, ?_, h1, h2⟩
  rw [realisablePos_iff]
  by_cases h0 : i = 0
  · exact Or.inl h0
  by_cases hn : i = s.length
  · exact Or.inr (Or.inl hn)
  have hlt : i < s.length := by omega
  have ha := h1 _ (getD_mem_take (by omega) hi)
  have hb := h2 _ (getD_mem_drop hlt)
  have : ¬ (s.getD i (0, true)).1 ≤ (s.getD (i - 1) (0, true)).1 := fun h => hb (le_trans h ha)
  exact Or.inr (Or.inr (fun h => this h.2))

/-- the threshold stored for a realisable position accepts exactly the first `i` pairs -/
theorem thrAtPos_split (s : List (ℝ × Bool)) (hs : s.Pairwise (fun a b => a.1 ≤ b.1)) (i : ℕ) (hi : i ≤ s.length)
    (hr : realisablePos s i = true) :
    (∀ p ∈ s.take i, p.1 ≤ thrAtPos s i) ∧ (∀ p ∈ s.drop i, ¬ p.1 ≤ thrAtPos s i) := by
  constructor
  · intro p hp
    by_cases h0 : i = 0
    · subst h0; simp at hp
    · unfold thrAtPos; rw [if_neg h0]
      rw [List.mem_take_iff_getElem] at hp
      obtain ⟨j, hj, rfl⟩ := hp
      have hj' : j < i := by simp at hj; omega
      have h1 : i - 1 < s.length := by omega
      rw [List.getD_eq_getElem?_getD, List.getElem?_eq_getElem h1]
      simp only [Option.getD_some]
      by_cases hje : j = i - 1
      · subst hje; exact le_refl _
      · exact (List.pairwise_iff_getElem.mp hs) j (i - 1) (by omega) h1 (by omega)
  · intro p hp
    by_cases h0 : i = 0
    · subst h0
      simp only [thrAtPos, if_true, List.drop_zero] at hp ⊢
      have := rejectAll_lt (s.map (·.1)) p.1 (List.mem_map_of_mem hp)
      exact not_le.mpr this
    · by_cases hn : i = s.length
      · subst hn; simp at hp
      · have hlt : i < s.length := by omega
        rw [realisablePos_iff] at hr
        have h1 : i - 1 < s.length := by omega
        replace hr := (hr.resolve_left h0).resolve_left hn
        have hle : (s.getD (i - 1) (0, true)).1 ≤ (s.getD i (0, true)).1 := by
          rw [List.getD_eq_getElem?_getD, List.getElem?_eq_getElem h1, List.getD_eq_getElem?_getD, List.getElem?_eq_getElem hlt]
          exact (List.pairwise_iff_getElem.mp hs) (i - 1) i h1 hlt (by omega)
        have hstrict : (s.getD (i - 1) (0, true)).1 < (s.getD i (0, true)).1 := lt_of_le_not_ge hle (fun h => hr ⟨hle, h⟩)
        unfold thrAtPos; rw [if_neg h0]
        rw [List.mem_drop_iff_getElem] at hp
        obtain ⟨j, hj, rfl⟩ := hp
        have : (s.getD i (0, true)).1 ≤ s[i + j].1 := by
          rw [List.getD_eq_getElem?_getD, List.getElem?_eq_getElem hlt]
          simp only [Option.getD_some]
          by_cases hj0 : j = 0
          · subst hj0; exact le_refl _
          · exact (List.pairwise_iff_getElem.mp hs) i (i + j) hlt (by omega) (by omega)
        exact not_le.mpr (lt_of_lt_of_le hstrict this)

/-- when a threshold accepts exactly the first `i` pairs, its counts are the cumulative counts at `i` -/
theorem counts_split (s : List (ℝ × Bool)) (t : ℝ) (i : ℕ)
    (h1 : ∀ p ∈ s.take i, p.1 ≤ t) (h2 : ∀ p ∈ s.drop i, ¬ p.1 ≤ t) :
    tpOf s t = tpAt s i ∧ fpOf s t = fpAt s i := by
  unfold tpOf fpOf tpAt fpAt
  constructor
  · conv_lhs => rw [← List.take_append_drop i s]
    rw [List.filter_append, List.length_append]
    have e1 : (s.take i).filter (fun p => decide (p.1 ≤ t) && p.2) = (s.take i).filter (·.2) := by
      apply List.filter_congr; intro p hp; simp [h1 p hp]
    have e2 : (s.drop i).filter (fun p => decide (p.1 ≤ t) && p.2) = [] := by
      rw [List.filter_eq_nil_iff]; intro p hp; simp [h2 p hp]
    rw [e1, e2]; simp
  · conv_lhs => rw [← List.take_append_drop i s]
    rw [List.filter_append, List.length_append]
    have e1 : (s.take i).filter (fun p => decide (p.1 ≤ t) && !p.2) = (s.take i).filter (!·.2) := by
      apply List.filter_congr; intro p hp; simp [h1 p hp]
    have e2 : (s.drop i).filter (fun p => decide (p.1 ≤ t) && !p.2) = [] := by
      rw [List.filter_eq_nil_iff]; intro p hp; simp [h2 p hp]
    rw [e1, e2]; simp

theorem counts_perm (l l' : List (ℝ × Bool)) (h : l.Perm l') (t : ℝ) :
    tpOf l t = tpOf l' t ∧ fpOf l t = fpOf l' t ∧ negCount l = negCount l' ∧ posCount l = posCount l' := by
  unfold tpOf fpOf negCount posCount
  exact ⟨(h.filter _).length_eq, (h.filter _).length_eq, (h.filter _).length_eq, (h.filter _).length_eq⟩

theorem fpAt_length (s : List (ℝ × Bool)) : fpAt s s.length = negCount s := by simp [fpAt, negCount]
theorem tpAt_length (s : List (ℝ × Bool)) : tpAt s s.length = posCount s := by simp [tpAt, posCount]

/-- true-negative / true-positive rate of a threshold, in the form the code evaluates (`1 − fps/fps[-1]`, `tps/tps[-1]`) -/
noncomputable def tnrOf (l : List (ℝ × Bool)) (t : ℝ) : ℝ := 1 - (fpOf l t : ℝ) / (negCount l : ℝ)
noncomputable def tprOf (l : List (ℝ × Bool)) (t : ℝ) : ℝ := (tpOf l t : ℝ) / (posCount l : ℝ)

/-- **`max_tpr` as coded is optimal**: the stored threshold has a true-negative rate of at least `min_rate`, and every
real threshold with that property accepts at most as many positive pairs; when nothing is stored there is no negative
pair or no threshold reaches the rate -/
theorem C16_code_max_tpr_optimal (r : ℝ) (l : List (ℝ × Bool)) :
    match calibrateTprCode r l with
    | some (_, thr) => r ≤ tnrOf l thr ∧ ∀ t : ℝ, r ≤ tnrOf l t → tpOf l t ≤ tpOf l thr
    | none => negCount l = 0 ∨ ∀ t : ℝ, ¬ r ≤ tnrOf l t := by
  unfold calibrateTprCode
  set s := sortByDist l with hsdef
  have hs := sorted_sortByDist l
  have hperm : l.Perm s := (List.mergeSort_perm l _).symm
  have hneg : negCount l = negCount s := (counts_perm l s hperm 0).2.2.1
  simp only
  by_cases h0 : fpAt s s.length = 0
  · simp only [h0, if_true]
    left; rw [hneg, ← fpAt_length]; exact h0
  · simp only [h0, if_false]
    -- feasibility at a position is feasibility of any threshold that splits there
    have hfeas : ∀ (t : ℝ) (i : ℕ), (∀ p ∈ s.take i, p.1 ≤ t) → (∀ p ∈ s.drop i, ¬ p.1 ≤ t) →
        (tnrOkCode s r i = true ↔ r ≤ tnrOf l t) := by
      intro t i h1 h2
      have hc := counts_split s t i h1 h2
      unfold tnrOkCode tnrOf
      rw [(counts_perm l s hperm t).2.1, hc.2, hneg, ← fpAt_length]
      simp only [decide_eq_true_eq, ofNat_real]
    obtain ⟨sp1, sp2⟩ := argmaxPos_spec (tpAt s) (fun i => realisablePos s i && tnrOkCode s r i) s.length
    cases hres : argmaxPos (tpAt s) (fun i => realisablePos s i && tnrOkCode s r i) s.length with
    | none =>
      simp only [Option.map_none]
      right
      intro t ht
      obtain ⟨i, hi, hri, h1, h2⟩ := exists_realisable_split s hs t
      have := sp2 hres i hi
      simp only [hri, Bool.true_and] at this
      have hok := (hfeas t i h1 h2).mpr ht
      rw [hok] at this; cases this
    | some b =>
      simp only [Option.map_some]
      obtain ⟨hb1, hb2, hb3⟩ := sp1 b hres
      simp only [Bool.and_eq_true] at hb2
      obtain ⟨hsb1, hsb2⟩ := thrAtPos_split s hs b hb1 hb2.1
      refine ⟨(hfeas _ b hsb1 hsb2).mp hb2.2, ?_⟩
      intro t ht
      obtain ⟨i, hi, hri, h1, h2⟩ := exists_realisable_split s hs t
      rw [(counts_perm l s hperm t).1, (counts_perm l s hperm (thrAtPos s b)).1,
        (counts_split s t i h1 h2).1, (counts_split s _ b hsb1 hsb2).1]
      apply hb3 i hi
      simp only [hri, Bool.true_and]
      exact (hfeas t i h1 h2).mpr ht

/-- **`max_tnr` as coded is optimal**: the stored threshold has a true-positive rate of at least `min_rate`, and every
real threshold with that property accepts at least as many negative pairs -/
theorem C16_code_max_tnr_optimal (r : ℝ) (l : List (ℝ × Bool)) :
    match calibrateTnrCode r l with
    | some (_, thr) => r ≤ tprOf l thr ∧ ∀ t : ℝ, r ≤ tprOf l t → fpOf l thr ≤ fpOf l t
    | none => posCount l = 0 ∨ ∀ t : ℝ, ¬ r ≤ tprOf l t := by
  unfold calibrateTnrCode
  set s := sortByDist l with hsdef
  have hs := sorted_sortByDist l
  have hperm : l.Perm s := (List.mergeSort_perm l _).symm
  have hpos : posCount l = posCount s := (counts_perm l s hperm 0).2.2.2
  simp only
  by_cases h0 : tpAt s s.length = 0
  · simp only [h0, if_true]
    left; rw [hpos, ← tpAt_length]; exact h0
  · simp only [h0, if_false]
    have hfeas : ∀ (t : ℝ) (i : ℕ), (∀ p ∈ s.take i, p.1 ≤ t) → (∀ p ∈ s.drop i, ¬ p.1 ≤ t) →
        (tprOkCode s r i = true ↔ r ≤ tprOf l t) := by
      intro t i h1 h2
      have hc := counts_split s t i h1 h2
      unfold tprOkCode tprOf
      rw [(counts_perm l s hperm t).1, hc.1, hpos, ← tpAt_length]
      simp only [decide_eq_true_eq, ofNat_real]
    -- false positives never exceed the number of negatives
    have hfp_le : ∀ i, fpAt s i ≤ fpAt s s.length := by
      intro i
      unfold fpAt
      have : (s.take i).Sublist (s.take s.length) := by
        rw [List.take_length]; exact List.take_sublist i s
      exact (this.filter _).length_le
    obtain ⟨sp1, sp2⟩ := argmaxPos_spec (fun i => fpAt s s.length - fpAt s i)
      (fun i => realisablePos s i && tprOkCode s r i) s.length
    cases hres : argmaxPos (fun i => fpAt s s.length - fpAt s i) (fun i => realisablePos s i && tprOkCode s r i) s.length with
    | none =>
      simp only [Option.map_none]
      right
      intro t ht
      obtain ⟨i, hi, hri, h1, h2⟩ := exists_realisable_split s hs t
      have := sp2 hres i hi
      simp only [hri, Bool.true_and] at this
      have hok := (hfeas t i h1 h2).mpr ht
      rw [hok] at this; cases this
    | some b =>
      simp only [Option.map_some]
      obtain ⟨hb1, hb2, hb3⟩ := sp1 b hres
      simp only [Bool.and_eq_true] at hb2
      obtain ⟨hsb1, hsb2⟩ := thrAtPos_split s hs b hb1 hb2.1
      refine ⟨(hfeas _ b hsb1 hsb2).mp hb2.2, ?_⟩
      intro t ht
      obtain ⟨i, hi, hri, h1, h2⟩ := exists_realisable_split s hs t
      rw [(counts_perm l s hperm t).2.1, (counts_perm l s hperm (thrAtPos s b)).2.1,
        (counts_split s t i h1 h2).2, (counts_split s _ b hsb1 hsb2).2]
      have := hb3 i hi (by simp only [hri, Bool.true_and]; exact (hfeas t i h1 h2).mpr ht)
      have h1' := hfp_le i; have h2' := hfp_le b
      omega

/-! non-vacuity: the rate constraints are satisfiable (and not by every threshold) on a set with a conflicting tie group -/
example : (1/2 : ℝ) ≤ tnrOf [(1, true), (2, false), (2, true), (3, false)] 1 ∧
    ¬ (1/2 : ℝ) ≤ tnrOf [(1, true), (2, false), (2, true), (3, false)] 3 := by
  constructor <;> norm_num [tnrOf, fpOf, negCount]
example : (1/2 : ℝ) ≤ tprOf [(1, true), (2, false), (2, true), (3, false)] 1 ∧
    ¬ (1/2 : ℝ) ≤ tprOf [(1, true), (2, false), (2, true), (3, false)] 0 := by
  constructor <;> norm_num [tprOf, tpOf, posCount]

/-! ## the code's `f_beta` route -/

theorem argmaxPosK_spec (f : ℕ → ℝ) (ok : ℕ → Bool) : ∀ n : ℕ,
    (∀ b, argmaxPosK f ok n = some b → b ≤ n ∧ ok b = true ∧ ∀ i, i ≤ n → ok i = true → f i ≤ f b) ∧
    (argmaxPosK f ok n = none → ∀ i, i ≤ n → ok i = false) := by
  intro n
  induction n with
  | zero =>
    unfold argmaxPosK
    by_cases h : ok 0 = true
    · simp only [h, if_true]
      refine ⟨?_, by simp⟩
      intro b hb; cases hb
      refine ⟨le_refl _, h, fun i hi hoki => ?_⟩
      have : i = 0 := by omega
      subst this; exact le_refl _
    · have h' : ok 0 = false := by simpa using h
      simp only [h', Bool.false_eq_true, if_false]
      refine ⟨by simp, fun _ i hi => ?_⟩
      have : i = 0 := by omega
      subst this; exact h'
  | succ n ih =>
    obtain ⟨ih1, ih2⟩ := ih
    unfold argmaxPosK
    cases hprev : argmaxPosK f ok n with
    | none =>
      have hn := ih2 hprev
      by_cases h : ok (n + 1) = true
      · simp only [h, if_true]
        refine ⟨?_, by simp⟩
        intro b hb; cases hb
        refine ⟨le_refl _, h, fun i hi hoki => ?_⟩
        by_cases hin : i ≤ n
        · have := hn i hin; rw [this] at hoki; cases hoki
        · have : i = n + 1 := by omega
          subst this; exact le_refl _
      · have h' : ok (n + 1) = false := by simpa using h
        simp only [h', Bool.false_eq_true, if_false]
        refine ⟨by simp, fun _ i hi => ?_⟩
        by_cases hin : i ≤ n
        · exact hn i hin
        · have : i = n + 1 := by omega
          subst this; exact h'
    | some b =>
      obtain ⟨hb1, hb2, hb3⟩ := ih1 b hprev
      by_cases hc : (ok (n + 1) && decide (f b < f (n + 1))) = true
      · simp only [hc, if_true]
        refine ⟨?_, by simp⟩
        intro b' hb'; cases hb'
        simp only [Bool.and_eq_true, decide_eq_true_eq] at hc
        refine ⟨le_refl _, hc.1, fun i hi hoki => ?_⟩
        by_cases hin : i ≤ n
        · exact le_trans (hb3 i hin hoki) hc.2.le
        · have : i = n + 1 := by omega
          subst this; exact le_refl _
      · simp only [hc, Bool.false_eq_true, if_false]
        refine ⟨?_, by simp⟩
        intro b' hb'; cases hb'
        refine ⟨by omega, hb2, fun i hi hoki => ?_⟩
        by_cases hin : i ≤ n
        · exact hb3 i hin hoki
        · have : i = n + 1 := by omega
          subst this
          simp only [Bool.and_eq_true, decide_eq_true_eq, not_and, not_lt] at hc
          exact hc hoki

/-- the F-beta value of a threshold, by the code's formula -/
noncomputable def fbetaOf (beta : ℝ) (l : List (ℝ × Bool)) (t : ℝ) : ℝ :=
  fbetaFromCounts beta (tpOf l t) (fpOf l t) (posCount l)

theorem fb_nonneg (b P R : ℝ) (hP : 0 ≤ P) (hR : 0 ≤ R) :
    0 ≤ (if b * b * P + R ≤ 0 ∧ 0 ≤ b * b * P + R then (0:ℝ) else (1 + b * b) * (P * R) / (b * b * P + R)) := by
  split
  · exact le_refl _
  · apply div_nonneg
    · exact mul_nonneg (by nlinarith [mul_self_nonneg b]) (mul_nonneg hP hR)
    · exact add_nonneg (mul_nonneg (mul_self_nonneg b) hP) hR

theorem fbetaFromCounts_nonneg (beta : ℝ) (tp fp nPos : ℕ) : 0 ≤ fbetaFromCounts beta tp fp nPos := by
  unfold fbetaFromCounts
  simp only [ofNat_real]
  have hp : (0:ℝ) ≤ (if tp + fp = 0 then (0:ℝ) else (tp : ℝ) / ((tp + fp : ℕ) : ℝ)) := by
    split
    · exact le_refl _
    · exact div_nonneg (Nat.cast_nonneg _) (Nat.cast_nonneg _)
  have hr : (0:ℝ) ≤ (if nPos = 0 then (1:ℝ) else (tp : ℝ) / (nPos : ℝ)) := by
    split
    · norm_num
    · exact div_nonneg (Nat.cast_nonneg _) (Nat.cast_nonneg _)
  exact fb_nonneg beta _ _ hp hr

theorem fbetaFromCounts_zero (beta : ℝ) (nPos : ℕ) : fbetaFromCounts beta 0 0 nPos = 0 := by
  unfold fbetaFromCounts
  simp only [ofNat_real, Nat.cast_zero, add_zero, if_true, zero_mul, mul_zero, zero_div]
  split <;> simp

/-- **`f_beta` as coded is optimal**: the stored threshold attains the largest F-beta value (the code's formula,
`NaN → 0` included) that any real threshold attains on the validation pairs -/
theorem C16_code_fbeta_optimal (beta : ℝ) (l : List (ℝ × Bool)) (hne : l ≠ []) :
    ∃ i thr, calibrateFbetaCode beta l = some (i, thr) ∧ ∀ t : ℝ, fbetaOf beta l t ≤ fbetaOf beta l thr := by
  unfold calibrateFbetaCode
  set s := sortByDist l with hsdef
  have hs := sorted_sortByDist l
  have hperm : l.Perm s := (List.mergeSort_perm l _).symm
  have hlen : 1 ≤ s.length := by
    rw [← hperm.length_eq]; exact List.length_pos_iff.mpr hne
  have hpos : posCount l = tpAt s s.length := by rw [tpAt_length]; exact (counts_perm l s hperm 0).2.2.2
  simp only
  set n := s.length with hn
  set f : ℕ → ℝ := fun j => fbetaFromCounts beta (tpAt s (n - j)) (fpAt s (n - j)) (tpAt s n) with hf
  set ok : ℕ → Bool := fun j => decide (1 ≤ n - j) && realisablePos s (n - j) with hok
  obtain ⟨sp1, sp2⟩ := argmaxPosK_spec f ok n
  -- value of any threshold that splits at position i
  have hval : ∀ (t : ℝ) (i : ℕ), (∀ p ∈ s.take i, p.1 ≤ t) → (∀ p ∈ s.drop i, ¬ p.1 ≤ t) →
      fbetaOf beta l t = fbetaFromCounts beta (tpAt s i) (fpAt s i) (tpAt s n) := by
    intro t i h1 h2
    have hc := counts_split s t i h1 h2
    unfold fbetaOf
    rw [(counts_perm l s hperm t).1, (counts_perm l s hperm t).2.1, hc.1, hc.2, hpos]
  cases hres : argmaxPosK f ok n with
  | none =>
    have := sp2 hres 0 (Nat.zero_le _)
    simp only [hok, Nat.sub_zero, Bool.and_eq_false_iff, decide_eq_false_iff_not] at this
    rcases this with h | h
    · omega
    · simp [realisablePos, hn] at h
  | some b =>
    obtain ⟨hb1, hb2, hb3⟩ := sp1 b hres
    simp only [hok, Bool.and_eq_true, decide_eq_true_eq] at hb2
    obtain ⟨hsb1, hsb2⟩ := thrAtPos_split s hs (n - b) (by omega) hb2.2
    refine ⟨n - b, thrAtPos s (n - b), by simp, ?_⟩
    intro t
    obtain ⟨i, hi, hri, h1, h2⟩ := exists_realisable_split s hs t
    rw [hval t i h1 h2, hval _ (n - b) hsb1 hsb2]
    by_cases hi0 : i = 0
    · subst hi0
      have : fbetaFromCounts beta (tpAt s 0) (fpAt s 0) (tpAt s n) = 0 := by
        simp only [tpAt, fpAt, List.take_zero, List.filter_nil, List.length_nil]; exact fbetaFromCounts_zero beta _
      rw [this]; exact fbetaFromCounts_nonneg _ _ _ _
    · have hj : ok (n - i) = true := by
        simp only [hok, Bool.and_eq_true, decide_eq_true_eq]
        have : n - (n - i) = i := by omega
        rw [this]; exact ⟨by omega, hri⟩
      have := hb3 (n - i) (by omega) hj
      simp only [hf] at this
      have e : n - (n - i) = i := by omega
      rw [e] at this
      exact this

/-- non-vacuity: the optimum is strictly better than accepting everything on a set with a far negative pair -/
example : fbetaOf 1 [(1, true), (2, true), (3, false)] 3 < fbetaOf 1 [(1, true), (2, true), (3, false)] 2 := by
  norm_num [fbetaOf, fbetaFromCounts, tpOf, fpOf, posCount]
