import MLProps.Bridge
import MLGen.Funcs
import Mathlib.Data.List.MinMax
/-!
# C16 — threshold calibration picks an optimal cut-off

Master theorem: for *any* criterion and *any* feasibility constraint that see the threshold only
through the prediction vector (accuracy, F-beta, TPR subject to TNR ≥ r, TNR subject to TPR ≥ r are
instances), the first maximiser over `rejectAll :: observed distances` is feasible and optimal over
**all** real thresholds — validation sets of every size, ties, duplicated pairs with conflicting
labels and zero distances included.
-/
open ML

theorem preds_congr (ds : List ℝ) (t t' : ℝ) (h : ∀ d ∈ ds, (d ≤ t ↔ d ≤ t')) :
    preds ds t = preds ds t' := by
  unfold preds
  apply List.map_congr_left
  intro d hd; simp [h d hd]

theorem listMin_le : ∀ (ds : List ℝ) (m : ℝ), listMin ds = some m → ∀ d ∈ ds, m ≤ d := by
  intro ds
  induction ds with
  | nil => intro m h; simp [listMin] at h
  | cons x xs ih =>
    intro m h d hd
    unfold listMin at h
    cases hx : listMin xs with
    | none =>
      rw [hx] at h; simp at h; subst h
      cases xs with
      | nil => simp at hd; exact le_of_eq hd.symm
      | cons y ys => simp [listMin] at hx; split at hx <;> simp at hx
    | some m' =>
      rw [hx] at h; simp at h; subst h
      rw [smin_real]
      rcases List.mem_cons.mp hd with rfl | hd'
      · exact min_le_left _ _
      · exact le_trans (min_le_right _ _) (ih m' hx d hd')

theorem rejectAll_lt (ds : List ℝ) : ∀ d ∈ ds, rejectAll ds < d := by
  intro d hd
  unfold rejectAll
  cases h : listMin ds with
  | none =>
    cases ds with
    | nil => simp at hd
    | cons y ys => simp [listMin] at h; split at h <;> simp at h
  | some m =>
    have := listMin_le ds m h d hd
    simp only; linarith

/-- every real threshold predicts like the reject-all value or like one observed distance -/
theorem C16_exists_cand (ds : List ℝ) (t : ℝ) : ∃ c ∈ cands ds, preds ds c = preds ds t := by
  by_cases hex : ∃ d ∈ ds, d ≤ t
  · let S := ds.filter (· ≤ t)
    have hne : S ≠ [] := by
      obtain ⟨d, hd, hdt⟩ := hex
      exact List.ne_nil_of_mem (List.mem_filter.mpr ⟨hd, by simpa using hdt⟩)
    have hpos : 0 < S.length := List.length_pos_of_ne_nil hne
    let m := S.maximum_of_length_pos hpos
    have hmS : m ∈ S := List.maximum_of_length_pos_mem hpos
    have hmt : m ≤ t := by simpa [S] using (List.mem_filter.mp hmS).2
    refine ⟨m, List.mem_cons_of_mem _ (List.mem_filter.mp hmS).1, ?_⟩
    apply preds_congr
    intro d hd
    constructor
    · intro h; exact le_trans h hmt
    · intro h
      exact List.le_maximum_of_length_pos_of_mem (List.mem_filter.mpr ⟨hd, by simpa using h⟩) hpos
  · push Not at hex
    refine ⟨rejectAll ds, List.mem_cons_self, ?_⟩
    apply preds_congr
    intro d hd
    constructor
    · intro h; exact absurd h (not_le.mpr (rejectAll_lt ds d hd))
    · intro h; exact absurd h (not_le.mpr (hex d hd))

theorem argmaxOk_spec (f : ℝ → ℝ) (ok : ℝ → Bool) : ∀ (cs : List ℝ),
    (∀ b, argmaxOk f ok cs = some b → ok b = true ∧ b ∈ cs ∧ ∀ c ∈ cs, ok c = true → f c ≤ f b) ∧
    (argmaxOk f ok cs = none → ∀ c ∈ cs, ok c = false) := by
  intro cs
  induction cs with
  | nil => simp [argmaxOk]
  | cons c cs ih =>
    obtain ⟨ih1, ih2⟩ := ih
    unfold argmaxOk
    cases h : argmaxOk f ok cs with
    | none =>
      have hn := ih2 h
      by_cases hc : ok c = true
      · simp only [hc, if_true]
        refine ⟨?_, by simp⟩
        intro b hb; cases hb
        refine ⟨hc, List.mem_cons_self, ?_⟩
        intro x hx hokx
        rcases List.mem_cons.mp hx with rfl | hx
        · exact le_rfl
        · have := hn x hx; simp [this] at hokx
      · have hc' : ok c = false := by simpa using hc
        simp only [hc']
        refine ⟨by simp, ?_⟩
        intro _ x hx
        rcases List.mem_cons.mp hx with rfl | hx
        · exact hc'
        · exact hn x hx
    | some b =>
      obtain ⟨hokb, hbm, hbmax⟩ := ih1 b h
      by_cases hcond : ok c = true ∧ f b ≤ f c
      · simp only [hcond, and_self, if_true]
        refine ⟨?_, by simp⟩
        intro b' hb'; cases hb'
        refine ⟨hcond.1, List.mem_cons_self, ?_⟩
        intro x hx hokx
        rcases List.mem_cons.mp hx with rfl | hx
        · exact le_rfl
        · exact le_trans (hbmax x hx hokx) hcond.2
      · simp only [hcond, if_false]
        refine ⟨?_, by simp⟩
        intro b' hb'; cases hb'
        refine ⟨hokb, List.mem_cons_of_mem _ hbm, ?_⟩
        intro x hx hokx
        rcases List.mem_cons.mp hx with rfl | hx
        · by_cases h1 : ok x = true
          · have : ¬ f b ≤ f x := fun h2 => hcond ⟨h1, h2⟩
            exact le_of_lt (not_le.mp this)
          · simp [h1] at hokx
        · exact hbmax x hx hokx

/-- **Master theorem.**  The calibrated threshold is feasible and no real threshold that is
feasible attains a larger criterion value. -/
theorem C16_calibrate_optimal (s : Strategy ℝ) (ds : List ℝ) (labels : List Bool) (b : ℝ)
    (hb : calibrate s ds labels = some b) :
    s.feas labels (preds ds b) = true ∧
    ∀ t : ℝ, s.feas labels (preds ds t) = true → s.crit labels (preds ds t) ≤ s.crit labels (preds ds b) := by
  unfold calibrate at hb
  obtain ⟨h1, _⟩ := argmaxOk_spec (fun t => s.crit labels (preds ds t)) (fun t => s.feas labels (preds ds t)) (cands ds)
  obtain ⟨hok, _, hmax⟩ := h1 b hb
  refine ⟨hok, ?_⟩
  intro t ht
  obtain ⟨c, hc, hpc⟩ := C16_exists_cand ds t
  have := hmax c hc (by simpa [hpc] using ht)
  simpa [hpc] using this

/-- a threshold is returned whenever any real threshold is feasible -/
theorem C16_calibrate_some (s : Strategy ℝ) (ds : List ℝ) (labels : List Bool) (t : ℝ)
    (ht : s.feas labels (preds ds t) = true) : ∃ b, calibrate s ds labels = some b := by
  unfold calibrate
  obtain ⟨_, h2⟩ := argmaxOk_spec (fun t => s.crit labels (preds ds t)) (fun t => s.feas labels (preds ds t)) (cands ds)
  cases h : argmaxOk (fun t => s.crit labels (preds ds t)) (fun t => s.feas labels (preds ds t)) (cands ds) with
  | some b => exact ⟨b, rfl⟩
  | none =>
    obtain ⟨c, hc, hpc⟩ := C16_exists_cand ds t
    have := h2 h c hc
    simp [hpc, ht] at this

/-- accuracy: the calibrated threshold has maximal accuracy among all thresholds -/
theorem C16_acc_optimal (ds : List ℝ) (labels : List Bool) :
    ∃ b, calibrate .accuracy ds labels = some b ∧
      ∀ t : ℝ, accuracyOf (countsOf (preds ds t) labels) ≤ (accuracyOf (countsOf (preds ds b) labels) : ℝ) := by
  obtain ⟨b, hb⟩ := C16_calibrate_some (.accuracy) ds labels 0 rfl
  exact ⟨b, hb, fun t => (C16_calibrate_optimal _ ds labels b hb).2 t rfl⟩

/-- F-beta: maximal `F_β` among all thresholds, for every `β` -/
theorem C16_fbeta_optimal (beta : ℝ) (ds : List ℝ) (labels : List Bool) :
    ∃ b, calibrate (.fBeta beta) ds labels = some b ∧
      ∀ t : ℝ, fbeta (beta * beta) (countsOf (preds ds t) labels) ≤ (fbeta (beta * beta) (countsOf (preds ds b) labels) : ℝ) := by
  obtain ⟨b, hb⟩ := C16_calibrate_some (.fBeta beta) ds labels 0 rfl
  exact ⟨b, hb, fun t => (C16_calibrate_optimal _ ds labels b hb).2 t rfl⟩

/-- max-TPR: among thresholds whose TNR is ≥ `r`, the calibrated one has maximal TPR (and itself
has TNR ≥ `r`) -/
theorem C16_tpr_optimal (r : ℝ) (ds : List ℝ) (labels : List Bool) (b : ℝ)
    (hb : calibrate (.maxTpr r) ds labels = some b) :
    r ≤ tnr (countsOf (preds ds b) labels) ∧
    ∀ t : ℝ, r ≤ tnr (countsOf (preds ds t) labels) →
      tpr (countsOf (preds ds t) labels) ≤ (tpr (countsOf (preds ds b) labels) : ℝ) := by
  obtain ⟨h1, h2⟩ := C16_calibrate_optimal _ ds labels b hb
  refine ⟨by simpa [Strategy.feas] using h1, fun t ht => h2 t (by simpa [Strategy.feas] using ht)⟩

theorem C16_tnr_optimal (r : ℝ) (ds : List ℝ) (labels : List Bool) (b : ℝ)
    (hb : calibrate (.maxTnr r) ds labels = some b) :
    r ≤ tpr (countsOf (preds ds b) labels) ∧
    ∀ t : ℝ, r ≤ tpr (countsOf (preds ds t) labels) →
      tnr (countsOf (preds ds t) labels) ≤ (tnr (countsOf (preds ds b) labels) : ℝ) := by
  obtain ⟨h1, h2⟩ := C16_calibrate_optimal _ ds labels b hb
  refine ⟨by simpa [Strategy.feas] using h1, fun t ht => h2 t (by simpa [Strategy.feas] using ht)⟩

/-- invalid strategy / min_rate / beta are rejected: exact characterisation of the *generated*
transcription of `_validate_calibration_params` (MLGen/Funcs.lean, regenerated every run) -/
theorem C16_params_rejected (strategy : String) (minRate beta : PyNum ℝ) :
    MLGen.validateCalibrationParams strategy minRate beta = .ok () ↔
      ((strategy = "accuracy") ∨
       (strategy = "f_beta" ∧ ∃ x, beta = .num x) ∨
       ((strategy = "max_tpr" ∨ strategy = "max_tnr") ∧ ∃ r, minRate = .num r ∧ 0 ≤ r ∧ r ≤ 1)) := by
  unfold MLGen.validateCalibrationParams
  by_cases h1 : strategy = "accuracy"
  · subst h1; simp
  by_cases h2 : strategy = "f_beta"
  · subst h2
    cases beta <;> simp [PyNum.isNum, PyNum.isNone]
  by_cases h3 : strategy = "max_tpr"
  · subst h3
    cases minRate <;> simp [PyNum.isNum, PyNum.isNone, PyNum.val]
  by_cases h4 : strategy = "max_tnr"
  · subst h4
    cases minRate <;> simp [PyNum.isNum, PyNum.isNone, PyNum.val]
  simp [h1, h2, h3, h4]

/-! non-vacuity: tied distances with conflicting labels; the optimum accepts the tie group -/
example : calibrate (.accuracy : Strategy Rat) [1, 1, 2] [true, false, true] = some 2 := by decide +kernel
