import MLProps.Bridge
import Mathlib.Analysis.SpecialFunctions.Log.Basic
import Mathlib.Tactic.Linarith
import Mathlib.Tactic.Positivity
/-!
# C10 — gradient-based learners optimise the objective they document
-/
open ML

variable {n k d : ℕ} {α : Type}

/-- the denominator of the softmax is positive as soon as there is another sample -/
theorem softmax_denom_pos (e : Mat ℝ n n) (i : Fin n) (h : ∃ l : Fin n, l ≠ i) :
    0 < ∑ l, (if l = i then 0 else Real.exp (-(e i l))) := by
  obtain ⟨l0, hl0⟩ := h
  have hnn : ∀ l ∈ Finset.univ, 0 ≤ (if l = i then (0:ℝ) else Real.exp (-(e i l))) := by
    intro l _; split
    · exact le_refl _
    · exact (Real.exp_pos _).le
  have : 0 < (if l0 = i then (0:ℝ) else Real.exp (-(e i l0))) := by rw [if_neg hl0]; exact Real.exp_pos _
  exact lt_of_lt_of_le this (Finset.single_le_sum hnn (Finset.mem_univ l0))

/-- **softmax / logsumexp identity**: the value the code computes,
`exp(−d_ij − logsumexp_{l≠i}(−d_il))`, is the documented `exp(−d_ij)/Σ_{l≠i} exp(−d_il)` -/
theorem C10_softmax (e : Mat ℝ n n) (i j : Fin n) (h : ∃ l : Fin n, l ≠ i) :
    softmaxCode e i j = softmaxDoc e i j := by
  unfold softmaxCode softmaxDoc logSumExpOffDiag
  set m := rowShift e i
  split
  · rfl
  · simp only [vsum_eq_sum, exp_real, log_real]
    have hpos := softmax_denom_pos e i h
    -- the shifted sum is the unshifted one divided by exp m
    have hshift : ∑ l, (if l = i then (0:ℝ) else Real.exp (-(e i l) - m)) =
        (∑ l, (if l = i then (0:ℝ) else Real.exp (-(e i l)))) / Real.exp m := by
      rw [Finset.sum_div]
      apply Finset.sum_congr rfl; intro l _
      split
      · simp
      · rw [Real.exp_sub]
    have hpos' : 0 < (∑ l, (if l = i then (0:ℝ) else Real.exp (-(e i l)))) / Real.exp m := div_pos hpos (Real.exp_pos _)
    rw [hshift, Real.exp_sub, Real.exp_add, Real.exp_log hpos']
    field_simp

/-- the softmax weights of a row sum to one -/
theorem C10_softmax_sum_one (e : Mat ℝ n n) (i : Fin n) (h : ∃ l : Fin n, l ≠ i) :
    ∑ j, softmaxDoc e i j = 1 := by
  have hpos := softmax_denom_pos e i h
  unfold softmaxDoc
  simp only [vsum_eq_sum]
  have : ∀ j, (if j = i then (0:ℝ) else Real.exp (-(e i j)) / ∑ l, (if l = i then 0 else Real.exp (-(e i l)))) =
      (if j = i then 0 else Real.exp (-(e i j))) / ∑ l, (if l = i then 0 else Real.exp (-(e i l))) := by
    intro j; split <;> simp
  simp only [exp_real, this, ← Finset.sum_div]
  exact div_self hpos.ne'

/-- NCA: the quantity handed to the optimiser is the documented expected leave-one-out same-class
neighbour probability `Σ_i Σ_{j≠i, y_j=y_i} p_ij` with the documented `p_ij` -/
theorem C10_nca_objective {k d : ℕ} (L : Mat ℝ k d) (X : Mat ℝ n d) (y : Fin n → Int) (hn : 2 ≤ n) :
    ncaObjective L X y =
      ∑ i, ∑ j, (if y i = y j then softmaxDoc (fun i j => embSqDist L X i j) i j else 0) := by
  unfold ncaObjective
  simp only [vsum_eq_sum]
  apply Finset.sum_congr rfl; intro i _
  apply Finset.sum_congr rfl; intro j _
  have h : ∃ l : Fin n, l ≠ i := by
    by_cases hi : i.val = 0
    · exact ⟨⟨1, by omega⟩, by intro e; have := congrArg Fin.val e; simp at this; omega⟩
    · exact ⟨⟨0, by omega⟩, by intro e; have := congrArg Fin.val e; simp at this; omega⟩
  rw [C10_softmax _ i j h]

/-- MLKR: the cost is the leave-one-out kernel-regression squared error with the documented weights -/
theorem C10_mlkr_objective {k d : ℕ} (L : Mat ℝ k d) (X : Mat ℝ n d) (y : Vec ℝ n) (hn : 2 ≤ n) :
    mlkrObjective L X y =
      ∑ i, ((∑ j, softmaxDoc (fun i j => embSqDist L X i j) i j * y j) - y i) ^ 2 := by
  unfold mlkrObjective
  simp only [vsum_eq_sum]
  apply Finset.sum_congr rfl; intro i _
  have h : ∃ l : Fin n, l ≠ i := by
    by_cases hi : i.val = 0
    · exact ⟨⟨1, by omega⟩, by intro e; have := congrArg Fin.val e; simp at this; omega⟩
    · exact ⟨⟨0, by omega⟩, by intro e; have := congrArg Fin.val e; simp at this; omega⟩
  have : ∀ j, softmaxCode (fun i j => embSqDist L X i j) i j = softmaxDoc (fun i j => embSqDist L X i j) i j :=
    fun j => C10_softmax _ i j h
  simp only [this]; ring

/-- LMNN's documented objective is non-negative for `0 ≤ reg ≤ 1` -/
theorem C10_lmnn_objective_nonneg {k d : ℕ} (L : Mat ℝ k d) (X : Mat ℝ n d) (y : Fin n → Int)
    (targets : Fin n → List (Fin n)) (reg : ℝ) (h0 : 0 ≤ reg) (h1 : reg ≤ 1) :
    0 ≤ lmnnObjective L X y targets reg := by
  unfold lmnnObjective
  have hsq : ∀ i j, 0 ≤ embSqDist L X i j := by
    intro i j; simp only [embSqDist, sumSq, vsum_eq_sum]; exact Finset.sum_nonneg fun _ _ => mul_self_nonneg _
  have hfold : ∀ (l : List (Fin n)) (f : Fin n → ℝ) (c : ℝ), 0 ≤ c → (∀ j, 0 ≤ f j) → 0 ≤ l.foldl (fun acc j => acc + f j) c := by
    intro l f
    induction l with
    | nil => intro c hc _; exact hc
    | cons a t ih => intro c hc hf; exact ih _ (add_nonneg hc (hf a)) hf
  simp only [vsum_eq_sum]
  apply add_nonneg
  · apply mul_nonneg h0
    exact Finset.sum_nonneg fun i _ => hfold _ _ 0 (le_refl _) (fun j => hsq i j)
  · apply mul_nonneg (by linarith)
    apply Finset.sum_nonneg; intro i _
    apply hfold _ _ 0 (le_refl _)
    intro j
    apply Finset.sum_nonneg; intro l _
    split
    · exact le_refl _
    · rw [smax_real]; exact le_max_left _ _

/-! ## LMNN acceptance loop -/

theorem lmnnBacktrack_spec (obj : α → ℝ) (stepFrom : α → ℝ → α) (L : α) (cur : ℝ) :
    ∀ (fuel : ℕ) (rate : ℝ) (Ln : α) (on r : ℝ), lmnnBacktrack obj stepFrom L cur fuel rate = some (Ln, on, r) →
      on = obj Ln ∧ on ≤ cur := by
  intro fuel
  induction fuel with
  | zero => intro rate Ln on r h; simp [lmnnBacktrack] at h
  | succ fuel ih =>
    intro rate Ln on r h
    unfold lmnnBacktrack at h
    simp only at h
    split at h
    · exact ih _ Ln on r h
    · rename_i hle
      simp only [Option.some.injEq, Prod.mk.injEq] at h
      obtain ⟨rfl, rfl, _⟩ := h
      exact ⟨rfl, not_lt.mp hle⟩

/-- **LMNN's accepted iterates have non-increasing objective** (for any loss function and any gradient
step): every state reached by the loop has `obj = loss(L)` and an objective no larger than the one it
started from -/
theorem C10_lmnn_monotone (obj : α → ℝ) (stepFrom : α → ℝ → α) (btFuel minIter : ℕ) (convTol : ℝ) :
    ∀ (fuel it : ℕ) (s : LmnnState α ℝ), s.obj = obj s.L →
      (lmnnLoop obj stepFrom btFuel minIter convTol fuel it s).obj ≤ s.obj ∧
      (lmnnLoop obj stepFrom btFuel minIter convTol fuel it s).obj =
        obj (lmnnLoop obj stepFrom btFuel minIter convTol fuel it s).L := by
  intro fuel
  induction fuel with
  | zero => intro it s h; exact ⟨le_refl _, h⟩
  | succ fuel ih =>
    intro it s h
    unfold lmnnLoop
    cases hb : lmnnBacktrack obj stepFrom s.L s.obj btFuel s.rate with
    | none => exact ⟨le_refl _, h⟩
    | some r =>
      obtain ⟨Ln, on, rate⟩ := r
      obtain ⟨e1, e2⟩ := lmnnBacktrack_spec obj stepFrom s.L s.obj btFuel s.rate Ln on rate hb
      simp only
      split
      · exact ⟨e2, e1⟩
      · obtain ⟨i1, i2⟩ := ih (it + 1) { L := Ln, obj := on, rate := rate * lit 101 100 } e1
        exact ⟨le_trans i1 e2, i2⟩

/-- the transformation returned by `fit` never has a worse objective than the initial one -/
theorem C10_lmnn_final_le_init (obj : α → ℝ) (stepFrom : α → ℝ → α) (btFuel minIter : ℕ) (convTol : ℝ)
    (maxIter : ℕ) (L0 : α) (rate0 : ℝ) :
    obj (lmnnFit obj stepFrom btFuel minIter convTol maxIter L0 rate0).L ≤ obj L0 := by
  unfold lmnnFit
  obtain ⟨h1, h2⟩ := C10_lmnn_monotone obj stepFrom btFuel minIter convTol (maxIter - 2) 2
    { L := L0, obj := obj L0, rate := rate0 } rfl
  rw [← h2]; exact h1

/-- with no loop iteration (`max_iter ≤ 2`) the result is exactly the initialisation -/
theorem C10_zero_iter (obj : α → ℝ) (stepFrom : α → ℝ → α) (btFuel minIter : ℕ) (convTol : ℝ)
    (maxIter : ℕ) (hm : maxIter ≤ 2) (L0 : α) (rate0 : ℝ) :
    (lmnnFit obj stepFrom btFuel minIter convTol maxIter L0 rate0).L = L0 := by
  unfold lmnnFit
  have : maxIter - 2 = 0 := by omega
  rw [this]; rfl

/-! ## LMNN: the value computed by `_loss_grad` is the documented objective -/

theorem lsum_eq_sum (l : List ℝ) : lsum l = l.sum := by
  induction l with
  | nil => rfl
  | cons a t ih => simp [lsum, ih]

/-- `⟨L·G, L⟩` is linear in `G` -/
theorem frobLL_lin (L : Mat ℝ k d) (A B : Mat ℝ d d) (c1 c2 : ℝ) :
    frob (matMul L (fun a b => c1 * A a b + c2 * B a b)) L = c1 * frob (matMul L A) L + c2 * frob (matMul L B) L := by
  simp only [frob, matMul, vsum_eq_sum, Finset.mul_sum, Finset.sum_mul, ← Finset.sum_add_distrib]
  apply Finset.sum_congr rfl; intro r _
  apply Finset.sum_congr rfl; intro b _
  apply Finset.sum_congr rfl; intro a _
  ring

theorem frobLL_zero (L : Mat ℝ k d) : frob (matMul L (fun _ _ => (0:ℝ))) L = 0 := by
  simp [frob, matMul, vsum_eq_sum]

/-- `⟨L·vvᵀ, L⟩ = ‖Lv‖²` -/
theorem frobLL_outer (L : Mat ℝ k d) (v : Vec ℝ d) :
    frob (matMul L (fun a b => v a * v b)) L = sumSq (transform L v) := by
  simp only [frob, matMul, sumSq, transform, vecMulT, vsum_eq_sum]
  apply Finset.sum_congr rfl; intro r _
  rw [Finset.sum_mul_sum]
  apply Finset.sum_congr rfl; intro b _
  rw [Finset.sum_mul]
  apply Finset.sum_congr rfl; intro a _
  ring

theorem frobLL_sumOuter (L : Mat ℝ k d) (X : Mat ℝ n d) (ps : List (Fin n × Fin n)) :
    frob (matMul L (sumOuterPairs X ps)) L = lsum (ps.map fun p => embSqDist L X p.1 p.2) := by
  induction ps with
  | nil =>
    have : sumOuterPairs X ([] : List (Fin n × Fin n)) = fun _ _ => (0:ℝ) := by funext a b; simp [sumOuterPairs, lsum]
    rw [this, frobLL_zero]; simp [lsum]
  | cons p t ih =>
    have : sumOuterPairs X (p :: t) = fun a b => 1 * ((X p.1 a - X p.2 a) * (X p.1 b - X p.2 b)) + 1 * sumOuterPairs X t a b := by
      funext a b; simp [sumOuterPairs, lsum]
    rw [this, frobLL_lin, ih]
    have h := frobLL_outer L (vsub (X p.1) (X p.2))
    simp only [vsub] at h
    simp only [List.map_cons, lsum, embSqDist, one_mul]
    rw [← h]

theorem lsum_map_add (l : List α) (f g : α → ℝ) : lsum (l.map fun t => f t + g t) = lsum (l.map f) + lsum (l.map g) := by
  induction l with
  | nil => simp [lsum]
  | cons a t ih => simp only [List.map_cons, lsum, ih]; ring

theorem lsum_map_const (l : List α) (c : ℝ) : lsum (l.map fun _ => c) = (l.length : ℝ) * c := by
  induction l with
  | nil => simp [lsum]
  | cons a t ih => simp only [List.map_cons, lsum, ih, List.length_cons]; push_cast; ring

/-- hinge over all candidates = sum over the active ones -/
theorem lsum_hinge_filter (l : List α) (h : α → ℝ) :
    lsum (l.map fun t => smax 0 (h t)) = lsum ((l.filter fun t => decide (0 < h t)).map h) := by
  induction l with
  | nil => simp [lsum]
  | cons a t ih =>
    simp only [List.map_cons, lsum, List.filter_cons, smax_real]
    have ih' : lsum (List.map (fun t => max 0 (h t)) t) = lsum (List.map h (List.filter (fun t => decide (0 < h t)) t)) := by
      simpa only [smax_real] using ih
    by_cases hp : 0 < h a
    · simp only [hp, decide_true, if_true, List.map_cons, lsum, max_eq_right hp.le, ih']
    · simp only [hp, decide_false, Bool.false_eq_true, if_false, max_eq_left (not_lt.mp hp), ih', zero_add]

/-- **the value `_loss_grad` returns is the documented objective**: for every list of target pairs and every
list of candidate triples (any superset of the impostor triples the code finds, repetitions allowed),
`total_active·(1 − reg) + ⟨L(dfG·reg + df·(1 − reg)), L⟩ = reg·Σ_T d_ij + (1 − reg)·Σ [1 + d_ij − d_il]₊` -/
theorem C10_lmnn_code_objective (L : Mat ℝ k d) (X : Mat ℝ n d) (targetPairs : List (Fin n × Fin n))
    (triples : List (Fin n × Fin n × Fin n)) (reg : ℝ) :
    (lmnnCodeObjective L X targetPairs triples reg).1 = lmnnDocObjectiveL L X targetPairs triples reg := by
  unfold lmnnCodeObjective lmnnDocObjectiveL
  simp only
  set act := lmnnActive L X triples with hact
  have hG : (fun a b => sumOuterPairs X targetPairs a b * reg +
        (sumOuterPairs X (act.map fun t => (t.1, t.2.1)) a b - sumOuterPairs X (act.map fun t => (t.1, t.2.2)) a b) * (1 - reg))
      = fun a b => reg * sumOuterPairs X targetPairs a b + (1 - reg) *
          (1 * sumOuterPairs X (act.map fun t => (t.1, t.2.1)) a b + (-1) * sumOuterPairs X (act.map fun t => (t.1, t.2.2)) a b) := by
    funext a b; ring
  rw [hG, frobLL_lin, frobLL_lin, frobLL_sumOuter, frobLL_sumOuter, frobLL_sumOuter]
  rw [lsum_hinge_filter]
  have hfilter : (triples.filter fun t => decide (0 < 1 + embSqDist L X t.1 t.2.1 - embSqDist L X t.1 t.2.2)) = act := by
    rw [hact]; unfold lmnnActive
    apply List.filter_congr; intro t _
    simp only [decide_eq_decide]
    constructor <;> intro h <;> linarith
  rw [hfilter]
  have e3 : lsum (act.map fun t => 1 + embSqDist L X t.1 t.2.1 - embSqDist L X t.1 t.2.2)
      = (act.length : ℝ) + lsum (act.map fun t => embSqDist L X t.1 t.2.1) - lsum (act.map fun t => embSqDist L X t.1 t.2.2) := by
    have : (fun t : Fin n × Fin n × Fin n => 1 + embSqDist L X t.1 t.2.1 - embSqDist L X t.1 t.2.2)
        = fun t => (1 + embSqDist L X t.1 t.2.1) + (-1) * embSqDist L X t.1 t.2.2 := by funext t; ring
    rw [this, lsum_map_add, lsum_map_add, lsum_map_const]
    have : lsum (act.map fun t => (-1) * embSqDist L X t.1 t.2.2) = - lsum (act.map fun t => embSqDist L X t.1 t.2.2) := by
      induction act with
      | nil => simp [lsum]
      | cons a t ih => simp only [List.map_cons, lsum, ih]; ring
    rw [this]; ring
  rw [e3]
  simp only [List.map_map, Function.comp_def, ofNat_real]
  ring

/-- the count `_loss_grad` reports is the number of strictly positive hinge terms -/
theorem C10_lmnn_total_active (L : Mat ℝ k d) (X : Mat ℝ n d) (targetPairs : List (Fin n × Fin n))
    (triples : List (Fin n × Fin n × Fin n)) (reg : ℝ) :
    (lmnnCodeObjective L X targetPairs triples reg).2 =
      (triples.filter fun t => decide (0 < 1 + embSqDist L X t.1 t.2.1 - embSqDist L X t.1 t.2.2)).length := by
  unfold lmnnCodeObjective lmnnActive
  simp only
  congr 1
  apply List.filter_congr; intro t _
  simp only [decide_eq_decide]
  constructor <;> intro h <;> linarith

theorem lsum_append (a b : List ℝ) : lsum (a ++ b) = lsum a + lsum b := by
  induction a with
  | nil => simp [lsum]
  | cons x t ih => simp only [List.cons_append, lsum, ih]; ring

theorem lsum_flatMap_map {β γ : Type} (l : List β) (f : β → List γ) (g : γ → ℝ) :
    lsum ((l.flatMap f).map g) = lsum (l.map fun a => lsum ((f a).map g)) := by
  induction l with
  | nil => simp [lsum]
  | cons a t ih => simp only [List.flatMap_cons, List.map_append, lsum_append, List.map_cons, lsum, ih]

theorem vsum_eq_lsum (f : Fin n → ℝ) : vsum f = lsum ((List.finRange n).map f) := by
  rw [vsum_eq_sum, lsum_eq_sum, ← List.ofFn_eq_map, List.sum_ofFn]

theorem foldl_add_eq (l : List α) (f : α → ℝ) (c : ℝ) : l.foldl (fun acc j => acc + f j) c = c + lsum (l.map f) := by
  induction l generalizing c with
  | nil => simp [lsum]
  | cons a t ih => simp only [List.foldl_cons, ih, List.map_cons, lsum]; ring

theorem lsum_filter_map (l : List α) (p : α → Bool) (h : α → ℝ) :
    lsum ((l.filter p).map h) = lsum (l.map fun x => if p x then h x else 0) := by
  induction l with
  | nil => simp [lsum]
  | cons a t ih =>
    simp only [List.filter_cons, List.map_cons, lsum]
    cases hp : p a
    · simp [ih]
    · simp [lsum, ih]

/-- the documented objective in its nested form (`lmnnObjective`) and over the flat candidate lists -/
theorem C10_lmnn_doc_forms (L : Mat ℝ k d) (X : Mat ℝ n d) (y : Fin n → Int) (targets : Fin n → List (Fin n)) (reg : ℝ) :
    lmnnObjective L X y targets reg = lmnnDocObjectiveL L X (allTargetPairs targets) (allTriples y targets) reg := by
  unfold lmnnObjective lmnnDocObjectiveL allTargetPairs allTriples
  simp only [vsum_eq_lsum, foldl_add_eq, zero_add, lsum_flatMap_map, List.map_map, Function.comp_def, lsum_filter_map]
  have : ∀ (i j l : Fin n), (if y l = y i then (0:ℝ) else smax 0 (1 + embSqDist L X i j - embSqDist L X i l))
      = (if decide (y l ≠ y i) = true then smax 0 (1 + embSqDist L X i j - embSqDist L X i l) else 0) := by
    intro i j l; by_cases h : y l = y i <;> simp [h]
  simp only [this]

/-- **LMNN, code value = documented objective**, on the candidates of a target assignment -/
theorem C10_lmnn_code_eq_doc (L : Mat ℝ k d) (X : Mat ℝ n d) (y : Fin n → Int) (targets : Fin n → List (Fin n)) (reg : ℝ) :
    (lmnnCodeObjective L X (allTargetPairs targets) (allTriples y targets) reg).1 = lmnnObjective L X y targets reg := by
  rw [C10_lmnn_code_objective, C10_lmnn_doc_forms]
