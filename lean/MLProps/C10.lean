import MLProps.Bridge
import Mathlib.Analysis.SpecialFunctions.Log.Basic
import Mathlib.Tactic.Linarith
import Mathlib.Tactic.Positivity
/-!
# C10 — gradient-based learners optimise the objective they document
-/
open ML

variable {n : ℕ} {α : Type}

/-- the denominator of the softmax is positive as soon as there is another sample -/
theorem softmax_denom_pos (e : Mat ℝ n n) (i : Fin n) (h : ∃ l : Fin n, l ≠ i) :
    0 < ∑ l, (if l = i then 0 else Real.exp (-(e i l))) := by
  obtain ⟨l0, hl0⟩ := h
  have hnn : ∀ l ∈ Finset.univ, 0 ≤ (if l = i then (0:ℝ) else Real.exp (-(e i l))) := by
    intro l _; split
    · exact le_refl _
    · exact (Real.exp_pos _).le
  have : 0 < (if l0 = i then (0:ℝ) else Real.exp (-(e i l0))) := by rw [if_neg hl0]; exact Real.exp_pos _
  exact lt_of_lt_of_le this (Finset.single_le_sum hnn (Finset.mem_univ l0))

/-- **softmax / logsumexp identity**: the value the code computes,
`exp(−d_ij − logsumexp_{l≠i}(−d_il))`, is the documented `exp(−d_ij)/Σ_{l≠i} exp(−d_il)` -/
theorem C10_softmax (e : Mat ℝ n n) (i j : Fin n) (h : ∃ l : Fin n, l ≠ i) :
    softmaxCode e i j = softmaxDoc e i j := by
  unfold softmaxCode softmaxDoc logSumExpOffDiag
  set m := rowShift e i
  split
  · rfl
  · simp only [vsum_eq_sum, exp_real, log_real]
    have hpos := softmax_denom_pos e i h
    -- the shifted sum is the unshifted one divided by exp m
    have hshift : ∑ l, (if l = i then (0:ℝ) else Real.exp (-(e i l) - m)) =
        (∑ l, (if l = i then (0:ℝ) else Real.exp (-(e i l)))) / Real.exp m := by
      rw [Finset.sum_div]
      apply Finset.sum_congr rfl; intro l _
      split
      · simp
      · rw [Real.exp_sub]
    have hpos' : 0 < (∑ l, (if l = i then (0:ℝ) else Real.exp (-(e i l)))) / Real.exp m := div_pos hpos (Real.exp_pos _)
    rw [hshift, Real.exp_sub, Real.exp_add, Real.exp_log hpos']
    field_simp

/-- the softmax weights of a row sum to one -/
theorem C10_softmax_sum_one (e : Mat ℝ n n) (i : Fin n) (h : ∃ l : Fin n, l ≠ i) :
    ∑ j, softmaxDoc e i j = 1 := by
  have hpos := softmax_denom_pos e i h
  unfold softmaxDoc
  simp only [vsum_eq_sum]
  have : ∀ j, (if j = i then (0:ℝ) else Real.exp (-(e i j)) / ∑ l, (if l = i then 0 else Real.exp (-(e i l)))) =
      (if j = i then 0 else Real.exp (-(e i j))) / ∑ l, (if l = i then 0 else Real.exp (-(e i l))) := by
    intro j; split <;> simp
  simp only [exp_real, this, ← Finset.sum_div]
  exact div_self hpos.ne'

/-- NCA: the quantity handed to the optimiser is the documented expected leave-one-out same-class
neighbour probability `Σ_i Σ_{j≠i, y_j=y_i} p_ij` with the documented `p_ij` -/
theorem C10_nca_objective {k d : ℕ} (L : Mat ℝ k d) (X : Mat ℝ n d) (y : Fin n → Int) (hn : 2 ≤ n) :
    ncaObjective L X y =
      ∑ i, ∑ j, (if y i = y j then softmaxDoc (fun i j => embSqDist L X i j) i j else 0) := by
  unfold ncaObjective
  simp only [vsum_eq_sum]
  apply Finset.sum_congr rfl; intro i _
  apply Finset.sum_congr rfl; intro j _
  have h : ∃ l : Fin n, l ≠ i := by
    by_cases hi : i.val = 0
    · exact ⟨⟨1, by omega⟩, by intro e; have := congrArg Fin.val e; simp at this; omega⟩
    · exact ⟨⟨0, by omega⟩, by intro e; have := congrArg Fin.val e; simp at this; omega⟩
  rw [C10_softmax _ i j h]

/-- MLKR: the cost is the leave-one-out kernel-regression squared error with the documented weights -/
theorem C10_mlkr_objective {k d : ℕ} (L : Mat ℝ k d) (X : Mat ℝ n d) (y : Vec ℝ n) (hn : 2 ≤ n) :
    mlkrObjective L X y =
      ∑ i, ((∑ j, softmaxDoc (fun i j => embSqDist L X i j) i j * y j) - y i) ^ 2 := by
  unfold mlkrObjective
  simp only [vsum_eq_sum]
  apply Finset.sum_congr rfl; intro i _
  have h : ∃ l : Fin n, l ≠ i := by
    by_cases hi : i.val = 0
    · exact ⟨⟨1, by omega⟩, by intro e; have := congrArg Fin.val e; simp at this; omega⟩
    · exact ⟨⟨0, by omega⟩, by intro e; have := congrArg Fin.val e; simp at this; omega⟩
  have : ∀ j, softmaxCode (fun i j => embSqDist L X i j) i j = softmaxDoc (fun i j => embSqDist L X i j) i j :=
    fun j => C10_softmax _ i j h
  simp only [this]; ring

/-- LMNN's documented objective is non-negative for `0 ≤ reg ≤ 1` -/
theorem C10_lmnn_objective_nonneg {k d : ℕ} (L : Mat ℝ k d) (X : Mat ℝ n d) (y : Fin n → Int)
    (targets : Fin n → List (Fin n)) (reg : ℝ) (h0 : 0 ≤ reg) (h1 : reg ≤ 1) :
    0 ≤ lmnnObjective L X y targets reg := by
  unfold lmnnObjective
  have hsq : ∀ i j, 0 ≤ embSqDist L X i j := by
    intro i j; simp only [embSqDist, sumSq, vsum_eq_sum]; exact Finset.sum_nonneg fun _ _ => mul_self_nonneg _
  have hfold : ∀ (l : List (Fin n)) (f : Fin n → ℝ) (c : ℝ), 0 ≤ c → (∀ j, 0 ≤ f j) → 0 ≤ l.foldl (fun acc j => acc + f j) c := by
    intro l f
    induction l with
    | nil => intro c hc _; exact hc
    | cons a t ih => intro c hc hf; exact ih _ (add_nonneg hc (hf a)) hf
  simp only [vsum_eq_sum]
  apply add_nonneg
  · apply mul_nonneg h0
    exact Finset.sum_nonneg fun i _ => hfold _ _ 0 (le_refl _) (fun j => hsq i j)
  · apply mul_nonneg (by linarith)
    apply Finset.sum_nonneg; intro i _
    apply hfold _ _ 0 (le_refl _)
    intro j
    apply Finset.sum_nonneg; intro l _
    split
    · exact le_refl _
    · rw [smax_real]; exact le_max_left _ _

/-! ## LMNN acceptance loop -/

theorem lmnnBacktrack_spec (obj : α → ℝ) (stepFrom : α → ℝ → α) (L : α) (cur : ℝ) :
    ∀ (fuel : ℕ) (rate : ℝ) (Ln : α) (on r : ℝ), lmnnBacktrack obj stepFrom L cur fuel rate = some (Ln, on, r) →
      on = obj Ln ∧ on ≤ cur := by
  intro fuel
  induction fuel with
  | zero => intro rate Ln on r h; simp [lmnnBacktrack] at h
  | succ fuel ih =>
    intro rate Ln on r h
    unfold lmnnBacktrack at h
    simp only at h
    split at h
    · exact ih _ Ln on r h
    · rename_i hle
      simp only [Option.some.injEq, Prod.mk.injEq] at h
      obtain ⟨rfl, rfl, _⟩ := h
      exact ⟨rfl, not_lt.mp hle⟩

/-- **LMNN's accepted iterates have non-increasing objective** (for any loss function and any gradient
step): every state reached by the loop has `obj = loss(L)` and an objective no larger than the one it
started from -/
theorem C10_lmnn_monotone (obj : α → ℝ) (stepFrom : α → ℝ → α) (btFuel minIter : ℕ) (convTol : ℝ) :
    ∀ (fuel it : ℕ) (s : LmnnState α ℝ), s.obj = obj s.L →
      (lmnnLoop obj stepFrom btFuel minIter convTol fuel it s).obj ≤ s.obj ∧
      (lmnnLoop obj stepFrom btFuel minIter convTol fuel it s).obj =
        obj (lmnnLoop obj stepFrom btFuel minIter convTol fuel it s).L := by
  intro fuel
  induction fuel with
  | zero => intro it s h; exact ⟨le_refl _, h⟩
  | succ fuel ih =>
    intro it s h
    unfold lmnnLoop
    cases hb : lmnnBacktrack obj stepFrom s.L s.obj btFuel s.rate with
    | none => exact ⟨le_refl _, h⟩
    | some r =>
      obtain ⟨Ln, on, rate⟩ := r
      obtain ⟨e1, e2⟩ := lmnnBacktrack_spec obj stepFrom s.L s.obj btFuel s.rate Ln on rate hb
      simp only
      split
      · exact ⟨e2, e1⟩
      · obtain ⟨i1, i2⟩ := ih (it + 1) { L := Ln, obj := on, rate := rate * lit 101 100 } e1
        exact ⟨le_trans i1 e2, i2⟩

/-- the transformation returned by `fit` never has a worse objective than the initial one -/
theorem C10_lmnn_final_le_init (obj : α → ℝ) (stepFrom : α → ℝ → α) (btFuel minIter : ℕ) (convTol : ℝ)
    (maxIter : ℕ) (L0 : α) (rate0 : ℝ) :
    obj (lmnnFit obj stepFrom btFuel minIter convTol maxIter L0 rate0).L ≤ obj L0 := by
  unfold lmnnFit
  obtain ⟨h1, h2⟩ := C10_lmnn_monotone obj stepFrom btFuel minIter convTol (maxIter - 2) 2
    { L := L0, obj := obj L0, rate := rate0 } rfl
  rw [← h2]; exact h1

/-- with no loop iteration (`max_iter ≤ 2`) the result is exactly the initialisation -/
theorem C10_zero_iter (obj : α → ℝ) (stepFrom : α → ℝ → α) (btFuel minIter : ℕ) (convTol : ℝ)
    (maxIter : ℕ) (hm : maxIter ≤ 2) (L0 : α) (rate0 : ℝ) :
    (lmnnFit obj stepFrom btFuel minIter convTol maxIter L0 rate0).L = L0 := by
  unfold lmnnFit
  have : maxIter - 2 = 0 := by omega
  rw [this]; rfl
