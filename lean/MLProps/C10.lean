import MLProps.Bridge
import MLProps.Grad
import Mathlib.Analysis.SpecialFunctions.Log.Basic
import Mathlib.Tactic.Linarith
import Mathlib.Tactic.Positivity
/-!
# C10 — gradient-based learners optimise the objective they document
-/
open ML

variable {n k d : ℕ} {α : Type}

/-- **softmax / logsumexp identity**: the value the code computes,
`exp(−d_ij − logsumexp_{l≠i}(−d_il))`, is the documented `exp(−d_ij)/Σ_{l≠i} exp(−d_il)` -/
theorem C10_softmax (e : Mat ℝ n n) (i j : Fin n) (h : ∃ l : Fin n, l ≠ i) :
    softmaxCode e i j = softmaxDoc e i j := by
  unfold softmaxCode softmaxDoc logSumExpOffDiag
  set m := rowShift e i
  split
  · rfl
  · simp only [vsum_eq_sum, exp_real, log_real]
    have hpos := softmax_denom_pos e i h
    -- the shifted sum is the unshifted one divided by exp m
    have hshift : ∑ l, (if l = i then (0:ℝ) else Real.exp (-(e i l) - m)) =
        (∑ l, (if l = i then (0:ℝ) else Real.exp (-(e i l)))) / Real.exp m := by
      rw [Finset.sum_div]
      apply Finset.sum_congr rfl; intro l _
      split
      · simp
      · rw [Real.exp_sub]
    have hpos' : 0 < (∑ l, (if l = i then (0:ℝ) else Real.exp (-(e i l)))) / Real.exp m := div_pos hpos (Real.exp_pos _)
    rw [hshift, Real.exp_sub, Real.exp_add, Real.exp_log hpos']
    field_simp

/-- the softmax weights of a row sum to one -/
theorem C10_softmax_sum_one (e : Mat ℝ n n) (i : Fin n) (h : ∃ l : Fin n, l ≠ i) :
    ∑ j, softmaxDoc e i j = 1 := by
  have hpos := softmax_denom_pos e i h
  unfold softmaxDoc
  simp only [vsum_eq_sum]
  have : ∀ j, (if j = i then (0:ℝ) else Real.exp (-(e i j)) / ∑ l, (if l = i then 0 else Real.exp (-(e i l)))) =
      (if j = i then 0 else Real.exp (-(e i j))) / ∑ l, (if l = i then 0 else Real.exp (-(e i l))) := by
    intro j; split <;> simp
  simp only [exp_real, this, ← Finset.sum_div]
  exact div_self hpos.ne'

/-- NCA: the quantity handed to the optimiser is the documented expected leave-one-out same-class
neighbour probability `Σ_i Σ_{j≠i, y_j=y_i} p_ij` with the documented `p_ij` -/
theorem C10_nca_objective {k d : ℕ} (L : Mat ℝ k d) (X : Mat ℝ n d) (y : Fin n → Int) (hn : 2 ≤ n) :
    ncaObjective L X y =
      ∑ i, ∑ j, (if y i = y j then softmaxDoc (fun i j => embSqDist L X i j) i j else 0) := by
  unfold ncaObjective
  simp only [vsum_eq_sum]
  apply Finset.sum_congr rfl; intro i _
  apply Finset.sum_congr rfl; intro j _
  have h : ∃ l : Fin n, l ≠ i := by
    by_cases hi : i.val = 0
    · exact ⟨⟨1, by omega⟩, by intro e; have := congrArg Fin.val e; simp at this; omega⟩
    · exact ⟨⟨0, by omega⟩, by intro e; have := congrArg Fin.val e; simp at this; omega⟩
  rw [C10_softmax _ i j h]

/-- MLKR: the cost is the leave-one-out kernel-regression squared error with the documented weights -/
theorem C10_mlkr_objective {k d : ℕ} (L : Mat ℝ k d) (X : Mat ℝ n d) (y : Vec ℝ n) (hn : 2 ≤ n) :
    mlkrObjective L X y =
      ∑ i, ((∑ j, softmaxDoc (fun i j => embSqDist L X i j) i j * y j) - y i) ^ 2 := by
  unfold mlkrObjective
  simp only [vsum_eq_sum]
  apply Finset.sum_congr rfl; intro i _
  have h : ∃ l : Fin n, l ≠ i := by
    by_cases hi : i.val = 0
    · exact ⟨⟨1, by omega⟩, by intro e; have := congrArg Fin.val e; simp at this; omega⟩
    · exact ⟨⟨0, by omega⟩, by intro e; have := congrArg Fin.val e; simp at this; omega⟩
  have : ∀ j, softmaxCode (fun i j => embSqDist L X i j) i j = softmaxDoc (fun i j => embSqDist L X i j) i j :=
    fun j => C10_softmax _ i j h
  simp only [this]; ring

/-- LMNN's documented objective is non-negative for `0 ≤ reg ≤ 1` -/
theorem C10_lmnn_objective_nonneg {k d : ℕ} (L : Mat ℝ k d) (X : Mat ℝ n d) (y : Fin n → Int)
    (targets : Fin n → List (Fin n)) (reg : ℝ) (h0 : 0 ≤ reg) (h1 : reg ≤ 1) :
    0 ≤ lmnnObjective L X y targets reg := by
  unfold lmnnObjective
  have hsq : ∀ i j, 0 ≤ embSqDist L X i j := by
    intro i j; simp only [embSqDist, sumSq, vsum_eq_sum]; exact Finset.sum_nonneg fun _ _ => mul_self_nonneg _
  have hfold : ∀ (l : List (Fin n)) (f : Fin n → ℝ) (c : ℝ), 0 ≤ c → (∀ j, 0 ≤ f j) → 0 ≤ l.foldl (fun acc j => acc + f j) c := by
    intro l f
    induction l with
    | nil => intro c hc _; exact hc
    | cons a t ih => intro c hc hf; exact ih _ (add_nonneg hc (hf a)) hf
  simp only [vsum_eq_sum]
  apply add_nonneg
  · apply mul_nonneg h0
    exact Finset.sum_nonneg fun i _ => hfold _ _ 0 (le_refl _) (fun j => hsq i j)
  · apply mul_nonneg (by linarith)
    apply Finset.sum_nonneg; intro i _
    apply hfold _ _ 0 (le_refl _)
    intro j
    apply Finset.sum_nonneg; intro l _
    split
    · exact le_refl _
    · rw [smax_real]; exact le_max_left _ _

/-! ## LMNN acceptance loop -/

theorem lmnnBacktrack_spec (obj : α → ℝ) (stepFrom : α → ℝ → α) (L : α) (cur : ℝ) :
    ∀ (fuel : ℕ) (rate : ℝ) (Ln : α) (on r : ℝ), lmnnBacktrack obj stepFrom L cur fuel rate = some (Ln, on, r) →
      on = obj Ln ∧ on ≤ cur := by
  intro fuel
  induction fuel with
  | zero => intro rate Ln on r h; simp [lmnnBacktrack] at h
  | succ fuel ih =>
    intro rate Ln on r h
    unfold lmnnBacktrack at h
    simp only at h
    split at h
    · exact ih _ Ln on r h
    · rename_i hle
      simp only [Option.some.injEq, Prod.mk.injEq] at h
      obtain ⟨rfl, rfl, _⟩ := h
      exact ⟨rfl, not_lt.mp hle⟩

/-- **LMNN's accepted iterates have non-increasing objective** (for any loss function and any gradient
step): every state reached by the loop has `obj = loss(L)` and an objective no larger than the one it
started from -/
theorem C10_lmnn_monotone (obj : α → ℝ) (stepFrom : α → ℝ → α) (btFuel minIter : ℕ) (convTol : ℝ) :
    ∀ (fuel it : ℕ) (s : LmnnState α ℝ), s.obj = obj s.L →
      (lmnnLoop obj stepFrom btFuel minIter convTol fuel it s).obj ≤ s.obj ∧
      (lmnnLoop obj stepFrom btFuel minIter convTol fuel it s).obj =
        obj (lmnnLoop obj stepFrom btFuel minIter convTol fuel it s).L := by
  intro fuel
  induction fuel with
  | zero => intro it s h; exact ⟨le_refl _, h⟩
  | succ fuel ih =>
    intro it s h
    unfold lmnnLoop
    cases hb : lmnnBacktrack obj stepFrom s.L s.obj btFuel s.rate with
    | none => exact ⟨le_refl _, h⟩
    | some r =>
      obtain ⟨Ln, on, rate⟩ := r
      obtain ⟨e1, e2⟩ := lmnnBacktrack_spec obj stepFrom s.L s.obj btFuel s.rate Ln on rate hb
      simp only
      split
      · exact ⟨e2, e1⟩
      · obtain ⟨i1, i2⟩ := ih (it + 1) { L := Ln, obj := on, rate := rate * lit 101 100 } e1
        exact ⟨le_trans i1 e2, i2⟩

/-- the transformation returned by `fit` never has a worse objective than the initial one -/
theorem C10_lmnn_final_le_init (obj : α → ℝ) (stepFrom : α → ℝ → α) (btFuel minIter : ℕ) (convTol : ℝ)
    (maxIter : ℕ) (L0 : α) (rate0 : ℝ) :
    obj (lmnnFit obj stepFrom btFuel minIter convTol maxIter L0 rate0).L ≤ obj L0 := by
  unfold lmnnFit
  obtain ⟨h1, h2⟩ := C10_lmnn_monotone obj stepFrom btFuel minIter convTol (maxIter - 2) 2
    { L := L0, obj := obj L0, rate := rate0 } rfl
  rw [← h2]; exact h1

/-- with no loop iteration (`max_iter ≤ 2`) the result is exactly the initialisation -/
theorem C10_zero_iter (obj : α → ℝ) (stepFrom : α → ℝ → α) (btFuel minIter : ℕ) (convTol : ℝ)
    (maxIter : ℕ) (hm : maxIter ≤ 2) (L0 : α) (rate0 : ℝ) :
    (lmnnFit obj stepFrom btFuel minIter convTol maxIter L0 rate0).L = L0 := by
  unfold lmnnFit
  have : maxIter - 2 = 0 := by omega
  rw [this]; rfl

/-! ## LMNN: the value computed by `_loss_grad` is the documented objective -/

theorem lsum_eq_sum (l : List ℝ) : lsum l = l.sum := by
  induction l with
  | nil => rfl
  | cons a t ih => simp [lsum, ih]

/-- `⟨L·G, L⟩` is linear in `G` -/
theorem frobLL_lin (L : Mat ℝ k d) (A B : Mat ℝ d d) (c1 c2 : ℝ) :
    frob (matMul L (fun a b => c1 * A a b + c2 * B a b)) L = c1 * frob (matMul L A) L + c2 * frob (matMul L B) L := by
  simp only [frob, matMul, vsum_eq_sum, Finset.mul_sum, Finset.sum_mul, ← Finset.sum_add_distrib]
  apply Finset.sum_congr rfl; intro r _
  apply Finset.sum_congr rfl; intro b _
  apply Finset.sum_congr rfl; intro a _
  ring

theorem frobLL_zero (L : Mat ℝ k d) : frob (matMul L (fun _ _ => (0:ℝ))) L = 0 := by
  simp [frob, matMul, vsum_eq_sum]

/-- `⟨L·vvᵀ, L⟩ = ‖Lv‖²` -/
theorem frobLL_outer (L : Mat ℝ k d) (v : Vec ℝ d) :
    frob (matMul L (fun a b => v a * v b)) L = sumSq (transform L v) := by
  simp only [frob, matMul, sumSq, transform, vecMulT, vsum_eq_sum]
  apply Finset.sum_congr rfl; intro r _
  rw [Finset.sum_mul_sum]
  apply Finset.sum_congr rfl; intro b _
  rw [Finset.sum_mul]
  apply Finset.sum_congr rfl; intro a _
  ring

theorem frobLL_sumOuter (L : Mat ℝ k d) (X : Mat ℝ n d) (ps : List (Fin n × Fin n)) :
    frob (matMul L (sumOuterPairs X ps)) L = lsum (ps.map fun p => embSqDist L X p.1 p.2) := by
  induction ps with
  | nil =>
    have : sumOuterPairs X ([] : List (Fin n × Fin n)) = fun _ _ => (0:ℝ) := by funext a b; simp [sumOuterPairs, lsum]
    rw [this, frobLL_zero]; simp [lsum]
  | cons p t ih =>
    have : sumOuterPairs X (p :: t) = fun a b => 1 * ((X p.1 a - X p.2 a) * (X p.1 b - X p.2 b)) + 1 * sumOuterPairs X t a b := by
      funext a b; simp [sumOuterPairs, lsum]
    rw [this, frobLL_lin, ih]
    have h := frobLL_outer L (vsub (X p.1) (X p.2))
    simp only [vsub] at h
    simp only [List.map_cons, lsum, embSqDist, one_mul]
    rw [← h]

theorem lsum_map_add (l : List α) (f g : α → ℝ) : lsum (l.map fun t => f t + g t) = lsum (l.map f) + lsum (l.map g) := by
  induction l with
  | nil => simp [lsum]
  | cons a t ih => simp only [List.map_cons, lsum, ih]; ring

theorem lsum_map_const (l : List α) (c : ℝ) : lsum (l.map fun _ => c) = (l.length : ℝ) * c := by
  induction l with
  | nil => simp [lsum]
  | cons a t ih => simp only [List.map_cons, lsum, ih, List.length_cons]; push_cast; ring

/-- hinge over all candidates = sum over the active ones -/
theorem lsum_hinge_filter (l : List α) (h : α → ℝ) :
    lsum (l.map fun t => smax 0 (h t)) = lsum ((l.filter fun t => decide (0 < h t)).map h) := by
  induction l with
  | nil => simp [lsum]
  | cons a t ih =>
    simp only [List.map_cons, lsum, List.filter_cons, smax_real]
    have ih' : lsum (List.map (fun t => max 0 (h t)) t) = lsum (List.map h (List.filter (fun t => decide (0 < h t)) t)) := by
      simpa only [smax_real] using ih
    by_cases hp : 0 < h a
    · simp only [hp, decide_true, if_true, List.map_cons, lsum, max_eq_right hp.le, ih']
    · simp only [hp, decide_false, Bool.false_eq_true, if_false, max_eq_left (not_lt.mp hp), ih', zero_add]

/-- **the value `_loss_grad` returns is the documented objective**: for every list of target pairs and every
list of candidate triples (any superset of the impostor triples the code finds, repetitions allowed),
`total_active·(1 − reg) + ⟨L(dfG·reg + df·(1 − reg)), L⟩ = reg·Σ_T d_ij + (1 − reg)·Σ [1 + d_ij − d_il]₊` -/
theorem C10_lmnn_code_objective (L : Mat ℝ k d) (X : Mat ℝ n d) (targetPairs : List (Fin n × Fin n))
    (triples : List (Fin n × Fin n × Fin n)) (reg : ℝ) :
    (lmnnCodeObjective L X targetPairs triples reg).1 = lmnnDocObjectiveL L X targetPairs triples reg := by
  unfold lmnnCodeObjective lmnnDocObjectiveL
  simp only
  set act := lmnnActive L X triples with hact
  have hG : (fun a b => sumOuterPairs X targetPairs a b * reg +
        (sumOuterPairs X (act.map fun t => (t.1, t.2.1)) a b - sumOuterPairs X (act.map fun t => (t.1, t.2.2)) a b) * (1 - reg))
      = fun a b => reg * sumOuterPairs X targetPairs a b + (1 - reg) *
          (1 * sumOuterPairs X (act.map fun t => (t.1, t.2.1)) a b + (-1) * sumOuterPairs X (act.map fun t => (t.1, t.2.2)) a b) := by
    funext a b; ring
  rw [hG, frobLL_lin, frobLL_lin, frobLL_sumOuter, frobLL_sumOuter, frobLL_sumOuter]
  rw [lsum_hinge_filter]
  have hfilter : (triples.filter fun t => decide (0 < 1 + embSqDist L X t.1 t.2.1 - embSqDist L X t.1 t.2.2)) = act := by
    rw [hact]; unfold lmnnActive
    apply List.filter_congr; intro t _
    simp only [decide_eq_decide]
    constructor <;> intro h <;> linarith
  rw [hfilter]
  have e3 : lsum (act.map fun t => 1 + embSqDist L X t.1 t.2.1 - embSqDist L X t.1 t.2.2)
      = (act.length : ℝ) + lsum (act.map fun t => embSqDist L X t.1 t.2.1) - lsum (act.map fun t => embSqDist L X t.1 t.2.2) := by
    have : (fun t : Fin n × Fin n × Fin n => 1 + embSqDist L X t.1 t.2.1 - embSqDist L X t.1 t.2.2)
        = fun t => (1 + embSqDist L X t.1 t.2.1) + (-1) * embSqDist L X t.1 t.2.2 := by funext t; ring
    rw [this, lsum_map_add, lsum_map_add, lsum_map_const]
    have : lsum (act.map fun t => (-1) * embSqDist L X t.1 t.2.2) = - lsum (act.map fun t => embSqDist L X t.1 t.2.2) := by
      induction act with
      | nil => simp [lsum]
      | cons a t ih => simp only [List.map_cons, lsum, ih]; ring
    rw [this]; ring
  rw [e3]
  simp only [List.map_map, Function.comp_def, ofNat_real]
  ring

/-- the count `_loss_grad` reports is the number of strictly positive hinge terms -/
theorem C10_lmnn_total_active (L : Mat ℝ k d) (X : Mat ℝ n d) (targetPairs : List (Fin n × Fin n))
    (triples : List (Fin n × Fin n × Fin n)) (reg : ℝ) :
    (lmnnCodeObjective L X targetPairs triples reg).2 =
      (triples.filter fun t => decide (0 < 1 + embSqDist L X t.1 t.2.1 - embSqDist L X t.1 t.2.2)).length := by
  unfold lmnnCodeObjective lmnnActive
  simp only
  congr 1
  apply List.filter_congr; intro t _
  simp only [decide_eq_decide]
  constructor <;> intro h <;> linarith

theorem lsum_append (a b : List ℝ) : lsum (a ++ b) = lsum a + lsum b := by
  induction a with
  | nil => simp [lsum]
  | cons x t ih => simp only [List.cons_append, lsum, ih]; ring

theorem lsum_flatMap_map {β γ : Type} (l : List β) (f : β → List γ) (g : γ → ℝ) :
    lsum ((l.flatMap f).map g) = lsum (l.map fun a => lsum ((f a).map g)) := by
  induction l with
  | nil => simp [lsum]
  | cons a t ih => simp only [List.flatMap_cons, List.map_append, lsum_append, List.map_cons, lsum, ih]

theorem vsum_eq_lsum (f : Fin n → ℝ) : vsum f = lsum ((List.finRange n).map f) := by
  rw [vsum_eq_sum, lsum_eq_sum, ← List.ofFn_eq_map, List.sum_ofFn]

theorem foldl_add_eq (l : List α) (f : α → ℝ) (c : ℝ) : l.foldl (fun acc j => acc + f j) c = c + lsum (l.map f) := by
  induction l generalizing c with
  | nil => simp [lsum]
  | cons a t ih => simp only [List.foldl_cons, ih, List.map_cons, lsum]; ring

theorem lsum_filter_map (l : List α) (p : α → Bool) (h : α → ℝ) :
    lsum ((l.filter p).map h) = lsum (l.map fun x => if p x then h x else 0) := by
  induction l with
  | nil => simp [lsum]
  | cons a t ih =>
    simp only [List.filter_cons, List.map_cons, lsum]
    cases hp : p a
    · simp [ih]
    · simp [lsum, ih]

/-- the documented objective in its nested form (`lmnnObjective`) and over the flat candidate lists -/
theorem C10_lmnn_doc_forms (L : Mat ℝ k d) (X : Mat ℝ n d) (y : Fin n → Int) (targets : Fin n → List (Fin n)) (reg : ℝ) :
    lmnnObjective L X y targets reg = lmnnDocObjectiveL L X (allTargetPairs targets) (allTriples y targets) reg := by
  unfold lmnnObjective lmnnDocObjectiveL allTargetPairs allTriples
  simp only [vsum_eq_lsum, foldl_add_eq, zero_add, lsum_flatMap_map, List.map_map, Function.comp_def, lsum_filter_map]
  have : ∀ (i j l : Fin n), (if y l = y i then (0:ℝ) else smax 0 (1 + embSqDist L X i j - embSqDist L X i l))
      = (if decide (y l ≠ y i) = true then smax 0 (1 + embSqDist L X i j - embSqDist L X i l) else 0) := by
    intro i j l; by_cases h : y l = y i <;> simp [h]
  simp only [this]

/-- **LMNN, code value = documented objective**, on the candidates of a target assignment -/
theorem C10_lmnn_code_eq_doc (L : Mat ℝ k d) (X : Mat ℝ n d) (y : Fin n → Int) (targets : Fin n → List (Fin n)) (reg : ℝ) :
    (lmnnCodeObjective L X (allTargetPairs targets) (allTriples y targets) reg).1 = lmnnObjective L X y targets reg := by
  rw [C10_lmnn_code_objective, C10_lmnn_doc_forms]

/-! ## The gradients handed to the optimiser are the derivatives of the documented objectives

A matrix `G` is the gradient of `f` at `L` when `d/dt f(L + t·D)|_{t=0} = ⟨G, D⟩_F` for EVERY direction `D`. -/

/-- the weight matrix of NCA's gradient in terms of the documented softmax -/
theorem ncaWeights_doc (L : Mat ℝ k d) (X : Mat ℝ n d) (y : Fin n → Int) (hn : 2 ≤ n) (i j : Fin n) :
    ncaWeights L X y i j =
      (if y i = y j then (1:ℝ) else 0) * softmaxDoc (fun i j => embSqDist L X i j) i j -
        softmaxDoc (fun i j => embSqDist L X i j) i j *
          ∑ l, (if y i = y l then (1:ℝ) else 0) * softmaxDoc (fun i j => embSqDist L X i j) i l := by
  have hc : ∀ l, softmaxCode (fun i j => embSqDist L X i j) i l = softmaxDoc (fun i j => embSqDist L X i j) i l :=
    fun l => C10_softmax _ i l (exists_ne_of_two_le hn i)
  simp only [ncaWeights, vsum_eq_sum, hc]
  congr 1
  · split <;> simp
  · congr 1; apply Finset.sum_congr rfl; intro l _; split <;> simp

/-- **NCA: the gradient handed to L-BFGS is the derivative of the documented objective** (for every
transformation `L`, of any number of rows, and every direction `D`) -/
theorem C10_nca_gradient (L D : Mat ℝ k d) (X : Mat ℝ n d) (y : Fin n → Int) (hn : 2 ≤ n) :
    HasDerivAt (fun t => ncaObjective (lineAt L D t) X y) (frob (ncaGradCode L X y) D) 0 := by
  set e : ℝ → Mat ℝ n n := fun t i j => embSqDist (lineAt L D t) X i j with he
  set b : Mat ℝ n n := fun i j => bil L D (vsub (X i) (X j)) (vsub (X i) (X j)) with hb
  have hder : ∀ i j, HasDerivAt (fun t => e t i j) (2 * b i j) 0 := fun i j => embSqDist_hasDerivAt L D X i j
  have he0 : e 0 = fun i j => embSqDist L X i j := by funext i j; simp [he]
  set P : Mat ℝ n n := softmaxDoc (e 0) with hP
  have hfun : (fun t => ncaObjective (lineAt L D t) X y) =
      fun t => ∑ i, ∑ j, (if y i = y j then (1:ℝ) else 0) * softmaxDoc (e t) i j := by
    funext t; rw [C10_nca_objective _ X y hn]
    apply Finset.sum_congr rfl; intro i _; apply Finset.sum_congr rfl; intro j _
    split <;> simp [he]
  rw [hfun]
  have hsum : HasDerivAt (fun t => ∑ i, ∑ j, (if y i = y j then (1:ℝ) else 0) * softmaxDoc (e t) i j)
      (∑ i, ∑ j, (if y i = y j then (1:ℝ) else 0) * (P i j * ((∑ l, P i l * (2 * b i l)) - 2 * b i j))) 0 := by
    apply HasDerivAt.fun_sum; intro i _
    apply HasDerivAt.fun_sum; intro j _
    exact (softmaxDoc_hasDerivAt e (fun i j => 2 * b i j) hder i j (exists_ne_of_two_le hn i)).const_mul _
  refine hsum.congr_deriv ?_
  -- the code's gradient, through the Laplacian form
  have hdiag : ∀ i, ncaWeights L X y i i = 0 := by
    intro i; rw [ncaWeights_doc L X y hn]; simp [softmaxDoc]
  have hrow : ∀ i, ∑ j, ncaWeights L X y i j = 0 := by
    intro i
    simp only [ncaWeights_doc L X y hn, Finset.sum_sub_distrib, ← Finset.sum_mul,
      C10_softmax_sum_one _ i (exists_ne_of_two_le hn i), one_mul, sub_self]
  rw [ncaGradCode, frob_gradFromWeights, symFillDiag_laplacian _ L D X hdiag hrow]
  simp only [ncaWeights_doc L X y hn, ← he0, ← hP, ofNat_real]
  have hrowalg : ∀ i, (∑ j, (if y i = y j then (1:ℝ) else 0) * (P i j * ((∑ l, P i l * (2 * b i l)) - 2 * b i j))) =
      -(2 * ∑ j, ((if y i = y j then (1:ℝ) else 0) * P i j - P i j * ∑ l, (if y i = y l then (1:ℝ) else 0) * P i l) * b i j) := by
    intro i
    have := nca_row_algebra (fun j => P i j) (fun j => if y i = y j then (1:ℝ) else 0) (fun j => 2 * b i j)
    simp only [← mul_assoc] at this ⊢
    rw [this, Finset.mul_sum]
    congr 1; apply Finset.sum_congr rfl; intro j _; ring
  simp only [hrowalg, Finset.sum_neg_distrib, ← Finset.mul_sum]
  push_cast; ring

/-- the weight matrix of MLKR's gradient in terms of the documented softmax -/
theorem mlkrWeights_doc (L : Mat ℝ k d) (X : Mat ℝ n d) (y : Vec ℝ n) (hn : 2 ≤ n) (i j : Fin n) :
    mlkrWeights L X y i j =
      softmaxDoc (fun i j => embSqDist L X i j) i j *
        ((∑ l, softmaxDoc (fun i j => embSqDist L X i j) i l * y l) - y i) *
        (y j - ∑ l, softmaxDoc (fun i j => embSqDist L X i j) i l * y l) := by
  have hc : ∀ l, softmaxCode (fun i j => embSqDist L X i j) i l = softmaxDoc (fun i j => embSqDist L X i j) i l :=
    fun l => C10_softmax _ i l (exists_ne_of_two_le hn i)
  simp only [mlkrWeights, vsum_eq_sum, hc]

/-- **MLKR: the gradient handed to L-BFGS is the derivative of the documented leave-one-out cost** -/
theorem C10_mlkr_gradient (L D : Mat ℝ k d) (X : Mat ℝ n d) (y : Vec ℝ n) (hn : 2 ≤ n) :
    HasDerivAt (fun t => mlkrObjective (lineAt L D t) X y) (frob (mlkrGradCode L X y) D) 0 := by
  set e : ℝ → Mat ℝ n n := fun t i j => embSqDist (lineAt L D t) X i j with he
  set b : Mat ℝ n n := fun i j => bil L D (vsub (X i) (X j)) (vsub (X i) (X j)) with hb
  have hder : ∀ i j, HasDerivAt (fun t => e t i j) (2 * b i j) 0 := fun i j => embSqDist_hasDerivAt L D X i j
  have he0 : e 0 = fun i j => embSqDist L X i j := by funext i j; simp [he]
  set P : Mat ℝ n n := softmaxDoc (e 0) with hP
  have hfun : (fun t => mlkrObjective (lineAt L D t) X y) =
      fun t => ∑ i, ((∑ j, softmaxDoc (e t) i j * y j) - y i) ^ 2 := by
    funext t; rw [C10_mlkr_objective _ X y hn]
  rw [hfun]
  have hyhat : ∀ i, HasDerivAt (fun t => (∑ j, softmaxDoc (e t) i j * y j) - y i)
      (∑ j, P i j * ((∑ l, P i l * (2 * b i l)) - 2 * b i j) * y j) 0 := by
    intro i
    have : HasDerivAt (fun t => ∑ j, softmaxDoc (e t) i j * y j)
        (∑ j, P i j * ((∑ l, P i l * (2 * b i l)) - 2 * b i j) * y j) 0 := by
      apply HasDerivAt.fun_sum; intro j _
      exact (softmaxDoc_hasDerivAt e (fun i j => 2 * b i j) hder i j (exists_ne_of_two_le hn i)).mul_const _
    exact this.sub_const _
  have hsum : HasDerivAt (fun t => ∑ i, ((∑ j, softmaxDoc (e t) i j * y j) - y i) ^ 2)
      (∑ i, 2 * ((∑ j, P i j * y j) - y i) * (∑ j, P i j * ((∑ l, P i l * (2 * b i l)) - 2 * b i j) * y j)) 0 := by
    apply HasDerivAt.fun_sum; intro i _
    have := (hyhat i).pow 2
    refine this.congr_deriv ?_
    simp [hP]
  refine hsum.congr_deriv ?_
  have hdiag : ∀ i, mlkrWeights L X y i i = 0 := by
    intro i; rw [mlkrWeights_doc L X y hn]; simp [softmaxDoc]
  have hrow : ∀ i, ∑ j, mlkrWeights L X y i j = 0 := by
    intro i
    simp only [mlkrWeights_doc L X y hn]
    have h1 := C10_softmax_sum_one (fun i j => embSqDist L X i j) i (exists_ne_of_two_le hn i)
    set Q := softmaxDoc (fun i j => embSqDist L X i j) i with hQ
    set yh := ∑ l, Q l * y l with hyh
    have : (∑ j, Q j * (yh - y i) * (y j - yh)) = (yh - y i) * ((∑ j, Q j * y j) - (∑ j, Q j) * yh) := by
      rw [Finset.sum_mul, ← Finset.sum_sub_distrib, Finset.mul_sum]
      apply Finset.sum_congr rfl; intro j _; ring
    rw [this, h1, ← hyh]; ring
  rw [mlkrGradCode, frob_gradFromWeights, symFillDiag_laplacian _ L D X hdiag hrow]
  simp only [mlkrWeights_doc L X y hn, ← he0, ← hP, ofNat_real]
  have hrowalg : ∀ i, (∑ j, P i j * ((∑ l, P i l * (2 * b i l)) - 2 * b i j) * y j) =
      -(2 * ∑ j, P i j * (y j - ∑ l, P i l * y l) * b i j) := by
    intro i
    have := mlkr_row_algebra (fun j => P i j) y (fun j => 2 * b i j)
    have h' : (∑ j, P i j * ((∑ l, P i l * (2 * b i l)) - 2 * b i j) * y j) =
        ∑ j, P i j * y j * ((∑ l, P i l * (2 * b i l)) - 2 * b i j) := by
      apply Finset.sum_congr rfl; intro j _; ring
    rw [h', this, Finset.mul_sum]
    congr 1; apply Finset.sum_congr rfl; intro j _; ring
  simp only [hrowalg]
  simp only [hb]
  push_cast
  rw [mul_neg, Finset.mul_sum, ← Finset.sum_neg_distrib]
  apply Finset.sum_congr rfl; intro i _
  have hx : (∑ j, P i j * ((∑ l, P i l * y l) - y i) * (y j - ∑ l, P i l * y l) *
        bil L D (vsub (X i) (X j)) (vsub (X i) (X j))) =
      ((∑ l, P i l * y l) - y i) * ∑ j, P i j * (y j - ∑ l, P i l * y l) *
        bil L D (vsub (X i) (X j)) (vsub (X i) (X j)) := by
    rw [Finset.mul_sum]; apply Finset.sum_congr rfl; intro j _; ring
  rw [hx]; ring

/-! ### LMNN: `2·L·G` is the derivative of the documented objective wherever no hinge sits at its kink -/

theorem lsum_map_hasDerivAt {β : Type} (l : List β) (f : β → ℝ → ℝ) (f' : β → ℝ) (x : ℝ)
    (h : ∀ a ∈ l, HasDerivAt (f a) (f' a) x) :
    HasDerivAt (fun t => lsum (l.map fun a => f a t)) (lsum (l.map f')) x := by
  induction l with
  | nil => simpa [lsum] using hasDerivAt_const x (0:ℝ)
  | cons a t ih =>
    simp only [List.map_cons, lsum]
    exact (h a (List.mem_cons_self)).fun_add (ih fun b hb => h b (List.mem_cons_of_mem _ hb))

/-- a hinge `max(0, h)` whose argument is not zero at `x` has derivative `h'` (active) or `0` (inactive) -/
theorem hinge_hasDerivAt (h : ℝ → ℝ) (h' x : ℝ) (hd : HasDerivAt h h' x) (hne : h x ≠ 0) :
    HasDerivAt (fun t => smax 0 (h t)) (if 0 < h x then h' else 0) x := by
  have hfun : (fun t => smax 0 (h t)) = fun t => max 0 (h t) := by funext t; exact smax_real _ _
  rw [hfun]
  rcases lt_or_gt_of_ne hne with hneg | hpos
  · rw [if_neg (not_lt.mpr hneg.le)]
    have hev : (fun t => max 0 (h t)) =ᶠ[nhds x] fun _ => (0:ℝ) := by
      have := hd.continuousAt.eventually (gt_mem_nhds hneg)
      filter_upwards [this] with t ht
      exact max_eq_left ht.le
    exact (hasDerivAt_const x (0:ℝ)).congr_of_eventuallyEq hev
  · rw [if_pos hpos]
    have hev : (fun t => max 0 (h t)) =ᶠ[nhds x] h := by
      have := hd.continuousAt.eventually (lt_mem_nhds hpos)
      filter_upwards [this] with t ht
      exact max_eq_right ht.le
    exact hd.congr_of_eventuallyEq hev

/-- `⟨L·G, D⟩` is linear in `G` -/
theorem frobLD_lin (L D : Mat ℝ k d) (A B : Mat ℝ d d) (c1 c2 : ℝ) :
    frob (matMul L (fun a b => c1 * A a b + c2 * B a b)) D = c1 * frob (matMul L A) D + c2 * frob (matMul L B) D := by
  simp only [frob, matMul, vsum_eq_sum, Finset.mul_sum, Finset.sum_mul, ← Finset.sum_add_distrib]
  apply Finset.sum_congr rfl; intro r _
  apply Finset.sum_congr rfl; intro b _
  apply Finset.sum_congr rfl; intro a _
  ring

theorem frobLD_zero (L D : Mat ℝ k d) : frob (matMul L (fun _ _ => (0:ℝ))) D = 0 := by
  simp [frob, matMul, vsum_eq_sum]

/-- `⟨L·vvᵀ, D⟩ = ⟨L v, D v⟩` -/
theorem frobLD_outer (L D : Mat ℝ k d) (v : Vec ℝ d) :
    frob (matMul L (fun a b => v a * v b)) D = bil L D v v := by
  simp only [frob, matMul, bil, lv, vsum_eq_sum]
  apply Finset.sum_congr rfl; intro r _
  rw [Finset.sum_mul_sum]
  rw [Finset.sum_comm]
  apply Finset.sum_congr rfl; intro b _
  rw [Finset.sum_mul]
  apply Finset.sum_congr rfl; intro a _
  ring

theorem frobLD_sumOuter (L D : Mat ℝ k d) (X : Mat ℝ n d) (ps : List (Fin n × Fin n)) :
    frob (matMul L (sumOuterPairs X ps)) D =
      lsum (ps.map fun p => bil L D (vsub (X p.1) (X p.2)) (vsub (X p.1) (X p.2))) := by
  induction ps with
  | nil =>
    have : sumOuterPairs X ([] : List (Fin n × Fin n)) = fun _ _ => (0:ℝ) := by funext a b; simp [sumOuterPairs, lsum]
    rw [this, frobLD_zero]; simp [lsum]
  | cons p t ih =>
    have : sumOuterPairs X (p :: t) = fun a b => 1 * ((X p.1 a - X p.2 a) * (X p.1 b - X p.2 b)) + 1 * sumOuterPairs X t a b := by
      funext a b; simp [sumOuterPairs, lsum]
    rw [this, frobLD_lin, ih]
    have h := frobLD_outer L D (vsub (X p.1) (X p.2))
    simp only [vsub] at h
    simp only [List.map_cons, lsum, one_mul]
    rw [← h]

theorem lsum_map_smul {β : Type} (l : List β) (f : β → ℝ) (c : ℝ) : lsum (l.map fun t => c * f t) = c * lsum (l.map f) := by
  induction l with
  | nil => simp [lsum]
  | cons a t ih => simp only [List.map_cons, lsum, ih]; ring

/-- sum over all candidates of an "active ? value : 0" term = sum of the values over the active ones -/
theorem lsum_ite_filter {β : Type} (l : List β) (p : β → Prop) [DecidablePred p] (f : β → ℝ) :
    lsum (l.map fun t => if p t then f t else 0) = lsum ((l.filter fun t => decide (p t)).map f) := by
  induction l with
  | nil => simp [lsum]
  | cons a t ih =>
    simp only [List.map_cons, lsum, List.filter_cons, ih]
    by_cases hp : p a
    · simp [hp, lsum]
    · simp [hp]

/-- **LMNN: the gradient `_loss_grad` returns (`2·L·G`) is the derivative of the documented pull + push objective**
at every transformation at which no candidate hinge is exactly at its kink (`d_il ≠ 1 + d_ij` for all candidate
triples; the objective is not differentiable at a kink and the code then returns a sub-gradient) -/
theorem C10_lmnn_gradient (L D : Mat ℝ k d) (X : Mat ℝ n d) (targetPairs : List (Fin n × Fin n))
    (triples : List (Fin n × Fin n × Fin n)) (reg : ℝ)
    (hkink : ∀ t ∈ triples, 1 + embSqDist L X t.1 t.2.1 - embSqDist L X t.1 t.2.2 ≠ 0) :
    HasDerivAt (fun s => lmnnDocObjectiveL (lineAt L D s) X targetPairs triples reg)
      (frob (lmnnGradCode L X targetPairs triples reg) D) 0 := by
  set bb : Fin n → Fin n → ℝ := fun i j => bil L D (vsub (X i) (X j)) (vsub (X i) (X j)) with hbb
  have hpull : HasDerivAt (fun s => lsum (targetPairs.map fun p => embSqDist (lineAt L D s) X p.1 p.2))
      (lsum (targetPairs.map fun p => 2 * bb p.1 p.2)) 0 :=
    lsum_map_hasDerivAt targetPairs (fun p s => embSqDist (lineAt L D s) X p.1 p.2) _ 0
      (fun p _ => embSqDist_hasDerivAt L D X p.1 p.2)
  have hpush : HasDerivAt (fun s => lsum (triples.map fun t =>
        smax 0 (1 + embSqDist (lineAt L D s) X t.1 t.2.1 - embSqDist (lineAt L D s) X t.1 t.2.2)))
      (lsum (triples.map fun t => if 0 < 1 + embSqDist L X t.1 t.2.1 - embSqDist L X t.1 t.2.2
        then 2 * bb t.1 t.2.1 - 2 * bb t.1 t.2.2 else 0)) 0 := by
    apply lsum_map_hasDerivAt triples
      (fun t s => smax 0 (1 + embSqDist (lineAt L D s) X t.1 t.2.1 - embSqDist (lineAt L D s) X t.1 t.2.2))
    intro t ht
    have hd : HasDerivAt (fun s => 1 + embSqDist (lineAt L D s) X t.1 t.2.1 - embSqDist (lineAt L D s) X t.1 t.2.2)
        (2 * bb t.1 t.2.1 - 2 * bb t.1 t.2.2) 0 :=
      ((embSqDist_hasDerivAt L D X t.1 t.2.1).const_add 1).fun_sub (embSqDist_hasDerivAt L D X t.1 t.2.2)
    have := hinge_hasDerivAt _ _ 0 hd (by simpa using hkink t ht)
    simpa using this
  have htot := (hpull.const_mul reg).fun_add (hpush.const_mul (1 - reg))
  unfold lmnnDocObjectiveL
  refine htot.congr_deriv ?_
  -- the code's gradient
  unfold lmnnGradCode
  simp only
  set act := lmnnActive L X triples with hact
  have hG : (fun a b => (Scalar.ofNat 2 : ℝ) * matMul L (fun a b => sumOuterPairs X targetPairs a b * reg +
        (sumOuterPairs X (act.map fun t => (t.1, t.2.1)) a b - sumOuterPairs X (act.map fun t => (t.1, t.2.2)) a b) * (1 - reg)) a b)
      = matMul L (fun a b => (2 * reg) * sumOuterPairs X targetPairs a b + (2 * (1 - reg)) *
          (1 * sumOuterPairs X (act.map fun t => (t.1, t.2.1)) a b + (-1) * sumOuterPairs X (act.map fun t => (t.1, t.2.2)) a b)) := by
    funext a b
    simp only [matMul, vsum_eq_sum, ofNat_real, Finset.mul_sum]
    apply Finset.sum_congr rfl; intro c _; push_cast; ring
  rw [hG, frobLD_lin, frobLD_lin, frobLD_sumOuter, frobLD_sumOuter, frobLD_sumOuter]
  rw [lsum_ite_filter]
  have hfilter : (triples.filter fun t => decide (0 < 1 + embSqDist L X t.1 t.2.1 - embSqDist L X t.1 t.2.2)) = act := by
    rw [hact]; unfold lmnnActive
    apply List.filter_congr; intro t _
    simp only [decide_eq_decide]
    constructor <;> intro h <;> linarith
  rw [hfilter]
  simp only [List.map_map, Function.comp_def]
  have e1 : lsum (targetPairs.map fun p => 2 * bb p.1 p.2) = 2 * lsum (targetPairs.map fun p => bb p.1 p.2) :=
    lsum_map_smul _ _ _
  have e2 : lsum (act.map fun t => 2 * bb t.1 t.2.1 - 2 * bb t.1 t.2.2) =
      2 * lsum (act.map fun t => bb t.1 t.2.1) - 2 * lsum (act.map fun t => bb t.1 t.2.2) := by
    have : (fun t : Fin n × Fin n × Fin n => 2 * bb t.1 t.2.1 - 2 * bb t.1 t.2.2) =
        fun t => 2 * bb t.1 t.2.1 + (-2) * bb t.1 t.2.2 := by funext t; ring
    rw [this, lsum_map_add, lsum_map_smul, lsum_map_smul]; ring
  rw [e1, e2]
  ring

/-- non-vacuity of `C10_lmnn_gradient`: a configuration with an active and an inactive candidate, none at its kink -/
example : ∃ (L : Mat ℝ 1 1) (X : Mat ℝ 3 1),
    (1 + embSqDist L X 0 1 - embSqDist L X 0 2 ≠ 0) ∧ (0 < 1 + embSqDist L X 0 1 - embSqDist L X 0 2) := by
  refine ⟨fun _ _ => 1, fun i _ => if i = 1 then 2 else if i = 2 then 1 else 0, ?_, ?_⟩ <;>
    simp [embSqDist, sumSq, vsum_eq_sum, transform_apply, vsub]
