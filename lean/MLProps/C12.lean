import MLProps.Bridge
import Mathlib.Algebra.BigOperators.Group.List.Basic
import Mathlib.LinearAlgebra.Matrix.NonsingularInverse
import Mathlib.Tactic.Linarith
/-!
# C12 — LSML descends its convex objective from the prior to a stationary point
-/
open ML Matrix

variable {d : ℕ} {α : Type}

/-! ## the acceptance loop: strict descent for any candidate generator (any external `eigh`) -/

theorem lsmlScan_spec (loss : α → ℝ) : ∀ (cs : List α) (sBest : ℝ) (best : Option α),
    (∀ m, best = some m → loss m = sBest) →
    (lsmlScan loss cs sBest best).1 ≤ sBest ∧
    (∀ m, (lsmlScan loss cs sBest best).2 = some m → loss m = (lsmlScan loss cs sBest best).1) ∧
    ((lsmlScan loss cs sBest best).2 = none → best = none) ∧
    (best = none → ∀ m, (lsmlScan loss cs sBest best).2 = some m → loss m < sBest) := by
  intro cs
  induction cs with
  | nil => intro sBest best h; exact ⟨le_refl _, h, fun h' => h', fun hb m hm => by rw [hb] at hm; cases hm⟩
  | cons c cs ih =>
    intro sBest best h
    unfold lsmlScan
    split
    · rename_i hlt
      obtain ⟨h1, h2, h3, h4⟩ := ih (loss c) (some c) (by intro m hm; cases hm; rfl)
      refine ⟨le_trans h1 hlt.le, h2, fun hn => absurd (h3 hn) (by simp), fun _ m hm => ?_⟩
      have := h2 m hm
      rw [this]; exact lt_of_le_of_lt h1 hlt
    · exact ih sBest best h

/-- **descent**: in every run of the loop the accepted losses strictly decrease, so the loss of the
returned matrix is never larger than the loss at the start (the prior), whatever candidates the
eigen-solver produced -/
theorem C12_descent (loss : α → ℝ) (gradNorm : α → ℝ) (cands : α → List α) (tol : ℝ) :
    ∀ (fuel it : ℕ) (s : LsmlState α ℝ), s.sBest = loss s.M →
    (lsmlLoop loss gradNorm cands tol fuel it s).1.sBest ≤ s.sBest ∧
    (lsmlLoop loss gradNorm cands tol fuel it s).1.sBest = loss (lsmlLoop loss gradNorm cands tol fuel it s).1.M := by
  intro fuel
  induction fuel with
  | zero => intro it s h; exact ⟨le_refl _, h⟩
  | succ fuel ih =>
    intro it s h
    unfold lsmlLoop
    split
    · exact ⟨le_refl _, h⟩
    · obtain ⟨h1, h2, h3, h4⟩ := lsmlScan_spec loss (cands s.M) s.sBest none (by intro m hm; cases hm)
      split
      · exact ⟨le_refl _, h⟩
      · rename_i sb m heq
        have e1 : (lsmlScan loss (cands s.M) s.sBest none).1 = sb := by rw [heq]
        have e2 : (lsmlScan loss (cands s.M) s.sBest none).2 = some m := by rw [heq]
        have hm : loss m = sb := by rw [← e1]; exact h2 m e2
        obtain ⟨i1, i2⟩ := ih (it + 1) { M := m, sBest := sb } hm.symm
        exact ⟨le_trans i1 (e1 ▸ h1), i2⟩

theorem C12_final_le_prior (loss : α → ℝ) (gradNorm : α → ℝ) (cands : α → List α) (tol : ℝ)
    (fuel : ℕ) (M0 : α) :
    loss (lsmlLoop loss gradNorm cands tol fuel 0 { M := M0, sBest := loss M0 }).1.M ≤ loss M0 := by
  obtain ⟨h1, h2⟩ := C12_descent loss gradNorm cands tol fuel 0 { M := M0, sBest := loss M0 } rfl
  rw [← h2]; exact h1

/-- every accepted iterate strictly improves: an iteration that accepts `m` has `loss m < s_best` -/
theorem C12_strict (loss : α → ℝ) (cs : List α) (sBest : ℝ) (m : α)
    (h : (lsmlScan loss cs sBest none).2 = some m) : loss m < sBest :=
  (lsmlScan_spec loss cs sBest none (by intro m hm; cases hm)).2.2.2 rfl m h

/-- a stationary prior (gradient norm below `tol`) is returned at once with `n_iter_ = 1` -/
theorem C12_stops_when_stationary (loss : α → ℝ) (gradNorm : α → ℝ) (cands : α → List α) (tol : ℝ)
    (fuel : ℕ) (s : LsmlState α ℝ) (h : gradNorm s.M < tol) :
    lsmlLoop loss gradNorm cands tol (fuel + 1) 0 s = (s, 1) := by
  unfold lsmlLoop; simp [h]

/-! ## objective and gradient as sums over the constraints -/

noncomputable def lossTerm (M : Mat ℝ d d) (q : Vec ℝ d × Vec ℝ d × ℝ) : ℝ :=
  if quadForm M q.2.1 < quadForm M q.1 then
    q.2.2 * ((Real.sqrt (quadForm M q.1) - Real.sqrt (quadForm M q.2.1)) * (Real.sqrt (quadForm M q.1) - Real.sqrt (quadForm M q.2.1)))
  else 0

theorem lsmlComparisonLoss_eq_sum (M : Mat ℝ d d) (quads : List (Vec ℝ d × Vec ℝ d × ℝ)) :
    lsmlComparisonLoss M quads = (quads.map (lossTerm M)).sum := by
  unfold lsmlComparisonLoss
  have gen : ∀ (l : List (Vec ℝ d × Vec ℝ d × ℝ)) (c : ℝ),
      l.foldl (fun acc (q : Vec ℝ d × Vec ℝ d × ℝ) =>
        if quadForm M q.2.1 < quadForm M q.1 then
          acc + q.2.2 * ((ScalarT.sqrt (quadForm M q.1) - ScalarT.sqrt (quadForm M q.2.1)) *
            (ScalarT.sqrt (quadForm M q.1) - ScalarT.sqrt (quadForm M q.2.1))) else acc) c
        = c + (l.map (lossTerm M)).sum := by
    intro l
    induction l with
    | nil => intro c; simp
    | cons q t ih =>
      intro c
      simp only [List.foldl_cons, List.map_cons, List.sum_cons]
      rw [ih]
      unfold lossTerm
      split <;> (try simp only [sqrt_real]) <;> ring
  have := gen quads 0
  simp only [zero_add] at this
  exact this

noncomputable def gradTerm (M : Mat ℝ d d) (a b : Fin d) (q : Vec ℝ d × Vec ℝ d × ℝ) : ℝ :=
  if quadForm M q.2.1 < quadForm M q.1 then
    q.2.2 * ((1 - Real.sqrt (quadForm M q.2.1 / quadForm M q.1)) * (q.1 a * q.1 b) +
             (1 - Real.sqrt (quadForm M q.1 / quadForm M q.2.1)) * (q.2.1 a * q.2.1 b))
  else 0

/-- `C12_grad_form`: the code's gradient is `M₀⁻¹ − M⁻¹` plus one documented term per violated constraint -/
theorem C12_grad_form (M P Minv : Mat ℝ d d) (quads : List (Vec ℝ d × Vec ℝ d × ℝ)) (a b : Fin d) :
    lsmlGradient M P Minv quads a b = (P a b - Minv a b) + (quads.map (gradTerm M a b)).sum := by
  unfold lsmlGradient
  have gen : ∀ (l : List (Vec ℝ d × Vec ℝ d × ℝ)) (c : ℝ),
      l.foldl (fun acc (q : Vec ℝ d × Vec ℝ d × ℝ) =>
        if quadForm M q.2.1 < quadForm M q.1 then
          acc + q.2.2 * ((1 - ScalarT.sqrt (quadForm M q.2.1 / quadForm M q.1)) * (q.1 a * q.1 b) +
            (1 - ScalarT.sqrt (quadForm M q.1 / quadForm M q.2.1)) * (q.2.1 a * q.2.1 b)) else acc) c
        = c + (l.map (gradTerm M a b)).sum := by
    intro l
    induction l with
    | nil => intro c; simp
    | cons q t ih =>
      intro c
      simp only [List.foldl_cons, List.map_cons, List.sum_cons]
      rw [ih]
      unfold gradTerm
      split <;> (try simp only [sqrt_real]) <;> ring
  exact gen quads _

/-- **if all quadruplet constraints already hold under the prior the gradient at the prior vanishes**
(so the prior is returned, by `C12_stops_when_stationary`) -/
theorem C12_prior_fixed (M0 P : Mat ℝ d d) (quads : List (Vec ℝ d × Vec ℝ d × ℝ))
    (hfeas : ∀ q ∈ quads, quadForm M0 q.1 ≤ quadForm M0 q.2.1) (a b : Fin d) :
    lsmlGradient M0 P P quads a b = 0 := by
  rw [C12_grad_form]
  have : (quads.map (gradTerm M0 a b)).sum = 0 := by
    apply List.sum_eq_zero
    intro x hx
    obtain ⟨q, hq, rfl⟩ := List.mem_map.mp hx
    unfold gradTerm
    rw [if_neg (not_lt.mpr (hfeas q hq))]
  rw [this]; ring

/-- **constraint weights scale each constraint's influence in both the objective and the search
direction**: multiplying the weight of a constraint by `c` multiplies its term of the loss and of the
gradient by `c` -/
theorem C12_weight_scaling (M : Mat ℝ d d) (vab vcd : Vec ℝ d) (w c : ℝ) (a b : Fin d) :
    lossTerm M (vab, vcd, c * w) = c * lossTerm M (vab, vcd, w) ∧
    gradTerm M a b (vab, vcd, c * w) = c * gradTerm M a b (vab, vcd, w) := by
  unfold lossTerm gradTerm
  constructor <;> (split <;> ring)

/-- normalising the weights makes any common positive factor immaterial -/
theorem C12_weights_scale_invariant (w : List ℝ) (c : ℝ) (hc : c ≠ 0) (hs : w.sum ≠ 0) :
    normalizeWeights (w.map (c * ·)) = normalizeWeights w := by
  unfold normalizeWeights
  have hsum : ∀ l : List ℝ, l.foldl (· + ·) 0 = l.sum := by
    intro l; rw [List.sum_eq_foldl]
  simp only [hsum, List.map_map]
  have : (w.map (c * ·)).sum = c * w.sum := by
    rw [List.sum_map_mul_left]; simp
  rw [this]
  apply List.map_congr_left
  intro x _
  simp only [Function.comp]
  field_simp

/-! ## positive definiteness by flooring -/

/-- `V · max(w, 1e-8) · Vᵀ` is positive definite for an orthogonal `V`, whatever the spectrum -/
theorem C12_pd (V : Mat ℝ d d) (w : Vec ℝ d) (hV : Matrix.of V * (Matrix.of V)ᵀ = 1)
    (x : Vec ℝ d) (hx : x ≠ 0) : 0 < quadForm (lsmlFloor V w) x := by
  set m : Vec ℝ d := fun i => smax (w i) (lit 1 100000000) with hm
  have hmpos : ∀ i, 0 < m i := by
    intro i; simp only [hm, smax_real, lit_real]
    exact lt_of_lt_of_le (by norm_num) (le_max_right _ _)
  have form : quadForm (lsmlFloor V w) x = ∑ i, m i * (∑ a, V a i * x a) ^ 2 := quadForm_spectral V m x
  rw [form]
  -- Vᵀx ≠ 0 because V Vᵀ = 1
  have hne : ∃ i, (∑ a, V a i * x a) ≠ 0 := by
    by_contra hall
    push Not at hall
    apply hx
    have hz : Matrix.vecMul x (Matrix.of V) = 0 := by
      funext i; simp only [Matrix.vecMul, dotProduct, Matrix.of_apply, Pi.zero_apply]
      rw [← hall i]; apply Finset.sum_congr rfl; intro a _; ring
    have : x = Matrix.vecMul (Matrix.vecMul x (Matrix.of V)) (Matrix.of V)ᵀ := by
      rw [Matrix.vecMul_vecMul, hV, Matrix.vecMul_one]
    rw [this, hz, Matrix.zero_vecMul]
  obtain ⟨i0, hi0⟩ := hne
  have hpos : ∀ i, 0 ≤ m i * (∑ a, V a i * x a) ^ 2 := fun i => mul_nonneg (hmpos i).le (sq_nonneg _)
  have hi : 0 < m i0 * (∑ a, V a i0 * x a) ^ 2 := mul_pos (hmpos i0) (by positivity)
  calc 0 < m i0 * (∑ a, V a i0 * x a) ^ 2 := hi
    _ ≤ ∑ i, m i * (∑ a, V a i * x a) ^ 2 :=
        Finset.single_le_sum (fun i _ => hpos i) (Finset.mem_univ i0)
