import MLProps.Bridge
import MLProps.LogDet
import Mathlib.Algebra.BigOperators.Group.List.Basic
import Mathlib.LinearAlgebra.Matrix.NonsingularInverse
import Mathlib.Tactic.Linarith
/-!
# C12 — LSML descends its convex objective from the prior to a stationary point
-/
open ML Matrix

variable {d : ℕ} {α : Type}

/-! ## the acceptance loop: strict descent for any candidate generator (any external `eigh`) -/

theorem lsmlScan_spec (loss : α → ℝ) : ∀ (cs : List α) (sBest : ℝ) (best : Option α),
    (∀ m, best = some m → loss m = sBest) →
    (lsmlScan loss cs sBest best).1 ≤ sBest ∧
    (∀ m, (lsmlScan loss cs sBest best).2 = some m → loss m = (lsmlScan loss cs sBest best).1) ∧
    ((lsmlScan loss cs sBest best).2 = none → best = none) ∧
    (best = none → ∀ m, (lsmlScan loss cs sBest best).2 = some m → loss m < sBest) := by
  intro cs
  induction cs with
  | nil => intro sBest best h; exact ⟨le_refl _, h, fun h' => h', fun hb m hm => by rw [hb] at hm; cases hm⟩
  | cons c cs ih =>
    intro sBest best h
    unfold lsmlScan
    split
    · rename_i hlt
      obtain ⟨h1, h2, h3, h4⟩ := ih (loss c) (some c) (by intro m hm; cases hm; rfl)
      refine ⟨le_trans h1 hlt.le, h2, fun hn => absurd (h3 hn) (by simp), fun _ m hm => ?_⟩
      have := h2 m hm
      rw [this]; exact lt_of_le_of_lt h1 hlt
    · exact ih sBest best h

/-- **descent**: in every run of the loop the accepted losses strictly decrease, so the loss of the
returned matrix is never larger than the loss at the start (the prior), whatever candidates the
eigen-solver produced -/
theorem C12_descent (loss : α → ℝ) (gradNorm : α → ℝ) (cands : α → List α) (tol : ℝ) :
    ∀ (fuel it : ℕ) (s : LsmlState α ℝ), s.sBest = loss s.M →
    (lsmlLoop loss gradNorm cands tol fuel it s).1.sBest ≤ s.sBest ∧
    (lsmlLoop loss gradNorm cands tol fuel it s).1.sBest = loss (lsmlLoop loss gradNorm cands tol fuel it s).1.M := by
  intro fuel
  induction fuel with
  | zero => intro it s h; exact ⟨le_refl _, h⟩
  | succ fuel ih =>
    intro it s h
    unfold lsmlLoop
    split
    · exact ⟨le_refl _, h⟩
    · obtain ⟨h1, h2, h3, h4⟩ := lsmlScan_spec loss (cands s.M) s.sBest none (by intro m hm; cases hm)
      split
      · exact ⟨le_refl _, h⟩
      · rename_i sb m heq
        have e1 : (lsmlScan loss (cands s.M) s.sBest none).1 = sb := by rw [heq]
        have e2 : (lsmlScan loss (cands s.M) s.sBest none).2 = some m := by rw [heq]
        have hm : loss m = sb := by rw [← e1]; exact h2 m e2
        obtain ⟨i1, i2⟩ := ih (it + 1) { M := m, sBest := sb } hm.symm
        exact ⟨le_trans i1 (e1 ▸ h1), i2⟩

theorem C12_final_le_prior (loss : α → ℝ) (gradNorm : α → ℝ) (cands : α → List α) (tol : ℝ)
    (fuel : ℕ) (M0 : α) :
    loss (lsmlLoop loss gradNorm cands tol fuel 0 { M := M0, sBest := loss M0 }).1.M ≤ loss M0 := by
  obtain ⟨h1, h2⟩ := C12_descent loss gradNorm cands tol fuel 0 { M := M0, sBest := loss M0 } rfl
  rw [← h2]; exact h1

/-- every accepted iterate strictly improves: an iteration that accepts `m` has `loss m < s_best` -/
theorem C12_strict (loss : α → ℝ) (cs : List α) (sBest : ℝ) (m : α)
    (h : (lsmlScan loss cs sBest none).2 = some m) : loss m < sBest :=
  (lsmlScan_spec loss cs sBest none (by intro m hm; cases hm)).2.2.2 rfl m h

/-- a stationary prior (gradient norm below `tol`) is returned at once with `n_iter_ = 1` -/
theorem C12_stops_when_stationary (loss : α → ℝ) (gradNorm : α → ℝ) (cands : α → List α) (tol : ℝ)
    (fuel : ℕ) (s : LsmlState α ℝ) (h : gradNorm s.M < tol) :
    lsmlLoop loss gradNorm cands tol (fuel + 1) 0 s = (s, 1) := by
  unfold lsmlLoop; simp [h]

/-! ## objective and gradient as sums over the constraints -/

noncomputable def lossTerm (M : Mat ℝ d d) (q : Vec ℝ d × Vec ℝ d × ℝ) : ℝ :=
  if quadForm M q.2.1 < quadForm M q.1 then
    q.2.2 * ((Real.sqrt (quadForm M q.1) - Real.sqrt (quadForm M q.2.1)) * (Real.sqrt (quadForm M q.1) - Real.sqrt (quadForm M q.2.1)))
  else 0

theorem lsmlComparisonLoss_eq_sum (M : Mat ℝ d d) (quads : List (Vec ℝ d × Vec ℝ d × ℝ)) :
    lsmlComparisonLoss M quads = (quads.map (lossTerm M)).sum := by
  unfold lsmlComparisonLoss
  have gen : ∀ (l : List (Vec ℝ d × Vec ℝ d × ℝ)) (c : ℝ),
      l.foldl (fun acc (q : Vec ℝ d × Vec ℝ d × ℝ) =>
        if quadForm M q.2.1 < quadForm M q.1 then
          acc + q.2.2 * ((ScalarT.sqrt (quadForm M q.1) - ScalarT.sqrt (quadForm M q.2.1)) *
            (ScalarT.sqrt (quadForm M q.1) - ScalarT.sqrt (quadForm M q.2.1))) else acc) c
        = c + (l.map (lossTerm M)).sum := by
    intro l
    induction l with
    | nil => intro c; simp
    | cons q t ih =>
      intro c
      simp only [List.foldl_cons, List.map_cons, List.sum_cons]
      rw [ih]
      unfold lossTerm
      split <;> (try simp only [sqrt_real]) <;> ring
  have := gen quads 0
  simp only [zero_add] at this
  exact this

noncomputable def gradTerm (M : Mat ℝ d d) (a b : Fin d) (q : Vec ℝ d × Vec ℝ d × ℝ) : ℝ :=
  if quadForm M q.2.1 < quadForm M q.1 then
    q.2.2 * ((1 - Real.sqrt (quadForm M q.2.1 / quadForm M q.1)) * (q.1 a * q.1 b) +
             (if 0 < quadForm M q.2.1 then
               (1 - Real.sqrt (quadForm M q.1 / quadForm M q.2.1)) * (q.2.1 a * q.2.1 b) else 0))
  else 0

/-- `C12_grad_form`: the code's gradient is `M₀⁻¹ − M⁻¹` plus one documented term per violated constraint -/
theorem C12_grad_form (M P Minv : Mat ℝ d d) (quads : List (Vec ℝ d × Vec ℝ d × ℝ)) (a b : Fin d) :
    lsmlGradient M P Minv quads a b = (P a b - Minv a b) + (quads.map (gradTerm M a b)).sum := by
  unfold lsmlGradient
  have gen : ∀ (l : List (Vec ℝ d × Vec ℝ d × ℝ)) (c : ℝ),
      l.foldl (fun acc (q : Vec ℝ d × Vec ℝ d × ℝ) =>
        if quadForm M q.2.1 < quadForm M q.1 then
          acc + q.2.2 * ((1 - ScalarT.sqrt (quadForm M q.2.1 / quadForm M q.1)) * (q.1 a * q.1 b) +
            (if 0 < quadForm M q.2.1 then
              (1 - ScalarT.sqrt (quadForm M q.1 / quadForm M q.2.1)) * (q.2.1 a * q.2.1 b) else 0)) else acc) c
        = c + (l.map (gradTerm M a b)).sum := by
    intro l
    induction l with
    | nil => intro c; simp
    | cons q t ih =>
      intro c
      simp only [List.foldl_cons, List.map_cons, List.sum_cons]
      rw [ih]
      unfold gradTerm
      split <;> (try simp only [sqrt_real]) <;> ring
  exact gen quads _

/-- **if all quadruplet constraints already hold under the prior the gradient at the prior vanishes**
(so the prior is returned, by `C12_stops_when_stationary`) -/
theorem C12_prior_fixed (M0 P : Mat ℝ d d) (quads : List (Vec ℝ d × Vec ℝ d × ℝ))
    (hfeas : ∀ q ∈ quads, quadForm M0 q.1 ≤ quadForm M0 q.2.1) (a b : Fin d) :
    lsmlGradient M0 P P quads a b = 0 := by
  rw [C12_grad_form]
  have : (quads.map (gradTerm M0 a b)).sum = 0 := by
    apply List.sum_eq_zero
    intro x hx
    obtain ⟨q, hq, rfl⟩ := List.mem_map.mp hx
    unfold gradTerm
    rw [if_neg (not_lt.mpr (hfeas q hq))]
  rw [this]; ring

/-- **constraint weights scale each constraint's influence in both the objective and the search
direction**: multiplying the weight of a constraint by `c` multiplies its term of the loss and of the
gradient by `c` -/
theorem C12_weight_scaling (M : Mat ℝ d d) (vab vcd : Vec ℝ d) (w c : ℝ) (a b : Fin d) :
    lossTerm M (vab, vcd, c * w) = c * lossTerm M (vab, vcd, w) ∧
    gradTerm M a b (vab, vcd, c * w) = c * gradTerm M a b (vab, vcd, w) := by
  unfold lossTerm gradTerm
  constructor <;> (split <;> ring)

/-- normalising the weights makes any common positive factor immaterial -/
theorem C12_weights_scale_invariant (w : List ℝ) (c : ℝ) (hc : c ≠ 0) (hs : w.sum ≠ 0) :
    normalizeWeights (w.map (c * ·)) = normalizeWeights w := by
  unfold normalizeWeights
  have hsum : ∀ l : List ℝ, l.foldl (· + ·) 0 = l.sum := by
    intro l; rw [List.sum_eq_foldl]
  simp only [hsum, List.map_map]
  have : (w.map (c * ·)).sum = c * w.sum := by
    rw [List.sum_map_mul_left]; simp
  rw [this]
  apply List.map_congr_left
  intro x _
  simp only [Function.comp]
  field_simp

/-! ## positive definiteness by flooring -/

/-- `V · max(w, 1e-8) · Vᵀ` is positive definite for an orthogonal `V`, whatever the spectrum -/
theorem C12_pd (V : Mat ℝ d d) (w : Vec ℝ d) (hV : Matrix.of V * (Matrix.of V)ᵀ = 1)
    (x : Vec ℝ d) (hx : x ≠ 0) : 0 < quadForm (lsmlFloor V w) x := by
  set m : Vec ℝ d := fun i => smax (w i) (lit 1 100000000) with hm
  have hmpos : ∀ i, 0 < m i := by
    intro i; simp only [hm, smax_real, lit_real]
    exact lt_of_lt_of_le (by norm_num) (le_max_right _ _)
  have form : quadForm (lsmlFloor V w) x = ∑ i, m i * (∑ a, V a i * x a) ^ 2 := quadForm_spectral V m x
  rw [form]
  -- Vᵀx ≠ 0 because V Vᵀ = 1
  have hne : ∃ i, (∑ a, V a i * x a) ≠ 0 := by
    by_contra hall
    push Not at hall
    apply hx
    have hz : Matrix.vecMul x (Matrix.of V) = 0 := by
      funext i; simp only [Matrix.vecMul, dotProduct, Matrix.of_apply, Pi.zero_apply]
      rw [← hall i]; apply Finset.sum_congr rfl; intro a _; ring
    have : x = Matrix.vecMul (Matrix.vecMul x (Matrix.of V)) (Matrix.of V)ᵀ := by
      rw [Matrix.vecMul_vecMul, hV, Matrix.vecMul_one]
    rw [this, hz, Matrix.zero_vecMul]
  obtain ⟨i0, hi0⟩ := hne
  have hpos : ∀ i, 0 ≤ m i * (∑ a, V a i * x a) ^ 2 := fun i => mul_nonneg (hmpos i).le (sq_nonneg _)
  have hi : 0 < m i0 * (∑ a, V a i0 * x a) ^ 2 := mul_pos (hmpos i0) (by positivity)
  calc 0 < m i0 * (∑ a, V a i0 * x a) ^ 2 := hi
    _ ≤ ∑ i, m i * (∑ a, V a i * x a) ^ 2 :=
        Finset.single_le_sum (fun i _ => hpos i) (Finset.mem_univ i0)

/-! ## convexity: the objective lies above its tangent planes, so stationary points are global minimisers -/

/-- first-order (supporting-hyperplane) inequality of the one-sided squared difference of square roots,
in the variables `a = √x`, `b = √y` of the expansion point -/
theorem hinge_first_order_ab (a b x' y' : ℝ) (ha : 0 < a) (hb : 0 < b) (hab : b < a) (hx' : 0 ≤ x') (hy' : 0 ≤ y') :
    (1 - b / a) * x' + (1 - a / b) * y' ≤ (if y' < x' then (Real.sqrt x' - Real.sqrt y') ^ 2 else 0) := by
  have hs : 0 < b / a := div_pos hb ha
  have hinv : a / b = (b / a)⁻¹ := by rw [inv_div]
  set s := b / a with hsdef
  have hs1 : s < 1 := by rw [hsdef, div_lt_one ha]; exact hab
  split
  · -- AM–GM
    have hsx := Real.sq_sqrt hx'
    have hsy := Real.sq_sqrt hy'
    have hsqs := Real.sq_sqrt hs.le
    have key : 0 ≤ (Real.sqrt s * Real.sqrt x' - (Real.sqrt s)⁻¹ * Real.sqrt y') ^ 2 := sq_nonneg _
    have hss : 0 < Real.sqrt s := Real.sqrt_pos.mpr hs
    have e : (Real.sqrt s * Real.sqrt x' - (Real.sqrt s)⁻¹ * Real.sqrt y') ^ 2
        = s * x' + s⁻¹ * y' - 2 * (Real.sqrt x' * Real.sqrt y') := by
      have h1 : (Real.sqrt s)⁻¹ ^ 2 = s⁻¹ := by rw [inv_pow, hsqs]
      have h2 : Real.sqrt s * (Real.sqrt s)⁻¹ = 1 := mul_inv_cancel₀ hss.ne'
      calc (Real.sqrt s * Real.sqrt x' - (Real.sqrt s)⁻¹ * Real.sqrt y') ^ 2
          = (Real.sqrt s) ^ 2 * (Real.sqrt x') ^ 2 + (Real.sqrt s)⁻¹ ^ 2 * (Real.sqrt y') ^ 2
            - 2 * (Real.sqrt s * (Real.sqrt s)⁻¹) * (Real.sqrt x' * Real.sqrt y') := by ring
        _ = s * x' + s⁻¹ * y' - 2 * (Real.sqrt x' * Real.sqrt y') := by rw [hsqs, hsx, hsy, h1, h2]; ring
    rw [e] at key
    rw [hinv]
    have : (Real.sqrt x' - Real.sqrt y') ^ 2 = x' + y' - 2 * (Real.sqrt x' * Real.sqrt y') := by
      calc (Real.sqrt x' - Real.sqrt y') ^ 2 = (Real.sqrt x') ^ 2 + (Real.sqrt y') ^ 2 - 2 * (Real.sqrt x' * Real.sqrt y') := by ring
        _ = _ := by rw [hsx, hsy]
    rw [this]; linarith
  · rename_i hle
    have hle' : x' ≤ y' := not_lt.mp hle
    rw [hinv]
    have h2 : 2 ≤ s + s⁻¹ := by
      have : 0 ≤ (s - 1) ^ 2 := sq_nonneg _
      have hne : s ≠ 0 := hs.ne'
      have : s + s⁻¹ - 2 = (s - 1) ^ 2 / s := by field_simp; ring
      have hq : 0 ≤ (s - 1) ^ 2 / s := div_nonneg (sq_nonneg _) hs.le
      linarith
    have h1 : (1 - s) * x' ≤ (1 - s) * y' := mul_le_mul_of_nonneg_left hle' (by linarith)
    nlinarith

theorem frob_outer_sub (M N : Mat ℝ d d) (v : Vec ℝ d) (c : ℝ) :
    ∑ a, ∑ b, (c * (v a * v b)) * (N a b - M a b) = c * (quadForm N v - quadForm M v) := by
  simp only [quadForm, vsum_eq_sum, Finset.mul_sum, ← Finset.sum_sub_distrib]
  apply Finset.sum_congr rfl; intro a _
  apply Finset.sum_congr rfl; intro b _
  ring

theorem lossTerm_nonneg (N : Mat ℝ d d) (q : Vec ℝ d × Vec ℝ d × ℝ) (hw : 0 ≤ q.2.2) : 0 ≤ lossTerm N q := by
  unfold lossTerm; split
  · exact mul_nonneg hw (mul_self_nonneg _)
  · exact le_refl _

/-- one constraint: its loss lies above the tangent plane taken at `M` -/
theorem term_first_order (M N : Mat ℝ d d) (q : Vec ℝ d × Vec ℝ d × ℝ) (hw : 0 ≤ q.2.2)
    (hy : 0 < quadForm M q.2.1) (hx' : 0 ≤ quadForm N q.1) (hy' : 0 ≤ quadForm N q.2.1) :
    lossTerm M q + ∑ a, ∑ b, gradTerm M a b q * (N a b - M a b) ≤ lossTerm N q := by
  by_cases hact : quadForm M q.2.1 < quadForm M q.1
  · set x := quadForm M q.1 with hxdef
    set y := quadForm M q.2.1 with hydef
    have hx : 0 < x := lt_trans hy hact
    have hgrad : ∀ a b, gradTerm M a b q = q.2.2 * (1 - Real.sqrt (y / x)) * (q.1 a * q.1 b)
        + q.2.2 * (1 - Real.sqrt (x / y)) * (q.2.1 a * q.2.1 b) := by
      intro a b; unfold gradTerm; rw [if_pos hact, if_pos hy]; ring
    have hsum : ∑ a, ∑ b, gradTerm M a b q * (N a b - M a b)
        = q.2.2 * (1 - Real.sqrt (y / x)) * (quadForm N q.1 - x) + q.2.2 * (1 - Real.sqrt (x / y)) * (quadForm N q.2.1 - y) := by
      simp only [hgrad, add_mul, Finset.sum_add_distrib]
      rw [frob_outer_sub M N q.1, frob_outer_sub M N q.2.1]
    rw [hsum]
    set a := Real.sqrt x with hadef
    set b := Real.sqrt y with hbdef
    have ha : 0 < a := Real.sqrt_pos.mpr hx
    have hb : 0 < b := Real.sqrt_pos.mpr hy
    have hab : b < a := Real.sqrt_lt_sqrt hy.le hact
    have hxa : x = a ^ 2 := (Real.sq_sqrt hx.le).symm
    have hyb : y = b ^ 2 := (Real.sq_sqrt hy.le).symm
    have h1 : Real.sqrt (y / x) = b / a := by rw [Real.sqrt_div hy.le]
    have h2 : Real.sqrt (x / y) = a / b := by rw [Real.sqrt_div hx.le]
    have hL : lossTerm M q = q.2.2 * ((a - b) * (a - b)) := by unfold lossTerm; rw [if_pos hact]
    have hN : lossTerm N q = q.2.2 * (if quadForm N q.2.1 < quadForm N q.1 then
        (Real.sqrt (quadForm N q.1) - Real.sqrt (quadForm N q.2.1)) ^ 2 else 0) := by
      unfold lossTerm; split <;> ring
    rw [hL, hN, h1, h2]
    have key := hinge_first_order_ab a b (quadForm N q.1) (quadForm N q.2.1) ha hb hab hx' hy'
    have ident : (a - b) * (a - b) + (1 - b / a) * (quadForm N q.1 - x) + (1 - a / b) * (quadForm N q.2.1 - y)
        = (1 - b / a) * quadForm N q.1 + (1 - a / b) * quadForm N q.2.1 := by
      rw [hxa, hyb]; field_simp; ring
    calc q.2.2 * ((a - b) * (a - b)) + (q.2.2 * (1 - b / a) * (quadForm N q.1 - x) + q.2.2 * (1 - a / b) * (quadForm N q.2.1 - y))
        = q.2.2 * ((a - b) * (a - b) + (1 - b / a) * (quadForm N q.1 - x) + (1 - a / b) * (quadForm N q.2.1 - y)) := by ring
      _ = q.2.2 * ((1 - b / a) * quadForm N q.1 + (1 - a / b) * quadForm N q.2.1) := by rw [ident]
      _ ≤ _ := mul_le_mul_of_nonneg_left key hw
  · have hL : lossTerm M q = 0 := by unfold lossTerm; rw [if_neg hact]
    have hg : ∀ a b, gradTerm M a b q = 0 := by intro a b; unfold gradTerm; rw [if_neg hact]
    simp only [hL, hg, zero_mul, Finset.sum_const_zero, add_zero]
    exact lossTerm_nonneg N q hw

/-- one constraint whose second pair is a single point (`v_cd = 0`): its loss `w·[d_ab]` is linear in the metric and
coincides with its tangent plane -/
theorem term_first_order_collapsed (M N : Mat ℝ d d) (q : Vec ℝ d × Vec ℝ d × ℝ) (hw : 0 ≤ q.2.2)
    (hz : q.2.1 = 0) (hx : 0 ≤ quadForm M q.1) (hx' : 0 ≤ quadForm N q.1) :
    lossTerm M q + ∑ a, ∑ b, gradTerm M a b q * (N a b - M a b) ≤ lossTerm N q := by
  have hzero : ∀ A : Mat ℝ d d, quadForm A q.2.1 = 0 := by
    intro A; rw [hz]; simp [quadForm, vsum_eq_sum]
  have hN : lossTerm N q = q.2.2 * quadForm N q.1 := by
    unfold lossTerm; rw [hzero N]
    split
    · simp only [sqrt_real, Real.sqrt_zero, sub_zero]; rw [Real.mul_self_sqrt hx']
    · rename_i h; have : quadForm N q.1 = 0 := le_antisymm (not_lt.mp h) hx'
      rw [this, mul_zero]
  by_cases hact : 0 < quadForm M q.1
  · have hL : lossTerm M q = q.2.2 * quadForm M q.1 := by
      unfold lossTerm; rw [hzero M, if_pos hact]
      simp only [sqrt_real, Real.sqrt_zero, sub_zero]; rw [Real.mul_self_sqrt hx]
    have hgrad : ∀ a b, gradTerm M a b q = q.2.2 * (q.1 a * q.1 b) := by
      intro a b; unfold gradTerm; rw [hzero M, if_pos hact, if_neg (lt_irrefl _)]; simp
    have hsum : ∑ a, ∑ b, gradTerm M a b q * (N a b - M a b) = q.2.2 * (quadForm N q.1 - quadForm M q.1) := by
      simp only [hgrad]; exact frob_outer_sub M N q.1 q.2.2
    rw [hL, hN, hsum]; linarith
  · have hL : lossTerm M q = 0 := by unfold lossTerm; rw [hzero M, if_neg hact]
    have hg : ∀ a b, gradTerm M a b q = 0 := by intro a b; unfold gradTerm; rw [hzero M, if_neg hact]
    simp only [hL, hg, zero_mul, Finset.sum_const_zero, add_zero]
    exact lossTerm_nonneg N q hw

theorem sum_list_swap (quads : List (Vec ℝ d × Vec ℝ d × ℝ)) (g : Fin d → Fin d → (Vec ℝ d × Vec ℝ d × ℝ) → ℝ) (D : Mat ℝ d d) :
    ∑ a, ∑ b, (quads.map (g a b)).sum * D a b = (quads.map fun q => ∑ a, ∑ b, g a b q * D a b).sum := by
  induction quads with
  | nil => simp
  | cons q t ih =>
    simp only [List.map_cons, List.sum_cons, add_mul, Finset.sum_add_distrib, ih]

theorem list_sum_map_add (l : List (Vec ℝ d × Vec ℝ d × ℝ)) (f g : (Vec ℝ d × Vec ℝ d × ℝ) → ℝ) :
    (l.map fun q => f q + g q).sum = (l.map f).sum + (l.map g).sum := by
  induction l with
  | nil => simp
  | cons q t ih => simp only [List.map_cons, List.sum_cons, ih]; ring

theorem list_sum_le_sum (l : List (Vec ℝ d × Vec ℝ d × ℝ)) (f g : (Vec ℝ d × Vec ℝ d × ℝ) → ℝ) (h : ∀ q ∈ l, f q ≤ g q) :
    (l.map f).sum ≤ (l.map g).sum := by
  induction l with
  | nil => simp
  | cons q t ih =>
    simp only [List.map_cons, List.sum_cons]
    exact add_le_add (h q List.mem_cons_self) (ih fun q' hq' => h q' (List.mem_cons_of_mem _ hq'))

/-- **first-order inequality of LSML's objective**: for `M, N ≻ 0` the documented objective at `N` lies above
its tangent plane at `M` built from the very gradient the solver computes — the objective is convex, for
non-negative weights (comparisons whose second pair is a single point included: their term is linear) -/
theorem C12_first_order (M N P Minv : Mat ℝ d d) (quads : List (Vec ℝ d × Vec ℝ d × ℝ))
    (hM : (Matrix.of M).PosDef) (hN : (Matrix.of N).PosDef) (hinv : Matrix.of M * Matrix.of Minv = 1)
    (hw : ∀ q ∈ quads, 0 ≤ q.2.2) :
    lsmlLoss M P (Real.log (Matrix.of M).det) quads
      + ∑ a, ∑ b, lsmlGradient M P Minv quads a b * (N a b - M a b)
      ≤ lsmlLoss N P (Real.log (Matrix.of N).det) quads := by
  have hMs : ∀ a b, M a b = M b a := fun a b => by
    have := congrFun (congrFun hM.isHermitian b) a; simpa using this
  have hNs : ∀ a b, N a b = N b a := fun a b => by
    have := congrFun (congrFun hN.isHermitian b) a; simpa using this
  have hqM : ∀ v : Vec ℝ d, v ≠ 0 → 0 < quadForm M v := by
    intro v hv; rw [quadForm_eq]; exact hM.dotProduct_mulVec_pos hv
  have hqN : ∀ v : Vec ℝ d, 0 ≤ quadForm N v := by
    intro v; rw [quadForm_eq]; exact hN.posSemidef.dotProduct_mulVec_nonneg v
  have hqM0 : ∀ v : Vec ℝ d, 0 ≤ quadForm M v := by
    intro v; rw [quadForm_eq]; exact hM.posSemidef.dotProduct_mulVec_nonneg v
  -- the constraint part (a comparison whose second pair is a single point is linear in the metric)
  have hone : ∀ q ∈ quads, lossTerm M q + ∑ a, ∑ b, gradTerm M a b q * (N a b - M a b) ≤ lossTerm N q := by
    intro q hq
    by_cases hz : q.2.1 = 0
    · exact term_first_order_collapsed M N q (hw q hq) hz (hqM0 q.1) (hqN q.1)
    · exact term_first_order M N q (hw q hq) (hqM q.2.1 hz) (hqN q.1) (hqN q.2.1)
  have hterms : (quads.map fun q => lossTerm M q + ∑ a, ∑ b, gradTerm M a b q * (N a b - M a b)).sum
      ≤ (quads.map (lossTerm N)).sum := list_sum_le_sum quads _ _ hone
  have hsplit : (quads.map fun q => lossTerm M q + ∑ a, ∑ b, gradTerm M a b q * (N a b - M a b)).sum
      = (quads.map (lossTerm M)).sum + (quads.map fun q => ∑ a, ∑ b, gradTerm M a b q * (N a b - M a b)).sum :=
    list_sum_map_add quads _ _
  -- the LogDet part
  set W := Matrix.of Minv with hW
  have hWinv : (Matrix.of M)⁻¹ = W := Matrix.inv_eq_right_inv hinv
  have hWpd : W.PosDef := hWinv ▸ hM.inv
  have hdet : (Matrix.of M).det * W.det = 1 := by rw [← Matrix.det_mul, hinv, Matrix.det_one]
  have hlogW : Real.log W.det = - Real.log (Matrix.of M).det := by
    have hd := hM.det_pos
    have : W.det = ((Matrix.of M).det)⁻¹ := by field_simp; linarith [hdet]
    rw [this, Real.log_inv]
  have hld := log_det_pd_le W (Matrix.of N) hWpd hN
  have htrN : (W * Matrix.of N).trace = ∑ a, ∑ b, Minv a b * N a b := by
    simp only [Matrix.trace, Matrix.diag, Matrix.mul_apply, Matrix.of_apply, hW]
    apply Finset.sum_congr rfl; intro a _
    apply Finset.sum_congr rfl; intro b _
    rw [hNs b a]
  have hWM : W * Matrix.of M = 1 := mul_eq_one_comm.mp hinv
  have htrM : ∑ a, ∑ b, Minv a b * M a b = d := by
    have : (W * Matrix.of M).trace = ∑ a, ∑ b, Minv a b * M a b := by
      simp only [Matrix.trace, Matrix.diag, Matrix.mul_apply, Matrix.of_apply, hW]
      apply Finset.sum_congr rfl; intro a _
      apply Finset.sum_congr rfl; intro b _
      rw [hMs b a]
    rw [← this, hWM]; simp
  -- assemble
  simp only [lsmlLoss, lsmlComparisonLoss_eq_sum]
  have hG : ∑ a, ∑ b, lsmlGradient M P Minv quads a b * (N a b - M a b)
      = ∑ a, ∑ b, (P a b - Minv a b) * (N a b - M a b)
        + (quads.map fun q => ∑ a, ∑ b, gradTerm M a b q * (N a b - M a b)).sum := by
    simp only [C12_grad_form, add_mul, Finset.sum_add_distrib]
    rw [sum_list_swap]
  rw [hG]
  have hP : ∑ a, ∑ b, (P a b - Minv a b) * (N a b - M a b)
      = (frob N P - frob M P) - (∑ a, ∑ b, Minv a b * N a b - ∑ a, ∑ b, Minv a b * M a b) := by
    simp only [frob, vsum_eq_sum, ← Finset.sum_sub_distrib]
    apply Finset.sum_congr rfl; intro a _
    apply Finset.sum_congr rfl; intro b _
    ring
  rw [hP, htrM, ← htrN]
  rw [hsplit] at hterms
  linarith

/-- **a stationary point is the global minimiser** (over all positive definite matrices) -/
theorem C12_stationary_global (M N P Minv : Mat ℝ d d) (quads : List (Vec ℝ d × Vec ℝ d × ℝ))
    (hM : (Matrix.of M).PosDef) (hN : (Matrix.of N).PosDef) (hinv : Matrix.of M * Matrix.of Minv = 1)
    (hw : ∀ q ∈ quads, 0 ≤ q.2.2)
    (hstat : ∀ a b, lsmlGradient M P Minv quads a b = 0) :
    lsmlLoss M P (Real.log (Matrix.of M).det) quads ≤ lsmlLoss N P (Real.log (Matrix.of N).det) quads := by
  have := C12_first_order M N P Minv quads hM hN hinv hw
  simp only [hstat, zero_mul, Finset.sum_const_zero, add_zero] at this
  exact this

/-- **stopping with gradient norm below `tol`** (the solver's early-exit test, Frobenius norm): the result is
within `tol · ‖N − M‖_F` of the objective at any positive definite `N` -/
theorem C12_tol_suboptimal (M N P Minv : Mat ℝ d d) (quads : List (Vec ℝ d × Vec ℝ d × ℝ)) (tol : ℝ)
    (hM : (Matrix.of M).PosDef) (hN : (Matrix.of N).PosDef) (hinv : Matrix.of M * Matrix.of Minv = 1)
    (hw : ∀ q ∈ quads, 0 ≤ q.2.2)
    (hgrad : Real.sqrt (∑ a, ∑ b, lsmlGradient M P Minv quads a b ^ 2) ≤ tol) :
    lsmlLoss M P (Real.log (Matrix.of M).det) quads - lsmlLoss N P (Real.log (Matrix.of N).det) quads
      ≤ tol * Real.sqrt (∑ a, ∑ b, (N a b - M a b) ^ 2) := by
  have h1 := C12_first_order M N P Minv quads hM hN hinv hw
  set G := lsmlGradient M P Minv quads
  -- Cauchy–Schwarz on the index set Fin d × Fin d
  have hcs := Finset.sum_mul_sq_le_sq_mul_sq (Finset.univ : Finset (Fin d × Fin d))
    (fun p => G p.1 p.2) (fun p => N p.1 p.2 - M p.1 p.2)
  simp only [← Finset.univ_product_univ, Finset.sum_product] at hcs
  set S := ∑ a, ∑ b, G a b * (N a b - M a b) with hS
  set g2 := ∑ a, ∑ b, G a b ^ 2
  set d2 := ∑ a, ∑ b, (N a b - M a b) ^ 2
  have hg2 : 0 ≤ g2 := Finset.sum_nonneg fun a _ => Finset.sum_nonneg fun b _ => sq_nonneg _
  have hd2 : 0 ≤ d2 := Finset.sum_nonneg fun a _ => Finset.sum_nonneg fun b _ => sq_nonneg _
  have habs : |S| ≤ Real.sqrt g2 * Real.sqrt d2 := by
    rw [← Real.sqrt_mul hg2, ← Real.sqrt_sq_eq_abs]
    exact Real.sqrt_le_sqrt hcs
  have hlow : -(Real.sqrt g2 * Real.sqrt d2) ≤ S := by
    have := neg_abs_le S; linarith
  have htol : Real.sqrt g2 * Real.sqrt d2 ≤ tol * Real.sqrt d2 :=
    mul_le_mul_of_nonneg_right hgrad (Real.sqrt_nonneg _)
  linarith
