import MLProps.Bridge
/-!
# C01 — the learned distance is a finite pseudo-metric

Theorems over ℝ for the model `ML.pairDistance`, `ML.metricFun`, `ML.pairScore`
(base_metric.py: `pair_distance`, `get_metric`, `pair_score`), for every `k d` and every
`L : k × d` (rank-deficient and `k < d` included: nothing is assumed about `L`).
"Finite" over ℝ is the explicit bound `C01_bound`; binary64 finiteness is checked on the
implementation by the harness.
-/
open ML

variable {k d : ℕ}

theorem C01_nonneg (L : Mat ℝ k d) (x y : Vec ℝ d) : 0 ≤ pairDistance L x y := by
  rw [pairDistance_eq]; exact Real.sqrt_nonneg _

theorem C01_self_zero (L : Mat ℝ k d) (x : Vec ℝ d) : pairDistance L x x = 0 := by
  rw [pairDistance_eq]; simp

theorem C01_symm (L : Mat ℝ k d) (x y : Vec ℝ d) : pairDistance L x y = pairDistance L y x := by
  rw [pairDistance_eq, pairDistance_eq]
  congr 1
  apply Finset.sum_congr rfl; intro i _
  have : ∑ j, L i j * (y j - x j) = - ∑ j, L i j * (x j - y j) := by
    rw [← Finset.sum_neg_distrib]; apply Finset.sum_congr rfl; intro j _; ring
  rw [this]; ring

theorem C01_triangle (L : Mat ℝ k d) (x y z : Vec ℝ d) :
    pairDistance L x z ≤ pairDistance L x y + pairDistance L y z := by
  simp only [pairDistance_eq_norm]
  have : z - x = (y - x) + (z - y) := by abel
  rw [this, Matrix.mulVec_add, WithLp.toLp_add]
  exact norm_add_le _ _

theorem C01_score_eq_neg (L : Mat ℝ k d) (x y : Vec ℝ d) : pairScore L x y = - pairDistance L x y := rfl

/-- the `get_metric()` closure computes the same number as `pair_distance` -/
theorem C01_metric_eq_pair (L : Mat ℝ k d) (u v : Vec ℝ d) :
    metricFun L u v false = pairDistance L v u := by
  simp only [metricFun, pairDistance, dot, sumSq, Bool.false_eq_true, if_false, transform]

theorem C01_metric_nonneg (L : Mat ℝ k d) (u v : Vec ℝ d) : 0 ≤ metricFun L u v false := by
  rw [C01_metric_eq_pair]; exact C01_nonneg _ _ _

theorem C01_metric_self_zero (L : Mat ℝ k d) (u : Vec ℝ d) : metricFun L u u false = 0 := by
  rw [C01_metric_eq_pair]; exact C01_self_zero _ _

theorem C01_metric_symm (L : Mat ℝ k d) (u v : Vec ℝ d) : metricFun L u v false = metricFun L v u false := by
  rw [C01_metric_eq_pair, C01_metric_eq_pair]; exact C01_symm _ _ _

theorem C01_metric_triangle (L : Mat ℝ k d) (u v w : Vec ℝ d) :
    metricFun L u w false ≤ metricFun L u v false + metricFun L v w false := by
  simp only [C01_metric_eq_pair]
  rw [C01_symm L w u, C01_symm L v u, C01_symm L w v]
  exact C01_triangle L u v w

/-- "finite" over ℝ: the distance is bounded by the Frobenius norm of `L` times the Euclidean
length of the difference (Cauchy–Schwarz). -/
theorem C01_bound (L : Mat ℝ k d) (x y : Vec ℝ d) :
    pairDistance L x y ≤ Real.sqrt (∑ i, ∑ j, (L i j)^2) * Real.sqrt (∑ j, (y j - x j)^2) := by
  rw [pairDistance_eq, ← Real.sqrt_mul (Finset.sum_nonneg fun i _ => Finset.sum_nonneg fun j _ => sq_nonneg _)]
  apply Real.sqrt_le_sqrt
  rw [Finset.sum_mul]
  apply Finset.sum_le_sum; intro i _
  exact Finset.sum_mul_sq_le_sq_mul_sq Finset.univ (L i) (fun j => y j - x j)

/-! non-vacuity: a concrete rank-deficient `L` with `k < d`, where the triangle inequality is tight -/
example : pairDistance (fun (_ : Fin 1) (j : Fin 2) => if j = 0 then (1:ℝ) else 0)
    (fun _ => 0) (fun j => if j = 0 then 3 else 7) = 3 := by
  rw [pairDistance_eq]
  simp [Fin.sum_univ_two]
