import MLModel
import Mathlib.Analysis.InnerProductSpace.PiL2
import Mathlib.Analysis.Real.Sqrt
import Mathlib.Analysis.SpecialFunctions.Log.Basic
import Mathlib.Analysis.SpecialFunctions.Exp
/-!
# Bridge from the executable model to Mathlib

The `ℝ` instance of the scalar classes and the lemmas that rewrite the model's `Fin.foldl` sums
into `Finset.sum`, so that every model definition unfolds to an ordinary Mathlib expression.
-/
open ML

noncomputable instance : Scalar ℝ where
  ofNat := fun n => (n : ℝ)
  below := fun x => x - 1
  decLt := fun _ _ => Classical.propDecidable _
  decLe := fun _ _ => Classical.propDecidable _

noncomputable instance : ScalarT ℝ where
  sqrt := Real.sqrt
  exp := Real.exp
  log := Real.log

namespace ML

theorem vsum_eq_sum {n : Nat} (f : Fin n → ℝ) : vsum f = ∑ i, f i := by
  unfold vsum
  induction n with
  | zero => simp [Fin.foldl_zero]
  | succ n ih =>
    rw [Fin.foldl_succ_last, Fin.sum_univ_castSucc]
    simp only [ih]

@[simp] theorem sqrt_real (x : ℝ) : ScalarT.sqrt x = Real.sqrt x := rfl
@[simp] theorem exp_real (x : ℝ) : ScalarT.exp x = Real.exp x := rfl
@[simp] theorem log_real (x : ℝ) : ScalarT.log x = Real.log x := rfl
@[simp] theorem ofNat_real (n : ℕ) : (Scalar.ofNat n : ℝ) = (n : ℝ) := rfl

theorem lit_real (p q : ℕ) : (lit p q : ℝ) = (p : ℝ) / (q : ℝ) := rfl

theorem smax_real (a b : ℝ) : smax a b = max a b := by
  unfold smax; split
  · rename_i h; exact (max_eq_right (le_of_lt h)).symm
  · rename_i h; exact (max_eq_left (not_lt.mp h)).symm

theorem smin_real (a b : ℝ) : smin a b = min a b := by
  unfold smin; split
  · rename_i h; exact (min_eq_right (le_of_lt h)).symm
  · rename_i h; exact (min_eq_left (not_lt.mp h)).symm

theorem sabs_real (a : ℝ) : sabs a = |a| := by
  unfold sabs; split
  · rename_i h; exact (abs_of_neg h).symm
  · rename_i h; exact (abs_of_nonneg (not_lt.mp h)).symm

theorem transform_apply {k d} (L : Mat ℝ k d) (x : Vec ℝ d) (i : Fin k) :
    transform L x i = ∑ j, L i j * x j := by
  simp only [transform, vecMulT, vsum_eq_sum]
  exact Finset.sum_congr rfl fun j _ => mul_comm _ _

theorem transform_eq_mulVec {k d} (L : Mat ℝ k d) (x : Vec ℝ d) :
    transform L x = Matrix.mulVec (Matrix.of L) x := by
  funext i; rw [transform_apply]; simp [Matrix.mulVec, dotProduct]

theorem pairDistance_eq {k d} (L : Mat ℝ k d) (x y : Vec ℝ d) :
    pairDistance L x y = Real.sqrt (∑ i, (∑ j, L i j * (y j - x j))^2) := by
  simp only [pairDistance, sumSq, vsum_eq_sum, sqrt_real, transform_apply, vsub, pow_two]

theorem pairDistance_eq_norm {k d} (L : Mat ℝ k d) (x y : Vec ℝ d) :
    pairDistance L x y =
      ‖(WithLp.toLp 2 (Matrix.mulVec (Matrix.of L) (y - x)) : EuclideanSpace ℝ (Fin k))‖ := by
  rw [pairDistance_eq, EuclideanSpace.norm_eq]
  congr 1
  apply Finset.sum_congr rfl; intro i _
  simp [Matrix.mulVec, dotProduct]

theorem mahalanobis_eq {k d} (L : Mat ℝ k d) :
    Matrix.of (mahalanobis L) = (Matrix.of L).transpose * Matrix.of L := by
  ext a b
  simp [mahalanobis, vsum_eq_sum, Matrix.mul_apply]

theorem quadForm_eq {d} (M : Mat ℝ d d) (v : Vec ℝ d) :
    quadForm M v = v ⬝ᵥ (Matrix.mulVec (Matrix.of M) v) := by
  simp [quadForm, vsum_eq_sum, dotProduct, Matrix.mulVec]

/-- spectral quadratic form: `xᵀ (V diag(m) Vᵀ) x = Σ_i m_i (Σ_a V_ai x_a)²` -/
theorem quadForm_spectral {d} (V : Mat ℝ d d) (m : Vec ℝ d) (x : Vec ℝ d) :
    quadForm (fun a b => vsum fun i => V a i * m i * V b i) x = ∑ i, m i * (∑ a, V a i * x a) ^ 2 := by
  have inner : ∀ a, (∑ b, (∑ i, V a i * m i * V b i) * x b) = ∑ i, V a i * m i * (∑ b, V b i * x b) := by
    intro a
    simp only [Finset.sum_mul, Finset.mul_sum]
    rw [Finset.sum_comm]
    apply Finset.sum_congr rfl; intro i _; apply Finset.sum_congr rfl; intro b _; ring
  simp only [quadForm, vsum_eq_sum, inner]
  simp only [Finset.mul_sum]
  rw [Finset.sum_comm]
  apply Finset.sum_congr rfl; intro i _
  rw [pow_two, Finset.sum_mul_sum, Finset.mul_sum]
  apply Finset.sum_congr rfl; intro a _
  rw [Finset.mul_sum]
  apply Finset.sum_congr rfl; intro b _; ring

end ML
