import MLProps.Bridge
import MLProps.LogDet
import Mathlib.Analysis.Matrix.Spectrum
import Mathlib.Analysis.Matrix.PosDef
import Mathlib.Algebra.BigOperators.Group.List.Basic
/-!
# C13 — SDML minimises the documented sparse LogDet objective
-/
open ML Matrix

variable {d : ℕ}

theorem sdmlLossMatrix_eq (pairs : List (Vec ℝ d × ℝ)) (a b : Fin d) :
    sdmlLossMatrix pairs a b = (pairs.map fun p => p.2 * (p.1 a * p.1 b)).sum := by
  unfold sdmlLossMatrix
  have gen : ∀ (l : List (Vec ℝ d × ℝ)) (c : ℝ),
      l.foldl (fun acc (p : Vec ℝ d × ℝ) => acc + p.1 a * p.2 * p.1 b) c = c + (l.map fun p => p.2 * (p.1 a * p.1 b)).sum := by
    intro l
    induction l with
    | nil => intro c; simp
    | cons q t ih => intro c; simp only [List.foldl_cons, List.map_cons, List.sum_cons]; rw [ih]; ring
  have := gen pairs 0
  simpa using this

/-- **the input of the graphical lasso is what the documentation says**:
`E = M₀⁻¹ + balance · Σ_i y_i v_i v_iᵀ` -/
theorem C13_emp_form (priorInv : Mat ℝ d d) (balance : ℝ) (pairs : List (Vec ℝ d × ℝ)) (a b : Fin d) :
    sdmlEmpCov priorInv balance pairs a b =
      priorInv a b + balance * (pairs.map fun p => p.2 * (p.1 a * p.1 b)).sum := by
  unfold sdmlEmpCov; rw [sdmlLossMatrix_eq]

/-- `E` is symmetric when the prior is -/
theorem C13_emp_symm (priorInv : Mat ℝ d d) (hP : ∀ a b, priorInv a b = priorInv b a) (balance : ℝ)
    (pairs : List (Vec ℝ d × ℝ)) (a b : Fin d) :
    sdmlEmpCov priorInv balance pairs a b = sdmlEmpCov priorInv balance pairs b a := by
  rw [C13_emp_form, C13_emp_form, hP a b]
  congr 3
  apply List.map_congr_left; intro p _; ring

/-- labels and the balance parameter enter linearly: flipping a pair's label flips its contribution -/
theorem C13_emp_label (priorInv : Mat ℝ d d) (balance : ℝ) (v : Vec ℝ d) (y : ℝ) (rest : List (Vec ℝ d × ℝ)) (a b : Fin d) :
    sdmlEmpCov priorInv balance ((v, -y) :: rest) a b - sdmlEmpCov priorInv balance ((v, y) :: rest) a b =
      -2 * balance * y * (v a * v b) := by
  simp only [C13_emp_form, List.map_cons, List.sum_cons]; ring

/-- **vetting**: any of the three failure signals gives `RuntimeError`; none of them lets the matrix through -/
theorem C13_vetting (raised notSpd notFinite : Bool) :
    (sdmlVet raised notSpd notFinite = .error .runtimeError ↔ (raised = true ∨ notSpd = true ∨ notFinite = true)) ∧
    (sdmlVet raised notSpd notFinite = .ok () ↔ (raised = false ∧ notSpd = false ∧ notFinite = false)) := by
  cases raised <;> cases notSpd <;> cases notFinite <;> simp [sdmlVet]

theorem C13_features (dd : ℕ) : sdmlCheckFeatures dd = .error .valueError ↔ dd < 2 := by
  unfold sdmlCheckFeatures; split <;> simp_all

/-- the penalty is non-negative and the gap is `objective − (d − logdet M)` -/
theorem C13_gap_form (E M : Mat ℝ d d) (logdetM lam : ℝ) :
    sdmlGap E M lam = sdmlObjective E M logdetM lam - ((d : ℝ) - logdetM) := by
  simp only [sdmlGap, sdmlObjective, ofNat_real]; ring

theorem C13_l1_nonneg (M : Mat ℝ d d) : 0 ≤ l1Off M := by
  simp only [l1Off, vsum_eq_sum]
  apply Finset.sum_nonneg; intro a _; apply Finset.sum_nonneg; intro b _
  split
  · exact le_refl _
  · rw [sabs_real]; exact abs_nonneg _

/-- Hölder step of weak duality: if `|E − W|` is bounded by `λ` off the diagonal and vanishes on it,
then `tr(E·N) + λ‖N‖₁,off ≥ tr(W·N)` for every `N` -/
theorem C13_dual_bound (E W N : Mat ℝ d d) (lam : ℝ)
    (hoff : ∀ a b, a ≠ b → |E a b - W a b| ≤ lam) (hdiag : ∀ a, E a a = W a a) :
    frob W N ≤ frob E N + lam * l1Off N := by
  simp only [frob, l1Off, vsum_eq_sum, Finset.mul_sum]
  rw [← Finset.sum_add_distrib]
  apply Finset.sum_le_sum; intro a _
  rw [← Finset.sum_add_distrib]
  apply Finset.sum_le_sum; intro b _
  by_cases hab : a = b
  · subst hab; simp [hdiag a]
  · simp only [hab, if_false, sabs_real]
    have h1 := hoff a b hab
    have : (W a b - E a b) * N a b ≤ lam * |N a b| := by
      calc (W a b - E a b) * N a b ≤ |(W a b - E a b) * N a b| := le_abs_self _
        _ = |E a b - W a b| * |N a b| := by rw [abs_mul, abs_sub_comm]
        _ ≤ lam * |N a b| := mul_le_mul_of_nonneg_right h1 (abs_nonneg _)
    linarith

/-! ## weak duality: the duality gap bounds the sub-optimality (certificate ⇒ near-optimal) -/

theorem frob_eq_trace (A B : Mat ℝ d d) (hB : ∀ a b, B a b = B b a) :
    frob A B = (Matrix.of A * Matrix.of B).trace := by
  simp only [frob, vsum_eq_sum, Matrix.trace, Matrix.diag, Matrix.mul_apply, Matrix.of_apply]
  apply Finset.sum_congr rfl; intro a _
  apply Finset.sum_congr rfl; intro b _
  rw [hB a b]

/-- **weak duality**: let `W = BᵀB` (any invertible `B`, e.g. a Cholesky factor of `M⁻¹`) be dual
feasible — `|E − W| ≤ λ` off the diagonal, equal on it.  Then for every symmetric positive definite
`N` the documented objective satisfies `f(N) ≥ d + log det W`; since `f(M) = (d + log det W) + gap(M)`
for `W = M⁻¹`, the duality gap evaluated by the correspondence check bounds the sub-optimality of `M`. -/
theorem C13_weak_duality (E N : Mat ℝ d d) (B : Matrix (Fin d) (Fin d) ℝ) (lam : ℝ) (hB : IsUnit B.det)
    (hN : (Matrix.of N).PosDef) (hNs : ∀ a b, N a b = N b a)
    (hoff : ∀ a b, a ≠ b → |E a b - (Bᵀ * B) a b| ≤ lam) (hdiag : ∀ a, E a a = (Bᵀ * B) a a) :
    (d : ℝ) + Real.log (Bᵀ * B).det ≤ sdmlObjective E N (Real.log (Matrix.of N).det) lam := by
  have h1 := C13_dual_bound E (fun a b => (Bᵀ * B) a b) N lam hoff hdiag
  have h2 := log_det_mul_le B (Matrix.of N) hB hN
  have h3 : frob (fun a b => (Bᵀ * B) a b) N = ((Bᵀ * B) * Matrix.of N).trace := by
    rw [frob_eq_trace _ N hNs]; rfl
  unfold sdmlObjective
  rw [h3] at h1
  linarith
/-- **the duality gap bounds the sub-optimality.**  Let `M ≻ 0` with inverse `W`, and let `W` be dual
feasible (`|E − W| ≤ λ` off the diagonal, equal on it).  Then for every symmetric `N ≻ 0`
`f(M) − f(N) ≤ gap(M)`, where `f` is the documented objective and `gap` what the correspondence check
evaluates on the learned matrix; in particular a vanishing gap certifies that `M` is a minimiser. -/
theorem C13_suboptimality_le_gap (E M N : Mat ℝ d d) (W : Matrix (Fin d) (Fin d) ℝ) (lam : ℝ)
    (hM : (Matrix.of M).PosDef) (hMW : Matrix.of M * W = 1)
    (hN : (Matrix.of N).PosDef) (hNs : ∀ a b, N a b = N b a)
    (hoff : ∀ a b, a ≠ b → |E a b - W a b| ≤ lam) (hdiag : ∀ a, E a a = W a a) :
    sdmlObjective E M (Real.log (Matrix.of M).det) lam - sdmlObjective E N (Real.log (Matrix.of N).det) lam
      ≤ sdmlGap E M lam := by
  have hWinv : (Matrix.of M)⁻¹ = W := Matrix.inv_eq_right_inv hMW
  have hWpd : W.PosDef := hWinv ▸ hM.inv
  have hdet : (Matrix.of M).det * W.det = 1 := by rw [← Matrix.det_mul, hMW, Matrix.det_one]
  have hlogW : Real.log W.det = - Real.log (Matrix.of M).det := by
    have hd := hM.det_pos
    have : W.det = ((Matrix.of M).det)⁻¹ := by field_simp; linarith [hdet]
    rw [this, Real.log_inv]
  have h1 := C13_dual_bound E (fun a b => W a b) N lam hoff hdiag
  have h2 := log_det_pd_le W (Matrix.of N) hWpd hN
  have h3 : frob (fun a b => W a b) N = (W * Matrix.of N).trace := by
    rw [frob_eq_trace _ N hNs]; rfl
  rw [h3] at h1
  rw [C13_gap_form E M (Real.log (Matrix.of M).det) lam]
  unfold sdmlObjective at *
  linarith

theorem C13_zero_gap_optimal (E M N : Mat ℝ d d) (W : Matrix (Fin d) (Fin d) ℝ) (lam : ℝ)
    (hM : (Matrix.of M).PosDef) (hMW : Matrix.of M * W = 1)
    (hN : (Matrix.of N).PosDef) (hNs : ∀ a b, N a b = N b a)
    (hoff : ∀ a b, a ≠ b → |E a b - W a b| ≤ lam) (hdiag : ∀ a, E a a = W a a)
    (hgap : sdmlGap E M lam ≤ 0) :
    sdmlObjective E M (Real.log (Matrix.of M).det) lam ≤ sdmlObjective E N (Real.log (Matrix.of N).det) lam := by
  have := C13_suboptimality_le_gap E M N W lam hM hMW hN hNs hoff hdiag
  linarith
