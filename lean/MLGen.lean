import MLGen.Tables
import MLGen.Funcs
import MLGen.Decisions
