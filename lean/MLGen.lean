import MLGen.Tables
import MLGen.Funcs
