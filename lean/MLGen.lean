import MLGen.Tables
