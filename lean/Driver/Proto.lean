import MLModel
/-!
# Line protocol

One operation per line, space separated.  Floats travel as decimal `UInt64` bit patterns
(decoded with `Float.ofBits`, or exactly into `Rat`), integers as decimals.
Answers: `ok <values…>` | `err <ErrClass>` | `bad-op <reason>`; never a default value.
-/
open ML

namespace Proto

structure PState where
  toks : Array String
  pos : Nat

abbrev P := StateT PState (Except String)

def next : P String := do
  let s ← get
  if h : s.pos < s.toks.size then
    set { s with pos := s.pos + 1 }
    return s.toks[s.pos]
  else throw "unexpected end of line"

def atEnd : P Bool := do let s ← get; return s.pos ≥ s.toks.size

def nat : P Nat := do
  let t ← next
  match t.toNat? with
  | some n => return n
  | none => throw s!"not a natural number: {t}"

def int : P Int := do
  let t ← next
  match t.toInt? with
  | some n => return n
  | none => throw s!"not an integer: {t}"

def bool : P Bool := do
  let n ← nat
  if n == 0 then return false else if n == 1 then return true else throw "not a boolean"

/-- exact value of a finite binary64 bit pattern -/
def ratOfBits (b : UInt64) : Option Rat :=
  let sign := (b >>> 63) != 0
  let e := ((b >>> 52) &&& 0x7FF).toNat
  let m := (b &&& 0xFFFFFFFFFFFFF).toNat
  if e == 0x7FF then none else
  let mant : Nat := if e == 0 then m else m + 2^52
  let ex : Int := (if e == 0 then 1 else (e : Int)) - 1075
  let mag : Rat := if ex ≥ 0 then ((mant * 2^ex.toNat : Nat) : Rat) else (mant : Rat) / ((2^(-ex).toNat : Nat) : Rat)
  some (if sign then -mag else mag)

class Wire (K : Type) where
  ofBits : UInt64 → Except String K
  render : K → String

instance : Wire Float where
  ofBits b := .ok (Float.ofBits b)
  render x := toString x.toBits

instance : Wire Rat where
  ofBits b := match ratOfBits b with
    | some q => .ok q
    | none => .error "non-finite value has no exact rational"
  render q := s!"{q.num}/{q.den}"

def scalar (K : Type) [Wire K] : P K := do
  let n ← nat
  if n ≥ 2^64 then throw "bit pattern out of range"
  match Wire.ofBits (K := K) n.toUInt64 with
  | .ok x => return x
  | .error e => throw e

def arr (K : Type) [Wire K] (n : Nat) : P (Array K) := do
  let mut a : Array K := Array.mkEmpty n
  for _ in [0:n] do
    a := a.push (← scalar K)
  return a

def natArr (n : Nat) : P (Array Nat) := do
  let mut a : Array Nat := Array.mkEmpty n
  for _ in [0:n] do a := a.push (← nat)
  return a

def intArr (n : Nat) : P (Array Int) := do
  let mut a : Array Int := Array.mkEmpty n
  for _ in [0:n] do a := a.push (← int)
  return a

def renderArr {K} [Wire K] (a : Array K) : String :=
  " ".intercalate (a.toList.map Wire.render)

def finish : P Unit := do
  if !(← atEnd) then throw "trailing tokens"

end Proto
