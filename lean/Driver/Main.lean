import MLModel
import MLGen
import Driver.Proto
open ML Proto

/-- operations on the learned distance (C01, C02); generic in the scalar -/
def opDistance (K : Type) [ScalarT K] [Wire K] (op : String) : P String := do
  let k ← nat; let d ← nat
  let L := Mat.ofArray (← arr K (k*d)) k d
  match op with
  | "dist" => do
      let x := Vec.ofArray (← arr K d) d; let y := Vec.ofArray (← arr K d) d; finish
      return "ok " ++ Wire.render (pairDistance L x y)
  | "score" => do
      let x := Vec.ofArray (← arr K d) d; let y := Vec.ofArray (← arr K d) d; finish
      return "ok " ++ Wire.render (pairScore L x y)
  | "metric" => do
      let sq ← bool
      let x := Vec.ofArray (← arr K d) d; let y := Vec.ofArray (← arr K d) d; finish
      return "ok " ++ Wire.render (metricFun L x y sq)
  | "transform" => do
      let x := Vec.ofArray (← arr K d) d; finish
      return "ok " ++ renderArr (transform L x).toArray
  | "mahal" => do
      finish
      return "ok " ++ renderArr (mahalanobis L).toArray
  | "mahalquad" => do
      let x := Vec.ofArray (← arr K d) d; let y := Vec.ofArray (← arr K d) d; finish
      let Ms := (mahalanobis L).store
      return "ok " ++ Wire.render (quadForm (Mat.ofStore Ms) (vsub y x))
  | "embdist" => do
      let x := Vec.ofArray (← arr K d) d; let y := Vec.ofArray (← arr K d) d; finish
      return "ok " ++ Wire.render (euclid (transform L x) (transform L y))
  | _ => throw s!"unknown op {op}"

def renderInts (l : List Int) : String := " ".intercalate (l.map toString)

def labelsOf (a : Array Int) : Except String (List Bool) :=
  a.toList.mapM fun v => if v == 1 then .ok true else if v == -1 then .ok false else .error "label not in {-1,+1}"

/-- C04 ops on the implementation's own distances -/
def opClassify (K : Type) [Scalar K] [Wire K] (op : String) : P String := do
  match op with
  | "predict_pair" => do
      let n ← nat; let thr ← scalar K; let ds ← arr K n; finish
      return "ok " ++ renderInts (ds.toList.map (predictPair thr))
  | "decision_trip" => do
      let n ← nat; let dab ← arr K n; let dac ← arr K n; finish
      return "ok " ++ renderArr ((dab.zip dac).map fun (a, b) => decisionTriplet a b)
  | "predict_trip" => do
      let n ← nat; let dab ← arr K n; let dac ← arr K n; finish
      return "ok " ++ renderInts ((dab.zip dac).toList.map fun (a, b) => predictTriplet a b)
  | "decision_quad" => do
      let n ← nat; let dab ← arr K n; let dcd ← arr K n; finish
      return "ok " ++ renderArr ((dab.zip dcd).map fun (a, b) => decisionQuad a b)
  | "predict_quad" => do
      let n ← nat; let dab ← arr K n; let dcd ← arr K n; finish
      return "ok " ++ renderInts ((dab.zip dcd).toList.map fun (a, b) => predictQuad a b)
  | "score_frac" => do
      let n ← nat; let ps ← intArr n; finish
      if n == 0 then throw "empty prediction list"
      return "ok " ++ Wire.render (scoreFrac (K := K) ps.toList)
  | "auc" => do
      let n ← nat; let sc ← arr K n; let ls ← intArr n; finish
      match labelsOf ls with
      | .error e => throw e
      | .ok labels =>
        if !(labels.any id) || labels.all id then return "err valueError"
        return "ok " ++ Wire.render (auc sc.toList labels)
  | _ => throw s!"unknown op {op}"

/-- C16: optimum of the specification on the implementation's own validation distances, and the
criterion value / feasibility of the implementation's threshold -/
def opCalib : P String := do
  let strat ← next
  let n ← nat
  let ds ← arr Rat n
  let ls ← intArr n
  let param ← scalar Rat
  let thrImpl ← scalar Rat
  finish
  match labelsOf ls with
  | .error e => throw e
  | .ok labels =>
    let s? : Option (Strategy Rat) := match strat with
      | "accuracy" => some .accuracy
      | "f_beta" => some (.fBeta param)
      | "max_tpr" => some (.maxTpr param)
      | "max_tnr" => some (.maxTnr param)
      | _ => none
    match s? with
    | none => throw "unknown strategy"
    | some s =>
      let dl := ds.toList
      match calibrate s dl labels with
      | none => return "ok none"
      | some b =>
        let opt := s.crit labels (preds dl b)
        let got := s.crit labels (preds dl thrImpl)
        let feas := s.feas labels (preds dl thrImpl)
        return s!"ok {Wire.render opt} {Wire.render got} {if feas then 1 else 0} {Wire.render b}"

/-- C16: the implementation-layer model of the accuracy route (Float twin): chosen scan position and
stored threshold -/
def opCalibCode : P String := do
  let n ← nat
  let ds ← arr Float n
  let ls ← intArr n
  finish
  match labelsOf ls with
  | .error e => throw e
  | .ok labels =>
    let l := ds.toList.zip labels
    let s := sortByDist l
    match argmaxPos (cumCorrect s) (realisablePos s) s.length with
    | none => return "ok none"
    | some b => return s!"ok {b} {Wire.render (thrAtPos s b)} {cumCorrect s b}"

/-- C16: the code's `max_tpr` / `max_tnr` routes (Float twin): position and stored threshold -/
def opCalibRateCode : P String := do
  let which ← next
  let n ← nat
  let ds ← arr Float n
  let ls ← intArr n
  let r ← scalar Float
  finish
  match labelsOf ls with
  | .error e => throw e
  | .ok labels =>
    let l := ds.toList.zip labels
    let res ← match which with
      | "max_tpr" => pure (calibrateTprCode r l)
      | "max_tnr" => pure (calibrateTnrCode r l)
      | _ => throw s!"unknown rate strategy {which}"
    match res with
    | none => return "ok none"
    | some (i, thr) => return s!"ok {i} {Wire.render thr}"

/-- C16: the code's `f_beta` route (Float twin): position and stored threshold -/
def opCalibFbetaCode : P String := do
  let n ← nat
  let ds ← arr Float n
  let ls ← intArr n
  let beta ← scalar Float
  finish
  match labelsOf ls with
  | .error e => throw e
  | .ok labels =>
    match calibrateFbetaCode beta (ds.toList.zip labels) with
    | none => return "ok none"
    | some (i, thr) => return s!"ok {i} {Wire.render thr}"

def opValidateCalib : P String := do
  let strat ← next
  let rd : P (PyNum Rat) := do
    let k ← next
    match k with
    | "none" => return .none
    | "other" => return .other
    | "num" => return .num (← scalar Rat)
    | _ => throw "bad PyNum"
  let mr ← rd; let b ← rd; finish
  return match MLGen.validateCalibrationParams strat mr b with
    | .ok () => "ok accepted"
    | .error _ => "err valueError"

/-- C20 ops (Float twin) -/
def opPsd (op : String) : P String := do
  match op with
  | "sdp_check" => do
      let n ← nat; let w ← arr Float n
      let kind ← next
      let tol ← (if kind == "default" then pure (defaultTol w.toList (Float.ofBits 0x3CB0000000000000)) else scalar Float)
      finish
      return match checkSdpFromEigen w.toList tol with
        | .ok b => s!"ok {if b then 1 else 0}"
        | .error e => s!"err {e.name}"
  | "cfm_eig" => do
      let d ← nat; let V := Mat.ofArray (← arr Float (d*d)) d d; let w := Vec.ofArray (← arr Float d) d; finish
      let Ls := (componentsFromEig V w).store
      return "ok " ++ renderArr (mahalanobis (Mat.ofStore Ls)).toArray
  | "cfm_diag" => do
      let d ← nat; let m := Vec.ofArray (← arr Float d) d; finish
      let Ls := (componentsFromDiag m).store
      return "ok " ++ renderArr (mahalanobis (Mat.ofStore Ls)).toArray
  | "pinv_eig" => do
      let d ← nat; let w := Vec.ofArray (← arr Float d) d; let V := Mat.ofArray (← arr Float (d*d)) d d
      let tol ← scalar Float; finish
      return "ok " ++ renderArr (pseudoInverseFromEig w V tol).toArray
  | "init_metric" => do
      let o ← next; let sh ← bool; let sy ← bool; let sdpk ← next; let spd ← bool; finish
      let opt := match o with
        | "identity" => InitOpt.identity | "covariance" => .covariance | "random" => .random
        | "array" => .array | _ => .invalid
      let sdp : Except Err Bool := match sdpk with
        | "definite" => .ok true | "semidefinite" => .ok false | _ => .error .nonPSD
      return match initializeMetric opt sh sy sdp spd with
        | .ok r => s!"ok {repr r}"
        | .error e => s!"err {e.name}"
  | _ => throw s!"unknown op {op}"

def renderPairs (l : List (Nat × Nat)) : String :=
  " ".intercalate (l.map fun (a, b) => s!"{a} {b}")

def readRounds : P (List (List Draw)) := do
  let nr ← nat
  let mut rounds : List (List Draw) := []
  for _ in [0:nr] do
    let len ← nat
    let mut r : List Draw := []
    for _ in [0:len] do
      let a ← nat; let b ← nat
      r := r ++ [⟨a, b⟩]
    rounds := rounds ++ [r]
  return rounds

/-- C07 ops: replay of the recorded random draws through the model -/
def opConstraints (op : String) : P String := do
  match op with
  | "pairs" => do
      let same ← bool; let n ← nat; let nl ← nat; let labels ← intArr nl
      let rounds ← readRounds; finish
      match pairsOf labels.toList same n rounds with
      | none => return "invalid-oracle"
      | some (qs, w) => return s!"ok {qs.length} {if w then 1 else 0} {renderPairs qs}"
  | "chunks" => do
      let nl ← nat; let labels ← intArr nl; let nChunks ← nat; let size ← nat
      let nrs ← nat; let rs ← natArr nrs
      let ncs ← nat
      let mut cs : List (List Nat) := []
      for _ in [0:ncs] do
        let len ← nat
        cs := cs ++ [(← natArr len).toList]
      finish
      match chunksOf labels.toList nChunks size rs.toList cs with
      | none => return "invalid-oracle"
      | some (.error ()) => return "err ValueError"
      | some (.ok chunks) =>
        return s!"ok {chunks.length} " ++ " ".intercalate (chunks.map fun c => " ".intercalate (c.map toString))
  | "knn_class" => do
      let nm ← nat; let members ← natArr nm; let kg ← nat; let ki ← nat
      let mut gen : List (List Nat) := []
      for _ in [0:nm] do gen := gen ++ [(← natArr kg).toList]
      let mut imp : List (List Nat) := []
      for _ in [0:nm] do imp := imp ++ [(← natArr ki).toList]
      finish
      let ts := classTriplets members.toList gen imp
      return s!"ok {ts.length} " ++ " ".intercalate (ts.map fun (a, b, c) => s!"{a} {b} {c}")
  | "knn_clip" => do
      let kg ← nat; let ki ← nat; let lenInput ← nat; let count ← nat; finish
      let (g, wg) := clipGenuine kg count
      let (i, wi) := clipImpostor ki lenInput count
      return s!"ok {g} {if wg then 1 else 0} {i} {if wi then 1 else 0}"
  | _ => throw s!"unknown op {op}"

/-- C05: the tuples that reach the solver, recomputed from (pool, indices) by the model -/
def opForm : P String := do
  let n ← nat; let t ← nat; let npool ← nat; let d ← nat
  let pool ← arr Float (npool * d)
  let idx ← natArr (n * t)
  finish
  let rows : List (Array Float) := (List.range npool).map fun r => pool.extract (r*d) (r*d+d)
  let r := formTuples (n := n) (t := t) (some (arrayIndexer rows)) (.indices fun j i => idx.getD (j.val * t + i.val) 0)
  match r.1 with
  | .error e => return s!"err {e.name}"
  | .ok v =>
    let flat := (Array.ofFn fun j : Fin n => (Array.ofFn fun i : Fin t => v j i).flatten).flatten
    return s!"ok {r.2} " ++ renderArr flat

def optNat : P (Option Nat) := do
  let t ← next
  if t == "none" then return none
  match t.toNat? with
  | some n => return some n
  | none => throw s!"not a natural or none: {t}"

/-- C06: outcome class of the validation on an array descriptor -/
def opCheckInput : P String := do
  let kind ← next
  let nd ← nat; let shape ← natArr nd
  let ek ← next; let nan ← bool; let inf ← bool
  let pre ← optNat; let ts ← optNat; let ms ← nat
  finish
  let a : ArrDesc := { shape := shape.toList, kind := if ek == "text" then .text else .numeric, hasNaN := nan, hasInf := inf }
  let r := match kind with
    | "classic" => checkInputClassic a pre ms
    | "sk" => (skCheckArray a ms 1).map fun _ => a
    | _ => checkInputTuples MLGen.checkTupleSize a pre ts ms
  return match r with
    | .ok b => s!"ok {b.shape}"
    | .error e => s!"err {e.name}"

/-- C08: which generator with which arguments the model expects a supervised estimator to call -/
def opWiring : P String := do
  let k ← next
  let nc ← optNat; let nChunks ← nat; let chunkSize ← nat; let kg ← nat; let ki ← nat; let numClasses ← nat
  finish
  let kind? : Option SupKind := match k with
    | "ITML_Supervised" => some .itml | "MMC_Supervised" => some .mmc | "SDML_Supervised" => some .sdml
    | "LSML_Supervised" => some .lsml | "RCA_Supervised" => some .rca | "SCML_Supervised" => some .scml
    | _ => none
  match kind? with
  | none => throw "unknown supervised estimator"
  | some kind =>
    let cfg : SupConfig := { nConstraints := nc, nChunks := nChunks, chunkSize := chunkSize, kGenuine := kg, kImpostor := ki }
    return match wiringOf kind cfg numClasses with
      | .pairs n sl => s!"ok pairs {n} {if sl then 1 else 0}"
      | .chunks a b => s!"ok chunks {a} {b}"
      | .knnTriplets a b => s!"ok knn {a} {b}"

/-- C09 ops (Float twin) -/
def opClosedForm (op : String) : P String := do
  match op with
  | "cov" => do
      let n ← nat; let d ← nat; let X := (Mat.ofArray (← arr Float (n*d)) n d); finish
      return "ok " ++ renderArr (cov X).toArray
  | "rca_inner" => do
      let n ← nat; let d ← nat; let X := (Mat.ofArray (← arr Float (n*d)) n d)
      let ch ← intArr n; finish
      return "ok " ++ renderArr (innerCov X (fun i => ch.getD i.val (-1))).toArray
  | "lfda_scatter" => do
      let n ← nat; let d ← nat; let k ← nat
      let X := (Mat.ofArray (← arr Float (n*d)) n d)
      let y ← natArr n; finish
      let cls : Fin n → Nat := fun i => y.getD i.val 0
      let C := (y.foldl max 0) + 1
      let sig := (Vec.store fun i => lfdaSigma X cls k i)
      let As := (lfdaAffinity X cls (Vec.ofStore sig)).store
      let A := Mat.ofStore As
      let Sw := (lfdaSw X cls A C).store
      let Sb := (lfdaSb X cls A C).store
      return "ok " ++ renderArr ((Mat.ofStore Sw).toArray ++ (Mat.ofStore Sb).toArray)
  | _ => throw s!"unknown op {op}"

def readStore (K : Type) [Wire K] [Scalar K] (r c : Nat) : P (Vector (Vector K c) r) := do
  let a ← arr K (r * c)
  return Vector.ofFn fun i => Vector.ofFn fun j => a.getD (i.val * c + j.val) 0

/-- C11: replay of the ITML solver (Float twin) -/
def opItml : P String := do
  let d ← nat; let m ← nat; let numPos ← nat
  let γ ← scalar Float; let tol ← scalar Float; let maxIter ← nat
  let u ← scalar Float; let l ← scalar Float
  let A0 ← readStore Float d d
  let vs ← readStore Float m d
  finish
  let s0 : ItmlState Float d m := itmlInit A0 numPos u l
  let (s, it) := itmlRun γ tol numPos vs maxIter 0 s0 s0.lam
  return s!"ok {it} " ++ renderArr ((Mat.ofStore s.A).toArray ++ s.lam.toArray ++ s.bhat.toArray)

def readVecs (K : Type) [Wire K] [Scalar K] (n d : Nat) : P (List (Vec K d)) := do
  let a ← arr K (n * d)
  return (List.range n).map fun r => (fun j : Fin d => a.getD (r * d + j.val) 0)

/-- C14: the accept/shrink loop of `_fit_full` run on the implementation's own per-cycle observables
(`satisfy`, objective at `A_old`, objective at the projected iterate); iterates are named by numbers:
`2c` enters cycle `c`, `2c+1` is its projection.  Returns which iterate `A_old` is after every cycle. -/
def opMmcLoop : P String := do
  let n ← nat
  let rows ← arr Float (3 * n)
  finish
  let sat : Nat → Bool := fun c => rows.getD (3 * c) 0.0 != 0.0
  let objPrev0 := rows.getD 1 0.0
  let objAt : Nat → Float := fun a => if a % 2 == 1 then rows.getD (3 * ((a - 1) / 2) + 2) 0.0 else objPrev0
  let project : Nat → Nat × Bool := fun a => (a + 1, sat (a / 2))
  let step : Nat → Nat → Float → Nat → Nat := fun c _ _ _ => 2 * (c + 1)
  let s0 : MmcState Nat Float := { A := 0, Aold := 0, alpha := 0.1, M := 0 }
  let olds := (List.range n).map fun k => (mmcCycles project objAt (fun a => a) step (k + 1) 0 s0).Aold
  return "ok " ++ " ".intercalate (olds.map toString)

/-- C14 ops (Float twin of MMC's helper functions) -/
def opMmc (op : String) : P String := do
  let d ← nat
  match op with
  | "mmc_budget" => do
      let np ← nat; let S ← readVecs Float np d
      let A0 := Mat.ofStore (← readStore Float d d); let A := Mat.ofStore (← readStore Float d d); finish
      let t := mmcBudget S A0
      return "ok " ++ renderArr #[t, mmcSimilarSum S A, if mmcSatisfied S A t then 1.0 else 0.0]
  | "mmc_fd" => do
      let nn ← nat; let D ← readVecs Float nn d
      let A := Mat.ofStore (← readStore Float d d); finish
      let g := (mmcFD1 D A).store
      return "ok " ++ renderArr (#[mmcFD D A] ++ (Mat.ofStore g).toArray)
  | "mmc_gradproj" => do
      let g1 := Mat.ofStore (← readStore Float d d); let g2 := Mat.ofStore (← readStore Float d d); finish
      let g := (mmcGradProjection g1 g2).store
      return "ok " ++ renderArr (Mat.ofStore g).toArray
  | "mmc_halfspace" => do
      let w := Mat.ofStore (← readStore Float d d); let A := Mat.ofStore (← readStore Float d d)
      let t ← scalar Float; finish
      let g := (halfspaceProject w A t).store
      return "ok " ++ renderArr (Mat.ofStore g).toArray
  | "mmc_psdproj" => do
      let V := Mat.ofStore (← readStore Float d d); let l := Vec.ofArray (← arr Float d) d; finish
      let g := (psdProject V l).store
      return "ok " ++ renderArr (Mat.ofStore g).toArray
  | "mmc_dobj" => do
      let nn ← nat; let D ← readVecs Float nn d
      let w := Vec.ofArray (← arr Float d) d; finish
      return "ok " ++ Wire.render (mmcDObjective D w)
  | _ => throw s!"unknown op {op}"

/-- C15: replay of SCML's stochastic loop on the recorded batches (Float twin) -/
def opScml : P String := do
  let nt ← nat; let nb ← nat; let maxIter ← nat; let batchSize ← nat; let outputIter ← nat
  let β ← scalar Float; let γ ← scalar Float
  let dd ← readStore Float nt nb
  let ri ← natArr (maxIter * batchSize)
  finish
  if h : nt = 0 then throw "no triplets" else
  let batches : List (List (Fin nt)) := (List.range maxIter).map fun it =>
    (List.range batchSize).map fun j => ⟨ri.getD (it * batchSize + j) 0 % nt, Nat.mod_lt _ (Nat.pos_of_ne_zero h)⟩
  let s := scmlRun β γ dd batchSize outputIter batches 0 (scmlInit nb)
  let bo := match s.bestObj with | some b => Wire.render b | none => "none"
  return s!"ok {bo} " ++ renderArr (s.bestW.toArray ++ s.w.toArray)

/-- C12: LSML objective and gradient (Float twin; inverse / logdet by the twin's own Gauss–Jordan) -/
def opLsml : P String := do
  let d ← nat; let nq ← nat
  let Ms ← readStore Float d d; let Ps ← readStore Float d d
  let vab ← readVecs Float nq d; let vcd ← readVecs Float nq d
  let w ← arr Float nq
  finish
  let M := Mat.ofStore Ms; let P := Mat.ofStore Ps
  let quads := (vab.zip (vcd.zip w.toList))
  let (inv, logdet) := gaussJordan d (Ms.toArray.map (·.toArray))
  let Minv : Mat Float d d := fun a b => (inv.getD a.val #[]).getD b.val 0
  let G := (lsmlGradient M P Minv quads).store
  return "ok " ++ renderArr (#[lsmlLoss M P logdet quads] ++ (Mat.ofStore G).toArray)

/-- C14: the whole projected-gradient loop of `_fit_full` — `mmcCycle`, the function `C14_last_feasible` is about,
instantiated with the model's half-space / PSD projections, objective, gradients and step — replayed with the
implementation's own eigen-decompositions as oracle (grouped per cycle).  An iterate carries the index of the cycle that
will project it and a flag raised when the model's projection loop would have used another number of decompositions than
the implementation did.  Returns `n_iter_`, the flag, and the stored matrix `A_old`. -/
def opMmcRun : P String := do
  let d ← nat; let np ← nat; let nn ← nat
  let A0 ← readStore Float d d
  let pos ← readVecs Float np d; let neg ← readVecs Float nn d
  let tol ← scalar Float; let maxIter ← nat; let maxProj ← nat
  let ncyc ← nat
  let mut counts : Array Nat := #[]
  let mut offs : Array Nat := #[]
  let mut data : Array Float := #[]
  for _ in [0:ncyc] do
    let m ← nat
    offs := offs.push data.size
    counts := counts.push m
    data := data ++ (← arr Float (m * (d + d * d)))
  finish
  let W : Mat Float d d := Mat.ofStore (mmcW pos).store
  let t := mmcBudget pos (Mat.ofStore A0)
  let lOf (c j : Nat) : Vec Float d := fun i => data.getD (offs.getD c 0 + j * (d + d * d) + i.val) 0
  let vOf (c j : Nat) : Mat Float d d := fun a b => data.getD (offs.getD c 0 + j * (d + d * d) + d + a.val * d + b.val) 0
  let St := Vector (Vector Float d) d × Nat × Bool
  -- the alternating projections of one cycle
  let project : St → St × Bool := fun (A, c, bad) =>
    let m := counts.getD c 0
    let rec loop (fuel j : Nat) (A : Vector (Vector Float d) d) : Vector (Vector Float d) d × Bool × Nat :=
      match fuel with
      | 0 => (A, false, j)
      | fuel+1 =>
        if j ≥ m then (A, false, j) else
        let A1 := (halfspaceProject W (Mat.ofStore A) t).store
        -- contract of the recorded decomposition: it decomposes the symmetrised half-space projection the MODEL formed
        let recon := reconstruct (vOf c j) (lOf c j)
        let (dev, sc) := (List.finRange d).foldl (fun acc x => (List.finRange d).foldl (fun (a : Float × Float) y =>
          let want := (A1[x][y] + A1[y][x]) / 2
          let dv := Float.abs (recon x y - want)
          (if a.1 < dv then dv else a.1, if a.2 < Float.abs want then Float.abs want else a.2)) acc) (0.0, 1e-300)
        if dev > 1e-7 * sc then (A1, false, m + maxProj + 1) else      -- (an impossible count: raises the flag below)
        let A2 := (psdProject (vOf c j) (lOf c j)).store
        if mmcSatisfied pos (Mat.ofStore A2) t then (A2, true, j + 1) else loop fuel (j + 1) A2
    let (A', sat, used) := loop maxProj 0 A
    -- consistent with the implementation: all recorded decompositions of the cycle were used, and a failure exhausted max_proj
    let bad' := bad || used != m || (!sat && m != maxProj)
    ((A', c, bad'), sat)
  let obj : St → Float := fun s => mmcFD neg (Mat.ofStore s.1)
  let dir : St → St := fun (A, c, bad) =>
    ((mmcGradProjection (mmcFD1 neg (Mat.ofStore A)) W).store, c, bad)
  let step : Nat → St → Float → St → St := fun cycle (A, _, b1) a (M, _, b2) =>
    ((madd (Mat.ofStore A) (mscale a (Mat.ofStore M))).store, cycle + 1, b1 || b2)
  let M0 : St := ((mmcGradProjection W (mmcFD1 neg (Mat.ofStore A0))).store, 0, false)
  let s0 : MmcState St Float := { A := (A0, 0, false), Aold := (A0, 0, false), alpha := lit 1 10, M := M0 }
  let rec go (fuel cycle : Nat) (s : MmcState St Float) : MmcState St Float × Nat :=
    match fuel with
    | 0 => (s, cycle - 1)
    | fuel+1 =>
      let s' := mmcCycle project obj dir step cycle s
      let delta := frobNorm (mscale s'.alpha (Mat.ofStore s'.M.1)) / frobNorm (Mat.ofStore s'.Aold.1)
      if delta < tol then (s', cycle) else go fuel (cycle + 1) s'
  let (sf, nIter) := go maxIter 0 s0
  let bad := sf.A.2.2 || sf.Aold.2.2
  return s!"ok {nIter} {if bad then 1 else 0} " ++ renderArr (Mat.ofStore sf.Aold.1).toArray

/-- C12: the whole LSML solver loop (`lsmlLoop`, the function the descent theorems are about) replayed with the
implementation's own `eigh` results as oracle: call `10·it + j` is the decomposition of the `j`-th candidate of iteration
`it`.  Returns `n_iter_`, the final matrix, the final loss and the largest deviation between a recorded decomposition
and the candidate `M − step·∇f` the model forms (the contract of the external eigen-solver on this run). -/
def opLsmlRun : P String := do
  let d ← nat; let nq ← nat
  let M0 ← readStore Float d d; let Ps ← readStore Float d d
  let vab ← readVecs Float nq d; let vcd ← readVecs Float nq d
  let w ← arr Float nq
  let tol ← scalar Float; let maxIter ← nat
  let steps ← arr Float 10
  let ncalls ← nat
  let rec_ ← arr Float (ncalls * (d + d * d))
  finish
  let P := Mat.ofStore Ps
  let quads := (vab.zip (vcd.zip w.toList))
  let wOf (c : Nat) : Vec Float d := fun i => rec_.getD (c * (d + d * d) + i.val) 0
  let vOf (c : Nat) : Mat Float d d := fun a b => rec_.getD (c * (d + d * d) + d + a.val * d + b.val) 0
  let lossOf (Ms : Vector (Vector Float d) d) : Float :=
    let (_, logdet) := gaussJordan d (Ms.toArray.map (·.toArray))
    lsmlLoss (Mat.ofStore Ms) P logdet quads
  let gradOf (Ms : Vector (Vector Float d) d) : Vector (Vector Float d) d :=
    let (inv, _) := gaussJordan d (Ms.toArray.map (·.toArray))
    let Minv : Mat Float d d := fun a b => (inv.getD a.val #[]).getD b.val 0
    (lsmlGradient (Mat.ofStore Ms) P Minv quads).store
  let normOf (G : Vector (Vector Float d) d) : Float := Float.sqrt (frob (Mat.ofStore G) (Mat.ofStore G))
  -- state = (matrix, number of completed iterations)
  let loss : (Vector (Vector Float d) d × Nat) → Float := fun s => lossOf s.1
  let gradNorm : (Vector (Vector Float d) d × Nat) → Float := fun s => normOf (gradOf s.1)
  let cands : (Vector (Vector Float d) d × Nat) → List (Vector (Vector Float d) d × Nat) := fun s =>
    (List.range 10).map fun j => ((lsmlFloor (vOf (10 * s.2 + j)) (wOf (10 * s.2 + j))).store, s.2 + 1)
  let s0 : LsmlState (Vector (Vector Float d) d × Nat) Float := { M := (M0, 0), sBest := lossOf M0 }
  let (sf, nIter) := lsmlLoop loss gradNorm cands tol maxIter 0 s0
  -- contract of the recorded decompositions along the model's own trajectory
  let rec devAlong (fuel : Nat) (s : LsmlState (Vector (Vector Float d) d × Nat) Float) (acc : Float) : Float :=
    match fuel with
    | 0 => acc
    | fuel+1 =>
      if s.M.2 * 10 + 10 > ncalls then acc else
      let G := gradOf s.M.1
      let gn := normOf G
      if gn < tol then acc else
      let acc' := (List.range 10).foldl (fun a j =>
        let st := steps.getD j 0 / gn
        let c := 10 * s.M.2 + j
        let recon := reconstruct (vOf c) (wOf c)
        (List.finRange d).foldl (fun a2 x => (List.finRange d).foldl (fun a3 y =>
          let want := s.M.1[x][y] - st * G[x][y]
          let dv := Float.abs (recon x y - want)
          if a3 < dv then dv else a3) a2) a) acc
      match lsmlScan loss (cands s.M) s.sBest none with
      | (_, none) => acc'
      | (sb, some m) => devAlong fuel { M := m, sBest := sb } acc'
  let dev := devAlong maxIter s0 0.0
  return s!"ok {nIter} " ++ renderArr (#[sf.sBest, dev] ++ (Mat.ofStore sf.M.1).toArray)

/-- C10: documented objectives of NCA / MLKR / LMNN (Float twin) -/
def opObjective (op : String) : P String := do
  let k ← nat; let d ← nat; let n ← nat
  let L := Mat.ofStore (← readStore Float k d)
  let X := Mat.ofStore (← readStore Float n d)
  match op with
  | "nca_obj" => do
      let y ← intArr n; finish
      return "ok " ++ Wire.render (ncaObjective L X (fun i => y.getD i.val 0))
  | "mlkr_obj" => do
      let y ← arr Float n; finish
      return "ok " ++ Wire.render (mlkrObjective L X (Vec.ofArray y n))
  | "lmnn_obj" => do
      let y ← intArr n; let reg ← scalar Float; let kT ← nat
      let t ← natArr (n * kT); finish
      if h : n = 0 then throw "no samples" else
      let targets : Fin n → List (Fin n) := fun i =>
        (List.range kT).map fun j => ⟨t.getD (i.val * kT + j) 0 % n, Nat.mod_lt _ (Nat.pos_of_ne_zero h)⟩
      return "ok " ++ Wire.render (lmnnObjective L X (fun i => y.getD i.val 0) targets reg)
  | "lmnn_code_obj" => do
      -- the value `_loss_grad` computes (active-set count and ⟨L·G, L⟩ route) on all candidate triples
      let y ← intArr n; let reg ← scalar Float; let kT ← nat
      let t ← natArr (n * kT); finish
      if h : n = 0 then throw "no samples" else
      let targets : Fin n → List (Fin n) := fun i =>
        (List.range kT).map fun j => ⟨t.getD (i.val * kT + j) 0 % n, Nat.mod_lt _ (Nat.pos_of_ne_zero h)⟩
      let yf : Fin n → Int := fun i => y.getD i.val 0
      let (v, na) := lmnnCodeObjective L X (allTargetPairs targets) (allTriples yf targets) reg
      return s!"ok {Wire.render v} {na}"
  | "nca_grad" => do
      -- the gradient `_loss_grad_lbfgs` hands to L-BFGS (before the sign flip); weights materialised once
      let y ← intArr n; finish
      let W := (ncaWeights L X (fun i => y.getD i.val 0)).store
      let S := (symFillDiag (Mat.ofStore W)).store
      return "ok " ++ renderArr (gradFromWeights (Scalar.ofNat 2) L X (Mat.ofStore S)).toArray
  | "mlkr_grad" => do
      let y ← arr Float n; finish
      let W := (mlkrWeights L X (Vec.ofArray y n)).store
      let S := (symFillDiag (Mat.ofStore W)).store
      return "ok " ++ renderArr (gradFromWeights (Scalar.ofNat 4) L X (Mat.ofStore S)).toArray
  | "lmnn_grad" => do
      let y ← intArr n; let reg ← scalar Float; let kT ← nat
      let t ← natArr (n * kT); finish
      if h : n = 0 then throw "no samples" else
      let targets : Fin n → List (Fin n) := fun i =>
        (List.range kT).map fun j => ⟨t.getD (i.val * kT + j) 0 % n, Nat.mod_lt _ (Nat.pos_of_ne_zero h)⟩
      let yf : Fin n → Int := fun i => y.getD i.val 0
      let G := (lmnnGradCode L X (allTargetPairs targets) (allTriples yf targets) reg)
      return "ok " ++ renderArr G.toArray
  | "lmnn_run" => do
      -- the whole fit loop from the captured initialisation (C10_lmnn_monotone is about this loop)
      let y ← intArr n; let reg ← scalar Float; let kT ← nat
      let t ← natArr (n * kT)
      let rate0 ← scalar Float; let maxIter ← nat; let minIter ← nat; let convTol ← scalar Float
      finish
      if h : n = 0 then throw "no samples" else
      let targets : Fin n → List (Fin n) := fun i =>
        (List.range kT).map fun j => ⟨t.getD (i.val * kT + j) 0 % n, Nat.mod_lt _ (Nat.pos_of_ne_zero h)⟩
      let yf : Fin n → Int := fun i => y.getD i.val 0
      let s := lmnnFitCode X (allTargetPairs targets) (allTriples yf targets) reg 200 minIter convTol maxIter L.store rate0
      return "ok " ++ renderArr (#[s.obj, s.rate] ++ (Mat.ofStore s.L).toArray)
  | _ => throw s!"unknown op {op}"

/-- C13: SDML's graphical-lasso input, objective, duality gap and dual feasibility at a matrix `M` (Float twin) -/
def opSdml : P String := do
  let d ← nat; let np ← nat
  let P := Mat.ofStore (← readStore Float d d)
  let balance ← scalar Float; let lam ← scalar Float
  let vs ← readVecs Float np d; let ys ← arr Float np
  let Ms ← readStore Float d d
  finish
  let pairs := vs.zip ys.toList
  let Es := (sdmlEmpCov P balance pairs).store
  let E := Mat.ofStore Es; let M := Mat.ofStore Ms
  let (inv, logdet) := gaussJordan d (Ms.toArray.map (·.toArray))
  let W : Mat Float d d := fun a b => (inv.getD a.val #[]).getD b.val 0
  let feas := sdmlDualFeasible E W lam (lam * 0.05 + 1e-6)
  return "ok " ++ renderArr (E.toArray ++ #[sdmlObjective E M logdet lam, sdmlGap E M lam, if feas then 1.0 else 0.0])

def optInt : P (Option Int) := do
  let t ← next
  if t == "none" then return none
  match t.toInt? with
  | some n => return some n
  | none => throw s!"not an integer or none: {t}"

/-- generated scalar decision functions (MLGen/Funcs.lean) -/
def opGen (op : String) : P String := do
  match op with
  | "check_n_components" => do
      let d ← int; let nc ← optInt; finish
      return match MLGen.checkNComponents d nc with
        | .ok k => s!"ok {k}"
        | .error _ => "err valueError"
  | "auto_select_init" => do
      let hc ← bool; let nf ← int; let ns ← int; let nc ← int; let ncl ← int; finish
      return match MLGen.autoSelectInit hc nf ns nc ncl with
        | .ok k => s!"ok {k}"
        | .error _ => "err valueError"
  | "check_tuple_size" => do
      let sz ← int; let ts ← optInt; finish
      return match MLGen.checkTupleSize sz ts with
        | .ok () => "ok"
        | .error _ => "err valueError"
  | _ => throw s!"unknown op {op}"

def dispatch : P String := do
  let op ← next
  match op with
  | "dist" | "score" | "metric" | "transform" | "mahal" | "mahalquad" | "embdist" =>
      opDistance Float op
  | "decision_trip" | "decision_quad" => opClassify Float op
  | "predict_pair" | "predict_trip" | "predict_quad" | "score_frac" | "auc" => opClassify Rat op
  | "check_n_components" | "auto_select_init" | "check_tuple_size" => opGen op
  | "sdp_check" | "cfm_eig" | "cfm_diag" | "pinv_eig" | "init_metric" => opPsd op
  | "pairs" | "chunks" | "knn_class" | "knn_clip" => opConstraints op
  | "form" => opForm
  | "sdml_eval" => opSdml
  | "nca_obj" | "mlkr_obj" | "lmnn_obj" | "lmnn_code_obj" | "nca_grad" | "mlkr_grad" | "lmnn_grad" | "lmnn_run" => opObjective op
  | "lsml_eval" => opLsml
  | "scml_replay" => opScml
  | "mmc_budget" | "mmc_fd" | "mmc_gradproj" | "mmc_halfspace" | "mmc_psdproj" | "mmc_dobj" => opMmc op
  | "mmc_loop" => opMmcLoop
  | "itml_run" => opItml
  | "cov" | "rca_inner" | "lfda_scatter" => opClosedForm op
  | "wiring" => opWiring
  | "check_input" => opCheckInput
  | "lsml_run" => opLsmlRun
  | "mmc_run" => opMmcRun
  | "calib" => opCalib
  | "calib_code" => opCalibCode
  | "calib_rate_code" => opCalibRateCode
  | "calib_fbeta_code" => opCalibFbetaCode
  | "validate_calib" => opValidateCalib
  | _ => throw s!"unknown op {op}"

def handle (line : String) : String :=
  let toks := (line.splitOn " ").filter (· ≠ "") |>.toArray
  if toks.size == 0 then "bad-op empty" else
  match (dispatch.run { toks := toks, pos := 0 }) with
  | .ok (s, _) => s
  | .error e => "bad-op " ++ e

partial def loop (h : IO.FS.Stream) (out : IO.FS.Stream) : IO Unit := do
  let line ← h.getLine
  if line.isEmpty then return ()
  out.putStrLn (handle line.trimAsciiEnd.toString)
  out.flush
  loop h out

def main : IO Unit := do loop (← IO.getStdin) (← IO.getStdout)
