import MLModel
import Driver.Proto
open ML Proto

/-- operations on the learned distance (C01, C02); generic in the scalar -/
def opDistance (K : Type) [ScalarT K] [Wire K] (op : String) : P String := do
  let k ← nat; let d ← nat
  let L := Mat.ofArray (← arr K (k*d)) k d
  match op with
  | "dist" => do
      let x := Vec.ofArray (← arr K d) d; let y := Vec.ofArray (← arr K d) d; finish
      return "ok " ++ Wire.render (pairDistance L x y)
  | "score" => do
      let x := Vec.ofArray (← arr K d) d; let y := Vec.ofArray (← arr K d) d; finish
      return "ok " ++ Wire.render (pairScore L x y)
  | "metric" => do
      let sq ← bool
      let x := Vec.ofArray (← arr K d) d; let y := Vec.ofArray (← arr K d) d; finish
      return "ok " ++ Wire.render (metricFun L x y sq)
  | "transform" => do
      let x := Vec.ofArray (← arr K d) d; finish
      return "ok " ++ renderArr (transform L x).toArray
  | "mahal" => do
      finish
      return "ok " ++ renderArr (mahalanobis L).toArray
  | "mahalquad" => do
      let x := Vec.ofArray (← arr K d) d; let y := Vec.ofArray (← arr K d) d; finish
      return "ok " ++ Wire.render (quadForm (mahalanobis L).memo (vsub y x))
  | "embdist" => do
      let x := Vec.ofArray (← arr K d) d; let y := Vec.ofArray (← arr K d) d; finish
      return "ok " ++ Wire.render (euclid (transform L x) (transform L y))
  | _ => throw s!"unknown op {op}"

def dispatch : P String := do
  let op ← next
  match op with
  | "dist" | "score" | "metric" | "transform" | "mahal" | "mahalquad" | "embdist" =>
      opDistance Float op
  | _ => throw s!"unknown op {op}"

def handle (line : String) : String :=
  let toks := (line.splitOn " ").filter (· ≠ "") |>.toArray
  if toks.size == 0 then "bad-op empty" else
  match (dispatch.run { toks := toks, pos := 0 }) with
  | .ok (s, _) => s
  | .error e => "bad-op " ++ e

partial def loop (h : IO.FS.Stream) (out : IO.FS.Stream) : IO Unit := do
  let line ← h.getLine
  if line.isEmpty then return ()
  out.putStrLn (handle line.trimAsciiEnd.toString)
  out.flush
  loop h out

def main : IO Unit := do loop (← IO.getStdin) (← IO.getStdout)
