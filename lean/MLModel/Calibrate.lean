import MLModel.Vec
/-!
# Threshold calibration (C16) — specification layer

A validation set is a list of `(distance, label)` (`label = true` for +1).  A threshold `t`
predicts `+1` iff `d ≤ t`.  Each strategy is a (criterion, feasibility) pair that sees the
threshold only through the prediction vector; `calibrate` is the first maximiser over the
candidate list `rejectAll :: observed distances`.
-/
namespace ML
variable {K : Type} [Scalar K]

def preds (ds : List K) (t : K) : List Bool := ds.map fun d => decide (d ≤ t)

structure Counts where
  tp : Nat
  fp : Nat
  tn : Nat
  fn : Nat
deriving Repr, DecidableEq

def countsOf : List Bool → List Bool → Counts
  | p :: ps, l :: ls =>
    let c := countsOf ps ls
    match p, l with
    | true, true => { c with tp := c.tp + 1 }
    | true, false => { c with fp := c.fp + 1 }
    | false, false => { c with tn := c.tn + 1 }
    | false, true => { c with fn := c.fn + 1 }
  | _, _ => ⟨0, 0, 0, 0⟩

def accuracyOf (c : Counts) : K := Scalar.ofNat (c.tp + c.tn) / Scalar.ofNat (c.tp + c.tn + c.fp + c.fn)

/-- `(1+β²)·P·R / (β²·P + R)` with the code's `NaN → 0` convention, in count form -/
def fbeta (beta2 : K) (c : Counts) : K :=
  let num := (1 + beta2) * Scalar.ofNat c.tp
  let den := (1 + beta2) * Scalar.ofNat c.tp + beta2 * Scalar.ofNat c.fn + Scalar.ofNat c.fp
  if c.tp = 0 then 0 else num / den

def tpr (c : Counts) : K := Scalar.ofNat c.tp / Scalar.ofNat (c.tp + c.fn)
def tnr (c : Counts) : K := Scalar.ofNat c.tn / Scalar.ofNat (c.tn + c.fp)

inductive Strategy (K : Type) where
  | accuracy
  | fBeta (beta : K)
  | maxTpr (minRate : K)
  | maxTnr (minRate : K)

def Strategy.crit (labels : List Bool) : Strategy K → List Bool → K
  | .accuracy, p => accuracyOf (countsOf p labels)
  | .fBeta b, p => fbeta (b * b) (countsOf p labels)
  | .maxTpr _, p => tpr (countsOf p labels)
  | .maxTnr _, p => tnr (countsOf p labels)

def Strategy.feas (labels : List Bool) : Strategy K → List Bool → Bool
  | .accuracy, _ => true
  | .fBeta _, _ => true
  | .maxTpr r, p => decide (r ≤ tnr (countsOf p labels))
  | .maxTnr r, p => decide (r ≤ tpr (countsOf p labels))

/-- first maximiser of `f` among the candidates satisfying `ok` (`none` if none does) -/
def argmaxOk (f : K → K) (ok : K → Bool) : List K → Option K
  | [] => none
  | c :: cs =>
    match argmaxOk f ok cs with
    | none => if ok c then some c else none
    | some b => if ok c ∧ f b ≤ f c then some c else some b

def listMin : List K → Option K
  | [] => none
  | x :: xs => match listMin xs with
    | none => some x
    | some m => some (smin x m)

/-- a threshold below every observed distance (code: `scores_sorted[0] + 1` in score space) -/
def rejectAll (ds : List K) : K := match listMin ds with
  | none => 0
  | some m => m - 1

def cands (ds : List K) : List K := rejectAll ds :: ds

/-- the calibrated threshold of the specification -/
def calibrate (s : Strategy K) (ds : List K) (labels : List Bool) : Option K :=
  argmaxOk (fun t => s.crit labels (preds ds t)) (fun t => s.feas labels (preds ds t)) (cands ds)

/-- `_validate_calibration_params` abstracted to the facts it tests -/
inductive PyNum (K : Type) where
  | none                -- Python `None`
  | num (x : K)         -- an `int`/`float`
  | other               -- anything else

end ML

namespace ML
variable {K : Type} [Scalar K]

def PyNum.isNum : PyNum K → Bool
  | .num _ => true
  | _ => false

end ML

namespace ML
variable {K : Type} [Scalar K]
def PyNum.isNone : PyNum K → Bool
  | .none => true
  | _ => false
/-- the number held (only meaningful under `isNum`) -/
def PyNum.val : PyNum K → K
  | .num x => x
  | _ => 0
end ML
