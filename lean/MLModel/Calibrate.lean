import MLModel.Vec
/-!
# Threshold calibration (C16) — specification layer

A validation set is a list of `(distance, label)` (`label = true` for +1).  A threshold `t`
predicts `+1` iff `d ≤ t`.  Each strategy is a (criterion, feasibility) pair that sees the
threshold only through the prediction vector; `calibrate` is the first maximiser over the
candidate list `rejectAll :: observed distances`.
-/
namespace ML
variable {K : Type} [Scalar K]

def preds (ds : List K) (t : K) : List Bool := ds.map fun d => decide (d ≤ t)

structure Counts where
  tp : Nat
  fp : Nat
  tn : Nat
  fn : Nat
deriving Repr, DecidableEq

def countsOf : List Bool → List Bool → Counts
  | p :: ps, l :: ls =>
    let c := countsOf ps ls
    match p, l with
    | true, true => { c with tp := c.tp + 1 }
    | true, false => { c with fp := c.fp + 1 }
    | false, false => { c with tn := c.tn + 1 }
    | false, true => { c with fn := c.fn + 1 }
  | _, _ => ⟨0, 0, 0, 0⟩

def accuracyOf (c : Counts) : K := Scalar.ofNat (c.tp + c.tn) / Scalar.ofNat (c.tp + c.tn + c.fp + c.fn)

/-- `(1+β²)·P·R / (β²·P + R)` with the code's `NaN → 0` convention, in count form -/
def fbeta (beta2 : K) (c : Counts) : K :=
  let num := (1 + beta2) * Scalar.ofNat c.tp
  let den := (1 + beta2) * Scalar.ofNat c.tp + beta2 * Scalar.ofNat c.fn + Scalar.ofNat c.fp
  if c.tp = 0 then 0 else num / den

def tpr (c : Counts) : K := Scalar.ofNat c.tp / Scalar.ofNat (c.tp + c.fn)
def tnr (c : Counts) : K := Scalar.ofNat c.tn / Scalar.ofNat (c.tn + c.fp)

inductive Strategy (K : Type) where
  | accuracy
  | fBeta (beta : K)
  | maxTpr (minRate : K)
  | maxTnr (minRate : K)

def Strategy.crit (labels : List Bool) : Strategy K → List Bool → K
  | .accuracy, p => accuracyOf (countsOf p labels)
  | .fBeta b, p => fbeta (b * b) (countsOf p labels)
  | .maxTpr _, p => tpr (countsOf p labels)
  | .maxTnr _, p => tnr (countsOf p labels)

def Strategy.feas (labels : List Bool) : Strategy K → List Bool → Bool
  | .accuracy, _ => true
  | .fBeta _, _ => true
  | .maxTpr r, p => decide (r ≤ tnr (countsOf p labels))
  | .maxTnr r, p => decide (r ≤ tpr (countsOf p labels))

/-- first maximiser of `f` among the candidates satisfying `ok` (`none` if none does) -/
def argmaxOk (f : K → K) (ok : K → Bool) : List K → Option K
  | [] => none
  | c :: cs =>
    match argmaxOk f ok cs with
    | none => if ok c then some c else none
    | some b => if ok c ∧ f b ≤ f c then some c else some b

def listMin : List K → Option K
  | [] => none
  | x :: xs => match listMin xs with
    | none => some x
    | some m => some (smin x m)

/-- a threshold below every observed distance (code, in score space: the larger of `scores_sorted[0] + 1` and
`np.nextafter(scores_sorted[0], inf)` — beyond 2**53 adding 1 does not change a binary64 number) -/
def rejectAll (ds : List K) : K := match listMin ds with
  | none => 0
  | some m => smin (m - 1) (Scalar.below m)

def cands (ds : List K) : List K := rejectAll ds :: ds

/-- the calibrated threshold of the specification -/
def calibrate (s : Strategy K) (ds : List K) (labels : List Bool) : Option K :=
  argmaxOk (fun t => s.crit labels (preds ds t)) (fun t => s.feas labels (preds ds t)) (cands ds)

/-- `_validate_calibration_params` abstracted to the facts it tests -/
inductive PyNum (K : Type) where
  | none                -- Python `None`
  | num (x : K)         -- an `int`/`float`
  | other               -- anything else

end ML

namespace ML
variable {K : Type} [Scalar K]

def PyNum.isNum : PyNum K → Bool
  | .num _ => true
  | _ => false

end ML

namespace ML
variable {K : Type} [Scalar K]
def PyNum.isNone : PyNum K → Bool
  | .none => true
  | _ => false
/-- the number held (only meaningful under `isNum`) -/
def PyNum.val : PyNum K → K
  | .num x => x
  | _ => 0
end ML

/-! ## implementation layer of the accuracy strategy (base_metric.py `calibrate_threshold`, after the
tie repair): sort by distance, cumulative counts, mask of realisable positions, first arg-max -/
namespace ML
variable {K : Type} [Scalar K]

/-- validation pairs sorted by distance, ascending (the code sorts scores = −distance descending) -/
def sortByDist (l : List (K × Bool)) : List (K × Bool) := l.mergeSort fun a b => decide (a.1 ≤ b.1)

/-- `cum_tp[i] + cum_tn[i]`: positives among the first `i` (accepted) + negatives among the rest -/
def cumCorrect (sorted : List (K × Bool)) (i : Nat) : Nat :=
  ((sorted.take i).filter (·.2)).length + ((sorted.drop i).filter (!·.2)).length

/-- position `i` is a realisable cut-off: not between two equal distances -/
def realisablePos (sorted : List (K × Bool)) (i : Nat) : Bool :=
  i == 0 || i == sorted.length ||
    !(decide ((sorted.getD (i - 1) (0, true)).1 ≤ (sorted.getD i (0, true)).1) &&
      decide ((sorted.getD i (0, true)).1 ≤ (sorted.getD (i - 1) (0, true)).1))

/-- threshold stored for position `i`: reject-all for 0, else the `i`-th smallest distance -/
def thrAtPos (sorted : List (K × Bool)) (i : Nat) : K :=
  if i = 0 then rejectAll (sorted.map (·.1)) else (sorted.getD (i - 1) (0, true)).1

/-- first arg-max of `f` over `0..n` restricted to positions satisfying `ok` -/
def argmaxPos (f : Nat → Nat) (ok : Nat → Bool) : Nat → Option Nat
  | 0 => if ok 0 then some 0 else none
  | n+1 =>
    match argmaxPos f ok n with
    | none => if ok (n+1) then some (n+1) else none
    | some b => if ok (n+1) && decide (f b < f (n+1)) then some (n+1) else some b

/-- the code's accuracy calibration -/
def calibrateAccCode (l : List (K × Bool)) : Option K :=
  let s := sortByDist l
  (argmaxPos (cumCorrect s) (realisablePos s) s.length).map (thrAtPos s)

/-! ### the rate-constrained strategies (`roc_curve(…, drop_intermediate=False)` + mask + first arg-max) -/

/-- `tps` / `fps` of `roc_curve` at the cut-off that accepts the `i` nearest validation pairs -/
def tpAt (sorted : List (K × Bool)) (i : Nat) : Nat := ((sorted.take i).filter (·.2)).length
def fpAt (sorted : List (K × Bool)) (i : Nat) : Nat := ((sorted.take i).filter (!·.2)).length

/-- `1 - fpr >= min_rate` with `fpr = fps / fps[-1]` (same operations, same order) -/
def tnrOkCode (sorted : List (K × Bool)) (r : K) (i : Nat) : Bool :=
  decide (r ≤ 1 - Scalar.ofNat (fpAt sorted i) / Scalar.ofNat (fpAt sorted sorted.length))

/-- `tpr >= min_rate` with `tpr = tps / tps[-1]` -/
def tprOkCode (sorted : List (K × Bool)) (r : K) (i : Nat) : Bool :=
  decide (r ≤ Scalar.ofNat (tpAt sorted i) / Scalar.ofNat (tpAt sorted sorted.length))

/-- `strategy='max_tpr'`: among the realisable cut-offs whose true-negative rate is at least `min_rate`, the first one
with the most true positives; `none` when there is no negative pair (the rate is `NaN`, the mask empty, the code
raises) or no cut-off qualifies.  Returns the position and the threshold stored for it. -/
def calibrateTprCode (r : K) (l : List (K × Bool)) : Option (Nat × K) :=
  let s := sortByDist l
  if fpAt s s.length = 0 then none else
  (argmaxPos (tpAt s) (fun i => realisablePos s i && tnrOkCode s r i) s.length).map fun i => (i, thrAtPos s i)

/-- `strategy='max_tnr'`: among the realisable cut-offs whose true-positive rate is at least `min_rate`, the first one
with the fewest false positives -/
def calibrateTnrCode (r : K) (l : List (K × Bool)) : Option (Nat × K) :=
  let s := sortByDist l
  if tpAt s s.length = 0 then none else
  (argmaxPos (fun i => fpAt s s.length - fpAt s i) (fun i => realisablePos s i && tprOkCode s r i) s.length).map
    fun i => (i, thrAtPos s i)

/-! ### the F-beta strategy (`precision_recall_curve` + the F-beta formula + `NaN → 0` + first arg-max) -/

/-- the F-beta value the code computes from counts: `precision = tps/(tps+fps)` (0 when nothing is accepted),
`recall = tps/tps[-1]` (1 when there is no positive pair), `(1+β²)·(P·R)/(β²·P + R)`, `NaN` (0/0) replaced by 0 -/
def fbetaFromCounts (beta : K) (tp fp nPos : Nat) : K :=
  let precision : K := if tp + fp = 0 then 0 else Scalar.ofNat tp / Scalar.ofNat (tp + fp)
  let recall : K := if nPos = 0 then 1 else Scalar.ofNat tp / Scalar.ofNat nPos
  let num := (1 + beta * beta) * (precision * recall)
  let den := beta * beta * precision + recall
  if den ≤ 0 ∧ 0 ≤ den then 0 else num / den

/-- first arg-max of a scalar-valued `f` over `0..n` restricted to positions satisfying `ok` -/
def argmaxPosK (f : Nat → K) (ok : Nat → Bool) : Nat → Option Nat
  | 0 => if ok 0 then some 0 else none
  | n+1 =>
    match argmaxPosK f ok n with
    | none => if ok (n+1) then some (n+1) else none
    | some b => if ok (n+1) && decide (f b < f (n+1)) then some (n+1) else some b

/-- `strategy='f_beta'`: the candidates of `precision_recall_curve` are the realisable cut-offs that accept at least one
pair, scanned from "accept all" towards the nearest pair (thresholds increasing in score); first arg-max -/
def calibrateFbetaCode (beta : K) (l : List (K × Bool)) : Option (Nat × K) :=
  let s := sortByDist l
  let n := s.length
  let nPos := tpAt s n
  (argmaxPosK (fun j => fbetaFromCounts beta (tpAt s (n - j)) (fpAt s (n - j)) nPos)
      (fun j => decide (1 ≤ n - j) && realisablePos s (n - j)) n).map fun j => (n - j, thrAtPos s (n - j))

/-- true / false positives when predicting with threshold `t`; number of negative / positive validation pairs -/
def tpOf (l : List (K × Bool)) (t : K) : Nat := (l.filter fun p => decide (p.1 ≤ t) && p.2).length
def fpOf (l : List (K × Bool)) (t : K) : Nat := (l.filter fun p => decide (p.1 ≤ t) && !p.2).length
def negCount (l : List (K × Bool)) : Nat := (l.filter (!·.2)).length
def posCount (l : List (K × Bool)) : Nat := (l.filter (·.2)).length

/-- number of correctly classified pairs when predicting with threshold `t` -/
def correctCount (l : List (K × Bool)) (t : K) : Nat :=
  (l.filter fun p => decide (p.1 ≤ t) == p.2).length

end ML
