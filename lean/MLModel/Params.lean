/-!
# Constructor tables and method tables (C05, C06, C18)

The data in `MLGen/Tables.lean` is regenerated from `/repo`'s source on every run by
`/verif/translate`; this file holds the generic evaluator and the decidable well-formedness
predicates that the generated tables must satisfy.  Core Lean only.
-/
namespace ML

inductive SymVal where
  | param (p : String)
  | const (c : String)
  | ite (alias : String) (thenV elseV : SymVal)   -- `if alias != 'deprecated' then … else …`
deriving DecidableEq, Repr

structure InitTable where
  params : List String                      -- constructor signature
  deprecated : List (String × String)       -- (alias, replacement)
  attrs : List (String × SymVal)            -- final value of each attribute written by `__init__`
  warns : List (String × String)            -- (alias whose use triggers it, category)
deriving Repr

def depConst : String := "'deprecated'"

section
variable {V : Type} [DecidableEq V]

/-- value of a symbolic attribute for concrete arguments; `constV` interprets source constants.
`=` on `V` stands for object identity; `isDep v` is the VALUE test `v == 'deprecated'` the constructors
perform (an unpickled `'deprecated'` string is another object than the literal, yet passes this test) -/
def evalSym (isDep : V → Bool) (constV : String → V) (args : String → V) : SymVal → V
  | .param p => args p
  | .const c => constV c
  | .ite a t e => if isDep (args a) then evalSym isDep constV args e else evalSym isDep constV args t

def lookupAttr (l : List (String × SymVal)) (k : String) : Option SymVal :=
  (l.find? (·.1 == k)).map (·.2)

/-- running `__init__`: attribute `p` after construction (`none` if never written) -/
def runInit (t : InitTable) (isDep : V → Bool) (constV : String → V) (args : String → V) (p : String) : Option V :=
  (lookupAttr t.attrs p).map (evalSym isDep constV args)
end

def isAlias (t : InitTable) (p : String) : Bool := t.deprecated.any (·.1 == p)

/-- what the round-trip property demands of attribute `p` -/
def expectedAttr (t : InitTable) (p : String) : SymVal :=
  match t.deprecated.find? (·.2 == p) with
  | some (a, _) => .ite a (.param a) (.param p)
  | none => .param p

/-- what an alias attribute must hold: the `'deprecated'` literal when the alias was used, and otherwise the
very object that was passed (which is a `'deprecated'` string): scikit-learn's `clone` checks that the
constructor stores each argument as the identical object -/
def aliasAttr (a : String) : SymVal := .ite a (.const depConst) (.param a)

/-- decidable well-formedness of a constructor table: every non-alias parameter is stored as the
round trip demands, every alias attribute holds the sentinel (the passed object when that is one), every
alias has a replacement that is a parameter, and using an alias issues a `FutureWarning`. -/
def wfInit (t : InitTable) : Bool :=
  (t.params.all fun p =>
    if isAlias t p then lookupAttr t.attrs p == some (aliasAttr p)
    else lookupAttr t.attrs p == some (expectedAttr t p)) &&
  (t.deprecated.all fun (a, r) => t.params.contains a && t.params.contains r && !isAlias t r &&
    t.warns.contains (a, "FutureWarning"))

/-! ## method table -/

structure MethodRow where
  cls : String
  method : String
  guard : List String          -- attributes tested by the first `check_is_fitted` (before any validation)
  preEffects : List String     -- calls that precede the guard / first validation
  validates : Bool             -- performs an input validation at all
  viaPrepare : Bool            -- first validation is `self._prepare_inputs` (else `check_input`)
  tuples : Bool                -- `type_of_inputs='tuples'`
  tupleSize : Option Nat
  usesPreprocessor : Bool      -- `preprocessor=self.preprocessor_`
  hasY : Bool
  minSamples : Nat
  calibFirst : Option Bool     -- `_validate_calibration_params` precedes every validation
  checksPairLabels : Bool      -- the method's label argument reaches `check_y_valid_values_for_pairs`
deriving Repr, DecidableEq

def pairsLearners : List String := ["ITML", "MMC", "SDML"]
def classTupleSize (c : String) : Option Nat :=
  if c ∈ ["ITML", "MMC", "SDML", "ITML_Supervised", "MMC_Supervised", "SDML_Supervised"] then some 2
  else if c ∈ ["SCML", "SCML_Supervised"] then some 3
  else if c ∈ ["LSML", "LSML_Supervised"] then some 4 else none

def weaklySupervised (c : String) : Bool := c ∈ ["ITML", "MMC", "SDML", "SCML", "LSML"]

def allClasses : List String :=
  ["Covariance", "LFDA", "LMNN", "NCA", "MLKR", "RCA", "RCA_Supervised", "ITML", "ITML_Supervised",
   "MMC", "MMC_Supervised", "SDML", "SDML_Supervised", "LSML", "LSML_Supervised", "SCML", "SCML_Supervised"]

/-- the public methods each class must offer -/
def expectedMethods (c : String) : List String :=
  ["fit", "transform", "pair_distance", "pair_score", "score_pairs", "get_metric", "get_mahalanobis_matrix"] ++
  (if weaklySupervised c then ["predict", "decision_function", "score"] else []) ++
  (if c ∈ pairsLearners then ["set_threshold", "calibrate_threshold"] else [])

def harmless (e : String) : Bool := e == "warnings.warn" || e == "dict"

/-- what the documented interface demands of one row -/
def wfMethod (r : MethodRow) : Bool :=
  let dataOk (tuples : Bool) (ts : Option Nat) (y : Bool) :=
    r.validates && r.usesPreprocessor && r.tuples == tuples && (if tuples then r.tupleSize == ts else true) && r.hasY == y
  let guarded := !r.guard.isEmpty && r.preEffects.all harmless
  match r.method with
  | "fit" =>
      -- validation (which initialises the preprocessor) comes before any work; hyper-parameter
      -- type checks (`isinstance`/`ValueError`) and calibration-parameter validation may precede it
      r.validates && r.viaPrepare && r.usesPreprocessor &&
      (if weaklySupervised r.cls then r.tuples && r.tupleSize == classTupleSize r.cls && r.hasY == (r.cls ∈ pairsLearners)
       else !r.tuples && r.hasY == (r.cls != "Covariance")) &&
      (if r.cls ∈ pairsLearners then r.calibFirst == some true && r.checksPairLabels else true)
  | "transform" => guarded && dataOk false none false
  | "pair_distance" | "pair_score" | "score_pairs" => guarded && dataOk true (some 2) false
  | "predict" | "decision_function" => guarded && dataOk true (classTupleSize r.cls) false
  | "score" => guarded && dataOk true (classTupleSize r.cls) false &&
      (if r.cls ∈ pairsLearners then r.checksPairLabels else true)     -- pairs classifiers score against labels
  | "calibrate_threshold" => guarded && dataOk true (some 2) true && r.viaPrepare && r.calibFirst == some true &&
      r.checksPairLabels
  | "get_metric" | "get_mahalanobis_matrix" => guarded && r.guard.contains "components_"
  | "set_threshold" => guarded
  | _ => false

def findRow (tbl : List MethodRow) (c m : String) : Option MethodRow :=
  tbl.find? fun r => r.cls == c && r.method == m

/-- the whole generated method table is complete and well formed -/
def wfMethodTable (tbl : List MethodRow) : Bool :=
  allClasses.all fun c => (expectedMethods c).all fun m =>
    match findRow tbl c m with
    | some r => wfMethod r
    | none => false

end ML
