/-!
# Estimator state machine (C17)

`learn : P → D → M` is an arbitrary *function* of the hyper-parameters and the data of the fit (this is
what an integer `random_state` buys: the map seed → draws is deterministic); `calib` likewise for
threshold calibration.  Attribute writes are modelled as the code performs them: `fit` overwrites
`components_`, `threshold_` (pairs learners) and `n_features_in_`; `set_threshold` /
`calibrate_threshold` write `threshold_` only; query operations write nothing; `get_metric` hands out
a *copy* of the model; `get_mahalanobis_matrix` a fresh value.
-/
namespace ML

structure EstState (P M T : Type) where
  params : P
  model : Option M
  threshold : Option T
  nFeatures : Option Nat
deriving Repr

inductive EstOp (P D T : Type) where
  | fit (data : D) (nFeat : Nat)
  | setParams (p : P)
  | setThreshold (t : T)
  | calibrate (valid : D)
  | query                -- transform / pair_distance / predict / score / decision_function
  | getMetric
  | getMahalanobis
  | clone                -- produces another object; the estimator itself is untouched
  | pickleRoundTrip      -- the estimator is replaced by its unpickled copy

variable {P D M T : Type}

/-- one operation; `pairsLearner` says whether `fit` also calibrates a threshold -/
def estStep (learn : P → D → M) (calib : M → D → T) (pairsLearner : Bool)
    (s : EstState P M T) : EstOp P D T → EstState P M T
  | .fit data nf =>
      let m := learn s.params data
      { s with model := some m, nFeatures := some nf,
               threshold := if pairsLearner then some (calib m data) else s.threshold }
  | .setParams p => { s with params := p }
  | .setThreshold t => { s with threshold := some t }
  | .calibrate v =>
      match s.model with
      | some m => { s with threshold := some (calib m v) }
      | none => s
  | .query => s
  | .getMetric => s
  | .getMahalanobis => s
  | .clone => s
  | .pickleRoundTrip => s

def estRun (learn : P → D → M) (calib : M → D → T) (pairsLearner : Bool)
    (s : EstState P M T) (h : List (EstOp P D T)) : EstState P M T :=
  h.foldl (estStep learn calib pairsLearner) s

def EstOp.isFit : EstOp P D T → Bool
  | .fit _ _ => true
  | _ => false

def EstOp.writesThreshold : EstOp P D T → Bool
  | .setThreshold _ => true
  | .calibrate _ => true
  | _ => false

/-- arrays an operation assigns into among its *arguments* and the estimator's hyper-parameters
(the code's only aliasing hazards were `bounds_[…] = 1e-9` on an aliased `bounds` and
`w_ /= w_.sum()` on aliased `weights`; both now operate on copies) -/
def argWriteSet : EstOp P D T → List String
  | _ => []

/-- what a handle obtained from `get_metric` evaluates with: the model at the time of the call -/
def metricHandle (s : EstState P M T) : Option M := s.model

end ML
