import MLModel.PSD
/-!
# MMC (C14) — mmc.py `_fit_full`, `_fit_diag` and their helper functions

The eigen-decomposition used by the PSD projection is a parameter.  Matrices are flattened exactly as
the code does (`A.ravel()`), so the similarity budget is the linear constraint `w · x ≤ t`.
-/
namespace ML
variable {K : Type}

section
variable [Scalar K]

/-- `w = Σ_{(i,j)∈S} (x_i − x_j)(x_i − x_j)ᵀ` (the `einsum('ij,ik->jk')` of the positive differences) -/
def mmcW {d} (posDiffs : List (Vec K d)) : Mat K d d :=
  fun a b => posDiffs.foldl (fun acc v => acc + v a * v b) 0

/-- budget `t = w · A₀ / 100` -/
def mmcBudget {d} (posDiffs : List (Vec K d)) (A0 : Mat K d d) : K := frob (mmcW posDiffs) A0 / Scalar.ofNat 100

/-- sum of squared learned distances over the similar pairs: `w · A` -/
def mmcSimilarSum {d} (posDiffs : List (Vec K d)) (A : Mat K d d) : K := frob (mmcW posDiffs) A

/-- relative violation test of the projection loop: `(w·A − t)/t < 0.01` -/
def mmcSatisfied {d} (posDiffs : List (Vec K d)) (A : Mat K d d) (t : K) : Bool :=
  decide ((mmcSimilarSum posDiffs A - t) / t < lit 1 100)

/-- PSD projection from an eigen-decomposition: `V · max(0, l) · Vᵀ` -/
def psdProject {d} (V : Mat K d d) (l : Vec K d) : Mat K d d :=
  fun a b => vsum fun i => V a i * smax 0 (l i) * V b i
end

section
variable [ScalarT K]

def frobNorm {d} (A : Mat K d d) : K := ScalarT.sqrt (frob A A)

/-- projection onto the half-space boundary `w·x = t`: `x0 + (t1 − w1·x0)·w1` with the unit normal `w1` -/
def halfspaceProject {d} (w A : Mat K d d) (t : K) : Mat K d d :=
  let nw := frobNorm w
  let w1 : Mat K d d := mscale (1 / nw) w
  let t1 := t / nw
  if frob w A ≤ t then A else madd A (mscale (t1 - frob w1 A) w1)

/-- `_fD`: `log(Σ_D sqrt(dᵀ A d) + 1e-6)` -/
def mmcFD {d} (negDiffs : List (Vec K d)) (A : Mat K d d) : K :=
  ScalarT.log (negDiffs.foldl (fun acc v => acc + ScalarT.sqrt (quadForm A v)) 0 + lit 1 1000000)

/-- `_fD1`: gradient of the dissimilarity objective -/
def mmcFD1 {d} (negDiffs : List (Vec K d)) (A : Mat K d d) : Mat K d d :=
  let dist : List K := negDiffs.map fun v => ScalarT.sqrt (quadForm A v)
  let sumDist := dist.foldl (· + ·) 0
  fun a b => ((negDiffs.zip dist).foldl (fun acc (v, dd) => acc + v a * v b * (lit 1 2 / (dd + lit 1 1000000))) 0)
      / (sumDist + lit 1 1000000)

/-- `_grad_projection`: component of `grad1` orthogonal to `grad2`, normalised -/
def mmcGradProjection {d} (g1 g2 : Mat K d d) : Mat K d d :=
  let g2n := mscale (1 / frobNorm g2) g2
  let gt := msub g1 (mscale (frob g1 g2n) g2n)
  mscale (1 / frobNorm gt) gt

/-- `_D_objective` of the diagonal variant: `log(Σ_D sqrt(Σ_k diff_k² w_k + 1e-6))` -/
def mmcDObjective {d} (negDiffs : List (Vec K d)) (w : Vec K d) : K :=
  ScalarT.log (negDiffs.foldl (fun acc v => acc + ScalarT.sqrt ((vsum fun k => v k * v k * w k) + lit 1 1000000)) 0)
end

/-! ## the outer loop, with the projection / gradient machinery abstract -/

structure MmcState (α K : Type) where
  A : α
  Aold : α
  alpha : K
  M : α

section
variable {α : Type} [Scalar K]

/-- one cycle of `_fit_full` (mmc.py:97-158) with abstract `project : α → α × Bool` (iterated
projections, returns the iterate and `satisfy`), objective `obj`, search direction `dir`, and the
affine updates `step cycle a c m = a + c·m` (the cycle index is passed along so that an executable instance can
name its iterates) -/
def mmcCycle (project : α → α × Bool) (obj : α → K) (dir : α → α) (step : Nat → α → K → α → α)
    (cycle : Nat) (s : MmcState α K) : MmcState α K :=
  let A1 := (project s.A).1
  let satisfy := (project s.A).2
  if satisfy = true ∧ (obj s.Aold < obj A1 ∨ cycle = 0) then
    let alpha' := s.alpha * lit 105 100
    let M' := dir A1
    { A := step cycle A1 alpha' M', Aold := A1, alpha := alpha', M := M' }
  else
    let alpha' := s.alpha / Scalar.ofNat 2
    { A := step cycle s.Aold alpha' s.M, Aold := s.Aold, alpha := alpha', M := s.M }

def mmcCycles (project : α → α × Bool) (obj : α → K) (dir : α → α) (step : Nat → α → K → α → α) :
    Nat → Nat → MmcState α K → MmcState α K
  | 0, _, s => s
  | n+1, c, s => mmcCycles project obj dir step n (c + 1) (mmcCycle project obj dir step c s)

/-- diagonal variant: every candidate is `max(0, w − λ·step)` -/
def mmcDiagCandidate {d} (w step : Vec K d) (lam : K) : Vec K d := fun k => smax 0 (w k - lam * step k)
end

/-- `assert_all_finite(obj)` -/
inductive FloatClass where
  | finite | nan | inf
deriving DecidableEq, Repr

def assertAllFinite (c : FloatClass) : Except Err Unit :=
  match c with
  | .finite => .ok ()
  | _ => .error Err.valueError

end ML
