import MLModel.PSD
/-!
# Input validation and preprocessing (C05, C06) — `_util.py: check_input` and friends

Two layers:
* value level (C05): indices + preprocessor ↦ formed points / tuples, with a call counter;
* descriptor level (C06): an abstract array descriptor, the *assumed contract* of scikit-learn's
  `check_array` for the option sets metric-learn uses, and metric-learn's own dispatch on top of it.
-/
namespace ML

/-! ## value level -/

/-- `ArrayIndexer.__call__`: `X[indices]`; an out-of-range index raises inside the preprocessor -/
def arrayIndexer {α : Type} (X : List α) (i : Nat) : Except Err α :=
  match X[i]? with
  | some x => .ok x
  | none => .error .preprocessorError

/-- all results, or the (wrapped) failure: `except Exception as e: raise PreprocessorError(e)` -/
def sequenceFn {α : Type} {n : Nat} (f : Fin n → Except Err α) : Except Err (Fin n → α) :=
  if h : ∀ i, (f i).toOption.isSome = true then .ok fun i => (f i).toOption.get (h i)
  else .error .preprocessorError

/-- `preprocess_points`: one preprocessor call on the whole index vector; any exception is wrapped -/
def preprocessPoints {α : Type} {n : Nat} (pre : Nat → Except Err α) (idx : Fin n → Nat) :
    Except Err (Fin n → α) × Nat :=
  (sequenceFn fun i => pre (idx i), 1)

/-- `preprocess_tuples`: `column_stack([pre(tuples[:, i])[:, newaxis] for i in range(t)])` —
one call per column; `result[j][i] = pre(tuples[:, i])[j]` -/
def preprocessTuples {α : Type} {n t : Nat} (pre : Nat → Except Err α) (idx : Fin n → Fin t → Nat) :
    Except Err (Fin n → Fin t → α) × Nat :=
  let cols : Fin t → Except Err (Fin n → α) := fun i => sequenceFn fun j => pre (idx j i)
  ((sequenceFn cols).map fun c => fun j i => c i j, t)

/-- input to a data-taking method -/
inductive TupleInput (α : Type) (n t : Nat) where
  | formed (v : Fin n → Fin t → α)
  | indices (idx : Fin n → Fin t → Nat)

/-- the tuples that reach the solver, and how many times the preprocessor was called -/
def formTuples {α : Type} {n t : Nat} (pre : Option (Nat → Except Err α)) :
    TupleInput α n t → Except Err (Fin n → Fin t → α) × Nat
  | .formed v => (.ok v, 0)
  | .indices idx =>
    match pre with
    | some p => preprocessTuples p idx
    | none => (.error .valueError, 0)

inductive PointInput (α : Type) (n : Nat) where
  | formed (v : Fin n → α)
  | indices (idx : Fin n → Nat)

def formPoints {α : Type} {n : Nat} (pre : Option (Nat → Except Err α)) :
    PointInput α n → Except Err (Fin n → α) × Nat
  | .formed v => (.ok v, 0)
  | .indices idx =>
    match pre with
    | some p => preprocessPoints p idx
    | none => (.error .valueError, 0)

/-! ## descriptor level -/

inductive ElemKind where
  | numeric       -- int / float / bool entries
  | text          -- `str` dtype or object array of strings
deriving DecidableEq, Repr

structure ArrDesc where
  shape : List Nat
  kind : ElemKind := .numeric
  hasNaN : Bool := false
  hasInf : Bool := false
deriving DecidableEq, Repr

def ArrDesc.ndim (a : ArrDesc) : Nat := a.shape.length

/-- assumed contract of `check_array(a, allow_nd=True, ensure_2d=False, dtype='numeric',
ensure_all_finite=True, ensure_min_samples=ms, ensure_min_features=mf)` on an at-least-1-D array -/
def skCheckArray (a : ArrDesc) (minSamples minFeatures : Nat) : Except Err Unit :=
  if a.kind = .text then .error .valueError
  else if a.hasNaN || a.hasInf then .error .valueError
  else if a.shape.headD 0 < minSamples then .error .valueError
  else if a.ndim = 2 ∧ a.shape.getD 1 0 < minFeatures then .error .valueError
  else .ok ()

/-- shape after the preprocessor formed the points: one more trailing axis of `d` features -/
def formedShape (a : ArrDesc) (d : Nat) : ArrDesc := { a with shape := a.shape ++ [d] }

/-- dimension dispatch of `check_input_classic` (indices are formed through the preprocessor) -/
def formClassic (a : ArrDesc) (pre : Option Nat) : Except Err ArrDesc :=
  if a.ndim = 1 then
    match pre with
    | some d => .ok (formedShape a d)
    | none => .error .valueError
  else if a.ndim = 2 then .ok a
  else .error .valueError

/-- `check_input_classic` -/
def checkInputClassic (a : ArrDesc) (pre : Option Nat) (minSamples : Nat) : Except Err ArrDesc :=
  match formClassic a pre with
  | .error e => .error e
  | .ok b =>
    match skCheckArray b minSamples 1 with
    | .error e => .error e
    | .ok () => if b.ndim ≠ 2 then .error .valueError else .ok b

def formTuplesDesc (a : ArrDesc) (pre : Option Nat) : Except Err ArrDesc :=
  if a.ndim = 2 then
    match pre with
    | some d => .ok (formedShape a d)
    | none => .error .valueError
  else if a.ndim = 3 then .ok a
  else .error .valueError

/-- `check_input_tuples` (with the generated `check_tuple_size` as a parameter) -/
def checkInputTuples (checkTS : Int → Option Int → Except String Unit) (a : ArrDesc) (pre : Option Nat)
    (tupleSize : Option Nat) (minSamples : Nat) : Except Err ArrDesc :=
  match formTuplesDesc a pre with
  | .error e => .error e
  | .ok b =>
    match skCheckArray b minSamples 1 with
    | .error e => .error e
    | .ok () =>
      if b.shape.getD 2 0 < 1 then .error .valueError
      else if b.ndim ≠ 3 then .error .valueError
      else match checkTS (b.shape.getD 1 0) (tupleSize.map Int.ofNat) with
        | .ok () => .ok b
        | .error _ => .error .valueError

/-- documented form of a points argument -/
def wellFormedPoints (a : ArrDesc) (pre : Option Nat) (minSamples : Nat) : Prop :=
  a.kind = .numeric ∧ a.hasNaN = false ∧ a.hasInf = false ∧ minSamples ≤ a.shape.headD 0 ∧
  ((a.ndim = 2 ∧ 1 ≤ a.shape.getD 1 0) ∨ (a.ndim = 1 ∧ ∃ d, pre = some d ∧ 1 ≤ d))

/-- documented form of a tuples argument -/
def wellFormedTuples (a : ArrDesc) (pre : Option Nat) (tupleSize : Option Nat) (minSamples : Nat) : Prop :=
  a.kind = .numeric ∧ a.hasNaN = false ∧ a.hasInf = false ∧ minSamples ≤ a.shape.headD 0 ∧
  (∀ t, tupleSize = some t → a.shape.getD 1 0 = t) ∧
  ((a.ndim = 3 ∧ 1 ≤ a.shape.getD 2 0) ∨ (a.ndim = 2 ∧ ∃ d, pre = some d ∧ 1 ≤ d))

/-- pair labels must be in {-1, +1} (`check_y_valid_values_for_pairs`) and as many as the tuples -/
def checkPairLabels (labels : List Int) (n : Nat) : Except Err Unit :=
  if labels.length ≠ n then .error .valueError
  else if labels.all (fun v => v == 1 || v == -1) then .ok () else .error .valueError

end ML
