import MLModel.Vec
/-!
# SCML (C15) — scml.py `_BaseSCML._fit` (stochastic dual averaging with AdaGrad scaling)

The batch index matrix (`rand_int`) is an oracle argument; `distDiff[t][i]` is the difference of squared
distances of triplet `t` along basis element `i`.
-/
namespace ML
variable {K : Type}

structure ScmlState (K : Type) (nb : Nat) where
  w : Vector K nb
  avg : Vector K nb          -- `avg_grad_w`
  ada : Vector K nb          -- `ada_grad_w`
  bestObj : Option K         -- `best_obj` (`none` = +inf)
  bestW : Vector K nb

section
variable [ScalarT K]

/-- `1 + dist_diff[t] · w` -/
def scmlSlack {nb} (dd : Vector K nb) (w : Vector K nb) : K := 1 + vsum fun i : Fin nb => dd[i] * w[i]

/-- one stochastic step on the batch `idx` (scml.py:94-108) -/
def scmlStep {nt nb : Nat} (β γ : K) (distDiff : Vector (Vector K nb) nt) (batchSize : Nat) (iter : Nat)
    (idx : List (Fin nt)) (s : ScmlState K nb) : ScmlState K nb :=
  let active := idx.filter fun t => decide ((0 : K) < scmlSlack distDiff[t] s.w)
  let grad : Vector K nb := Vector.ofFn fun i => (active.foldl (fun acc t => acc + distDiff[t][i]) 0) / Scalar.ofNat batchSize
  let avg : Vector K nb := Vector.ofFn fun i => (Scalar.ofNat iter * s.avg[i] + grad[i]) / Scalar.ofNat (iter + 1)
  let ada : Vector K nb := Vector.ofFn fun i => ScalarT.sqrt (s.ada[i] * s.ada[i] + grad[i] * grad[i])
  let w : Vector K nb := Vector.ofFn fun i =>
    (-(Scalar.ofNat (iter + 1) : K) / (γ * (lit 1 1000 + ada[i]))) * smin (avg[i] + β) 0
  { s with w := w, avg := avg, ada := ada }

/-- regularised hinge objective at a checkpoint (scml.py:111-123) -/
def scmlObjective {nt nb : Nat} (β : K) (distDiff : Vector (Vector K nb) nt) (w : Vector K nb) : K :=
  let obj1 := (vsum fun i : Fin nb => w[i]) * β
  let obj2 := (vsum fun t : Fin nt => let sl := scmlSlack distDiff[t] w; if (0 : K) < sl then sl else 0) / Scalar.ofNat nt
  obj1 + obj2

/-- strict-improvement bookkeeping: `if obj < best_obj: best_obj, best_w = obj, w` -/
def scmlCheckpoint {nb} (obj : K) (s : ScmlState K nb) : ScmlState K nb :=
  match s.bestObj with
  | none => { s with bestObj := some obj, bestW := s.w }
  | some b => if obj < b then { s with bestObj := some obj, bestW := s.w } else s

/-- the whole loop over the recorded batches -/
def scmlRun {nt nb : Nat} (β γ : K) (distDiff : Vector (Vector K nb) nt) (batchSize outputIter : Nat) :
    List (List (Fin nt)) → Nat → ScmlState K nb → ScmlState K nb
  | [], _, s => s
  | idx :: rest, iter, s =>
    let s1 := scmlStep β γ distDiff batchSize iter idx s
    let s2 := if (iter + 1) % outputIter = 0 then scmlCheckpoint (scmlObjective β distDiff s1.w) s1 else s1
    scmlRun β γ distDiff batchSize outputIter rest (iter + 1) s2

def scmlInit (nb : Nat) : ScmlState K nb :=
  { w := Vector.ofFn fun _ => 0, avg := Vector.ofFn fun _ => 0, ada := Vector.ofFn fun _ => 0,
    bestObj := none, bestW := Vector.ofFn fun _ => 0 }

/-- low-rank branch of `_components_from_basis_weights`: rows `sqrt(w_i)·b_i` for the active bases
(modelled over all bases: an inactive one contributes a zero row) -/
def scmlComponentsLowRank {nb d : Nat} (basis : Mat K nb d) (w : Vec K nb) : Mat K nb d :=
  fun i a => ScalarT.sqrt (smax 0 (w i)) * basis i a
end

section
variable [Scalar K]
/-- `basis.T · (w[:,None] * basis) = Σ_i w_i b_i b_iᵀ` -/
def scmlMetric {nb d : Nat} (basis : Mat K nb d) (w : Vec K nb) : Mat K d d :=
  fun a b => vsum fun i => basis i a * (w i * basis i b)

/-- number of active bases and the low-rank decision (warning issued when `nActive < d`) -/
def scmlRows (nActive d : Nat) : Nat × Bool := if nActive < d then (nActive, true) else (d, false)
end

end ML
