import MLModel.Vec
/-!
# ITML solver (C11) — itml.py `_BaseITML._fit`, statement by statement

Loop-carried values are data (`Vector`), never closures.  Pairs are given as difference vectors,
positives first (`i < numPos`), then negatives, exactly as the code orders them.
-/
namespace ML
variable {K : Type}

structure ItmlState (K : Type) (d m : Nat) where
  A : Vector (Vector K d) d
  lam : Vector K m         -- `_lambda`
  bhat : Vector K m        -- `pos_bhat` ++ `neg_bhat`

section
variable [Scalar K]

/-- one Bregman projection onto constraint `i` (itml.py:73-80 for a positive pair, 83-91 for a
negative one) -/
def itmlStep {d m : Nat} (γ gproj : K) (numPos : Nat) (vs : Vector (Vector K d) m) (i : Fin m)
    (s : ItmlState K d m) : ItmlState K d m :=
  let v : Vec K d := Vec.ofStore vs[i]
  let Av : Vector K d := Vector.ofFn (mulVec (Mat.ofStore s.A) v)
  let wtw := dot v (Vec.ofStore Av)
  let li := s.lam[i]
  let xi := s.bhat[i]
  if i.val < numPos then
    let α := smin li (gproj * (1 / wtw - 1 / xi))
    let β := α / (1 - α * wtw)
    { A := Vector.ofFn fun a => Vector.ofFn fun b => s.A[a][b] + Av[a] * (Av[b] * β),
      lam := s.lam.set i (li - α),
      bhat := s.bhat.set i (1 / ((1 / xi) + (α / γ))) }
  else
    let α := smin li (gproj * (1 / xi - 1 / wtw))
    let β := (-α) / (1 + α * wtw)
    { A := Vector.ofFn fun a => Vector.ofFn fun b => s.A[a][b] + Av[a] * (Av[b] * β),
      lam := s.lam.set i (li - α),
      bhat := s.bhat.set i (1 / ((1 / xi) - (α / γ))) }

/-- projections in a given order (one sweep = `List.finRange m`; any history of sweeps is a list) -/
def itmlSteps {d m : Nat} (γ gproj : K) (numPos : Nat) (vs : Vector (Vector K d) m)
    (order : List (Fin m)) (s : ItmlState K d m) : ItmlState K d m :=
  order.foldl (fun s i => itmlStep γ gproj numPos vs i s) s

def itmlSweep {d m : Nat} (γ gproj : K) (numPos : Nat) (vs : Vector (Vector K d) m)
    (s : ItmlState K d m) : ItmlState K d m := itmlSteps γ gproj numPos vs (List.finRange m) s

def l1diff {m} (a b : Vector K m) : K := vsum fun i : Fin m => sabs (a[i] - b[i])

/-- `gamma_proj = 1. if gamma is np.inf else gamma / (gamma + 1.)` (finite `gamma`) -/
def gammaProj (γ : K) : K := γ / (γ + 1)

/-- initial state: `_lambda = 0`, `pos_bhat = bounds_[0]`, `neg_bhat = bounds_[1]` -/
def itmlInit {d m : Nat} (A0 : Vector (Vector K d) d) (numPos : Nat) (u l : K) : ItmlState K d m :=
  { A := A0, lam := Vector.ofFn fun _ => 0, bhat := Vector.ofFn fun i => if i.val < numPos then u else l }
end

section
variable [ScalarT K]
def norm2 {m} (a : Vector K m) : K := ScalarT.sqrt (vsum fun i : Fin m => a[i] * a[i])

/-- the outer loop (itml.py:71-106): returns the final state and `n_iter_` (the loop index `it`).
`maxIter ≥ 1`. -/
def itmlRun {d m : Nat} (γ tol : K) (numPos : Nat) (vs : Vector (Vector K d) m) :
    Nat → Nat → ItmlState K d m → Vector K m → ItmlState K d m × Nat
  | 0, it, s, _ => (s, it - 1)
  | fuel+1, it, s, lamOld =>
    let s1 := itmlSweep γ (gammaProj γ) numPos vs s
    let normsum := norm2 s1.lam + norm2 lamOld
    if normsum ≤ 0 ∧ 0 ≤ normsum then (s1, it) else
    let conv := l1diff lamOld s1.lam / normsum
    if conv < tol then (s1, it) else
    itmlRun γ tol numPos vs fuel (it + 1) s1 s1.lam
end

end ML
