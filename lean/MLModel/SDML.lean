import MLModel.PSD
/-!
# SDML (C13) — sdml.py `_BaseSDML._fit`: construction of the graphical-lasso input, result vetting,
objective and optimality certificate.  The graphical-lasso solver itself is external.
-/
namespace ML
variable {K : Type}

section
variable [Scalar K]

/-- `loss_matrix = (diff.T * y).dot(diff) = Σ_i y_i v_i v_iᵀ` -/
def sdmlLossMatrix {d} (pairs : List (Vec K d × K)) : Mat K d d :=
  fun a b => pairs.foldl (fun acc (v, y) => acc + v a * y * v b) 0

/-- `emp_cov = prior_inv + balance_param * loss_matrix` -/
def sdmlEmpCov {d} (priorInv : Mat K d d) (balance : K) (pairs : List (Vec K d × K)) : Mat K d d :=
  fun a b => priorInv a b + balance * sdmlLossMatrix pairs a b

/-- `Σ_{a≠b} |M_ab|` -/
def l1Off {d} (M : Mat K d d) : K := vsum fun a => vsum fun b => if a = b then 0 else sabs (M a b)

/-- duality gap of the graphical lasso at `M` (`tr(E·M) + λ‖M‖₁,off − d`), which bounds the
sub-optimality of `M` whenever `M⁻¹` is dual feasible -/
def sdmlGap {d} (E M : Mat K d d) (lam : K) : K := frob E M + lam * l1Off M - Scalar.ofNat d

/-- dual feasibility of `W = M⁻¹`: `|E − W|_ab ≤ λ` off the diagonal, `(E − W)_aa = 0` (within `tol`) -/
def sdmlDualFeasible {d} (E W : Mat K d d) (lam tol : K) : Bool :=
  (List.finRange d).all fun a => (List.finRange d).all fun b =>
    if a = b then decide (sabs (E a b - W a b) ≤ tol) else decide (sabs (E a b - W a b) ≤ lam + tol)
end

section
variable [ScalarT K]
/-- the documented objective `tr(E·M) − logdet M + λ‖M‖₁,off` (`logdet M` supplied) -/
def sdmlObjective {d} (E M : Mat K d d) (logdetM lam : K) : K := frob E M - logdetM + lam * l1Off M
end

/-- result vetting (sdml.py:91-113): an exception of the solver, a negative eigenvalue or a non-finite
entry all lead to `RuntimeError`; otherwise the matrix is converted to components -/
def sdmlVet (solverRaised notSpd notFinite : Bool) : Except Err Unit :=
  if solverRaised || notSpd || notFinite then .error .runtimeError else .ok ()

/-- `n_features < 2` is rejected before anything else -/
def sdmlCheckFeatures (d : Nat) : Except Err Unit := if d < 2 then .error .valueError else .ok ()

end ML
