/-!
# Scalars

The model is polymorphic in its scalar type through operations-only classes.
Instances: `Float` (executable twin next to NumPy), `Rat` (exact decisions),
`ℝ` (theorems; instance in `MLProps/Bridge.lean`).  Core Lean only.
-/
set_option warn.classDefReducibility false
namespace ML

/-- Field operations and a decidable order; no laws (laws come from the instance at `ℝ`). -/
class Scalar (K : Type) extends Add K, Sub K, Mul K, Div K, Neg K, Zero K, One K, LT K, LE K where
  ofNat : Nat → K
  /-- a number strictly below `x` (binary64: the next representable number towards −∞, `np.nextafter(x, -inf)`;
  exact fields: `x − 1`) -/
  below : K → K
  decLt : DecidableRel (α := K) (· < ·)
  decLe : DecidableRel (α := K) (· ≤ ·)

attribute [instance] Scalar.decLt Scalar.decLe

/-- Scalars with the transcendental functions the code uses. -/
class ScalarT (K : Type) extends Scalar K where
  sqrt : K → K
  exp : K → K
  log : K → K

/-- `np.nextafter(x, -inf)` for finite binary64 numbers -/
def floatBelow (x : Float) : Float :=
  if x > 0.0 then Float.ofBits (x.toBits - 1)
  else if x < 0.0 then Float.ofBits (x.toBits + 1)
  else Float.ofBits 0x8000000000000001

instance : Scalar Float where
  zero := 0.0
  one := 1.0
  ofNat := Float.ofNat
  below := floatBelow
  decLt := fun a b => Float.decLt a b
  decLe := fun a b => Float.decLe a b

instance : ScalarT Float where
  sqrt := Float.sqrt
  exp := Float.exp
  log := Float.log

instance : Scalar Rat where
  ofNat := fun n => (n : Rat)
  below := fun x => x - 1
  decLt := inferInstance
  decLe := inferInstance

variable {K : Type} [Scalar K]

/-- the literal `p / q` (e.g. `lit 1 1000000000 = 1e-9`; correctly rounded at `Float`) -/
def lit (p q : Nat) : K := Scalar.ofNat p / Scalar.ofNat q

def smax (a b : K) : K := if a < b then b else a
def smin (a b : K) : K := if b < a then b else a
def sabs (a : K) : K := if a < 0 then -a else a

end ML
