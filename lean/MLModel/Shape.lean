import MLModel.Vec
/-!
# Shape of the fitted model and the `n_features_in_` attribute (C03)
-/
namespace ML

/-- how an estimator produces `components_` -/
inductive RowsKind where
  | ncomp      -- LFDA, LMNN, NCA, MLKR, RCA, RCA_Supervised: `_check_n_components(d, n_components)` rows
  | square     -- Covariance, ITML, LSML, SDML, MMC (+ supervised): `components_from_metric` of a d×d matrix
  | scml       -- SCML, SCML_Supervised: `_components_from_basis_weights`
deriving DecidableEq, Repr

/-- row count of `components_` and whether the low-rank warning is issued.
`checkN` is the (generated) `_check_n_components`; `nActive` the number of basis elements with
positive weight (scml.py `_components_from_basis_weights`). -/
def componentsRows (checkN : Int → Option Int → Except String Int) (kind : RowsKind) (d : Int)
    (nc : Option Int) (nActive : Int) : Except String (Int × Bool) :=
  match kind with
  | .ncomp => (checkN d nc).map fun k => (k, false)
  | .square => .ok (d, false)
  | .scml => if nActive < d then .ok (nActive, true) else .ok (d, false)

/-- `_prepare_inputs` writes `n_features_in_` = last axis of the validated data on every call -/
def nFeaturesStep (_s : Option Nat) (shape : List Nat) : Option Nat := shape.getLast?

/-- a history of fits, each described by the shape of its validated data -/
def nFeaturesRun (h : List (List Nat)) : Option Nat := h.foldl nFeaturesStep none

end ML
