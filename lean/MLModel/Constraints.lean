/-!
# Constraint generation from partial labels (C07, C08) — constraints.py

Random draws are an explicit oracle argument (recorded draws); an oracle answer outside its range
contract aborts the run (`none`), so every theorem holds for *every* oracle.  Core Lean only.
-/
namespace ML

/-! ## `_pairs` -/

/-- one anchor draw (`randint(num_labels)`) and the partner `choice(b_choices)` picked for it -/
structure Draw where
  aidx : Nat
  pick : Nat
deriving Repr

/-- positions (in the caller's array) of the known labels: `np.where(partial_labels >= 0)` -/
def knownIdx (labels : List Int) : List Nat :=
  (List.range labels.length).filter fun i => 0 ≤ labels.getD i (-1)

def knownLabels (labels : List Int) : List Int := (knownIdx labels).map fun i => labels.getD i (-1)

/-- partner candidates, in the frame of the known labels (mask with the anchor removed for positives) -/
def bChoices (known : List Int) (same : Bool) (a : Nat) : List Nat :=
  (List.range known.length).filter fun b =>
    if same then known.getD b 0 == known.getD a 0 && b != a else known.getD b 0 != known.getD a 0

def insertNew (x : Nat × Nat) (ab : List (Nat × Nat)) : List (Nat × Nat) :=
  if x ∈ ab then ab else ab ++ [x]

/-- one round: `nc` anchors; an invalid oracle answer aborts (`none`) -/
def pairsRound (known : List Int) (same : Bool) : List Draw → List (Nat × Nat) → Option (List (Nat × Nat))
  | [], ab => some ab
  | d :: ds, ab =>
    if d.aidx < known.length then
      let bs := bChoices known same d.aidx
      if bs = [] then pairsRound known same ds ab
      else if d.pick ∈ bs then pairsRound known same ds (insertNew (d.aidx, d.pick) ab) else none
    else none

/-- at most `fuel` (= `max_iter` = 10) rounds, each with exactly `n - |ab|` anchors -/
def pairsLoop (known : List Int) (same : Bool) (n : Nat) :
    Nat → List (List Draw) → List (Nat × Nat) → Option (List (Nat × Nat))
  | 0, _, ab => some ab
  | fuel+1, rounds, ab =>
    if n ≤ ab.length then some ab else
    match rounds with
    | [] => none
    | r :: rs =>
      if r.length = n - ab.length then
        match pairsRound known same r ab with
        | some ab' => pairsLoop known same n fuel rs ab'
        | none => none
      else none

/-- pairs mapped back to the caller's frame: `known_label_idx[ab.T]` -/
def mapBack (labels : List Int) (ab : List (Nat × Nat)) : List (Nat × Nat) :=
  let k := knownIdx labels
  ab.map fun p => (k.getD p.1 0, k.getD p.2 0)

/-- `_pairs`: (pairs in the caller's frame, warning issued) -/
def pairsOf (labels : List Int) (same : Bool) (n : Nat) (rounds : List (List Draw)) : Option (List (Nat × Nat) × Bool) :=
  (pairsLoop (knownLabels labels) same n 10 rounds []).map fun ab =>
    (mapBack labels (ab.take n), decide (ab.length < n))

/-- `positive_negative_pairs`: both kinds, truncated to equal length under `same_length` -/
def positiveNegativePairs (labels : List Int) (n : Nat) (sameLength : Bool)
    (posRounds negRounds : List (List Draw)) :
    Option (List (Nat × Nat) × List (Nat × Nat) × Bool × Bool) :=
  match pairsOf labels true n posRounds, pairsOf labels false n negRounds with
  | some (pos, wp), some (neg, wn) =>
    if sameLength && pos.length != neg.length then
      let m := min pos.length neg.length
      some (pos.take m, neg.take m, wp, wn)
    else some (pos, neg, wp, wn)
  | _, _ => none

/-! ## `chunks` -/

structure CState where
  classes : List (List Nat)      -- remaining members of each still-listed known class
  idx : Nat                      -- chunks produced so far
  chunks : List (List Nat)       -- produced chunks, oldest first
deriving Repr

/-- class index used this iteration: 0 when one class is left, else a recorded `randint(0, len-1)` -/
def pickClass (k : Nat) (rs : List Nat) : Option (Nat × List Nat) :=
  if k = 1 then some (0, rs) else
  match rs with
  | [] => none
  | r :: rs' => if r < k - 1 then some (r, rs') else none

def chunksLoop (size n : Nat) : Nat → CState → List Nat → List (List Nat) → Option CState
  | 0, s, _, _ => some s
  | fuel+1, s, rs, cs =>
    if s.idx < n ∧ s.classes ≠ [] then
      match pickClass s.classes.length rs with
      | none => none
      | some (c, rs') =>
        let inds := s.classes.getD c []
        if inds.length < size then
          chunksLoop size n fuel { s with classes := s.classes.eraseIdx c } rs' cs
        else
          match cs with
          | [] => none
          | ii :: cs' =>
            if ii.length = size ∧ ii.Nodup ∧ (∀ x ∈ ii, x ∈ inds) then
              chunksLoop size n fuel
                { classes := s.classes.set c (inds.filter fun x => decide (x ∉ ii)),
                  idx := s.idx + 1, chunks := s.chunks ++ [ii] } rs' cs'
            else none
    else some s

/-- members of each known class, classes in increasing label order (`np.unique` + `lookup`) -/
def classMembers (labels : List Int) : List (List Nat) :=
  let known := (labels.filter (0 ≤ ·)).eraseDups
  let sorted := known.mergeSort (fun a b => a ≤ b)
  sorted.map fun l => (List.range labels.length).filter fun i => labels.getD i (-1) == l

def maxChunks (size : Nat) (classes : List (List Nat)) : Nat := (classes.map fun c => c.length / size).sum

def chunkMeasure (s : CState) : Nat := (s.classes.map List.length).sum + s.classes.length

/-- `Constraints.chunks`: `none` = invalid oracle, `some (.error ())` = `ValueError`,
`some (.ok chunks)` = the list of chunks (chunk `i` holds the indices labelled `i`) -/
def chunksOf (labels : List Int) (nChunks size : Nat) (rs : List Nat) (cs : List (List Nat)) :
    Option (Except Unit (List (List Nat))) :=
  let classes := classMembers labels
  if maxChunks size classes < nChunks then some (.error ())
  else
    let s0 : CState := { classes := classes, idx := 0, chunks := [] }
    (chunksLoop size nChunks (chunkMeasure s0 + 1) s0 rs cs).map fun s => .ok s.chunks

/-! ## k-NN triplets -/

/-- all combinations for one class: for each member `a`, each genuine neighbour `b`, each impostor `c`
(`comb` in constraints.py, in its row order) -/
def classTriplets (members : List Nat) (gen imp : List (List Nat)) : List (Nat × Nat × Nat) :=
  (members.zip (gen.zip imp)).flatMap fun (a, gs, is) => gs.flatMap fun b => is.map fun c => (a, b, c)

/-- per-class clipping of the neighbour counts (with a warning) -/
def clipGenuine (kGenuine count : Nat) : Nat × Bool := if count < kGenuine + 1 then (count - 1, true) else (kGenuine, false)
def clipImpostor (kImpostor lenInput count : Nat) : Nat × Bool :=
  if lenInput - count < kImpostor then (lenInput - count, true) else (kImpostor, false)

end ML
