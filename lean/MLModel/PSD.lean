import MLModel.Vec
/-!
# PSD checks, metric → transformation conversion, pseudo-inverse, initialisers (C20)

`_util.py`: `_check_sdp_from_eigen`, `components_from_metric`, `_pseudo_inverse_from_eig`,
`_initialize_metric_mahalanobis`.  The eigen-solver / Cholesky are parameters: the model takes the
factorisation `(w, V)` (resp. `C`) they return.
-/
namespace ML

inductive Err where
  | valueError | nonPSD | linAlg | runtimeError | preprocessorError | notFitted | attributeError | other
deriving DecidableEq, Repr

def Err.name : Err → String
  | .valueError => "ValueError" | .nonPSD => "NonPSDError" | .linAlg => "LinAlgError"
  | .runtimeError => "RuntimeError" | .preprocessorError => "PreprocessorError"
  | .notFitted => "NotFittedError" | .attributeError => "AttributeError" | .other => "Other"

variable {K : Type}

section
variable [Scalar K]

def listMaxAbs : List K → K
  | [] => 0
  | x :: xs => smax (sabs x) (listMaxAbs xs)

/-- default tolerance `abs(w).max() * len(w) * eps` -/
def defaultTol (w : List K) (eps : K) : K := listMaxAbs w * Scalar.ofNat w.length * eps

/-- `_check_sdp_from_eigen(w, tol)`: `.ok true` = definite, `.ok false` = semi-definite only -/
def checkSdpFromEigen (w : List K) (tol : K) : Except Err Bool :=
  if tol < 0 then .error .valueError
  else if w.any (fun x => x < -tol) then .error .nonPSD
  else if w.any (fun x => sabs x ≤ tol) then .ok false
  else .ok true

/-- `_pseudo_inverse_from_eig(w, V)`: `V · diag(w⁺) · Vᵀ`, `w⁺ = 1/w` where `|w| > tol`, else 0 -/
def pinvSpectrum {d} (w : Vec K d) (tol : K) : Vec K d := fun i => if tol < sabs (w i) then 1 / w i else 0

def reconstruct {d} (V : Mat K d d) (w : Vec K d) : Mat K d d :=
  fun a b => vsum fun i => V a i * w i * V b i

def pseudoInverseFromEig {d} (w : Vec K d) (V : Mat K d d) (tol : K) : Mat K d d :=
  reconstruct V (pinvSpectrum w tol)
end

section
variable [ScalarT K]

/-- eigen branch of `components_from_metric`: `V.T * sqrt(max(0, w))[:, None]` -/
def componentsFromEig {d} (V : Mat K d d) (w : Vec K d) : Mat K d d :=
  fun i j => V j i * ScalarT.sqrt (smax 0 (w i))

/-- diagonal shortcut: `diag(sqrt(max(0, diag(M))))` -/
def componentsFromDiag {d} (m : Vec K d) : Mat K d d :=
  fun i j => if i = j then ScalarT.sqrt (smax 0 (m i)) else 0

/-- Cholesky branch: `cholesky(M).T` for the lower factor `C` with `C·Cᵀ = M` -/
def componentsFromChol {d} (C : Mat K d d) : Mat K d d := transpose C

/-- which branch `components_from_metric` takes -/
inductive CfmBranch where
  | notSymmetric | diagonal | cholesky | eigen
deriving DecidableEq, Repr

/-- outcome class of `components_from_metric` given what the symmetry test, the diagonal test, the
Cholesky attempt and the spectrum say -/
def cfmOutcome (symmetric isDiag cholOk : Bool) (spectrum diagEntries : List K) (tol : K) : Except Err CfmBranch :=
  if !symmetric then .error .valueError
  else if isDiag then (checkSdpFromEigen diagEntries tol).map fun _ => .diagonal
  else if cholOk then .ok .cholesky
  else (checkSdpFromEigen spectrum tol).map fun _ => .eigen
end

/-- `_initialize_metric_mahalanobis` dispatch: what each option returns (as a description) -/
inductive InitOpt where
  | identity | covariance | random | array | invalid
deriving DecidableEq, Repr

inductive InitResult where
  | identity                 -- `np.eye(d)`
  | pinvCovariance           -- pseudo-inverse of the covariance of the (de-duplicated) points
  | randomSpd                -- `make_spd_matrix(d, random_state)`
  | given                    -- the array itself
deriving DecidableEq, Repr

/-- `symmetric`, `shapeOk`: facts about a supplied array; `definite`: result of the eigenvalue
check of the array / of the covariance; `strictPd`: the learner requires a definite matrix -/
def initializeMetric (opt : InitOpt) (shapeOk symmetric : Bool) (sdp : Except Err Bool) (strictPd : Bool) :
    Except Err InitResult :=
  match opt with
  | .invalid => .error .valueError
  | .identity => .ok .identity
  | .random => .ok .randomSpd
  | .array =>
      if !shapeOk then .error .valueError
      else if !symmetric then .error .valueError
      else match sdp with
        | .error e => .error e
        | .ok definite => if strictPd && !definite then .error .linAlg else .ok .given
  | .covariance =>
      match sdp with
      | .error e => .error e
      | .ok definite => if strictPd && !definite then .error .linAlg else .ok .pinvCovariance

end ML
